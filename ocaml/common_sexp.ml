(* tiny S-expression reader + conversions to the extracted Coq number types (shared by all drivers
   whose model module exposes the standard extracted `nat`, `positive`, `n`, `z` types; the conversions
   themselves are instantiated per driver because the types are generative per extracted module) *)

type sexp = A of string | L of sexp list

exception Parse_error of string

let parse_sexp (s : string) : sexp =
  let n = String.length s in
  let pos = ref 0 in
  let rec skip () =
    while !pos < n && (s.[!pos] = ' ' || s.[!pos] = '\t' || s.[!pos] = '\n' || s.[!pos] = '\r') do incr pos done
  and parse () =
    skip ();
    if !pos >= n then raise (Parse_error "eof");
    if s.[!pos] = '(' then begin
      incr pos;
      let items = ref [] in
      let fin = ref false in
      while not !fin do
        skip ();
        if !pos >= n then raise (Parse_error "unclosed");
        if s.[!pos] = ')' then (incr pos; fin := true)
        else items := parse () :: !items
      done;
      L (List.rev !items)
    end else begin
      let st = !pos in
      while !pos < n && not (s.[!pos] = ' ' || s.[!pos] = '(' || s.[!pos] = ')' || s.[!pos] = '\n' || s.[!pos] = '\t') do incr pos done;
      A (String.sub s st (!pos - st))
    end
  in
  parse ()

let hex_to_bytes (h : string) : int list =
  (* "-" denotes the empty string *)
  if h = "-" then [] else
  let n = String.length h / 2 in
  List.init n (fun i -> int_of_string ("0x" ^ String.sub h (2 * i) 2))

let bytes_to_string (l : int list) : string =
  let b = Buffer.create 16 in
  List.iter (fun c -> Buffer.add_char b (Char.chr c)) l;
  Buffer.contents b

(* decode utf8 string into code points *)
let utf8_decode (s : string) : int list =
  let n = String.length s in
  let rec go i acc =
    if i >= n then List.rev acc else
    let c = Char.code s.[i] in
    if c < 0x80 then go (i + 1) (c :: acc)
    else if c < 0xE0 then go (i + 2) ((((c land 0x1F) lsl 6) lor (Char.code s.[i+1] land 0x3F)) :: acc)
    else if c < 0xF0 then go (i + 3) ((((c land 0x0F) lsl 12) lor ((Char.code s.[i+1] land 0x3F) lsl 6) lor (Char.code s.[i+2] land 0x3F)) :: acc)
    else go (i + 4) ((((c land 0x07) lsl 18) lor ((Char.code s.[i+1] land 0x3F) lsl 12) lor ((Char.code s.[i+2] land 0x3F) lsl 6) lor (Char.code s.[i+3] land 0x3F)) :: acc)
  in go 0 []

let utf8_encode_cp (b : Buffer.t) (c : int) : unit =
  if c < 0x80 then Buffer.add_char b (Char.chr c)
  else if c < 0x800 then (Buffer.add_char b (Char.chr (0xC0 lor (c lsr 6))); Buffer.add_char b (Char.chr (0x80 lor (c land 0x3F))))
  else if c < 0x10000 then (Buffer.add_char b (Char.chr (0xE0 lor (c lsr 12))); Buffer.add_char b (Char.chr (0x80 lor ((c lsr 6) land 0x3F))); Buffer.add_char b (Char.chr (0x80 lor (c land 0x3F))))
  else (Buffer.add_char b (Char.chr (0xF0 lor (c lsr 18))); Buffer.add_char b (Char.chr (0x80 lor ((c lsr 12) land 0x3F))); Buffer.add_char b (Char.chr (0x80 lor ((c lsr 6) land 0x3F))); Buffer.add_char b (Char.chr (0x80 lor (c land 0x3F))))

(* Rust's `{:?}` escaping for the characters the harness alphabets use: printable characters stay
   literal; \t \r \n \\ \0 and the quote of the surrounding literal are escaped; other C0/C1 controls
   and DEL, private-use code points, noncharacters and everything from plane 4 up (unassigned, tags, private use) are written \u{..}.
   (Other grapheme-extending and unassigned code points are outside the harness alphabets.) *)
let rust_escape_cp (b : Buffer.t) (quote : char) (c : int) : unit =
  if c = 0 then Buffer.add_string b "\\0"
  else if c = 9 then Buffer.add_string b "\\t"
  else if c = 10 then Buffer.add_string b "\\n"
  else if c = 13 then Buffer.add_string b "\\r"
  else if c = 92 then Buffer.add_string b "\\\\"
  else if c = Char.code quote then (Buffer.add_char b '\\'; Buffer.add_char b quote)
  else if c < 32 || c = 127 || (c >= 0x80 && c < 0xA0)
          || (c >= 0xE000 && c <= 0xF8FF) || c = 0xFFFE || c = 0xFFFF || c >= 0x40000   (* private use, noncharacters, planes 4..16 *)
  then Buffer.add_string b (Printf.sprintf "\\u{%x}" c)
  else utf8_encode_cp b c

let rust_debug_str (s : string) : string =
  let b = Buffer.create 16 in
  Buffer.add_char b '"';
  List.iter (rust_escape_cp b '"') (utf8_decode s);
  Buffer.add_char b '"';
  Buffer.contents b

let rust_debug_char (c : int) : string =
  let b = Buffer.create 8 in
  Buffer.add_char b '\'';
  rust_escape_cp b '\'' c;
  Buffer.add_char b '\'';
  Buffer.contents b
