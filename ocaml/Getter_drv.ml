(* Driver for the getter model (coq/theories/Model/Getter.v) on top of the parser model (Sem.v).
   stdin, one S-expression per line:
     (grammar ID opt (eoi IDX) (ws IDX|none) (cm IDX|none) (rule IDX KIND EXPR) ...)      [same request as Gen_drv]
         -> (result ID (IDX (IDENT TYPE PATH) ...) ...)   TYPE / PATH in gen_dump's syntax; IDENT = r:IDX | b:NAME | u:IDX;
            (ref IDENT K) with K = off|on|inh for defined rules, default otherwise
     (env ...)                                as for Sem_drv; must contain the (ast ...) item
     (shape ID rule IDX (NAME IDENT) ...)     rule to parse, and the getters to print, in this order;
                                              IDENT = (rule IDX) | (builtin NAME) | (unicode IDX)
     (clear)
     (in FORM HEX A B)                        run every shape on this input; one output line per shape
     (ev FORM HEX A B)                        numeric summary of the same (for the vm_compute cross-check)
   stdout for `in`:  ID|FORM|HEX|A|B|<res>   with <res> = fail | PANIC | FUEL |
        ok@OFF \t NAME=N[dbg, ..] ... \t #D \t NAME=N[dbg, ..] ...
     first group = flatten_gval (call_getter (getter_of (expr of the rule)) node)     (T2: what the generated accessor returns)
     second group = the specification: direct_refs for identifiers that store a rule struct, mention_refs otherwise (T3 oracle)
   The conversion / environment / Debug-printer code is duplicated from Sem_drv.ml on purpose (extracted types are
   generative per model module). *)
open Getter_model
open Common_sexp

let rec nat_of_int (i : int) : nat = if i <= 0 then O else S (nat_of_int (i - 1))
let rec int_of_nat (n : nat) : int = match n with O -> 0 | S m -> 1 + int_of_nat m
let rec pos_of_int (i : int) : positive =
  if i <= 1 then XH else if i land 1 = 0 then XO (pos_of_int (i lsr 1)) else XI (pos_of_int (i lsr 1))
let rec int_of_pos (p : positive) : int = match p with XH -> 1 | XO q -> 2 * int_of_pos q | XI q -> 2 * int_of_pos q + 1
let n_of_int (i : int) : n = if i = 0 then N0 else Npos (pos_of_int i)
let int_of_n (x : n) : int = match x with N0 -> 0 | Npos p -> int_of_pos p
let z_of_int (i : int) : z = if i = 0 then Z0 else if i > 0 then Zpos (pos_of_int i) else Zneg (pos_of_int (-i))
let int_of_z (x : z) : int = match x with Z0 -> 0 | Zpos p -> int_of_pos p | Zneg p -> - (int_of_pos p)

let bytes_of_hex h = List.map n_of_int (hex_to_bytes h)

let sk_of = function
  | A "off" -> SkOff | A "on" -> SkOn | A "inh" -> SkInh
  | _ -> failwith "sk"

let atom_int = function A s -> int_of_string s | _ -> failwith "int"

let rec texpr_of (s : sexp) : texpr =
  match s with
  | L [A "str"; A h] -> TStr (bytes_of_hex h)
  | L [A "insens"; A h] -> TInsens (bytes_of_hex h)
  | L [A "range"; lo; hi] -> TRange (n_of_int (atom_int lo), n_of_int (atom_int hi))
  | A "any" -> TAny | A "soi" -> TSoi | A "eoi" -> TEoi | A "newline" -> TNewline
  | L [A "charby"; p] -> TCharBy (n_of_int (atom_int p))
  | L [A "skipuntil"; L ss] -> TSkipUntil (List.map (function A h -> bytes_of_hex h | _ -> failwith "su") ss)
  | L [A "skipchars"; n] -> TSkipChars (nat_of_int (atom_int n))
  | L (A "seq" :: k :: es) -> TSeq (sk_of k, List.map texpr_of es)
  | L (A "choice" :: es) -> TChoice (List.map texpr_of es)
  | L [A "opt"; e] -> TOpt (texpr_of e)
  | L [A "rep"; k; mn; mx; e] ->
      TRep (sk_of k, nat_of_int (atom_int mn),
            (match mx with A "none" -> None | m -> Some (nat_of_int (atom_int m))), texpr_of e)
  | L [A "atomicrep"; e] -> TAtomicRep (texpr_of e)
  | L [A "pos"; e] -> TPos (texpr_of e)
  | L [A "neg"; e] -> TNeg (texpr_of e)
  | L [A "push"; e] -> TPush (texpr_of e)
  | A "peek" -> TPeek | A "pop" -> TPop | A "drop" -> TDrop | A "peekall" -> TPeekAll | A "popall" -> TPopAll
  | L [A "slice"; a; b] ->
      TPeekSlice (z_of_int (atom_int a), (match b with A "none" -> None | x -> Some (z_of_int (atom_int x))))
  | L [A "arr"; n; e] -> TArr (nat_of_int (atom_int n), texpr_of e)
  | L [A "pair"; a; b] -> TPair (texpr_of a, texpr_of b)
  | A "empty" -> TEmpty | A "fail" -> TFail
  | L [A "rule"; r; k] -> TRule (n_of_int (atom_int r), sk_of k)
  | _ -> failwith "texpr_of: bad sexp"

(* ---- pest AST (for the PEG spec) ---- *)
let builtin_of = function
  | "ANY" -> BAny | "SOI" -> BSoi | "EOI" -> BEoi | "PEEK" -> BPeek | "PEEK_ALL" -> BPeekAll | "POP" -> BPop
  | "POP_ALL" -> BPopAll | "DROP" -> BDrop | "NEWLINE" -> BNewline | "ASCII_DIGIT" -> BAsciiDigit
  | "ASCII_NONZERO_DIGIT" -> BAsciiNonzeroDigit | "ASCII_BIN_DIGIT" -> BAsciiBinDigit | "ASCII_OCT_DIGIT" -> BAsciiOctDigit
  | "ASCII_HEX_DIGIT" -> BAsciiHexDigit | "ASCII_ALPHA_LOWER" -> BAsciiAlphaLower | "ASCII_ALPHA_UPPER" -> BAsciiAlphaUpper
  | "ASCII_ALPHA" -> BAsciiAlpha | "ASCII_ALPHANUMERIC" -> BAsciiAlphanumeric | "ASCII" -> BAscii
  | "WHITESPACE" | "COMMENT" -> BUndefinedSkip
  | s -> failwith ("builtin " ^ s)

let ident_of = function
  | L [A "rule"; i] -> IdRule (n_of_int (atom_int i))
  | L [A "builtin"; A name] -> IdBuiltin (builtin_of name)
  | L [A "unicode"; i] -> IdUnicode (n_of_int (atom_int i))
  | _ -> failwith "ident"

let zopt = function A "none" -> None | x -> Some (z_of_int (atom_int x))

let rec oexpr_of (s : sexp) : oexpr =
  match s with
  | L [A "str"; A h] -> OStr (bytes_of_hex h)
  | L [A "insens"; A h] -> OInsens (bytes_of_hex h)
  | L [A "range"; lo; hi] -> ORange (n_of_int (atom_int lo), n_of_int (atom_int hi))
  | L [A "ident"; i] -> OIdent (ident_of i)
  | L [A "peekslice"; a; b] -> OPeekSlice (z_of_int (atom_int a), zopt b)
  | L [A "pospred"; e] -> OPosPred (oexpr_of e)
  | L [A "negpred"; e] -> ONegPred (oexpr_of e)
  | L [A "seq"; a; b] -> OSeq (oexpr_of a, oexpr_of b)
  | L [A "choice"; a; b] -> OChoice (oexpr_of a, oexpr_of b)
  | L [A "opt"; e] -> OOpt (oexpr_of e)
  | L [A "rep"; e] -> ORep (oexpr_of e)
  | L [A "skip"; L ss] -> OSkip (List.map (function A h -> bytes_of_hex h | _ -> failwith "skip") ss)
  | L [A "push"; e] -> OPush (oexpr_of e)
  | L [A "restore"; e] -> ORestore (oexpr_of e)
  | _ -> failwith "oexpr"

let kind_of = function
  | "normal" -> KNormal | "silent" -> KSilent | "atomic" -> KAtomic | "compound" -> KCompound | "nonatomic" -> KNonAtomic
  | s -> failwith ("kind " ^ s)

let ast_rules : (int, orule) Hashtbl.t = Hashtbl.create 16
let ast_ws : n option ref = ref None
let ast_cm : n option ref = ref None
let have_ast = ref false
(* unicode predicate tables of the AST side are indexed by the global property index *)
let upred_tabs : (int, (int, unit) Hashtbl.t) Hashtbl.t = Hashtbl.create 16

(* ---- environment ---- *)
let rule_names : (int, string) Hashtbl.t = Hashtbl.create 16
let rule_defs : (int, rdef) Hashtbl.t = Hashtbl.create 16
let pred_tabs : (int, (int, unit) Hashtbl.t) Hashtbl.t = Hashtbl.create 16
let charby_name : (int, string) Hashtbl.t = Hashtbl.create 8
let cur_skip = ref SkipEmpty
let cur_flags = ref (true, true, true)
let cur_eoi = ref 0
let default_rdef = { r_atom = None; r_emis = EmBoth; r_body = TFail }

type shape = Node of string * bool * texpr | Rule of string * int
let shapes : shape list ref = ref []

let set_env (items : sexp list) =
  Hashtbl.reset rule_names; Hashtbl.reset rule_defs; Hashtbl.reset pred_tabs;
  Hashtbl.reset ast_rules; Hashtbl.reset upred_tabs; have_ast := false; ast_ws := None; ast_cm := None;
  List.iter (function
    | L [A "skip"; A "empty"] -> cur_skip := SkipEmpty
    | L [A "skip"; L [A "rep"; e]] -> cur_skip := SkipRep (texpr_of e)
    | L [A "flags"; A a; A b; A c] -> cur_flags := (a = "1", b = "1", c = "1")
    | L [A "eoi"; i] -> cur_eoi := atom_int i
    | L (A "rules" :: rs) ->
        List.iter (function
          | L [i; A name; A atom; A em; body] ->
              let idx = atom_int i in
              Hashtbl.replace rule_names idx name;
              Hashtbl.replace rule_defs idx
                { r_atom = (match atom with "true" -> Some true | "false" -> Some false | _ -> None);
                  r_emis = (match em with "span" -> EmSpan | "expr" -> EmExpr | _ -> EmBoth);
                  r_body = texpr_of body }
          | _ -> failwith "rule def") rs
    | L (A "preds" :: ps) ->
        List.iter (function
          | L (i :: A name :: cps) ->
              Hashtbl.replace charby_name (atom_int i) name;
              let t = Hashtbl.create 16 in
              List.iter (fun c -> Hashtbl.replace t (atom_int c) ()) cps;
              Hashtbl.replace pred_tabs (atom_int i) t
          | _ -> failwith "pred") ps
    | L (A "ast" :: L [A "ws"; ws] :: L [A "cm"; cm] :: rs) ->
        have_ast := true;
        ast_ws := (match ws with A "none" -> None | x -> Some (n_of_int (atom_int x)));
        ast_cm := (match cm with A "none" -> None | x -> Some (n_of_int (atom_int x)));
        List.iter (function
          | L [A "rule"; i; A kind; e] ->
              let idx = atom_int i in
              Hashtbl.replace ast_rules idx { o_name = n_of_int idx; o_kind = kind_of kind; o_expr = oexpr_of e }
          | _ -> failwith "ast rule") rs
    | L (A "upreds" :: ps) ->
        List.iter (function
          | L (i :: cps) ->
              let t = Hashtbl.create 16 in
              List.iter (fun c -> Hashtbl.replace t (atom_int c) ()) cps;
              Hashtbl.replace upred_tabs (atom_int i) t
          | _ -> failwith "upred") ps
    | _ -> failwith "env item") items

let mk_env (i : inp) : env =
  let (ron, su, rp) = !cur_flags in
  { e_inp = i;
    e_rules = (fun r -> try Hashtbl.find rule_defs (int_of_n r) with Not_found -> default_rdef);
    e_skip = !cur_skip;
    e_pred = (fun p c -> try Hashtbl.mem (Hashtbl.find pred_tabs (int_of_n p)) (int_of_n c) with Not_found -> false);
    e_eoi = n_of_int !cur_eoi;
    e_ron_fixed = ron; e_su_cut = su; e_rep_min_after = rp }

(* ---- printers (Rust `{:?}` format) ---- *)
let input_str = ref ""
let rule_name (r : n) = try Hashtbl.find rule_names (int_of_n r) with Not_found -> "?"

let span_dbg (s : int) (e : int) =
  let txt = if s <= e && e <= String.length !input_str then String.sub !input_str s (e - s) else "<bad>" in
  Printf.sprintf "Span { str: %s, start: %d, end: %d }" (rust_debug_str txt) s e

let spk_name = function
  | KSkip -> "Skip" | KSkipChar -> "SkipChar" | KPeek -> "PEEK" | KPop -> "POP" | KPeekAll -> "PEEK_ALL" | KPopAll -> "POP_ALL"

let rec dbg (t : tnode) : string =
  match t with
  | NStr -> "Str"
  | NInsens (s, e) ->
      let s = int_of_nat s and e = int_of_nat e in
      Printf.sprintf "Insens { content: %s }" (rust_debug_str (String.sub !input_str s (e - s)))
  | NChar (k, c) ->
      let name = match k with
        | CkRange -> "CharRange" | CkAny -> "ANY"
        | CkProp p -> (try Hashtbl.find charby_name (int_of_n p) with Not_found -> "?") in
      Printf.sprintf "%s { content: %s }" name (rust_debug_char (int_of_n c))
  | NSoi -> "SOI" | NEoi -> "EOI"
  | NNewline k -> Printf.sprintf "NEWLINE { content: %s }" (match k with NlCRLF -> "CRLF" | NlLF -> "LF" | NlCR -> "CR")
  | NSpanned (k, s, e) -> Printf.sprintf "%s { span: %s }" (spk_name k) (span_dbg (int_of_nat s) (int_of_nat e))
  | NSeq items -> Printf.sprintf "Seq%d(%s)" (List.length items) (String.concat ", " (List.map item_dbg items))
  | NChoice (n, i, t1) -> Printf.sprintf "Choice%d { _%d: %s }" (int_of_nat n) (int_of_nat i) (dbg t1)
  | NOpt None -> "None"
  | NOpt (Some t1) -> Printf.sprintf "Some(%s)" (dbg t1)
  | NRep (bounded, items) ->
      Printf.sprintf "%s { content: [%s] }" (if bounded then "RepeatMinMax" else "RepeatMin")
        (String.concat ", " (List.map item_dbg items))
  | NAtomicRep items -> Printf.sprintf "AtomicRepeat { content: [%s] }" (String.concat ", " (List.map dbg items))
  | NPos t1 -> Printf.sprintf "Positive { content: %s }" (dbg t1)
  | NNeg -> "Negative"
  | NPush t1 -> Printf.sprintf "Push { content: %s }" (dbg t1)
  | NDrop -> "DROP" | NSlice two -> if two then "PeekSlice2" else "PeekSlice1"
  | NArr l -> Printf.sprintf "[%s]" (String.concat ", " (List.map dbg l))
  | NPair (a, b) -> Printf.sprintf "(%s, %s)" (dbg a) (dbg b)
  | NEmpty -> "Empty"
  | NRule (r, content, sp) ->
      let fields =
        (match content with Some c -> ["content: " ^ dbg c] | None -> []) @
        (match sp with Some (s, e) -> ["span: " ^ span_dbg (int_of_nat s) (int_of_nat e)] | None -> []) in
      Printf.sprintf "%s { %s }" (rule_name r) (String.concat ", " fields)
and item_dbg (skipped, matched) =
  match skipped with
  | [] -> dbg matched
  | l -> Printf.sprintf "Skipped { skipped: [%s], matched: %s }" (String.concat ", " (List.map dbg l)) (dbg matched)



(* ---- getters in gen_dump's syntax ---- *)
let builtin_name = function
  | BAny -> "ANY" | BSoi -> "SOI" | BEoi -> "EOI" | BPeek -> "PEEK" | BPeekAll -> "PEEK_ALL" | BPop -> "POP"
  | BPopAll -> "POP_ALL" | BDrop -> "DROP" | BNewline -> "NEWLINE" | BAsciiDigit -> "ASCII_DIGIT"
  | BAsciiNonzeroDigit -> "ASCII_NONZERO_DIGIT" | BAsciiBinDigit -> "ASCII_BIN_DIGIT" | BAsciiOctDigit -> "ASCII_OCT_DIGIT"
  | BAsciiHexDigit -> "ASCII_HEX_DIGIT" | BAsciiAlphaLower -> "ASCII_ALPHA_LOWER" | BAsciiAlphaUpper -> "ASCII_ALPHA_UPPER"
  | BAsciiAlpha -> "ASCII_ALPHA" | BAsciiAlphanumeric -> "ASCII_ALPHANUMERIC" | BAscii -> "ASCII"
  | BUndefinedSkip -> "UNDEFINED_SKIP"

let ident_str = function
  | IdRule r -> Printf.sprintf "r:%d" (int_of_n r)
  | IdBuiltin b -> "b:" ^ builtin_name b
  | IdUnicode p -> Printf.sprintf "u:%d" (int_of_n p)

let sk_str = function SkOff -> "off" | SkOn -> "on" | SkInh -> "inh"

let rec gty_str (k : sk) (t : gty) : string =
  match t with
  | TyRef x -> Printf.sprintf "(ref %s %s)" (ident_str x) (match ref_arg k x with Some k' -> sk_str k' | None -> "default")
  | TyOption t1 -> Printf.sprintf "(option %s)" (gty_str k t1)
  | TyVec t1 -> Printf.sprintf "(vec %s)" (gty_str k t1)
  | TyTuple ts -> Printf.sprintf "(tuple %s)" (String.concat " " (List.map (gty_str k) ts))

let rec path_str (g : gnode) : string =
  match g with
  | GRule _ -> "res"
  | GContent g1 -> Printf.sprintf "(content %s)" (path_str g1)
  | GSeqI (i, g1) -> Printf.sprintf "(seqi %d %s)" (int_of_nat i) (path_str g1)
  | GChoiceI (i, fl, g1) -> Printf.sprintf "(choicei %d %d %s)" (int_of_nat i) (if fl then 1 else 0) (path_str g1)
  | GOptional (fl, g1) -> Printf.sprintf "(optional %d %s)" (if fl then 1 else 0) (path_str g1)
  | GContents g1 -> Printf.sprintf "(contents %s)" (path_str g1)
  | GTuple gs -> Printf.sprintf "(tuple %s)" (String.concat " " (List.map path_str gs))

let nopt = function A "none" -> None | x -> Some (n_of_int (atom_int x))

let handle_grammar id rules =
  let rs = List.map (function
    | L [A "rule"; i; A kind; e] -> { o_name = n_of_int (atom_int i); o_kind = kind_of kind; o_expr = oexpr_of e }
    | _ -> failwith "rule") rules in
  let one (r : orule) =
    let k = skip_of_kind r.o_kind in
    let gs = rule_getters r in
    (* the independent statement of the type (Getter.spec_type) is printed as well: (IDENT TYPE PATH SPECTYPE) *)
    Printf.sprintf "(%d%s)" (int_of_n r.o_name)
      (String.concat "" (List.map (fun (x, g) ->
         Printf.sprintf " (%s %s %s %s)" (ident_str x) (gty_str k (gtype g)) (path_str g)
           (match spec_type x r.o_expr with Some t -> gty_str k t | None -> "none")) gs)) in
  Printf.printf "(result %s %s)\n" id (String.concat " " (List.map one rs))

(* ---- running getters on parsed values ---- *)
type gshape = { gid : string; gidx : int; gnames : (string * ident) list }
let gshapes : gshape list ref = ref []

let fmt_nodes (l : tnode list) : string =
  Printf.sprintf "%d[%s]" (List.length l) (String.concat ", " (List.map dbg l))

let make_input form hex a b =
  let bytes = hex_to_bytes hex in
  input_str := bytes_to_string bytes;
  let bs = List.map n_of_int bytes in
  let i = match form with
    | "str" -> inp_of_str bs
    | "pos" -> inp_of_pos bs (nat_of_int a)
    | _ -> inp_of_span bs (nat_of_int a) (nat_of_int b) in
  (i, nat_of_int (48 + 3 * List.length bytes))

(* structured value: R<dbg> | N | S(v) | [v, ..] | (v, ..) *)
let rec fmt_gval (v : gval) : string =
  match v with
  | VRef n -> "R<" ^ dbg n ^ ">"
  | VOpt None -> "N"
  | VOpt (Some v1) -> "S(" ^ fmt_gval v1 ^ ")"
  | VVec l -> "[" ^ String.concat ", " (List.map fmt_gval l) ^ "]"
  | VTuple l -> "(" ^ String.concat ", " (List.map fmt_gval l) ^ ")"
  | VErr -> "ERR"

(* per accessor: (structured value the model accessor returns, structured value the specification spec_val demands) *)
let getter_structs (sh : gshape) (t : tnode) : (string * string * string) list =
  let expr = try Some (Hashtbl.find ast_rules sh.gidx).o_expr with Not_found -> None in
  List.map (fun (name, x) ->
    match expr with
    | None -> (name, "-", "-")
    | Some e ->
        let got = match getter e x with Some g -> fmt_gval (call_getter g t) | None -> "-" in
        let want = match t with
          | NRule (_, Some c, _) -> (match spec_val x e c with Some v -> fmt_gval v | None -> "-")
          | _ -> "-" in
        (name, got, want)) sh.gnames

let getter_values (sh : gshape) (t : tnode) : (string * tnode list * tnode list) list =
  let eoi = n_of_int !cur_eoi in
  let expr = try Some (Hashtbl.find ast_rules sh.gidx).o_expr with Not_found -> None in
  List.map (fun (name, x) ->
    match expr with
    | None -> (name, [], [])
    | Some e ->
        let got = match getter e x with
          | Some g -> flatten_gval (call_getter g t)
          | None -> [] in
        let content = match t with NRule (_, Some c, _) -> Some c | _ -> None in
        let want = match content with
          | None -> []
          | Some c ->
              (match rule_key eoi x with
               | Some r -> direct_refs r c
               | None -> mention_refs x e c) in
        (name, got, want)) sh.gnames

let run_input form hex a b =
  let (i, fuel) = make_input form hex a b in
  let e = mk_env i in
  List.iter (fun sh ->
    let r = n_of_int sh.gidx in
    let res = match try_parse_partial e fuel r with
      | Ok ((off, t), _) ->
          let vals = getter_values sh t in
          let missing = match (try Some (Hashtbl.find ast_rules sh.gidx).o_expr with Not_found -> None) with
            | None -> ["\tNOAST"]
            | Some ex -> List.filter_map (fun (name, x) -> match getter ex x with None -> Some ("\tMISSING:" ^ name) | Some _ -> None) sh.gnames in
          let sts = getter_structs sh t in
          Printf.sprintf "ok@%d%s%s\t#D%s\t#S%s\t#V%s" (int_of_nat off)
            (String.concat "" (List.map (fun (n, got, _) -> "\t" ^ n ^ "=" ^ fmt_nodes got) vals))
            (String.concat "" missing)
            (String.concat "" (List.map (fun (n, _, want) -> "\t" ^ n ^ "=" ^ fmt_nodes want) vals))
            (String.concat "" (List.map (fun (n, got, _) -> "\t" ^ n ^ "=" ^ got) sts))
            (String.concat "" (List.map (fun (n, _, want) -> "\t" ^ n ^ "=" ^ want) sts))
      | Fail _ -> "fail"
      | Panic -> "PANIC"
      | Fuel -> "FUEL" in
    Printf.printf "%s|%s|%s|%d|%d|%s\n" sh.gid form hex a b res)
    (List.rev !gshapes)

(* numeric summary: per getter the number of nodes and the sum over the returned nodes of (start + 3 * end + 1) of rule
   nodes with a span (0 for the others); the same expression is evaluated by vm_compute in coqc *)
let node_code (t : tnode) : int =
  match t with
  | NRule (_, _, Some (s, e)) -> int_of_nat s + 3 * int_of_nat e + 1
  | _ -> 0

let run_ev form hex a b =
  let (i, fuel) = make_input form hex a b in
  let e = mk_env i in
  List.iter (fun sh ->
    let r = n_of_int sh.gidx in
    let res = match try_parse_partial e fuel r with
      | Ok ((off, t), _) ->
          let vals = getter_values sh t in
          Printf.sprintf "ok %d %s" (int_of_nat off)
            (String.concat " " (List.map (fun (_, got, want) ->
               Printf.sprintf "%d:%d:%d:%d" (List.length got) (List.fold_left (fun acc n -> acc + node_code n) 0 got)
                 (List.length want) (List.fold_left (fun acc n -> acc + node_code n) 0 want)) vals))
      | Fail _ -> "fail" | Panic -> "PANIC" | Fuel -> "FUEL" in
    Printf.printf "%s %s\n" sh.gid res)
    (List.rev !gshapes)

let () =
  (try
    while true do
      let line = input_line stdin in
      if String.length line > 0 then
        (try
          match parse_sexp line with
          | L (A "grammar" :: A id :: A "opt" :: L [A "eoi"; _] :: L [A "ws"; _] :: L [A "cm"; _] :: rules) -> handle_grammar id rules
          | L (A "env" :: items) -> set_env items
          | L [A "clear"] -> gshapes := []
          | L (A "shape" :: A id :: A "rule" :: i :: gs) ->
              let names = List.map (function
                | L [A name; x] -> (name, ident_of x)
                | _ -> failwith "getter spec") gs in
              gshapes := { gid = id; gidx = atom_int i; gnames = names } :: !gshapes
          | L [A "in"; A form; A hex; a; b] -> run_input form hex (atom_int a) (atom_int b)
          | L [A "ev"; A form; A hex; a; b] -> run_ev form hex (atom_int a) (atom_int b)
          | _ -> failwith ("bad command: " ^ line)
        with Failure m -> Printf.printf "(error %s)\n" m)
    done
  with End_of_file -> ());
  flush stdout
