(* Driver for the extracted Lines / SpanOps models (C12, C13).
   stdin: one case per line
     P <hex> [p1,p2,...]   C12: Position::new / line_col / line_of at the listed offsets
                           (no list: every offset 0..=len+1)
     S <hex>               C13: all span operations, big sections as digests
     V <hex>               C13: same, every section in full (used to localise a mismatch)
   stdout: one line per case:  <hex>\tM <body>     (same <body> grammar as harness/unitpos) *)
module M = Lines_model

let rec nat_of_int n = if n <= 0 then M.O else M.S (nat_of_int (n - 1))
let int_of_nat n = let rec go acc = function M.O -> acc | M.S m -> go (acc + 1) m in go 0 n
let rec pos_of_int n =
  if n = 1 then M.XH else if n land 1 = 0 then M.XO (pos_of_int (n lsr 1)) else M.XI (pos_of_int (n lsr 1))
let n_of_int n = if n = 0 then M.N0 else M.Npos (pos_of_int n)
let rec int_of_pos = function M.XH -> 1 | M.XO p -> 2 * int_of_pos p | M.XI p -> 2 * int_of_pos p + 1
let int_of_n = function M.N0 -> 0 | M.Npos p -> int_of_pos p

let nat_tab = Array.init 4096 nat_of_int
let nat_of_int n = if n >= 0 && n < 4096 then nat_tab.(n) else nat_of_int n
let byte_tab = Array.init 256 n_of_int

let hexval c =
  match c with
  | '0' .. '9' -> Char.code c - 48
  | 'a' .. 'f' -> Char.code c - 87
  | 'A' .. 'F' -> Char.code c - 55
  | _ -> failwith "bad hex"

let bytes_of_hex h =
  let h = if h = "-" then "" else h in   (* "-" stands for the empty string *)
  let n = String.length h / 2 in
  let rec go i acc = if i < 0 then acc else go (i - 1) (byte_tab.(hexval h.[2 * i] * 16 + hexval h.[2 * i + 1]) :: acc) in
  go (n - 1) []

let hex_of_bytes l =
  let b = Buffer.create 32 in
  List.iter (fun x -> Buffer.add_string b (Printf.sprintf "%02x" (int_of_n x))) l;
  Buffer.contents b

let lres_tag = function
  | M.LPanic -> "PANIC" | M.LUnreachable -> "UNREACHABLE" | M.LDead -> "DEAD" | M.LFuel -> "FUEL"
  | M.LOk _ -> assert false

(* ---- C12 ---- *)
let c12 hex offs =
  let s = bytes_of_hex hex in
  let len = List.length s in
  let offs = match offs with Some l -> l | None -> List.init (len + 2) (fun i -> i) in
  let b = Buffer.create 256 in
  List.iteri (fun i p ->
    if i > 0 then Buffer.add_char b ';';
    let pn = nat_of_int p in
    match M.pos_new s pn with
    | None -> Buffer.add_string b (Printf.sprintf "%d:N" p)
    | Some _ ->
        let lc = match M.line_col s pn with
          | M.LOk (l, c) -> Printf.sprintf "%d,%d" (int_of_nat l) (int_of_nat c)
          | e -> lres_tag e in
        let lo = match M.line_of s pn with
          | M.LOk t -> "=" ^ hex_of_bytes t
          | e -> lres_tag e in
        Buffer.add_string b (Printf.sprintf "%d:S:%s:%s" p lc lo)) offs;
  Printf.printf "%s\tM %s\n" hex (Buffer.contents b)

(* ---- C13 ---- *)
let mask60 = (1 lsl 60) - 1
let feed h v = ((h * 1000003) + v + 1) land mask60

let sp_str (a, b) = Printf.sprintf "%d-%d" (int_of_nat a) (int_of_nat b)

let usize_max_n = M.usize_max

(* argument values for the range bounds: 0..=sublen+1 and usize::MAX (coded -1) *)
let arg_n x = if x < 0 then usize_max_n else n_of_int x
let arg_s x = if x < 0 then "M" else string_of_int x

let c13 verbose hex =
  let s = bytes_of_hex hex in
  let len = List.length s in
  let b = Buffer.create 4096 in
  (* new *)
  Buffer.add_string b "new=";
  let valid = ref [] in
  for a = 0 to len + 1 do
    for e = 0 to len + 1 do
      match M.span_new s (nat_of_int a) (nat_of_int e) with
      | Some sp -> Buffer.add_char b '1'; valid := (a, e, sp) :: !valid
      | None -> Buffer.add_char b '0'
    done
  done;
  let valid = List.rev !valid in
  (* per span *)
  Buffer.add_string b "|sp=";
  List.iteri (fun i (a, e, sp) ->
    if i > 0 then Buffer.add_char b ';';
    let split = match M.span_split s sp with
      | M.MOk (x, y) -> Printf.sprintf "%d,%d" (int_of_nat x) (int_of_nat y)
      | M.MPanic -> "PANIC" in
    let str = match M.span_as_str s sp with M.MOk t -> "=" ^ hex_of_bytes t | M.MPanic -> "PANIC" in
    let ls = match M.lines_span s sp with
      | M.LOk l -> "[" ^ String.concat "," (List.map sp_str l) ^ "]"
      | e -> lres_tag e in
    let ln = match M.lines s sp with
      | M.LOk l -> "[" ^ String.concat "," (List.map hex_of_bytes l) ^ "]"
      | e -> lres_tag e in
    Buffer.add_string b (Printf.sprintf "%d-%d:%d,%d:%s:%s:%s:%s" a e
      (int_of_nat (M.fst sp)) (int_of_nat (M.snd sp)) split str ls ln)) valid;
  (* get *)
  let h = ref 0 and cnt = ref 0 in
  let vb = Buffer.create (if verbose then 65536 else 16) in
  let emit a e f x y (r : M.span option M.mres) =
    incr cnt;
    if verbose then begin
      let rs = match r with
        | M.MPanic -> "P" | M.MOk None -> "N" | M.MOk (Some sp) -> sp_str sp in
      Buffer.add_string vb (Printf.sprintf "%d-%d@%d(%s_%s)=%s," a e f (arg_s x) (arg_s y) rs)
    end else begin
      match r with
      | M.MPanic -> h := feed !h 1
      | M.MOk None -> h := feed !h 0
      | M.MOk (Some (p, q)) -> h := feed (feed !h (int_of_nat p + 2)) (int_of_nat q + 2)
    end in
  List.iter (fun (a, e, sp) ->
    let sub = e - a in
    let args = List.init (sub + 2) (fun i -> i) @ [-1] in
    let two f mk = List.iter (fun x -> List.iter (fun y -> let (lo, hi) = mk x y in emit a e f x y (M.span_get s sp lo hi)) args) args in
    let one f mk = List.iter (fun x -> let (lo, hi) = mk x in emit a e f x 0 (M.span_get s sp lo hi)) args in
    two 0 (fun x y -> (M.BIncl (arg_n x), M.BExcl (arg_n y)));      (* x..y *)
    two 1 (fun x y -> (M.BIncl (arg_n x), M.BIncl (arg_n y)));      (* x..=y *)
    one 2 (fun x -> (M.BIncl (arg_n x), M.BUnb));                   (* x.. *)
    one 3 (fun x -> (M.BUnb, M.BExcl (arg_n x)));                   (* ..x *)
    one 4 (fun x -> (M.BUnb, M.BIncl (arg_n x)));                   (* ..=x *)
    emit a e 5 0 0 (M.span_get s sp M.BUnb M.BUnb);                 (* .. *)
    two 6 (fun x y -> (M.BExcl (arg_n x), M.BIncl (arg_n y))))      (* (Excluded x, Included y) *)
    valid;
  if verbose then Buffer.add_string b ("|get=" ^ Buffer.contents vb)
  else Buffer.add_string b (Printf.sprintf "|get=#%x:%d" !h !cnt);
  (* merge / eq / hash-consistency *)
  let h = ref 0 and cnt = ref 0 in
  Buffer.clear vb;
  List.iter (fun (a1, e1, s1) ->
    List.iter (fun (a2, e2, s2) ->
      incr cnt;
      let m = M.merge_spans s s1 s2 in
      let eq = M.span_eq true s1 s2 in
      let eqo = M.span_eq false s1 s2 in
      (* the same range over a proper prefix slice of the string: another input object (Model/SpanOps.v span_eq false) *)
      let eqp = M.span_eq false s1 s2 in
      if verbose then
        Buffer.add_string vb (Printf.sprintf "%d-%d+%d-%d=%s/%s%s1%s," a1 e1 a2 e2
          (match m with None -> "N" | Some sp -> sp_str sp)
          (if eq then "1" else "0") (if eqo then "1" else "0") (if eqp then "1" else "0"))
      else begin
        (match m with
         | None -> h := feed !h 0
         | Some (p, q) -> h := feed (feed !h (int_of_nat p + 2)) (int_of_nat q + 2));
        h := feed !h (if eq then 1 else 0);
        h := feed !h (if eqo then 1 else 0);
        h := feed !h 1;
        h := feed !h (if eqp then 1 else 0)
      end) valid) valid;
  if verbose then Buffer.add_string b ("|mrg=" ^ Buffer.contents vb)
  else Buffer.add_string b (Printf.sprintf "|mrg=#%x:%d" !h !cnt);
  Printf.printf "%s\tM %s\n" hex (Buffer.contents b)

let () =
  try
    while true do
      let line = input_line stdin in
      let parts = String.split_on_char ' ' (String.trim line) in
      match parts with
      | ["P"] -> c12 "" None
      | ["P"; hex] -> c12 hex None
      | ["P"; hex; offs] ->
          c12 hex (Some (List.map int_of_string (List.filter (fun x -> x <> "") (String.split_on_char ',' offs))))
      | ["S"] -> c13 false ""
      | ["S"; hex] -> c13 false hex
      | ["V"] -> c13 true ""
      | ["V"; hex] -> c13 true hex
      | [""] | [] -> ()
      | _ -> Printf.printf "?\tM BADCASE\n"
    done
  with End_of_file -> flush stdout
