(* Driver for the extracted parser model (coq/theories/Model/Sem.v & co).
   stdin: one S-expression per line
     (env (skip empty|(rep E)) (flags RON SU REP) (eoi IDX) (rules (IDX NAME ATOM EMIS BODY) ...) (preds (IDX NAME cp ...) ...))
     (shape ID node INH E) | (shape ID rule IDX)
     (clear)                       forget shapes
     (in FORM HEX A B)             run every shape on this input; one output line per shape
     (stack OPS...)                run a pest::Stack op history (p S E | o | s | r | c)
   stdout: canonical result lines, identical in format to harness/rtcat's runner. *)
open Sem_model
open Common_sexp

let rec nat_of_int (i : int) : nat = if i <= 0 then O else S (nat_of_int (i - 1))
let rec int_of_nat (n : nat) : int = match n with O -> 0 | S m -> 1 + int_of_nat m
let rec pos_of_int (i : int) : positive =
  if i <= 1 then XH else if i land 1 = 0 then XO (pos_of_int (i lsr 1)) else XI (pos_of_int (i lsr 1))
let rec int_of_pos (p : positive) : int = match p with XH -> 1 | XO q -> 2 * int_of_pos q | XI q -> 2 * int_of_pos q + 1
let n_of_int (i : int) : n = if i = 0 then N0 else Npos (pos_of_int i)
let int_of_n (x : n) : int = match x with N0 -> 0 | Npos p -> int_of_pos p
let z_of_int (i : int) : z = if i = 0 then Z0 else if i > 0 then Zpos (pos_of_int i) else Zneg (pos_of_int (-i))
let int_of_z (x : z) : int = match x with Z0 -> 0 | Zpos p -> int_of_pos p | Zneg p -> - (int_of_pos p)

let bytes_of_hex h = List.map n_of_int (hex_to_bytes h)

let sk_of = function
  | A "off" -> SkOff | A "on" -> SkOn | A "inh" -> SkInh
  | _ -> failwith "sk"

let atom_int = function A s -> int_of_string s | _ -> failwith "int"

let rec texpr_of (s : sexp) : texpr =
  match s with
  | L [A "str"; A h] -> TStr (bytes_of_hex h)
  | L [A "insens"; A h] -> TInsens (bytes_of_hex h)
  | L [A "range"; lo; hi] -> TRange (n_of_int (atom_int lo), n_of_int (atom_int hi))
  | A "any" -> TAny | A "soi" -> TSoi | A "eoi" -> TEoi | A "newline" -> TNewline
  | L [A "charby"; p] -> TCharBy (n_of_int (atom_int p))
  | L [A "skipuntil"; L ss] -> TSkipUntil (List.map (function A h -> bytes_of_hex h | _ -> failwith "su") ss)
  | L [A "skipchars"; n] -> TSkipChars (nat_of_int (atom_int n))
  | L (A "seq" :: k :: es) -> TSeq (sk_of k, List.map texpr_of es)
  | L (A "choice" :: es) -> TChoice (List.map texpr_of es)
  | L [A "opt"; e] -> TOpt (texpr_of e)
  | L [A "rep"; k; mn; mx; e] ->
      TRep (sk_of k, nat_of_int (atom_int mn),
            (match mx with A "none" -> None | m -> Some (nat_of_int (atom_int m))), texpr_of e)
  | L [A "atomicrep"; e] -> TAtomicRep (texpr_of e)
  | L [A "pos"; e] -> TPos (texpr_of e)
  | L [A "neg"; e] -> TNeg (texpr_of e)
  | L [A "push"; e] -> TPush (texpr_of e)
  | A "peek" -> TPeek | A "pop" -> TPop | A "drop" -> TDrop | A "peekall" -> TPeekAll | A "popall" -> TPopAll
  | L [A "slice"; a; b] ->
      TPeekSlice (z_of_int (atom_int a), (match b with A "none" -> None | x -> Some (z_of_int (atom_int x))))
  | L [A "arr"; n; e] -> TArr (nat_of_int (atom_int n), texpr_of e)
  | L [A "pair"; a; b] -> TPair (texpr_of a, texpr_of b)
  | A "empty" -> TEmpty | A "fail" -> TFail
  | L [A "rule"; r; k] -> TRule (n_of_int (atom_int r), sk_of k)
  | _ -> failwith "texpr_of: bad sexp"

(* ---- pest AST (for the PEG spec) ---- *)
let builtin_of = function
  | "ANY" -> BAny | "SOI" -> BSoi | "EOI" -> BEoi | "PEEK" -> BPeek | "PEEK_ALL" -> BPeekAll | "POP" -> BPop
  | "POP_ALL" -> BPopAll | "DROP" -> BDrop | "NEWLINE" -> BNewline | "ASCII_DIGIT" -> BAsciiDigit
  | "ASCII_NONZERO_DIGIT" -> BAsciiNonzeroDigit | "ASCII_BIN_DIGIT" -> BAsciiBinDigit | "ASCII_OCT_DIGIT" -> BAsciiOctDigit
  | "ASCII_HEX_DIGIT" -> BAsciiHexDigit | "ASCII_ALPHA_LOWER" -> BAsciiAlphaLower | "ASCII_ALPHA_UPPER" -> BAsciiAlphaUpper
  | "ASCII_ALPHA" -> BAsciiAlpha | "ASCII_ALPHANUMERIC" -> BAsciiAlphanumeric | "ASCII" -> BAscii
  | "WHITESPACE" | "COMMENT" -> BUndefinedSkip
  | s -> failwith ("builtin " ^ s)

let ident_of = function
  | L [A "rule"; i] -> IdRule (n_of_int (atom_int i))
  | L [A "builtin"; A name] -> IdBuiltin (builtin_of name)
  | L [A "unicode"; i] -> IdUnicode (n_of_int (atom_int i))
  | _ -> failwith "ident"

let zopt = function A "none" -> None | x -> Some (z_of_int (atom_int x))

let rec oexpr_of (s : sexp) : oexpr =
  match s with
  | L [A "str"; A h] -> OStr (bytes_of_hex h)
  | L [A "insens"; A h] -> OInsens (bytes_of_hex h)
  | L [A "range"; lo; hi] -> ORange (n_of_int (atom_int lo), n_of_int (atom_int hi))
  | L [A "ident"; i] -> OIdent (ident_of i)
  | L [A "peekslice"; a; b] -> OPeekSlice (z_of_int (atom_int a), zopt b)
  | L [A "pospred"; e] -> OPosPred (oexpr_of e)
  | L [A "negpred"; e] -> ONegPred (oexpr_of e)
  | L [A "seq"; a; b] -> OSeq (oexpr_of a, oexpr_of b)
  | L [A "choice"; a; b] -> OChoice (oexpr_of a, oexpr_of b)
  | L [A "opt"; e] -> OOpt (oexpr_of e)
  | L [A "rep"; e] -> ORep (oexpr_of e)
  | L [A "skip"; L ss] -> OSkip (List.map (function A h -> bytes_of_hex h | _ -> failwith "skip") ss)
  | L [A "push"; e] -> OPush (oexpr_of e)
  | L [A "restore"; e] -> ORestore (oexpr_of e)
  | _ -> failwith "oexpr"

let kind_of = function
  | "normal" -> KNormal | "silent" -> KSilent | "atomic" -> KAtomic | "compound" -> KCompound | "nonatomic" -> KNonAtomic
  | s -> failwith ("kind " ^ s)

let ast_rules : (int, orule) Hashtbl.t = Hashtbl.create 16
let ast_ws : n option ref = ref None
let ast_cm : n option ref = ref None
let have_ast = ref false
(* unicode predicate tables of the AST side are indexed by the global property index *)
let upred_tabs : (int, (int, unit) Hashtbl.t) Hashtbl.t = Hashtbl.create 16

(* ---- environment ---- *)
let rule_names : (int, string) Hashtbl.t = Hashtbl.create 16
let rule_defs : (int, rdef) Hashtbl.t = Hashtbl.create 16
let pred_tabs : (int, (int, unit) Hashtbl.t) Hashtbl.t = Hashtbl.create 16
let charby_name : (int, string) Hashtbl.t = Hashtbl.create 8
let cur_skip = ref SkipEmpty
let cur_flags = ref (true, true, true)
let cur_eoi = ref 0
let default_rdef = { r_atom = None; r_emis = EmBoth; r_body = TFail }

type shape = Node of string * bool * texpr | Rule of string * int
let shapes : shape list ref = ref []

let set_env (items : sexp list) =
  Hashtbl.reset rule_names; Hashtbl.reset rule_defs; Hashtbl.reset pred_tabs;
  Hashtbl.reset ast_rules; Hashtbl.reset upred_tabs; have_ast := false; ast_ws := None; ast_cm := None;
  List.iter (function
    | L [A "skip"; A "empty"] -> cur_skip := SkipEmpty
    | L [A "skip"; L [A "rep"; e]] -> cur_skip := SkipRep (texpr_of e)
    | L [A "flags"; A a; A b; A c] -> cur_flags := (a = "1", b = "1", c = "1")
    | L [A "eoi"; i] -> cur_eoi := atom_int i
    | L (A "rules" :: rs) ->
        List.iter (function
          | L [i; A name; A atom; A em; body] ->
              let idx = atom_int i in
              Hashtbl.replace rule_names idx name;
              Hashtbl.replace rule_defs idx
                { r_atom = (match atom with "true" -> Some true | "false" -> Some false | _ -> None);
                  r_emis = (match em with "span" -> EmSpan | "expr" -> EmExpr | _ -> EmBoth);
                  r_body = texpr_of body }
          | _ -> failwith "rule def") rs
    | L (A "preds" :: ps) ->
        List.iter (function
          | L (i :: A name :: cps) ->
              Hashtbl.replace charby_name (atom_int i) name;
              let t = Hashtbl.create 16 in
              List.iter (fun c -> Hashtbl.replace t (atom_int c) ()) cps;
              Hashtbl.replace pred_tabs (atom_int i) t
          | _ -> failwith "pred") ps
    | L (A "ast" :: L [A "ws"; ws] :: L [A "cm"; cm] :: rs) ->
        have_ast := true;
        ast_ws := (match ws with A "none" -> None | x -> Some (n_of_int (atom_int x)));
        ast_cm := (match cm with A "none" -> None | x -> Some (n_of_int (atom_int x)));
        List.iter (function
          | L [A "rule"; i; A kind; e] ->
              let idx = atom_int i in
              Hashtbl.replace ast_rules idx { o_name = n_of_int idx; o_kind = kind_of kind; o_expr = oexpr_of e }
          | _ -> failwith "ast rule") rs
    | L (A "upreds" :: ps) ->
        List.iter (function
          | L (i :: cps) ->
              let t = Hashtbl.create 16 in
              List.iter (fun c -> Hashtbl.replace t (atom_int c) ()) cps;
              Hashtbl.replace upred_tabs (atom_int i) t
          | _ -> failwith "upred") ps
    | _ -> failwith "env item") items

let mk_env (i : inp) : env =
  let (ron, su, rp) = !cur_flags in
  { e_inp = i;
    e_rules = (fun r -> try Hashtbl.find rule_defs (int_of_n r) with Not_found -> default_rdef);
    e_skip = !cur_skip;
    e_pred = (fun p c -> try Hashtbl.mem (Hashtbl.find pred_tabs (int_of_n p)) (int_of_n c) with Not_found -> false);
    e_eoi = n_of_int !cur_eoi;
    e_ron_fixed = ron; e_su_cut = su; e_rep_min_after = rp }

(* ---- printers (Rust `{:?}` format) ---- *)
let input_str = ref ""
let rule_name (r : n) = try Hashtbl.find rule_names (int_of_n r) with Not_found -> "?"

let span_dbg (s : int) (e : int) =
  let txt = if s <= e && e <= String.length !input_str then String.sub !input_str s (e - s) else "<bad>" in
  Printf.sprintf "Span { str: %s, start: %d, end: %d }" (rust_debug_str txt) s e

let spk_name = function
  | KSkip -> "Skip" | KSkipChar -> "SkipChar" | KPeek -> "PEEK" | KPop -> "POP" | KPeekAll -> "PEEK_ALL" | KPopAll -> "POP_ALL"

let rec dbg (t : tnode) : string =
  match t with
  | NStr -> "Str"
  | NInsens (s, e) ->
      let s = int_of_nat s and e = int_of_nat e in
      Printf.sprintf "Insens { content: %s }" (rust_debug_str (String.sub !input_str s (e - s)))
  | NChar (k, c) ->
      let name = match k with
        | CkRange -> "CharRange" | CkAny -> "ANY"
        | CkProp p -> (try Hashtbl.find charby_name (int_of_n p) with Not_found -> "?") in
      Printf.sprintf "%s { content: %s }" name (rust_debug_char (int_of_n c))
  | NSoi -> "SOI" | NEoi -> "EOI"
  | NNewline k -> Printf.sprintf "NEWLINE { content: %s }" (match k with NlCRLF -> "CRLF" | NlLF -> "LF" | NlCR -> "CR")
  | NSpanned (k, s, e) -> Printf.sprintf "%s { span: %s }" (spk_name k) (span_dbg (int_of_nat s) (int_of_nat e))
  | NSeq items -> Printf.sprintf "Seq%d(%s)" (List.length items) (String.concat ", " (List.map item_dbg items))
  | NChoice (n, i, t1) -> Printf.sprintf "Choice%d { _%d: %s }" (int_of_nat n) (int_of_nat i) (dbg t1)
  | NOpt None -> "None"
  | NOpt (Some t1) -> Printf.sprintf "Some(%s)" (dbg t1)
  | NRep (bounded, items) ->
      Printf.sprintf "%s { content: [%s] }" (if bounded then "RepeatMinMax" else "RepeatMin")
        (String.concat ", " (List.map item_dbg items))
  | NAtomicRep items -> Printf.sprintf "AtomicRepeat { content: [%s] }" (String.concat ", " (List.map dbg items))
  | NPos t1 -> Printf.sprintf "Positive { content: %s }" (dbg t1)
  | NNeg -> "Negative"
  | NPush t1 -> Printf.sprintf "Push { content: %s }" (dbg t1)
  | NDrop -> "DROP" | NSlice two -> if two then "PeekSlice2" else "PeekSlice1"
  | NArr l -> Printf.sprintf "[%s]" (String.concat ", " (List.map dbg l))
  | NPair (a, b) -> Printf.sprintf "(%s, %s)" (dbg a) (dbg b)
  | NEmpty -> "Empty"
  | NRule (r, content, sp) ->
      let fields =
        (match content with Some c -> ["content: " ^ dbg c] | None -> []) @
        (match sp with Some (s, e) -> ["span: " ^ span_dbg (int_of_nat s) (int_of_nat e)] | None -> []) in
      Printf.sprintf "%s { %s }" (rule_name r) (String.concat ", " fields)
and item_dbg (skipped, matched) =
  match skipped with
  | [] -> dbg matched
  | l -> Printf.sprintf "Skipped { skipped: [%s], matched: %s }" (String.concat ", " (List.map dbg l)) (dbg matched)


let stack_dbg (s : stack) : string =
  "[" ^ String.concat "," (List.rev_map (fun (a, b) -> Printf.sprintf "%d-%d" (int_of_nat a) (int_of_nat b)) s.cache) ^ "]"

let tracker_dbg (start : nat) (st : state) : string =
  let t = run_tracker start st.tr in
  let key_i e = match e.te_key with None -> -1 | Some k -> int_of_n k in
  let es = List.sort (fun a b -> compare (key_i a) (key_i b)) t.t_attempts in
  let rules l = String.concat "," (List.map (fun r -> string_of_int (int_of_n r)) l) in
  let spec = function
    | SpEmptyStack -> "E"
    | SpOutOfBound (a, None) -> Printf.sprintf "O(%d,)" (int_of_z a)
    | SpOutOfBound (a, Some b) -> Printf.sprintf "O(%d,%d)" (int_of_z a) (int_of_z b) in
  Printf.sprintf "@%d{%s}" (int_of_nat t.t_position)
    (String.concat ";" (List.map (fun e ->
       Printf.sprintf "%s:%s/%s/%s" (if key_i e < 0 then "-" else string_of_int (key_i e))
         (rules e.te_pos) (rules e.te_neg) (String.concat "," (List.map spec e.te_spec))) es))

let rec tok_dbg (t : tok) : string =
  match t with
  | Tok (r, s, e, cs) ->
      Printf.sprintf "(%d %d %d%s)" (int_of_n r) (int_of_nat s) (int_of_nat e)
        (String.concat "" (List.map (fun c -> " " ^ tok_dbg c) cs))

let res_p (start : nat) (r : (nat * tnode) res) : string =
  match r with
  | Ok ((off, t), st) -> Printf.sprintf "ok@%d=%s;S:%s;T:%s" (int_of_nat off) (dbg t) (stack_dbg st.stk) (tracker_dbg start st)
  | Fail st -> Printf.sprintf "fail;S:%s;T:%s" (stack_dbg st.stk) (tracker_dbg start st)
  | Panic -> "PANIC"
  | Fuel -> "FUEL"

let res_a (r : (nat * tnode) ares) : string =
  match r with
  | AOk ((off, t), stk) ->
      Printf.sprintf "ok@%d=%s;S:%s" (int_of_nat off) (dbg t) (stack_dbg { cache = stk; popped = []; lengths = [] })
  | AFail -> "fail"
  | APanic -> "PANIC"
  | AFuel -> "FUEL"

let mk_penv (i : inp) : penv =
  { p_inp = i;
    p_rules = (fun r -> try Some (Hashtbl.find ast_rules (int_of_n r)) with Not_found -> None);
    p_ws = !ast_ws; p_comment = !ast_cm;
    p_pred = (fun p c -> try Hashtbl.mem (Hashtbl.find upred_tabs (int_of_n p)) (int_of_n c) with Not_found -> false);
    p_eoi = n_of_int !cur_eoi }

let res_g (r : pres) : string =
  match r with
  | POk (off, stk, toks) ->
      Printf.sprintf "ok@%d:%s" (int_of_nat off) (String.concat "" (List.map tok_dbg toks))
  | PFail -> "fail"
  | PPanic -> "PANIC"
  | PFuel -> "FUEL"

(* Model/Report.v rendered as Tracker::collect_to_message does (lines joined by ';') *)
let report_text (t : tracker) : string =
  let nm r = let s = rule_name r in if String.length s > 2 && String.sub s 0 2 = "r#" then String.sub s 2 (String.length s - 2) else s in
  let lst l = "[" ^ String.concat ", " (List.map nm l) ^ "]" in
  let spec = function
    | SpEmptyStack -> "Nothing to pop or drop."
    | SpOutOfBound (a, None) -> Printf.sprintf "Peek slice %d.. out of bound." (int_of_z a)
    | SpOutOfBound (a, Some b) -> Printf.sprintf "Peek slice %d..%d out of bound." (int_of_z a) (int_of_z b) in
  let line (l : rline) =
    let head = match l.l_msg with
      | MUnknown -> "Unknown error (no rule tracked)"
      | MExpected ps -> "Expected " ^ lst ps
      | MUnexpected ns -> "Unexpected " ^ lst ns
      | MBoth (ns, ps) -> "Unexpected " ^ lst ns ^ ", expected " ^ lst ps in
    let by = match l.l_by with Some u -> ", by " ^ nm u | None -> "" in
    String.concat ";" ((head ^ by ^ ".") ::
      List.map (fun sp -> spec sp ^ (match l.l_by with Some u -> " (By " ^ nm u ^ ")" | None -> "")) l.l_special) in
  String.concat ";" (List.map line (report t))

let res_c (start : nat) (r : nat res) : string =
  match r with
  | Ok (off, st) -> Printf.sprintf "ok@%d;S:%s;T:%s" (int_of_nat off) (stack_dbg st.stk) (tracker_dbg start st)
  | Fail st -> Printf.sprintf "fail;S:%s;T:%s" (stack_dbg st.stk) (tracker_dbg start st)
  | Panic -> "PANIC"
  | Fuel -> "FUEL"

let fixed_fuel : int option ref = ref None
let run_input form hex a b =
  let bytes = hex_to_bytes hex in
  input_str := bytes_to_string bytes;
  let bs = List.map n_of_int bytes in
  let i = match form with
    | "str" -> inp_of_str bs
    | "pos" -> inp_of_pos bs (nat_of_int a)
    | _ -> inp_of_span bs (nat_of_int a) (nat_of_int b) in
  let e = mk_env i in
  let start = i_start i in
  let fuel = match !fixed_fuel with Some f -> nat_of_int f | None -> nat_of_int (48 + 3 * List.length bytes) in
  List.iter (fun sh ->
    match sh with
    | Node (id, inh, te) ->
        let p = tparse e fuel inh te start st0 in
        let c = tcheck e fuel inh te start st0 in
        let ar = aparse e fuel inh te start [] in
        Printf.printf "%s|%s|%s|%d|%d|P:%s|C:%s|A:%s\n" id form hex a b (res_p start p) (res_c start c) (res_a ar)
    | Rule (id, idx) ->
        let r = n_of_int idx in
        let p = try_parse_partial e fuel r in
        let c = try_check_partial e fuel r in
        let fp = try_parse e fuel r in
        let fc = try_check e fuel r in
        let tk = match p with
          | Ok ((_, t), _) -> String.concat "" (List.map tok_dbg (tokens e t))
          | _ -> "-" in
        let fps = match fp with
          | Ok (t, st) -> Printf.sprintf "ok=%s;T:%s" (dbg t) (tracker_dbg start st)
          | Fail st -> Printf.sprintf "fail;T:%s" (tracker_dbg start st)
          | Panic -> "PANIC" | Fuel -> "FUEL" in
        let fcs = match fc with
          | Ok (_, st) -> Printf.sprintf "ok;T:%s" (tracker_dbg start st)
          | Fail st -> Printf.sprintf "fail;T:%s" (tracker_dbg start st)
          | Panic -> "PANIC" | Fuel -> "FUEL" in
        let rp = match fp with
          | Fail st ->
              let t = run_tracker start st.tr in
              (* Model/ReportHead.v: the head of the message (text of the reported line up to the reported location) and the
                 indentation of the attempt lines (digits of the line number + 3) *)
              let head = match head_line bs t.t_position with
                | MOk h -> let h = List.map int_of_n h in
                    if h = [] then "-" else String.concat "" (List.map (Printf.sprintf "%02x") h)
                | MPanic -> "PANIC" in
              let body = report_text t in
              let indent = if body = "" then "-" else match line_col bs t.t_position with
                | LOk (l, _) -> string_of_int (String.length (string_of_int (int_of_nat l)) + 3)
                | _ -> "PANIC" in
              "H:" ^ head ^ ":" ^ indent ^ (if body = "" then "" else ";" ^ body)
          | _ -> "-" in
        let ar = aparse e fuel true (TRule (r, SkOn)) start [] in
        let g = if !have_ast && idx <> !cur_eoi then begin
            let pe = mk_penv i in
            (* the spec-level implicit skip (pest's hidden::skip in non-atomic state) from where the typed prefix parse stopped:
               the independent trailing-skip computation of C04 *)
            let sk = match p with
              | Ok ((off, _), _) ->
                  (match p_skip pe (p_call pe (peg pe fuel)) fuel ANon false off [] with
                   | POk (o2, _, _) -> string_of_int (int_of_nat o2)
                   | PFail -> "fail" | PPanic -> "PANIC" | PFuel -> "FUEL")
              | _ -> "-" in
            "|SK:" ^ sk ^ "|G:" ^ res_g (peg_entry pe fuel r)
          end else "" in
        Printf.printf "%s|%s|%s|%d|%d|P:%s|C:%s|FP:%s|FC:%s|TK:%s|RP:%s%s|A:%s\n" id form hex a b
          (res_p start p) (res_c start c) fps fcs tk rp g (res_a ar))
    (List.rev !shapes)

let run_stack (ops : sexp list) =
  let rec conv = function
    | [] -> []
    | A "p" :: s :: e :: rest -> SoPush (nat_of_int (atom_int s), nat_of_int (atom_int e)) :: conv rest
    | A "o" :: rest -> SoPop :: conv rest
    | A "s" :: rest -> SoSnapshot :: conv rest
    | A "r" :: rest -> SoRestore :: conv rest
    | A "c" :: rest -> SoClear :: conv rest
    | _ -> failwith "stack op" in
  match sop_run stack_new (conv ops) with
  | MOk s -> print_endline (stack_dbg s)
  | MPanic -> print_endline "PANIC"

(* C11: certificate inference + the verified checker on the current environment; the fuel bound of the
   theorem for the entry rule with the largest bound, with [m] bytes of input *)
let run_wf (m : int) =
  let e = mk_env (inp_of_str []) in
  let idxs = List.sort compare (Hashtbl.fold (fun k _ acc -> k :: acc) rule_defs []) in
  let rules = List.map n_of_int idxs in
  let c = infer_cert rules e.e_rules e.e_skip in
  if wf_cert rules e.e_rules e.e_skip c then begin
    let b = List.fold_left (fun acc r ->
      Stdlib.max acc (int_of_nat (fuel_bound rules e.e_rules e.e_skip c (TRule (r, SkOn)) (nat_of_int m)))) 0 rules in
    Printf.printf "WF|1|%d\n" b
  end else Printf.printf "WF|0|-\n"

let () =
  (try
    while true do
      let line = input_line stdin in
      if String.length line > 0 then
        match parse_sexp line with
        | L (A "env" :: items) -> set_env items
        | L [A "clear"] -> shapes := []
        | L [A "shape"; A id; A "node"; A inh; e] -> shapes := Node (id, inh = "1", texpr_of e) :: !shapes
        | L [A "shape"; A id; A "rule"; i] -> shapes := Rule (id, atom_int i) :: !shapes
        | L [A "in"; A form; A hex; a; b] -> run_input form hex (atom_int a) (atom_int b)
        | L (A "stack" :: ops) -> run_stack ops
        | L [A "wf"; m] -> run_wf (atom_int m)
        | L [A "fuel"; A "auto"] -> fixed_fuel := None
        | L [A "fuel"; m] -> fixed_fuel := Some (atom_int m)
        | _ -> failwith ("bad command: " ^ line)
    done
  with End_of_file -> ());
  flush stdout
