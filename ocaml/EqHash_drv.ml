(* C18 driver for the extracted model (Model/Sem.v + Model/EqHash.v).
   stdin: one S-expression per line
     (env ...) (clear) (shape ID node INH E) (shape ID rule IDX)      as ocaml/Sem_drv.ml
     (verbose 0|1)
     (case IDX HEX)      shape number IDX (registration order) on the input object HEX: the shape is parsed on the
                         whole string, on every Position a and every Span a..b (char boundaries) of it; every Ok
                         tnode is kept and all pairs are compared with eq_m / hash_m / debug_m
     (coqx IDX HEX N)    print Coq `Example`s (vm_compute cross-check of the extraction) for up to N pairs
   stdout: one line per case, same format as harness/rtcat_static/rt_eq.rs (without its X: field):
     SID|HEX|L:ok labels|PN:panic labels|D:fnv64 of each {:?} string|H:fnv64 of each hash word stream|
     E:eq matrix|HS:|HR:hash-equality matrix (or = when identical to E)|DE:debug-equality matrix (or =) *)
open Eqhash_model
open Common_sexp

let rec nat_of_int (i : int) : nat = if i <= 0 then O else S (nat_of_int (i - 1))
let rec int_of_nat (n : nat) : int = match n with O -> 0 | S m -> 1 + int_of_nat m
let rec pos_of_int (i : int) : positive =
  if i <= 1 then XH else if i land 1 = 0 then XO (pos_of_int (i lsr 1)) else XI (pos_of_int (i lsr 1))
let rec int_of_pos (p : positive) : int = match p with XH -> 1 | XO q -> 2 * int_of_pos q | XI q -> 2 * int_of_pos q + 1
let n_of_int (i : int) : n = if i = 0 then N0 else Npos (pos_of_int i)
let int_of_n (x : n) : int = match x with N0 -> 0 | Npos p -> int_of_pos p
let z_of_int (i : int) : z = if i = 0 then Z0 else if i > 0 then Zpos (pos_of_int i) else Zneg (pos_of_int (-i))
let int_of_z (x : z) : int = match x with Z0 -> 0 | Zpos p -> int_of_pos p | Zneg p -> - (int_of_pos p)

let bytes_of_hex h = List.map n_of_int (hex_to_bytes h)

let sk_of = function
  | A "off" -> SkOff | A "on" -> SkOn | A "inh" -> SkInh
  | _ -> failwith "sk"

let atom_int = function A s -> int_of_string s | _ -> failwith "int"

let rec texpr_of (s : sexp) : texpr =
  match s with
  | L [A "str"; A h] -> TStr (bytes_of_hex h)
  | L [A "insens"; A h] -> TInsens (bytes_of_hex h)
  | L [A "range"; lo; hi] -> TRange (n_of_int (atom_int lo), n_of_int (atom_int hi))
  | A "any" -> TAny | A "soi" -> TSoi | A "eoi" -> TEoi | A "newline" -> TNewline
  | L [A "charby"; p] -> TCharBy (n_of_int (atom_int p))
  | L [A "skipuntil"; L ss] -> TSkipUntil (List.map (function A h -> bytes_of_hex h | _ -> failwith "su") ss)
  | L [A "skipchars"; n] -> TSkipChars (nat_of_int (atom_int n))
  | L (A "seq" :: k :: es) -> TSeq (sk_of k, List.map texpr_of es)
  | L (A "choice" :: es) -> TChoice (List.map texpr_of es)
  | L [A "opt"; e] -> TOpt (texpr_of e)
  | L [A "rep"; k; mn; mx; e] ->
      TRep (sk_of k, nat_of_int (atom_int mn),
            (match mx with A "none" -> None | m -> Some (nat_of_int (atom_int m))), texpr_of e)
  | L [A "atomicrep"; e] -> TAtomicRep (texpr_of e)
  | L [A "pos"; e] -> TPos (texpr_of e)
  | L [A "neg"; e] -> TNeg (texpr_of e)
  | L [A "push"; e] -> TPush (texpr_of e)
  | A "peek" -> TPeek | A "pop" -> TPop | A "drop" -> TDrop | A "peekall" -> TPeekAll | A "popall" -> TPopAll
  | L [A "slice"; a; b] ->
      TPeekSlice (z_of_int (atom_int a), (match b with A "none" -> None | x -> Some (z_of_int (atom_int x))))
  | L [A "arr"; n; e] -> TArr (nat_of_int (atom_int n), texpr_of e)
  | L [A "pair"; a; b] -> TPair (texpr_of a, texpr_of b)
  | A "empty" -> TEmpty | A "fail" -> TFail
  | L [A "rule"; r; k] -> TRule (n_of_int (atom_int r), sk_of k)
  | _ -> failwith "texpr_of: bad sexp"

(* ---- environment ---- *)
let rule_names : (int, string) Hashtbl.t = Hashtbl.create 16
let rule_defs : (int, rdef) Hashtbl.t = Hashtbl.create 16
let pred_tabs : (int, (int, unit) Hashtbl.t) Hashtbl.t = Hashtbl.create 16
let charby_name : (int, string) Hashtbl.t = Hashtbl.create 8
let cur_skip = ref SkipEmpty
let cur_flags = ref (true, true, true)
let cur_eoi = ref 0
let default_rdef = { r_atom = None; r_emis = EmBoth; r_body = TFail }

type shape = Node of string * bool * texpr | Rule of string * int
let shapes : shape list ref = ref []     (* newest first *)
let verbose = ref false

let set_env (items : sexp list) =
  Hashtbl.reset rule_names; Hashtbl.reset rule_defs; Hashtbl.reset pred_tabs; Hashtbl.reset charby_name;
  List.iter (function
    | L [A "skip"; A "empty"] -> cur_skip := SkipEmpty
    | L [A "skip"; L [A "rep"; e]] -> cur_skip := SkipRep (texpr_of e)
    | L [A "flags"; A a; A b; A c] -> cur_flags := (a = "1", b = "1", c = "1")
    | L [A "eoi"; i] -> cur_eoi := atom_int i
    | L (A "rules" :: rs) ->
        List.iter (function
          | L [i; A name; A atom; A em; body] ->
              let idx = atom_int i in
              Hashtbl.replace rule_names idx name;
              Hashtbl.replace rule_defs idx
                { r_atom = (match atom with "true" -> Some true | "false" -> Some false | _ -> None);
                  r_emis = (match em with "span" -> EmSpan | "expr" -> EmExpr | _ -> EmBoth);
                  r_body = texpr_of body }
          | _ -> failwith "rule def") rs
    | L (A "preds" :: ps) ->
        List.iter (function
          | L (i :: A name :: cps) ->
              Hashtbl.replace charby_name (atom_int i) name;
              let t = Hashtbl.create 16 in
              List.iter (fun c -> Hashtbl.replace t (atom_int c) ()) cps;
              Hashtbl.replace pred_tabs (atom_int i) t
          | _ -> failwith "pred") ps
    | _ -> failwith "env item") items

let mk_env (i : inp) : env =
  let (ron, su, rp) = !cur_flags in
  { e_inp = i;
    e_rules = (fun r -> try Hashtbl.find rule_defs (int_of_n r) with Not_found -> default_rdef);
    e_skip = !cur_skip;
    e_pred = (fun p c -> try Hashtbl.mem (Hashtbl.find pred_tabs (int_of_n p)) (int_of_n c) with Not_found -> false);
    e_eoi = n_of_int !cur_eoi;
    e_ron_fixed = ron; e_su_cut = su; e_rep_min_after = rp }

(* ---- text of the tokens of debug_m: the `{:?}` string is their concatenation ---- *)
let bytes_str (l : n list) : string = bytes_to_string (List.map int_of_n l)

let name_text (d : dname) : string =
  match d with
  | DnStr -> "Str" | DnInsens -> "Insens" | DnCharRange -> "CharRange" | DnANY -> "ANY"
  | DnProp p -> (try Hashtbl.find charby_name (int_of_n p) with Not_found -> "?")
  | DnSOI -> "SOI" | DnEOI -> "EOI" | DnNEWLINE -> "NEWLINE"
  | DnNl NlCRLF -> "CRLF" | DnNl NlLF -> "LF" | DnNl NlCR -> "CR"
  | DnSpanned KSkip -> "Skip" | DnSpanned KSkipChar -> "SkipChar" | DnSpanned KPeek -> "PEEK"
  | DnSpanned KPop -> "POP" | DnSpanned KPeekAll -> "PEEK_ALL" | DnSpanned KPopAll -> "POP_ALL"
  | DnSpan -> "Span"
  | DnSeq k -> Printf.sprintf "Seq%d" (int_of_nat k)
  | DnSkipped -> "Skipped"
  | DnChoice k -> Printf.sprintf "Choice%d" (int_of_nat k)
  | DnVariant k -> Printf.sprintf "_%d" (int_of_nat k)
  | DnNone -> "None" | DnSome -> "Some"
  | DnRepeatMinMax -> "RepeatMinMax" | DnRepeatMin -> "RepeatMin" | DnAtomicRepeat -> "AtomicRepeat"
  | DnPositive -> "Positive" | DnNegative -> "Negative" | DnPush -> "Push" | DnDROP -> "DROP"
  | DnPeekSlice2 -> "PeekSlice2" | DnPeekSlice1 -> "PeekSlice1" | DnEmpty -> "Empty"
  | DnRule r -> (try Hashtbl.find rule_names (int_of_n r) with Not_found -> "?")
  | DnContent -> "content" | DnSpanField -> "span" | DnSkippedField -> "skipped" | DnMatched -> "matched"
  | DnStrField -> "str" | DnStart -> "start" | DnEnd -> "end"

let tok_text (t : dtoken) : string =
  match t with
  | DName d -> name_text d
  | DOpenB -> " { " | DCloseB -> " }" | DColon -> ": " | DComma -> ", "
  | DOpenP -> "(" | DCloseP -> ")" | DOpenS -> "[" | DCloseS -> "]"
  | DChar c -> rust_debug_char (int_of_n c)
  | DStrLit s -> rust_debug_str (bytes_str s)
  | DNum k -> string_of_int (int_of_nat k)

let render (l : dtoken list) : string = String.concat "" (List.map tok_text l)

let hword_text (w : hword) : string =
  match w with
  | HPtr -> "P;"
  | HUsize k -> Printf.sprintf "u%d;" (int_of_nat k)
  | HIsize z -> Printf.sprintf "i%d;" (int_of_z z)
  | HU32 c -> Printf.sprintf "c%d;" (int_of_n c)
  | HU8 b -> Printf.sprintf "b%d;" (int_of_n b)
  | HBytes l -> "w" ^ String.concat "" (List.map (fun b -> Printf.sprintf "%02x" (int_of_n b)) l) ^ ";"

let stream (l : hword list) : string = String.concat "" (List.map hword_text l)

let fnv64 (s : string) : string =
  let h = ref (Int64.of_string "0xcbf29ce484222325") in
  String.iter (fun c ->
    h := Int64.logxor !h (Int64.of_int (Char.code c));
    h := Int64.mul !h 0x100000001b3L) s;
  Printf.sprintf "%016Lx" !h

(* ---- sub-inputs of one input object ---- *)
type sub = SStr | SPos of int | SSpan of int * int

let sub_label = function
  | SStr -> "S" | SPos a -> Printf.sprintf "p%d" a | SSpan (a, b) -> Printf.sprintf "s%d-%d" a b

let subs (bs : n list) : sub list =
  let len = List.length bs in
  let bnd = List.filter (fun k -> is_boundary bs (nat_of_int k)) (List.init (len + 1) (fun k -> k)) in
  let rec go = function
    | [] -> []
    | a :: rest -> (SPos a :: List.map (fun b -> SSpan (a, b)) (a :: rest)) @ go rest in
  SStr :: go bnd

let inp_of (bs : n list) = function
  | SStr -> inp_of_str bs
  | SPos a -> inp_of_pos bs (nat_of_int a)
  | SSpan (a, b) -> inp_of_span bs (nat_of_int a) (nat_of_int b)

type outcome = Val of tnode | NoMatch | Pan | OutOfFuel

(* (label, outcome) in the order of the runner *)
let outcomes (sh : shape) (bs : n list) : (string * outcome) list =
  let fuel = nat_of_int (48 + 3 * List.length bs) in
  List.concat_map (fun sb ->
    let i = inp_of bs sb in
    let e = mk_env i in
    let lab = sub_label sb in
    match sh with
    | Node (_, inh, te) ->
        [ (lab ^ ".P",
           match tparse e fuel inh te (i_start i) st0 with
           | Ok ((_, t), _) -> Val t | Fail _ -> NoMatch | Panic -> Pan | Fuel -> OutOfFuel) ]
    | Rule (_, idx) ->
        let r = n_of_int idx in
        [ (lab ^ ".F",
           match try_parse e fuel r with
           | Ok (t, _) -> Val t | Fail _ -> NoMatch | Panic -> Pan | Fuel -> OutOfFuel);
          (lab ^ ".P",
           match try_parse_partial e fuel r with
           | Ok ((_, t), _) -> Val t | Fail _ -> NoMatch | Panic -> Pan | Fuel -> OutOfFuel) ])
    (subs bs)

let matrix (vals : 'a array) (f : 'a -> 'a -> bool) : string =
  let m = Array.length vals in
  let b = Buffer.create (m * m) in
  for i = 0 to m - 1 do
    for j = 0 to m - 1 do
      Buffer.add_char b (if f vals.(i) vals.(j) then '1' else '0')
    done
  done;
  Buffer.contents b

let shape_id = function Node (id, _, _) -> id | Rule (id, _) -> id

let run_case (idx : int) (hex : string) =
  let sh = List.nth (List.rev !shapes) idx in
  let bs = bytes_of_hex hex in
  let outs = outcomes sh bs in
  let ok = List.filter_map (fun (l, o) -> match o with Val t -> Some (l, t) | _ -> None) outs in
  let pn = List.filter_map (fun (l, o) -> match o with Pan -> Some l | OutOfFuel -> Some (l ^ "?") | _ -> None) outs in
  let vals = Array.of_list (List.map snd ok) in
  let dbgs = Array.map (fun t -> render (debug_m bs t)) vals in
  let hws = Array.map (fun t -> hash_m bs t) vals in
  let dts = Array.map (fun t -> debug_m bs t) vals in
  let e = matrix vals (fun a b -> eq_m bs a b) in
  let h = matrix hws (fun a b -> a = b) in
  let d = matrix dts (fun a b -> a = b) in
  let same x = if x = e then "=" else x in
  let strs = Array.map stream hws in
  Printf.printf "%s|%s|L:%s|PN:%s|D:%s|H:%s|E:%s|HS:%s|HR:%s|DE:%s"
    (shape_id sh) hex
    (String.concat "," (List.map fst ok)) (String.concat "," pn)
    (String.concat "," (Array.to_list (Array.map fnv64 dbgs)))
    (String.concat "," (Array.to_list (Array.map fnv64 strs)))
    e (same h) (same h) (same d);
  if !verbose then
    Printf.printf "|DV:%s|HV:%s" (String.concat " ;; " (Array.to_list dbgs)) (String.concat " ;; " (Array.to_list strs));
  print_newline ()

(* ---- Coq syntax (cross-check of the extraction by vm_compute) ---- *)
let cq_nat k = string_of_int (int_of_nat k)
let cq_n x = Printf.sprintf "%d%%N" (int_of_n x)
let cq_z x = Printf.sprintf "(%d)%%Z" (int_of_z x)
let cq_list f l = "[" ^ String.concat "; " (List.map f l) ^ "]"
let cq_bytes l = cq_list cq_n l
let cq_opt f = function None -> "None" | Some x -> "(Some " ^ f x ^ ")"
let cq_bool b = if b then "true" else "false"
let cq_nl = function NlCRLF -> "NlCRLF" | NlLF -> "NlLF" | NlCR -> "NlCR"
let cq_spk = function
  | KSkip -> "KSkip" | KSkipChar -> "KSkipChar" | KPeek -> "KPeek" | KPop -> "KPop" | KPeekAll -> "KPeekAll" | KPopAll -> "KPopAll"
let cq_chk = function CkRange -> "CkRange" | CkAny -> "CkAny" | CkProp p -> "(CkProp " ^ cq_n p ^ ")"

let rec cq_tnode (t : tnode) : string =
  match t with
  | NStr -> "NStr"
  | NInsens (s, e) -> Printf.sprintf "(NInsens %s %s)" (cq_nat s) (cq_nat e)
  | NChar (k, c) -> Printf.sprintf "(NChar %s %s)" (cq_chk k) (cq_n c)
  | NSoi -> "NSoi" | NEoi -> "NEoi"
  | NNewline k -> "(NNewline " ^ cq_nl k ^ ")"
  | NSpanned (k, s, e) -> Printf.sprintf "(NSpanned %s %s %s)" (cq_spk k) (cq_nat s) (cq_nat e)
  | NSeq items -> "(NSeq " ^ cq_list cq_item items ^ ")"
  | NChoice (k, i, u) -> Printf.sprintf "(NChoice %s %s %s)" (cq_nat k) (cq_nat i) (cq_tnode u)
  | NOpt o -> "(NOpt " ^ cq_opt cq_tnode o ^ ")"
  | NRep (b, items) -> Printf.sprintf "(NRep %s %s)" (cq_bool b) (cq_list cq_item items)
  | NAtomicRep l -> "(NAtomicRep " ^ cq_list cq_tnode l ^ ")"
  | NPos u -> "(NPos " ^ cq_tnode u ^ ")"
  | NNeg -> "NNeg"
  | NPush u -> "(NPush " ^ cq_tnode u ^ ")"
  | NDrop -> "NDrop"
  | NSlice b -> "(NSlice " ^ cq_bool b ^ ")"
  | NArr l -> "(NArr " ^ cq_list cq_tnode l ^ ")"
  | NPair (a, b) -> Printf.sprintf "(NPair %s %s)" (cq_tnode a) (cq_tnode b)
  | NEmpty -> "NEmpty"
  | NRule (r, c, sp) ->
      Printf.sprintf "(NRule %s %s %s)" (cq_n r) (cq_opt cq_tnode c)
        (cq_opt (fun (s, e) -> Printf.sprintf "(%s, %s)" (cq_nat s) (cq_nat e)) sp)
and cq_item (sk, m) = Printf.sprintf "(%s, %s)" (cq_list cq_tnode sk) (cq_tnode m)

let cq_hword = function
  | HPtr -> "HPtr" | HUsize k -> "HUsize " ^ cq_nat k | HIsize z -> "HIsize " ^ cq_z z
  | HU32 c -> "HU32 " ^ cq_n c | HU8 b -> "HU8 " ^ cq_n b | HBytes l -> "HBytes " ^ cq_bytes l

let cq_dname = function
  | DnStr -> "DnStr" | DnInsens -> "DnInsens" | DnCharRange -> "DnCharRange" | DnANY -> "DnANY"
  | DnProp p -> "(DnProp " ^ cq_n p ^ ")" | DnSOI -> "DnSOI" | DnEOI -> "DnEOI" | DnNEWLINE -> "DnNEWLINE"
  | DnNl k -> "(DnNl " ^ cq_nl k ^ ")" | DnSpanned k -> "(DnSpanned " ^ cq_spk k ^ ")" | DnSpan -> "DnSpan"
  | DnSeq k -> "(DnSeq " ^ cq_nat k ^ ")" | DnSkipped -> "DnSkipped" | DnChoice k -> "(DnChoice " ^ cq_nat k ^ ")"
  | DnVariant k -> "(DnVariant " ^ cq_nat k ^ ")" | DnNone -> "DnNone" | DnSome -> "DnSome"
  | DnRepeatMinMax -> "DnRepeatMinMax" | DnRepeatMin -> "DnRepeatMin" | DnAtomicRepeat -> "DnAtomicRepeat"
  | DnPositive -> "DnPositive" | DnNegative -> "DnNegative" | DnPush -> "DnPush" | DnDROP -> "DnDROP"
  | DnPeekSlice2 -> "DnPeekSlice2" | DnPeekSlice1 -> "DnPeekSlice1" | DnEmpty -> "DnEmpty"
  | DnRule r -> "(DnRule " ^ cq_n r ^ ")" | DnContent -> "DnContent" | DnSpanField -> "DnSpanField"
  | DnSkippedField -> "DnSkippedField" | DnMatched -> "DnMatched" | DnStrField -> "DnStrField"
  | DnStart -> "DnStart" | DnEnd -> "DnEnd"

let cq_dtoken = function
  | DName d -> "DName " ^ cq_dname d
  | DOpenB -> "DOpenB" | DCloseB -> "DCloseB" | DColon -> "DColon" | DComma -> "DComma"
  | DOpenP -> "DOpenP" | DCloseP -> "DCloseP" | DOpenS -> "DOpenS" | DCloseS -> "DCloseS"
  | DChar c -> "DChar " ^ cq_n c | DStrLit s -> "DStrLit " ^ cq_bytes s | DNum k -> "DNum " ^ cq_nat k

let coqx_counter = ref 0

let run_coqx (idx : int) (hex : string) (limit : int) =
  let sh = List.nth (List.rev !shapes) idx in
  let bs = bytes_of_hex hex in
  let vals = List.filter_map (fun (_, o) -> match o with Val t -> Some t | _ -> None) (outcomes sh bs) in
  let vals = Array.of_list vals in
  let m = Array.length vals in
  let printed = ref 0 in
  for k = 0 to m - 1 do
    (* pair every value with its successor (cyclically): equal and unequal pairs both occur *)
    let j = (k + 1) mod m in
    if !printed < limit then begin
      incr printed; incr coqx_counter;
      let t1 = vals.(k) and t2 = vals.(j) in
      Printf.printf "Example x%d : let i := %s in let t1 := %s in let t2 := %s in (eq_m i t1 t2, hash_m i t1, debug_m i t1) = (%s, %s, %s). Proof. vm_compute. reflexivity. Qed.\n"
        !coqx_counter (cq_bytes bs) (cq_tnode t1) (cq_tnode t2)
        (cq_bool (eq_m bs t1 t2)) (cq_list cq_hword (hash_m bs t1)) (cq_list cq_dtoken (debug_m bs t1))
    end
  done

let () =
  (try
    while true do
      let line = input_line stdin in
      if String.length line > 0 then
        match parse_sexp line with
        | L (A "env" :: items) -> set_env items
        | L [A "clear"] -> shapes := []
        | L [A "shape"; A id; A "node"; A inh; e] -> shapes := Node (id, inh = "1", texpr_of e) :: !shapes
        | L [A "shape"; A id; A "rule"; i] -> shapes := Rule (id, atom_int i) :: !shapes
        | L [A "verbose"; A v] -> verbose := (v = "1")
        | L [A "case"; i; A hex] -> run_case (atom_int i) hex
        | L [A "coqx"; i; A hex; n] -> run_coqx (atom_int i) hex (atom_int n)
        | _ -> failwith ("bad command: " ^ line)
    done
  with End_of_file -> ());
  flush stdout
