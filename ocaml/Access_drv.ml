(* Driver for the accessor model (coq/theories/Model/Access.v) on top of the parser model (Sem.v).
   stdin: one S-expression per line
     (env ...)                                  as for Sem_drv
     (shape ID choice|seq|rep INH E)            accessor family to print for the parsed value
     (shape ID leaf INH E (path J ...))         leaf reached through get_matched().J ... of nested sequences
     (clear)
     (in FORM HEX A B)                          run every shape on this input; one output line per shape
     (sum FORM HEX A B)                         numeric summaries (for the vm_compute cross-check)
   stdout: canonical result lines, identical in format to the generated arity harness (vlib/arity.py).
   The conversion / environment / Debug-printer code below is duplicated from Sem_drv.ml on purpose
   (the extracted types are generative per model module). *)
open Access_model
open Common_sexp

let rec nat_of_int (i : int) : nat = if i <= 0 then O else S (nat_of_int (i - 1))
let rec int_of_nat (n : nat) : int = match n with O -> 0 | S m -> 1 + int_of_nat m
let rec pos_of_int (i : int) : positive =
  if i <= 1 then XH else if i land 1 = 0 then XO (pos_of_int (i lsr 1)) else XI (pos_of_int (i lsr 1))
let rec int_of_pos (p : positive) : int = match p with XH -> 1 | XO q -> 2 * int_of_pos q | XI q -> 2 * int_of_pos q + 1
let n_of_int (i : int) : n = if i = 0 then N0 else Npos (pos_of_int i)
let int_of_n (x : n) : int = match x with N0 -> 0 | Npos p -> int_of_pos p
let z_of_int (i : int) : z = if i = 0 then Z0 else if i > 0 then Zpos (pos_of_int i) else Zneg (pos_of_int (-i))
let int_of_z (x : z) : int = match x with Z0 -> 0 | Zpos p -> int_of_pos p | Zneg p -> - (int_of_pos p)

let bytes_of_hex h = List.map n_of_int (hex_to_bytes h)

let sk_of = function
  | A "off" -> SkOff | A "on" -> SkOn | A "inh" -> SkInh
  | _ -> failwith "sk"

let atom_int = function A s -> int_of_string s | _ -> failwith "int"

let rec texpr_of (s : sexp) : texpr =
  match s with
  | L [A "str"; A h] -> TStr (bytes_of_hex h)
  | L [A "insens"; A h] -> TInsens (bytes_of_hex h)
  | L [A "range"; lo; hi] -> TRange (n_of_int (atom_int lo), n_of_int (atom_int hi))
  | A "any" -> TAny | A "soi" -> TSoi | A "eoi" -> TEoi | A "newline" -> TNewline
  | L [A "charby"; p] -> TCharBy (n_of_int (atom_int p))
  | L [A "skipuntil"; L ss] -> TSkipUntil (List.map (function A h -> bytes_of_hex h | _ -> failwith "su") ss)
  | L [A "skipchars"; n] -> TSkipChars (nat_of_int (atom_int n))
  | L (A "seq" :: k :: es) -> TSeq (sk_of k, List.map texpr_of es)
  | L (A "choice" :: es) -> TChoice (List.map texpr_of es)
  | L [A "opt"; e] -> TOpt (texpr_of e)
  | L [A "rep"; k; mn; mx; e] ->
      TRep (sk_of k, nat_of_int (atom_int mn),
            (match mx with A "none" -> None | m -> Some (nat_of_int (atom_int m))), texpr_of e)
  | L [A "atomicrep"; e] -> TAtomicRep (texpr_of e)
  | L [A "pos"; e] -> TPos (texpr_of e)
  | L [A "neg"; e] -> TNeg (texpr_of e)
  | L [A "push"; e] -> TPush (texpr_of e)
  | A "peek" -> TPeek | A "pop" -> TPop | A "drop" -> TDrop | A "peekall" -> TPeekAll | A "popall" -> TPopAll
  | L [A "slice"; a; b] ->
      TPeekSlice (z_of_int (atom_int a), (match b with A "none" -> None | x -> Some (z_of_int (atom_int x))))
  | L [A "arr"; n; e] -> TArr (nat_of_int (atom_int n), texpr_of e)
  | L [A "pair"; a; b] -> TPair (texpr_of a, texpr_of b)
  | A "empty" -> TEmpty | A "fail" -> TFail
  | L [A "rule"; r; k] -> TRule (n_of_int (atom_int r), sk_of k)
  | _ -> failwith "texpr_of: bad sexp"

(* ---- environment ---- *)
let rule_names : (int, string) Hashtbl.t = Hashtbl.create 16
let rule_defs : (int, rdef) Hashtbl.t = Hashtbl.create 16
let pred_tabs : (int, (int, unit) Hashtbl.t) Hashtbl.t = Hashtbl.create 16
let charby_name : (int, string) Hashtbl.t = Hashtbl.create 8
let cur_skip = ref SkipEmpty
let cur_flags = ref (true, true, true)
let cur_eoi = ref 0
let default_rdef = { r_atom = None; r_emis = EmBoth; r_body = TFail }


let set_env (items : sexp list) =
  Hashtbl.reset rule_names; Hashtbl.reset rule_defs; Hashtbl.reset pred_tabs;
  List.iter (function
    | L [A "skip"; A "empty"] -> cur_skip := SkipEmpty
    | L [A "skip"; L [A "rep"; e]] -> cur_skip := SkipRep (texpr_of e)
    | L [A "flags"; A a; A b; A c] -> cur_flags := (a = "1", b = "1", c = "1")
    | L [A "eoi"; i] -> cur_eoi := atom_int i
    | L (A "rules" :: rs) ->
        List.iter (function
          | L [i; A name; A atom; A em; body] ->
              let idx = atom_int i in
              Hashtbl.replace rule_names idx name;
              Hashtbl.replace rule_defs idx
                { r_atom = (match atom with "true" -> Some true | "false" -> Some false | _ -> None);
                  r_emis = (match em with "span" -> EmSpan | "expr" -> EmExpr | _ -> EmBoth);
                  r_body = texpr_of body }
          | _ -> failwith "rule def") rs
    | L (A "preds" :: ps) ->
        List.iter (function
          | L (i :: A name :: cps) ->
              Hashtbl.replace charby_name (atom_int i) name;
              let t = Hashtbl.create 16 in
              List.iter (fun c -> Hashtbl.replace t (atom_int c) ()) cps;
              Hashtbl.replace pred_tabs (atom_int i) t
          | _ -> failwith "pred") ps
    | _ -> failwith "env item") items

let mk_env (i : inp) : env =
  let (ron, su, rp) = !cur_flags in
  { e_inp = i;
    e_rules = (fun r -> try Hashtbl.find rule_defs (int_of_n r) with Not_found -> default_rdef);
    e_skip = !cur_skip;
    e_pred = (fun p c -> try Hashtbl.mem (Hashtbl.find pred_tabs (int_of_n p)) (int_of_n c) with Not_found -> false);
    e_eoi = n_of_int !cur_eoi;
    e_ron_fixed = ron; e_su_cut = su; e_rep_min_after = rp }

(* ---- printers (Rust `{:?}` format) ---- *)
let input_str = ref ""
let rule_name (r : n) = try Hashtbl.find rule_names (int_of_n r) with Not_found -> "?"

let span_dbg (s : int) (e : int) =
  let txt = if s <= e && e <= String.length !input_str then String.sub !input_str s (e - s) else "<bad>" in
  Printf.sprintf "Span { str: %s, start: %d, end: %d }" (rust_debug_str txt) s e

let spk_name = function
  | KSkip -> "Skip" | KSkipChar -> "SkipChar" | KPeek -> "PEEK" | KPop -> "POP" | KPeekAll -> "PEEK_ALL" | KPopAll -> "POP_ALL"

let rec dbg (t : tnode) : string =
  match t with
  | NStr -> "Str"
  | NInsens (s, e) ->
      let s = int_of_nat s and e = int_of_nat e in
      Printf.sprintf "Insens { content: %s }" (rust_debug_str (String.sub !input_str s (e - s)))
  | NChar (k, c) ->
      let name = match k with
        | CkRange -> "CharRange" | CkAny -> "ANY"
        | CkProp p -> (try Hashtbl.find charby_name (int_of_n p) with Not_found -> "?") in
      Printf.sprintf "%s { content: %s }" name (rust_debug_char (int_of_n c))
  | NSoi -> "SOI" | NEoi -> "EOI"
  | NNewline k -> Printf.sprintf "NEWLINE { content: %s }" (match k with NlCRLF -> "CRLF" | NlLF -> "LF" | NlCR -> "CR")
  | NSpanned (k, s, e) -> Printf.sprintf "%s { span: %s }" (spk_name k) (span_dbg (int_of_nat s) (int_of_nat e))
  | NSeq items -> Printf.sprintf "Seq%d(%s)" (List.length items) (String.concat ", " (List.map item_dbg items))
  | NChoice (n, i, t1) -> Printf.sprintf "Choice%d { _%d: %s }" (int_of_nat n) (int_of_nat i) (dbg t1)
  | NOpt None -> "None"
  | NOpt (Some t1) -> Printf.sprintf "Some(%s)" (dbg t1)
  | NRep (bounded, items) ->
      Printf.sprintf "%s { content: [%s] }" (if bounded then "RepeatMinMax" else "RepeatMin")
        (String.concat ", " (List.map item_dbg items))
  | NAtomicRep items -> Printf.sprintf "AtomicRepeat { content: [%s] }" (String.concat ", " (List.map dbg items))
  | NPos t1 -> Printf.sprintf "Positive { content: %s }" (dbg t1)
  | NNeg -> "Negative"
  | NPush t1 -> Printf.sprintf "Push { content: %s }" (dbg t1)
  | NDrop -> "DROP" | NSlice two -> if two then "PeekSlice2" else "PeekSlice1"
  | NArr l -> Printf.sprintf "[%s]" (String.concat ", " (List.map dbg l))
  | NPair (a, b) -> Printf.sprintf "(%s, %s)" (dbg a) (dbg b)
  | NEmpty -> "Empty"
  | NRule (r, content, sp) ->
      let fields =
        (match content with Some c -> ["content: " ^ dbg c] | None -> []) @
        (match sp with Some (s, e) -> ["span: " ^ span_dbg (int_of_nat s) (int_of_nat e)] | None -> []) in
      Printf.sprintf "%s { %s }" (rule_name r) (String.concat ", " fields)
and item_dbg (skipped, matched) =
  match skipped with
  | [] -> dbg matched
  | l -> Printf.sprintf "Skipped { skipped: [%s], matched: %s }" (String.concat ", " (List.map dbg l)) (dbg matched)



type kind = KChoice | KSeq | KRep | KLeaf of int list
type shape = { id : string; kind : kind; inh : bool; te : texpr }
let shapes : shape list ref = ref []

let join = String.concat ";"
let calls_dbg (l : nat list) = "[" ^ String.concat ", " (List.map (fun n -> string_of_int (int_of_nat n)) l) ^ "]"

let rec arity_closures (n : int) (k : int) : (tnode -> string) list =
  if k >= n then [] else (fun t -> Printf.sprintf "%d=%s" k (dbg t)) :: arity_closures n (k + 1)

let chain_field (r : (string * nat list) option) : string =
  match r with
  | Some (ret, calls) -> Printf.sprintf "%s;calls=%s" ret (calls_dbg calls)
  | None -> "NONE"

let choice_fields (t : tnode) : string =
  match t with
  | NChoice (n, _, _) ->
      let ni = int_of_nat n in
      let accs = choice_accs n t in
      let acc = List.concat (List.mapi (fun k o -> match o with Some c -> [Printf.sprintf "%d=%s" k (dbg c)] | None -> []) accs) in
      let cls = arity_closures ni 0 in
      let ch = chain_field (chain_run cls t) in
      let mc = chain_field (match_choices cls t) in
      Printf.sprintf "ACC:[%s]|IF:%s|RF:%s|CI:%s|CO:%s|MC:%s" (join acc) ch ch ch ch mc
  | _ -> "ACC:NONE"

let seq_fields (t : tnode) : string =
  let m = match seq_matched t with Some l -> join (List.map dbg l) | None -> "NONE" in
  let a = match seq_all t with Some l -> join (List.map item_dbg l) | None -> "NONE" in
  Printf.sprintf "GM:%s|AR:%s|IM:%s|GA:%s|IA:%s" m m m a a

let rep_fields (t : tnode) : string =
  let m = match rep_matched t with Some l -> join (List.map dbg l) | None -> "NONE" in
  let a = match rep_all t with Some l -> join (List.map item_dbg l) | None -> "NONE" in
  Printf.sprintf "IT:%s|II:%s|IL:%s|ILI:%s" m m a a

let bytes_dbg (l : n list) : string = rust_debug_str (bytes_to_string (List.map int_of_n l))

let rec navigate (t : tnode) (path : int list) : tnode option =
  match path with
  | [] -> Some t
  | j :: rest ->
      (match seq_matched t with
       | Some l -> (match List.nth_opt l j with Some t' -> navigate t' rest | None -> None)
       | None -> None)

let leaf_fields (parent : n list) (t : tnode) (path : int list) : string =
  match navigate t path with
  | None -> "LF:NONE"
  | Some l ->
      (match leaf_text parent l, l with
       | XChar c, _ -> Printf.sprintf "LF:c:%s" (rust_debug_char (int_of_n c))
       | XKind k, _ -> Printf.sprintf "LF:k:%s" (match k with NlCRLF -> "CRLF" | NlLF -> "LF" | NlCR -> "CR")
       | XText (_, _, MOk txt), NInsens _ -> Printf.sprintf "LF:s:%s" (bytes_dbg txt)
       | XText (s, e, MOk txt), _ -> Printf.sprintf "LF:sp:%d-%d:%s" (int_of_nat s) (int_of_nat e) (bytes_dbg txt)
       | XText (_, _, MPanic), _ -> "LF:PANIC"
       | XNothing, _ -> "LF:NONE")

let mk_input form bytes a b =
  let bs = List.map n_of_int bytes in
  let i = match form with
    | "str" -> inp_of_str bs
    | "pos" -> inp_of_pos bs (nat_of_int a)
    | _ -> inp_of_span bs (nat_of_int a) (nat_of_int b) in
  (bs, i)

let run_input form hex a b =
  let bytes = hex_to_bytes hex in
  input_str := bytes_to_string bytes;
  let (bs, i) = mk_input form bytes a b in
  let e = mk_env i in
  let start = i_start i in
  let fuel = nat_of_int (48 + 3 * List.length bytes) in
  List.iter (fun sh ->
    let p = tparse e fuel sh.inh sh.te start st0 in
    let body = match p with
      | Ok ((off, t), _) ->
          let fields = match sh.kind with
            | KChoice -> choice_fields t
            | KSeq -> seq_fields t
            | KRep -> rep_fields t
            | KLeaf path -> leaf_fields bs t path in
          Printf.sprintf "P:ok@%d=%s|%s" (int_of_nat off) (dbg t) fields
      | Fail _ -> "P:fail"
      | Panic -> "P:PANIC"
      | Fuel -> "P:FUEL" in
    Printf.printf "%s|%s|%s|%d|%d|%s\n" sh.id form hex a b body)
    (List.rev !shapes)

(* numeric summary of a run, comparable with `Eval vm_compute` output inside coqc:
   choice: [1; offset; n; i; chain label; chain calls...; 999; mc label; mc calls...]   (labels = closure index)
   others: [1; offset; number of matched components]      fail: [0]   *)
let run_sum form hex a b =
  let bytes = hex_to_bytes hex in
  input_str := bytes_to_string bytes;
  let (_, i) = mk_input form bytes a b in
  let e = mk_env i in
  let start = i_start i in
  let fuel = nat_of_int (48 + 3 * List.length bytes) in
  let rec lbls n k = if k >= n then [] else (fun (_ : tnode) -> nat_of_int k) :: lbls n (k + 1) in
  List.iter (fun sh ->
    let p = tparse e fuel sh.inh sh.te start st0 in
    let nums = match p with
      | Ok ((off, t), _) ->
          (match t with
           | NChoice (n, ci, _) ->
               let cls = lbls (int_of_nat n) 0 in
               let f r = match r with Some (l, calls) -> int_of_nat l :: List.map int_of_nat calls | None -> [998] in
               [1; int_of_nat off; int_of_nat n; int_of_nat ci] @ f (chain_run cls t) @ [999] @ f (match_choices cls t)
           | _ ->
               let cnt = match seq_matched t, rep_matched t with
                 | Some l, _ -> List.length l | _, Some l -> List.length l | _ -> 0 in
               [1; int_of_nat off; cnt])
      | _ -> [0] in
    Printf.printf "%s|%s\n" sh.id (String.concat ";" (List.map string_of_int nums)))
    (List.rev !shapes)

let kind_of (k : string) (rest : sexp list) : kind =
  match k, rest with
  | "choice", _ -> KChoice | "seq", _ -> KSeq | "rep", _ -> KRep
  | "leaf", [L (A "path" :: js)] -> KLeaf (List.map atom_int js)
  | "leaf", [] -> KLeaf []
  | _ -> failwith "kind"

let () =
  (try
    while true do
      let line = input_line stdin in
      if String.length line > 0 then
        match parse_sexp line with
        | L (A "env" :: items) -> set_env items
        | L [A "clear"] -> shapes := []
        | L (A "shape" :: A id :: A k :: A inh :: e :: rest) ->
            shapes := { id; kind = kind_of k rest; inh = (inh = "1"); te = texpr_of e } :: !shapes
        | L [A "in"; A form; A hex; a; b] -> run_input form hex (atom_int a) (atom_int b)
        | L [A "sum"; A form; A hex; a; b] -> run_sum form hex (atom_int a) (atom_int b)
        | _ -> failwith ("bad command: " ^ line)
    done
  with End_of_file -> ());
  flush stdout
