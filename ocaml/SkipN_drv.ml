(* Driver for the extracted Model/SkipN.v (C19, explicit skip counts).
   stdin:  T <descriptor> <node>      one line per type; node ::= (str HEX) | (empty) | (choice N N) | (seq K SKIP N...) | (rep K MN MX|- SKIP EL)
           R <maxlen>                 run every type on every string over {a, b, ' '} up to maxlen (same order as harness/unitskip)
   stdout: <descriptor> TAB <input hex> TAB P:<offset>=<shape> | P:fail | P:FUEL TAB C:<offset> | C:fail | C:FUEL
   the shape grammar is the one of harness/unitskip (trait Sh). *)
open Common_sexp
module M = Skipn_model
open M

let rec nat_of_int n = if n <= 0 then O else S (nat_of_int (n - 1))
let int_of_nat n = let rec go acc = function O -> acc | S m -> go (acc + 1) m in go 0 n
let rec pos_of_int n = if n = 1 then XH else if n land 1 = 0 then XO (pos_of_int (n lsr 1)) else XI (pos_of_int (n lsr 1))
let n_of_int n = if n = 0 then N0 else Npos (pos_of_int n)
let rec int_of_pos = function XH -> 1 | XO p -> 2 * int_of_pos p | XI p -> 2 * int_of_pos p + 1
let int_of_n = function N0 -> 0 | Npos p -> int_of_pos p

let atom_int = function A s -> int_of_string s | _ -> failwith "int expected"

let rec node_of = function
  | L [A "str"; A h] -> SStr (List.map n_of_int (hex_to_bytes h))
  | L [A "empty"] -> SEmpty
  | L [A "choice"; a; b] -> SChoice (node_of a, node_of b)
  | L (A "seq" :: k :: skip :: els) -> SSeq (List.map node_of els, node_of skip, nat_of_int (atom_int k))
  | L [A "rep"; k; mn; mx; skip; el] ->
      SRep (node_of el, node_of skip, nat_of_int (atom_int k), nat_of_int (atom_int mn),
            (match mx with A "-" -> None | x -> Some (nat_of_int (atom_int x))))
  | _ -> failwith "node"

(* the text of a matched string node is not stored in the value: render with the node alongside *)
let rec shape (n : snode) (v : sval) : string =
  match n, v with
  | SStr s, VStr -> bytes_to_string (List.map int_of_n s)
  | SEmpty, VEmpty -> ""
  | SChoice (a, b), VChoice (i, v') -> let i = int_of_nat i in Printf.sprintf "%d:%s" i (shape (if i = 0 then a else b) v')
  | SSeq (els, skip, _), VSeq items ->
      "<" ^ String.concat ";" (List.map2 (fun e (sks, v') -> item skip e sks v') els items) ^ ">"
  | SRep (el, skip, _, _, _), VRep items ->
      "(" ^ String.concat "|" (List.map (fun (sks, v') -> item skip el sks v') items) ^ ")"
  | _ -> "?"
and item skip el sks v' = "[" ^ String.concat "," (List.map (shape skip) sks) ^ "]" ^ shape el v'

let all_strings (alphabet : char list) (maxlen : int) : string list =
  let all = ref [""] and cur = ref [""] in
  for _ = 1 to maxlen do
    let next = List.concat_map (fun s -> List.map (fun c -> s ^ String.make 1 c) alphabet) !cur in
    all := !all @ next; cur := next
  done; !all

let hex s = if s = "" then "-" else String.concat "" (List.map (fun c -> Printf.sprintf "%02x" (Char.code c)) (List.of_seq (String.to_seq s)))

let () =
  let types = ref [] in
  (try while true do
    let line = input_line stdin in
    if String.length line > 2 && line.[0] = 'T' then begin
      match String.split_on_char ' ' line with
      | _ :: d :: rest -> types := (d, node_of (parse_sexp (String.concat " " rest))) :: !types
      | _ -> failwith "T line"
    end else if String.length line > 2 && line.[0] = 'R' then begin
      let maxlen = int_of_string (String.sub line 2 (String.length line - 2)) in
      let inputs = all_strings ['a'; 'b'; ' '] maxlen in
      let buf = Buffer.create (1 lsl 20) in
      List.iter (fun (d, n) ->
        if not (wf_snode n) then failwith ("not wf: " ^ d);
        List.iter (fun s ->
          let bs = List.map (fun c -> n_of_int (Char.code c)) (List.of_seq (String.to_seq s)) in
          let fuel = nat_of_int (40 + 8 * String.length s) in
          let p = match sparse fuel bs n O with
            | SOk (off, v) -> Printf.sprintf "%d=%s" (int_of_nat off) (shape n v)
            | SFailed -> "fail" | SFuel -> "FUEL" in
          let c = match scheck fuel bs n O with
            | SOk off -> string_of_int (int_of_nat off)
            | SFailed -> "fail" | SFuel -> "FUEL" in
          Buffer.add_string buf (Printf.sprintf "%s\t%s\tP:%s\tC:%s\n" d (hex s) p c)) inputs) (List.rev !types);
      print_string (Buffer.contents buf)
    end
  done with End_of_file -> ())
