(* Driver for the extracted boxing analysis (Model/Boxing.v).
   stdin, one request per line (the resolved-AST request of Gen_drv.ml; its parser is copied here):
     (grammar ID opt|raw (eoi IDX) (ws IDX|none) (cm IDX|none) (rule IDX KIND EXPR) ...)
   stdout, one line per request:
     (result ID NOUPD ON OFF SETS)
       NOUPD = true|false   last_round_made_no_update
       ON    = the boxed flag of every rule in grammar order with box_only_if_needed = true, as a string of 0/1 ("-" if no rule)
       OFF   = the same with box_only_if_needed = false
       SETS  = ((KEY (MEMBER ...)) ...) the final map of collect_reachability, names as their codes
               (3*IDX rule, 3*c+1 built-in, 3*p+2 unicode property), keys and members sorted
     (error MSG) on a malformed request *)
open Boxing_model
open Common_sexp

let rec nat_of_int (i : int) : nat = if i <= 0 then O else S (nat_of_int (i - 1))
let rec pos_of_int (i : int) : positive =
  if i <= 1 then XH else if i land 1 = 0 then XO (pos_of_int (i lsr 1)) else XI (pos_of_int (i lsr 1))
let rec int_of_pos (p : positive) : int = match p with XH -> 1 | XO q -> 2 * int_of_pos q | XI q -> 2 * int_of_pos q + 1
let n_of_int (i : int) : n = if i = 0 then N0 else Npos (pos_of_int i)
let int_of_n (x : n) : int = match x with N0 -> 0 | Npos p -> int_of_pos p
let z_of_int (i : int) : z = if i = 0 then Z0 else if i > 0 then Zpos (pos_of_int i) else Zneg (pos_of_int (-i))
let bytes_of_hex h = List.map n_of_int (hex_to_bytes h)
let atom_int = function A s -> int_of_string s | _ -> failwith "int"

let builtin_of = function
  | "ANY" -> BAny | "SOI" -> BSoi | "EOI" -> BEoi | "PEEK" -> BPeek | "PEEK_ALL" -> BPeekAll | "POP" -> BPop
  | "POP_ALL" -> BPopAll | "DROP" -> BDrop | "NEWLINE" -> BNewline | "ASCII_DIGIT" -> BAsciiDigit
  | "ASCII_NONZERO_DIGIT" -> BAsciiNonzeroDigit | "ASCII_BIN_DIGIT" -> BAsciiBinDigit | "ASCII_OCT_DIGIT" -> BAsciiOctDigit
  | "ASCII_HEX_DIGIT" -> BAsciiHexDigit | "ASCII_ALPHA_LOWER" -> BAsciiAlphaLower | "ASCII_ALPHA_UPPER" -> BAsciiAlphaUpper
  | "ASCII_ALPHA" -> BAsciiAlpha | "ASCII_ALPHANUMERIC" -> BAsciiAlphanumeric | "ASCII" -> BAscii
  | "WHITESPACE" | "COMMENT" -> BUndefinedSkip
  | s -> failwith ("builtin " ^ s)

let ident_of = function
  | L [A "rule"; i] -> IdRule (n_of_int (atom_int i))
  | L [A "builtin"; A name] -> IdBuiltin (builtin_of name)
  | L [A "unicode"; i] -> IdUnicode (n_of_int (atom_int i))
  | _ -> failwith "ident"

let zopt = function A "none" -> None | x -> Some (z_of_int (atom_int x))

let rec oexpr_of (s : sexp) : oexpr =
  match s with
  | L [A "str"; A h] -> OStr (bytes_of_hex h)
  | L [A "insens"; A h] -> OInsens (bytes_of_hex h)
  | L [A "range"; lo; hi] -> ORange (n_of_int (atom_int lo), n_of_int (atom_int hi))
  | L [A "ident"; i] -> OIdent (ident_of i)
  | L [A "peekslice"; a; b] -> OPeekSlice (z_of_int (atom_int a), zopt b)
  | L [A "pospred"; e] -> OPosPred (oexpr_of e)
  | L [A "negpred"; e] -> ONegPred (oexpr_of e)
  | L [A "seq"; a; b] -> OSeq (oexpr_of a, oexpr_of b)
  | L [A "choice"; a; b] -> OChoice (oexpr_of a, oexpr_of b)
  | L [A "opt"; e] -> OOpt (oexpr_of e)
  | L [A "rep"; e] -> ORep (oexpr_of e)
  | L [A "skip"; L ss] -> OSkip (List.map (function A h -> bytes_of_hex h | _ -> failwith "skip") ss)
  | L [A "push"; e] -> OPush (oexpr_of e)
  | L [A "restore"; e] -> ORestore (oexpr_of e)
  | _ -> failwith "oexpr"

let rec rexpr_of (s : sexp) : rexpr =
  match s with
  | L [A "str"; A h] -> RStr (bytes_of_hex h)
  | L [A "insens"; A h] -> RInsens (bytes_of_hex h)
  | L [A "range"; lo; hi] -> RRange (n_of_int (atom_int lo), n_of_int (atom_int hi))
  | L [A "ident"; i] -> RIdent (ident_of i)
  | L [A "peekslice"; a; b] -> RPeekSlice (z_of_int (atom_int a), zopt b)
  | L [A "pospred"; e] -> RPosPred (rexpr_of e)
  | L [A "negpred"; e] -> RNegPred (rexpr_of e)
  | L [A "seq"; a; b] -> RSeq (rexpr_of a, rexpr_of b)
  | L [A "choice"; a; b] -> RChoice (rexpr_of a, rexpr_of b)
  | L [A "opt"; e] -> ROpt (rexpr_of e)
  | L [A "rep"; e] -> RRep (rexpr_of e)
  | L [A "reponce"; e] -> RRepOnce (rexpr_of e)
  | L [A "repexact"; e; n] -> RRepExact (rexpr_of e, nat_of_int (atom_int n))
  | L [A "repmin"; e; n] -> RRepMin (rexpr_of e, nat_of_int (atom_int n))
  | L [A "repmax"; e; n] -> RRepMax (rexpr_of e, nat_of_int (atom_int n))
  | L [A "repminmax"; e; n; m] -> RRepMinMax (rexpr_of e, nat_of_int (atom_int n), nat_of_int (atom_int m))
  | L [A "skip"; L ss] -> RSkip (List.map (function A h -> bytes_of_hex h | _ -> failwith "skip") ss)
  | L [A "push"; e] -> RPush (rexpr_of e)
  | _ -> failwith "rexpr"

let kind_of = function
  | "normal" -> KNormal | "silent" -> KSilent | "atomic" -> KAtomic | "compound" -> KCompound | "nonatomic" -> KNonAtomic
  | s -> failwith ("kind " ^ s)

let nopt = function A "none" -> None | x -> Some (n_of_int (atom_int x))

let flags_str (l : (n * bool) list) : string =
  if l = [] then "-" else String.concat "" (List.map (fun (_, b) -> if b then "1" else "0") l)

let sets_str (m : (n * n list) list) : string =
  let m = List.sort compare (List.map (fun (k, s) -> (int_of_n k, List.sort compare (List.map int_of_n s))) m) in
  "(" ^ String.concat " " (List.map (fun (k, s) ->
      Printf.sprintf "(%d (%s))" k (String.concat " " (List.map string_of_int s))) m) ^ ")"

let handle = function
  | L (A "grammar" :: A id :: A which :: L [A "eoi"; _] :: L [A "ws"; ws] :: L [A "cm"; cm] :: rules) ->
      let (noupd, on, off, sets) =
        if which = "opt" then
          let rs = List.map (function
            | L [A "rule"; i; A kind; e] -> { o_name = n_of_int (atom_int i); o_kind = kind_of kind; o_expr = oexpr_of e }
            | _ -> failwith "rule") rules in
          let g = { g_rules = rs; g_ws = nopt ws; g_comment = nopt cm } in
          (grammar_no_update g, grammar_boxed true g, grammar_boxed false g,
           collect_reachability (grammar_ws g) (grammar_cm g) (brules_of g))
        else
          let rs = List.map (function
            | L [A "rule"; i; A kind; e] -> { rr_name = n_of_int (atom_int i); rr_kind = kind_of kind; rr_expr = rexpr_of e }
            | _ -> failwith "rule") rules in
          let g = { rg_rules = rs; rg_ws = nopt ws; rg_comment = nopt cm } in
          let cr = function None -> None | Some x -> Some (n_of_int (3 * int_of_n x)) in
          (grammar_no_update_raw g, grammar_boxed_raw true g, grammar_boxed_raw false g,
           collect_reachability (cr g.rg_ws) (cr g.rg_comment) (brules_of_raw g)) in
      Printf.printf "(result %s %s %s %s %s)\n" id (if noupd then "true" else "false") (flags_str on) (flags_str off) (sets_str sets)
  | _ -> failwith "bad request"

let () =
  (try
    while true do
      let line = input_line stdin in
      if String.length line > 0 then
        (try handle (parse_sexp line) with Failure m -> Printf.printf "(error %s)\n" m)
    done
  with End_of_file -> ());
  flush stdout
