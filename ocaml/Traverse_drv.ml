(* C15 model driver: same stdin/stdout protocol as harness/unittree (see its main.rs).
   stdin : `<hex input | -> (rule start end child...)`
   stdout: `pre=...;lvl=...;tree=<hex>;children=...;token=...;thin=...`
   with `--lines` an extra trailing field `;lines=<indent>:<rule>:<s>-<e>|<indent>:<rule>:_|...`
   (the abstract rendered lines, used only for the vm_compute cross-check of the extraction).
   All results are computed by the extracted Coq functions with fuel `fuel_for t`. *)
open Traverse_model
open Common_sexp

let rec nat_of_int i = if i <= 0 then O else S (nat_of_int (i - 1))
let rec int_of_nat = function O -> 0 | S n -> 1 + int_of_nat n
let rec pos_of_int i =
  if i = 1 then XH else if i land 1 = 0 then XO (pos_of_int (i lsr 1)) else XI (pos_of_int (i lsr 1))
let n_of_int i = if i = 0 then N0 else Npos (pos_of_int i)
let rec int_of_pos = function XH -> 1 | XO p -> 2 * int_of_pos p | XI p -> 2 * int_of_pos p + 1
let int_of_n = function N0 -> 0 | Npos p -> int_of_pos p

let rule_names = [| "a"; "bb"; "expr"; "Term_2"; "x9"; "EOI" |]

let rec tok_of_sexp = function
  | L (A r :: A s :: A e :: cs) ->
    Tok (n_of_int (int_of_string r), nat_of_int (int_of_string s), nat_of_int (int_of_string e),
         List.map tok_of_sexp cs)
  | _ -> raise (Parse_error "tok")

let rec tok_str (Tok (r, s, e, cs)) =
  "(" ^ String.concat " " (string_of_int (int_of_n r) :: string_of_int (int_of_nat s)
                           :: string_of_int (int_of_nat e) :: List.map tok_str cs) ^ ")"
let rec thin_str (Thin (r, s, e, cs)) =
  "(" ^ String.concat " " (string_of_int (int_of_n r) :: string_of_int (int_of_nat s)
                           :: string_of_int (int_of_nat e) :: List.map thin_str cs) ^ ")"

let hex s =
  if s = "" then "-" else begin
    let b = Buffer.create (2 * String.length s) in
    String.iter (fun c -> Buffer.add_string b (Printf.sprintf "%02x" (Char.code c))) s;
    Buffer.contents b
  end

let emitted = function
  | None -> "OUTOFFUEL"
  | Some l -> String.concat "|" (List.map (fun (t, k) -> tok_str t ^ "@" ^ string_of_int (int_of_nat k)) l)

let line_bytes input (l : line) =
  let name =
    let r = int_of_n l.l_rule in
    if r < Array.length rule_names then rule_names.(r) else "?" in
  String.make (int_of_nat l.l_indent) ' ' ^ name
  ^ (match l.l_text with
     | Some (s, e) ->
       let s = int_of_nat s and e = int_of_nat e in
       " " ^ rust_debug_str (String.sub input s (e - s))
     | None -> "")
  ^ "\n"

let line_abs (l : line) =
  string_of_int (int_of_nat l.l_indent) ^ ":" ^ string_of_int (int_of_n l.l_rule) ^ ":"
  ^ (match l.l_text with
     | Some (s, e) -> string_of_int (int_of_nat s) ^ "-" ^ string_of_int (int_of_nat e)
     | None -> "_")

let () =
  let with_lines = Array.length Sys.argv > 1 && Sys.argv.(1) = "--lines" in
  try
    while true do
      let line = String.trim (input_line stdin) in
      if line <> "" then begin
        let res =
          try
            let sp = String.index line ' ' in
            let input = bytes_to_string (hex_to_bytes (String.sub line 0 sp)) in
            let t = tok_of_sexp (parse_sexp (String.sub line (sp + 1) (String.length line - sp - 1))) in
            let fuel = fuel_for t in
            let pre = emitted (pre_order fuel t) in
            let lvl = emitted (level_order fuel t) in
            let rendered = render fuel t in
            let tree = match rendered with
              | None -> "OUTOFFUEL"
              | Some ls -> hex (String.concat "" (List.map (line_bytes input) ls)) in
            let children = String.concat "|" (List.map tok_str (children_of t)) in
            let token = tok_str (as_token t) in
            let thin = thin_str (as_thin_token t) in
            Printf.sprintf "pre=%s;lvl=%s;tree=%s;children=%s;token=%s;thin=%s%s" pre lvl tree children token thin
              (if with_lines then
                 ";lines=" ^ (match rendered with
                     | None -> "OUTOFFUEL"
                     | Some ls -> String.concat "|" (List.map line_abs ls))
               else "")
          with
          | Parse_error m -> "BADSEXP " ^ m
          | Not_found -> "BADLINE"
          | Invalid_argument m -> "BADTREE " ^ m
          | Failure m -> "BADTREE " ^ m
        in
        print_string res; print_newline ()
      end
    done
  with End_of_file -> ()
