(* Driver for the extracted formatter model and its specification (C14).
   stdin, one item per line:
     T cp:w,cp:w,...          set the character width table (decimal code point : display cells)
     X hex:w,hex:w,...        set the string width table (hex of the UTF-8 of a run of characters : display cells of the run as
                              unicode-width measures the STRING); a run without entry measures as the sum of its characters
     S <fa><fc> <hex> <a> <b> display_span  (fa/fc in {0,1}: model the repaired code F4a/F4c)
     P <fa><fc> <hex> <p>     display_position
   stdout, one line per S/P case:
     D=<hex> R=<hex> Q=<hex> [U]
       D  to_string() with the default option    (hex of UTF-8; PANIC; FUEL; INVALID)
       R  output through the recording option    (U+0001..U+0006 brackets, as harness/unitfmt)
       Q  the recording form of the *specification* (FormatSpec.spec_span / spec_pos)
       U  present iff a character without entry in the width table was measured *)
module M = Format_model

let rec nat_of_int_slow n = if n <= 0 then M.O else M.S (nat_of_int_slow (n - 1))
let nat_tab = Array.init 8192 nat_of_int_slow
let nat_of_int n = if n >= 0 && n < 8192 then nat_tab.(n) else nat_of_int_slow n
let int_of_nat n = let rec go acc = function M.O -> acc | M.S m -> go (acc + 1) m in go 0 n
let rec pos_of_int n =
  if n = 1 then M.XH else if n land 1 = 0 then M.XO (pos_of_int (n lsr 1)) else M.XI (pos_of_int (n lsr 1))
let n_of_int n = if n = 0 then M.N0 else M.Npos (pos_of_int n)
let rec int_of_pos = function M.XH -> 1 | M.XO p -> 2 * int_of_pos p | M.XI p -> 2 * int_of_pos p + 1
let int_of_n = function M.N0 -> 0 | M.Npos p -> int_of_pos p
let byte_tab = Array.init 256 n_of_int

let hexval c =
  match c with
  | '0' .. '9' -> Char.code c - 48
  | 'a' .. 'f' -> Char.code c - 87
  | 'A' .. 'F' -> Char.code c - 55
  | _ -> failwith "bad hex"

let bytes_of_hex h =
  let h = if h = "-" then "" else h in
  let n = String.length h / 2 in
  let rec go i acc =
    if i < 0 then acc else go (i - 1) (byte_tab.(hexval h.[2 * i] * 16 + hexval h.[2 * i + 1]) :: acc) in
  go (n - 1) []

(* UTF-8 of a list of code points, as hex *)
let hex_of_chars (l : M.char list) =
  let b = Buffer.create 64 in
  let out x = Buffer.add_string b (Printf.sprintf "%02x" x) in
  List.iter (fun c ->
    let c = int_of_n c in
    if c < 0x80 then out c
    else if c < 0x800 then (out (0xC0 lor (c lsr 6)); out (0x80 lor (c land 0x3F)))
    else if c < 0x10000 then (out (0xE0 lor (c lsr 12)); out (0x80 lor ((c lsr 6) land 0x3F)); out (0x80 lor (c land 0x3F)))
    else (out (0xF0 lor (c lsr 18)); out (0x80 lor ((c lsr 12) land 0x3F)); out (0x80 lor ((c lsr 6) land 0x3F)); out (0x80 lor (c land 0x3F)))) l;
  Buffer.contents b

let wtab : (int, M.nat) Hashtbl.t = Hashtbl.create 64
let unknown = ref false
let width (c : M.char) : M.nat =
  match Hashtbl.find_opt wtab (int_of_n c) with
  | Some w -> w
  | None -> unknown := true; nat_of_int 1

let stab : (string, M.nat) Hashtbl.t = Hashtbl.create 64
let swidth (t : M.char list) : M.nat =
  match t with
  | [] -> nat_of_int 0
  | [c] -> width c
  | _ ->
    (match Hashtbl.find_opt stab (hex_of_chars t) with
     | Some w -> w
     | None -> nat_of_int (List.fold_left (fun acc c -> acc + int_of_nat (width c)) 0 t))

let set_stable spec =
  Hashtbl.reset stab;
  if spec <> "" then
    List.iter (fun item ->
      match String.split_on_char ':' item with
      | [h; w] -> Hashtbl.replace stab h (nat_of_int (int_of_string w))
      | _ -> failwith ("bad string width item " ^ item)) (String.split_on_char ',' spec)

let set_table spec =
  Hashtbl.reset wtab;
  if spec <> "" then
    List.iter (fun item ->
      match String.split_on_char ':' item with
      | [cp; w] -> Hashtbl.replace wtab (int_of_string cp) (nat_of_int (int_of_string w))
      | _ -> failwith ("bad width item " ^ item)) (String.split_on_char ',' spec)

let flag s i = s.[i] = '1'

let show (r : M.piece list M.fr) (spec : M.piece list) =
  let d, rr = match r with
    | M.ROk ps -> hex_of_chars (M.flat ps), hex_of_chars (M.flat_rec ps)
    | M.RPanic -> "PANIC", "PANIC"
    | M.RFuel -> "FUEL", "FUEL" in
  Printf.printf "D=%s R=%s Q=%s%s\n" d rr (hex_of_chars (M.flat_rec spec)) (if !unknown then " U" else "")

let () =
  try
    while true do
      let line = input_line stdin in
      unknown := false;
      (match String.split_on_char ' ' line with
       | ["T"; spec] -> set_table spec
       | ["T"] -> set_table ""
       | ["X"; spec] -> set_stable spec
       | ["X"] -> set_stable ""
       | ["S"; fl; hex; a; b] ->
           let s = bytes_of_hex hex in
           let a = nat_of_int (int_of_string a) and b = nat_of_int (int_of_string b) in
           if not (M.fmt_valid_span s a b) then print_string "D=INVALID R=INVALID Q=\n"
           else show (M.display_span swidth (flag fl 0) s a b) (M.spec_span swidth s a b)
       | ["P"; fl; hex; p] ->
           let s = bytes_of_hex hex in
           let p = nat_of_int (int_of_string p) in
           if not (M.fmt_valid_pos s p) then print_string "D=INVALID R=INVALID Q=\n"
           else show (M.display_position swidth (flag fl 1) s p) (M.spec_pos swidth s p)
       | _ -> print_string ("ERROR bad line: " ^ line ^ "\n"))
    done
  with End_of_file -> flush stdout
