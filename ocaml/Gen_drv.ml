(* Driver for the extracted generator model (Model/Translate.v).
   stdin, one request per line:
     (grammar ID opt|raw (eoi IDX) (ws IDX|none) (cm IDX|none) (rule IDX KIND EXPR) ...)
   EXPR = pest AST with resolved identifiers: (ident (rule IDX)) | (ident (builtin NAME)) | (ident (unicode IDX))
   stdout: (result ID (skip SKIPDEF) (rule IDX ATOM EMIS TEXPR) ...)  with TEXPR in the Sem_drv syntax (rule refs by index) *)
open Gen_model
open Common_sexp

let rec nat_of_int (i : int) : nat = if i <= 0 then O else S (nat_of_int (i - 1))
let rec int_of_nat (n : nat) : int = match n with O -> 0 | S m -> 1 + int_of_nat m
let rec pos_of_int (i : int) : positive =
  if i <= 1 then XH else if i land 1 = 0 then XO (pos_of_int (i lsr 1)) else XI (pos_of_int (i lsr 1))
let rec int_of_pos (p : positive) : int = match p with XH -> 1 | XO q -> 2 * int_of_pos q | XI q -> 2 * int_of_pos q + 1
let n_of_int (i : int) : n = if i = 0 then N0 else Npos (pos_of_int i)
let int_of_n (x : n) : int = match x with N0 -> 0 | Npos p -> int_of_pos p
let z_of_int (i : int) : z = if i = 0 then Z0 else if i > 0 then Zpos (pos_of_int i) else Zneg (pos_of_int (-i))
let int_of_z (x : z) : int = match x with Z0 -> 0 | Zpos p -> int_of_pos p | Zneg p -> - (int_of_pos p)
let bytes_of_hex h = List.map n_of_int (hex_to_bytes h)
let hex_of_bytes (l : n list) = if l = [] then "-" else String.concat "" (List.map (fun b -> Printf.sprintf "%02x" (int_of_n b)) l)
let atom_int = function A s -> int_of_string s | _ -> failwith "int"

let builtin_of = function
  | "ANY" -> BAny | "SOI" -> BSoi | "EOI" -> BEoi | "PEEK" -> BPeek | "PEEK_ALL" -> BPeekAll | "POP" -> BPop
  | "POP_ALL" -> BPopAll | "DROP" -> BDrop | "NEWLINE" -> BNewline | "ASCII_DIGIT" -> BAsciiDigit
  | "ASCII_NONZERO_DIGIT" -> BAsciiNonzeroDigit | "ASCII_BIN_DIGIT" -> BAsciiBinDigit | "ASCII_OCT_DIGIT" -> BAsciiOctDigit
  | "ASCII_HEX_DIGIT" -> BAsciiHexDigit | "ASCII_ALPHA_LOWER" -> BAsciiAlphaLower | "ASCII_ALPHA_UPPER" -> BAsciiAlphaUpper
  | "ASCII_ALPHA" -> BAsciiAlpha | "ASCII_ALPHANUMERIC" -> BAsciiAlphanumeric | "ASCII" -> BAscii
  | "WHITESPACE" | "COMMENT" -> BUndefinedSkip
  | s -> failwith ("builtin " ^ s)

let ident_of = function
  | L [A "rule"; i] -> IdRule (n_of_int (atom_int i))
  | L [A "builtin"; A name] -> IdBuiltin (builtin_of name)
  | L [A "unicode"; i] -> IdUnicode (n_of_int (atom_int i))
  | _ -> failwith "ident"

let zopt = function A "none" -> None | x -> Some (z_of_int (atom_int x))

let rec oexpr_of (s : sexp) : oexpr =
  match s with
  | L [A "str"; A h] -> OStr (bytes_of_hex h)
  | L [A "insens"; A h] -> OInsens (bytes_of_hex h)
  | L [A "range"; lo; hi] -> ORange (n_of_int (atom_int lo), n_of_int (atom_int hi))
  | L [A "ident"; i] -> OIdent (ident_of i)
  | L [A "peekslice"; a; b] -> OPeekSlice (z_of_int (atom_int a), zopt b)
  | L [A "pospred"; e] -> OPosPred (oexpr_of e)
  | L [A "negpred"; e] -> ONegPred (oexpr_of e)
  | L [A "seq"; a; b] -> OSeq (oexpr_of a, oexpr_of b)
  | L [A "choice"; a; b] -> OChoice (oexpr_of a, oexpr_of b)
  | L [A "opt"; e] -> OOpt (oexpr_of e)
  | L [A "rep"; e] -> ORep (oexpr_of e)
  | L [A "skip"; L ss] -> OSkip (List.map (function A h -> bytes_of_hex h | _ -> failwith "skip") ss)
  | L [A "push"; e] -> OPush (oexpr_of e)
  | L [A "restore"; e] -> ORestore (oexpr_of e)
  | _ -> failwith "oexpr"

let rec rexpr_of (s : sexp) : rexpr =
  match s with
  | L [A "str"; A h] -> RStr (bytes_of_hex h)
  | L [A "insens"; A h] -> RInsens (bytes_of_hex h)
  | L [A "range"; lo; hi] -> RRange (n_of_int (atom_int lo), n_of_int (atom_int hi))
  | L [A "ident"; i] -> RIdent (ident_of i)
  | L [A "peekslice"; a; b] -> RPeekSlice (z_of_int (atom_int a), zopt b)
  | L [A "pospred"; e] -> RPosPred (rexpr_of e)
  | L [A "negpred"; e] -> RNegPred (rexpr_of e)
  | L [A "seq"; a; b] -> RSeq (rexpr_of a, rexpr_of b)
  | L [A "choice"; a; b] -> RChoice (rexpr_of a, rexpr_of b)
  | L [A "opt"; e] -> ROpt (rexpr_of e)
  | L [A "rep"; e] -> RRep (rexpr_of e)
  | L [A "reponce"; e] -> RRepOnce (rexpr_of e)
  | L [A "repexact"; e; n] -> RRepExact (rexpr_of e, nat_of_int (atom_int n))
  | L [A "repmin"; e; n] -> RRepMin (rexpr_of e, nat_of_int (atom_int n))
  | L [A "repmax"; e; n] -> RRepMax (rexpr_of e, nat_of_int (atom_int n))
  | L [A "repminmax"; e; n; m] -> RRepMinMax (rexpr_of e, nat_of_int (atom_int n), nat_of_int (atom_int m))
  | L [A "skip"; L ss] -> RSkip (List.map (function A h -> bytes_of_hex h | _ -> failwith "skip") ss)
  | L [A "push"; e] -> RPush (rexpr_of e)
  | _ -> failwith "rexpr"

let kind_of = function
  | "normal" -> KNormal | "silent" -> KSilent | "atomic" -> KAtomic | "compound" -> KCompound | "nonatomic" -> KNonAtomic
  | s -> failwith ("kind " ^ s)

let sk_str = function SkOff -> "off" | SkOn -> "on" | SkInh -> "inh"

let rec texpr_str (e : texpr) : string =
  match e with
  | TStr s -> Printf.sprintf "(str %s)" (hex_of_bytes s)
  | TInsens s -> Printf.sprintf "(insens %s)" (hex_of_bytes s)
  | TRange (lo, hi) -> Printf.sprintf "(range %d %d)" (int_of_n lo) (int_of_n hi)
  | TAny -> "any" | TSoi -> "soi" | TEoi -> "eoi" | TNewline -> "newline"
  | TCharBy p -> Printf.sprintf "(charby %d)" (int_of_n p)
  | TSkipUntil ss -> Printf.sprintf "(skipuntil (%s))" (String.concat " " (List.map hex_of_bytes ss))
  | TSkipChars n -> Printf.sprintf "(skipchars %d)" (int_of_nat n)
  | TSeq (k, es) -> Printf.sprintf "(seq %s %s)" (sk_str k) (String.concat " " (List.map texpr_str es))
  | TChoice es -> Printf.sprintf "(choice %s)" (String.concat " " (List.map texpr_str es))
  | TOpt e -> Printf.sprintf "(opt %s)" (texpr_str e)
  | TRep (k, mn, mx, e) ->
      Printf.sprintf "(rep %s %d %s %s)" (sk_str k) (int_of_nat mn)
        (match mx with None -> "none" | Some m -> string_of_int (int_of_nat m)) (texpr_str e)
  | TAtomicRep e -> Printf.sprintf "(atomicrep %s)" (texpr_str e)
  | TPos e -> Printf.sprintf "(pos %s)" (texpr_str e)
  | TNeg e -> Printf.sprintf "(neg %s)" (texpr_str e)
  | TPush e -> Printf.sprintf "(push %s)" (texpr_str e)
  | TPeek -> "peek" | TPop -> "pop" | TDrop -> "drop" | TPeekAll -> "peekall" | TPopAll -> "popall"
  | TPeekSlice (a, b) ->
      Printf.sprintf "(slice %d %s)" (int_of_z a) (match b with None -> "none" | Some x -> string_of_int (int_of_z x))
  | TArr (n, e) -> Printf.sprintf "(arr %d %s)" (int_of_nat n) (texpr_str e)
  | TPair (a, b) -> Printf.sprintf "(pair %s %s)" (texpr_str a) (texpr_str b)
  | TEmpty -> "empty" | TFail -> "fail"
  | TRule (r, k) -> Printf.sprintf "(rule %d %s)" (int_of_n r) (sk_str k)

let skip_str = function SkipEmpty -> "empty" | SkipRep e -> Printf.sprintf "(rep %s)" (texpr_str e)

let rdef_str (idx, d) =
  Printf.sprintf "(rule %d %s %s %s)" (int_of_n idx)
    (match d.r_atom with Some true -> "true" | Some false -> "false" | None -> "inh")
    (match d.r_emis with EmSpan -> "span" | EmExpr -> "expr" | EmBoth -> "both")
    (texpr_str d.r_body)

let nopt = function A "none" -> None | x -> Some (n_of_int (atom_int x))

let handle = function
  | L (A "grammar" :: A id :: A which :: L [A "eoi"; eoi] :: L [A "ws"; ws] :: L [A "cm"; cm] :: rules) ->
      let eoi = n_of_int (atom_int eoi) in
      let (skip, defs) =
        if which = "opt" then
          let rs = List.map (function
            | L [A "rule"; i; A kind; e] -> { o_name = n_of_int (atom_int i); o_kind = kind_of kind; o_expr = oexpr_of e }
            | _ -> failwith "rule") rules in
          translate_opt eoi { g_rules = rs; g_ws = nopt ws; g_comment = nopt cm }
        else
          let rs = List.map (function
            | L [A "rule"; i; A kind; e] -> { rr_name = n_of_int (atom_int i); rr_kind = kind_of kind; rr_expr = rexpr_of e }
            | _ -> failwith "rule") rules in
          translate_raw eoi { rg_rules = rs; rg_ws = nopt ws; rg_comment = nopt cm } in
      Printf.printf "(result %s (skip %s) %s)\n" id (skip_str skip) (String.concat " " (List.map rdef_str defs))
  | L [A "builtin"; A name] ->
      Printf.printf "(builtin %s %s)\n" name (texpr_str (builtin_texpr (n_of_int 0) (builtin_of name)))
  | _ -> failwith "bad request"

let () =
  (try
    while true do
      let line = input_line stdin in
      if String.length line > 0 then
        (try handle (parse_sexp line) with Failure m -> Printf.printf "(error %s)\n" m)
    done
  with End_of_file -> ());
  flush stdout
