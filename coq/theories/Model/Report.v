(* main/src/tracker.rs `collect_to_message` (185-244): what the rendered report SAYS, line by line.  Model only.
   One line per entry of `attempts` (a BTreeMap: key None first, then the rules in ascending order):
     positives / negatives are sorted and de-duplicated, then
       (true , true ) -> "Unknown error (no rule tracked)"
       (false, true ) -> "Expected [positives]"
       (true , false) -> "Unexpected [negatives]"
       (false, false) -> "Unexpected [negatives], expected [positives]"
     followed by ", by <upper rule>" when the key is a rule, a full stop, and one further line per special error. *)
From Coq Require Import List NArith ZArith Arith Bool.
From PT Require Import Model.Base Model.Stack Model.Texpr Model.Sem Model.Tracker.
Import ListNotations.

(* Vec::sort + Vec::dedup on rule indices *)
Fixpoint insert_sorted (x : N) (l : list N) : list N :=
  match l with
  | [] => [x]
  | y :: r => if (x <? y)%N then x :: l else if (x =? y)%N then l else y :: insert_sorted x r
  end.
Definition sort_dedup (l : list N) : list N := fold_right insert_sorted [] l.

Inductive rmsg :=
| MUnknown
| MExpected (ps : list N)
| MUnexpected (ns : list N)
| MBoth (unexpected expected : list N).      (* "Unexpected {}, expected {}" *)

Record rline := mk_rline { l_msg : rmsg; l_by : option N; l_special : list special }.

Definition line_of_entry (e : tentry) : rline :=
  let ps := sort_dedup (te_pos e) in
  let ns := sort_dedup (te_neg e) in
  mk_rline (match ps, ns with
            | [], [] => MUnknown
            | _ :: _, [] => MExpected ps
            | [], _ :: _ => MUnexpected ns
            | _ :: _, _ :: _ => MBoth ns ps
            end) (te_key e) (te_spec e).

(* BTreeMap iteration order: None < Some r, rules ascending *)
Definition key_ltb (a b : option N) : bool :=
  match a, b with
  | None, Some _ => true
  | Some x, Some y => (x <? y)%N
  | _, _ => false
  end.
Fixpoint insert_entry (e : tentry) (l : list tentry) : list tentry :=
  match l with
  | [] => [e]
  | f :: r => if key_ltb (te_key e) (te_key f) then e :: l else f :: insert_entry e r
  end.
Definition sorted_entries (l : list tentry) : list tentry := fold_right insert_entry [] l.

Definition report (t : tracker) : list rline := map line_of_entry (sorted_entries (t_attempts t)).

(* what a line calls expected / unexpected *)
Definition says_expected (l : rline) : list N :=
  match l_msg l with MExpected ps | MBoth _ ps => ps | _ => [] end.
Definition says_unexpected (l : rline) : list N :=
  match l_msg l with MUnexpected ns | MBoth ns _ => ns | _ => [] end.
