(* Executable model of main/src/position.rs: Position::new, line_col, find_line_start,
   find_line_end, line_of.  Transcribed loop for loop.  Model only: no proofs in this file.

   Strings are UTF-8 byte lists, offsets are byte offsets (nat). *)
From Coq Require Import List NArith Arith Bool.
From PT Require Import Model.Base.
Import ListNotations.
Local Open Scope N_scope.

Definition LF : char := 10.
Definition CR : char := 13.
Definition is_lf (c : char) : bool := c =? LF.

(* result of an operation that may panic, hit `unreachable!()`, or (model only) run out of fuel *)
Inductive lres (A : Type) : Type :=
| LOk (a : A)
| LPanic          (* a Rust panic: slice out of range / not on a boundary / `usize` underflow / explicit panic! *)
| LUnreachable    (* the `None => unreachable!()` arm of line_col *)
| LDead           (* only produced when [trap] is set: the `if pos == 1` arm inside the CRLF case *)
| LFuel.          (* model artefact: fuel exhausted *)
Arguments LOk {A} a.
Arguments LPanic {A}.
Arguments LUnreachable {A}.
Arguments LDead {A}.
Arguments LFuel {A}.

(* `Position::new(input, pos)`: `input.get(pos..).map(..)` *)
Definition pos_new (s : list byte) (p : nat) : option nat :=
  match slice_opt s p (length s) with
  | Some _ => Some p
  | None => None
  end.

(* ---- line_col (position.rs:142-183) ------------------------------------------------------

     let mut pos = self.pos;  let slice = &self.input[..pos];
     let mut chars = slice.chars().peekable();  let mut line_col = (1, 1);
     while pos != 0 { match chars.next() { ... } }

   [chars] is the not yet consumed part of [slice] (`chars.next()` = dec1, `chars.peek()` = dec1
   of what is left after it).  [trap] = true replaces the `if pos == 1 { pos -= 1 }` arm by LDead;
   the real function is [trap = false]; the theorem holds for both, i.e. the arm is dead code.
   `pos -= c.len_utf8()` is a checked subtraction (debug build: panic on underflow). *)
Fixpoint lc_loop (trap : bool) (fuel : nat) (chars : list byte) (pos line col : nat)
  : lres (nat * nat) :=
  if (pos =? 0)%nat then LOk (line, col) else
  match fuel with
  | O => LFuel
  | S f =>
      match dec1 chars with
      | None => LUnreachable
      | Some (c, l) =>
          let rest := skipn l chars in
          if c =? CR then
            match dec1 rest with                         (* chars.peek() *)
            | Some (c2, l2) =>
                if c2 =? LF then
                  let rest2 := skipn l2 rest in          (* chars.next() *)
                  if (pos =? 1)%nat then
                    (if trap then LDead else lc_loop trap f rest2 (pos - 1) (line + 1) 1)
                  else lc_loop trap f rest2 (pos - 2) (line + 1) 1
                else lc_loop trap f rest (pos - 1) line (col + 1)
            | None => lc_loop trap f rest (pos - 1) line (col + 1)
            end
          else if c =? LF then lc_loop trap f rest (pos - 1) (line + 1) 1
          else if (pos <? len_utf8 c)%nat then LPanic
          else lc_loop trap f rest (pos - len_utf8 c) line (col + 1)
      end
  end.

Definition line_col_t (trap : bool) (s : list byte) (p : nat) : lres (nat * nat) :=
  if (length s <? p)%nat then LPanic            (* panic!("position out of bounds") *)
  else match slice_checked s 0 p with            (* &self.input[..pos] *)
       | MPanic => LPanic
       | MOk sl => lc_loop trap p sl p 1 1       (* every iteration lowers pos by >= 1: fuel = pos *)
       end.

Definition line_col (s : list byte) (p : nat) : lres (nat * nat) := line_col_t false s p.

(* ---- char_indices -------------------------------------------------------------------------- *)

(* `str::char_indices()` as a list; every step consumes >= 1 byte so fuel = length suffices.
   `.rev()` of it is modelled by `rev` of this list (a `&str` is valid UTF-8, on which the
   double-ended iterator yields the same items from the back). *)
Fixpoint ci_from (fuel : nat) (l : list byte) (i : nat) : list (nat * char) :=
  match fuel with
  | O => []
  | S f =>
      match dec1 l with
      | None => []
      | Some (c, n) => (i, c) :: ci_from f (skipn n l) (i + n)%nat
      end
  end.

Definition char_indices (s : list byte) : list (nat * char) := ci_from (length s) s 0.

(* `Iterator::skip_while` *)
Fixpoint skip_while {A} (f : A -> bool) (l : list A) : list A :=
  match l with
  | [] => []
  | x :: r => if f x then skip_while f r else l
  end.

(* ---- find_line_start / find_line_end / line_of (position.rs:202-244) --------------------- *)

Definition find_line_start (s : list byte) (pos : nat) : nat :=
  match s with
  | [] => 0%nat
  | _ =>
      match find (fun ic => is_lf (snd ic))
                 (skip_while (fun ic => (pos <=? fst ic)%nat) (rev (char_indices s))) with
      | Some (i, _) => (i + 1)%nat
      | None => 0%nat
      end
  end.

Definition find_line_end (s : list byte) (pos : nat) : nat :=
  match s with
  | [] => 0%nat
  | _ =>
      if (pos =? length s - 1)%nat then length s
      else
        match find (fun ic => is_lf (snd ic))
                   (skip_while (fun ic => (fst ic <? pos)%nat) (char_indices s)) with
        | Some (i, _) => (i + 1)%nat
        | None => length s
        end
  end.

Definition line_of (s : list byte) (p : nat) : lres (list byte) :=
  if (length s <? p)%nat then LPanic            (* panic!("position out of bounds") *)
  else match slice_checked s (find_line_start s p) (find_line_end s p) with
       | MOk t => LOk t
       | MPanic => LPanic
       end.
