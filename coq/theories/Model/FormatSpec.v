(* Declarative statement of C14: what `Span`/`Position` formatting has to show.  Definitions only.

   Lines.  The input is cut after every LF (a final piece without LF is a line; there is no empty
   line after a final LF; the empty input has no line).  The line holding the byte at offset k is
   the one whose index is the number of LF bytes before k.

   What is shown for the span (a, b) of a non-empty input s:
     first line F = the line holding offset a          (a = |s|, only possible for an empty span:
     last line  L = the line holding offset b - 1       the last line);   empty span: L = F
     rows: every line F..L when there are at most 5, otherwise F, F+1, an ellipsis row, L-1, L
     each row: the 1-based line number and the text of the line with control characters replaced
       by their pictures; the part of it inside [a, b) goes through the span formatter
     markers: F = L : under the row, `^` repeated over the display cells of the part inside the span,
                      starting at the display width of the part before it
              F < L : above the first row a `v` at the display width of the part of line F before
                      the span; under the last row a `^` on the last display cell of the part of
                      line L inside the span
   For a Position p: the row of the line holding offset p (the last line at end of input) and a `^`
   at the display width of the part of the line before p.
   The gutter is as wide as the decimal representation of the largest number shown. *)
From Coq Require Import List NArith Arith Bool.
From PT Require Import Model.Base Model.Format.
Import ListNotations.
Local Open Scope nat_scope.

Definition valid_str (cs : list char) : Prop := Forall (fun c => valid_char c = true) cs.

(* ---- lines ---------------------------------------------------------------------------------- *)

(* `str::split_inclusive('\n')` *)
Fixpoint split_incl (s : list byte) : list (list byte) :=
  match s with
  | [] => []
  | b :: r =>
      if (b =? 10)%N then [b] :: split_incl r
      else match split_incl r with
           | [] => [[b]]
           | l :: ls => (b :: l) :: ls
           end
  end.

Definition is_lfb (b : byte) : bool := (b =? 10)%N.
Definition count_lf (l : list byte) : nat := length (filter is_lfb l).

(* 0-based index of the line holding the byte at offset k (k < |s|) *)
Definition line_idx (s : list byte) (k : nat) : nat := count_lf (firstn k s).
Definition nlines (s : list byte) : nat := length (split_incl s).
Definition nth_line (s : list byte) (i : nat) : list byte := nth i (split_incl s) [].
(* byte offset at which line i begins *)
Definition line_off (s : list byte) (i : nat) : nat := length (concat (firstn i (split_incl s))).

(* the line of a cursor at offset k: the line holding it; the last line at end of input *)
Definition cursor_line (s : list byte) (k : nat) : nat :=
  if k <? length s then line_idx s k else nlines s - 1.

Definition first_line (s : list byte) (a b : nat) : nat := cursor_line s a.
Definition last_line (s : list byte) (a b : nat) : nat :=
  if a <? b then line_idx s (b - 1) else cursor_line s a.

(* ---- rows ----------------------------------------------------------------------------------- *)

Record row := mk_row {
  r_num : nat;                 (* 1-based line number *)
  r_before : list char;        (* visualized text of the line before the span *)
  r_in : list char;            (* ... inside the span *)
  r_after : list char          (* ... after the span *)
}.

Definition row_of (s : list byte) (a b i : nat) : row :=
  let off := line_off s i in
  let l := nth_line s i in
  let c1 := Nat.max a off - off in
  let c2 := Nat.min b (off + length l) - off in
  mk_row (S i) (vis (firstn c1 l)) (vis (firstn (c2 - c1) (skipn c1 l))) (vis (skipn c2 l)).

(* which lines get a row: (before the ellipsis, ellipsis?, after the ellipsis) *)
Definition shown (F L : nat) : list nat * bool * list nat :=
  let n := L - F + 1 in
  if n <=? 5 then (seq F n, false, []) else ([F; F + 1], true, [L - 1; L]).

(* the exclusions under which the code as found meets the statement *)
(* F4b: the span (or cursor of an empty span) starts exactly at the start of a line other than the first *)
Definition starts_at_line_start (s : list byte) (a : nat) : bool :=
  (0 <? a) && (a <? length s) && (nth (a - 1) s 0 =? 10)%N.

(* the lines the code as found (and as repaired) takes: the line holding the byte *before* the offset *)
Definition impl_line (s : list byte) (x : nat) : nat := if x =? 0 then 0 else line_idx s (x - 1).

Section Spec.
Variable swidth : list char -> nat.

Definition ndigits (n : nat) : nat := match ceil_log10 n with ROk d => d | _ => 0 end.
Definition num_text (d n : nat) : list char := match fmt_num d n with ROk t => t | _ => [] end.

Definition render_row (d : nat) (r : row) : list piece :=
  [NumP (num_text d (r_num r)); Raw SP; NumP [BAR]]
  ++ raw (SP :: r_before r) ++ [SpanP (r_in r)] ++ raw (r_after r) ++ nl.

(* the row of a Position: nothing goes through the span formatter *)
Definition render_pos_row (d : nat) (r : row) : list piece :=
  [NumP (num_text d (r_num r)); Raw SP; NumP [BAR]]
  ++ raw (SP :: r_before r ++ r_after r) ++ nl.

Definition marker_line (d col : nat) (t : list char) : list piece :=
  gutter d ++ raw (SP :: spaces col) ++ [MarkP t] ++ nl.

Definition ellipsis_row (d : nat) : list piece := gutter d ++ raw [SP; DOT; DOT; DOT] ++ nl.

(* what is printed when the rows run from line F to line L *)
Definition spec_span_at (s : list byte) (a b F L : nat) : list piece :=
  let d := ndigits (L + 1) in
  if F =? L then
    let r := row_of s a b F in
    gutter d ++ nl
    ++ render_row d r
    ++ marker_line d (swidth (r_before r)) (repeat CARET (swidth (r_in r)))
  else
    let rF := row_of s a b F in
    let rL := row_of s a b L in
    let sh := shown F L in
    marker_line d (swidth (r_before rF)) [VEE]
    ++ flat_map (fun i => render_row d (row_of s a b i)) (fst (fst sh))
    ++ (if snd (fst sh) then ellipsis_row d else [])
    ++ flat_map (fun i => render_row d (row_of s a b i)) (snd sh)
    ++ marker_line d (swidth (r_before rL ++ r_in rL) - 1) [CARET].

Definition spec_span (s : list byte) (a b : nat) : list piece :=
  match s with
  | [] => []
  | _ => spec_span_at s a b (first_line s a b) (last_line s a b)
  end.

(* what is printed for a Position when the row is line i *)
Definition spec_pos_at (s : list byte) (p i : nat) : list piece :=
  let d := ndigits (i + 1) in
  let r := row_of s p p i in
  gutter d ++ nl
  ++ render_pos_row d r
  ++ marker_line d (swidth (r_before r)) [CARET].

Definition spec_pos (s : list byte) (p : nat) : list piece :=
  match s with
  | [] => []
  | _ => spec_pos_at s p (cursor_line s p)
  end.

End Spec.

(* the arithmetic form of the picture table *)
Definition pic_spec (c : char) : char :=
  if (c <? 32)%N then (9216 + c)%N else if (c =? 127)%N then 9249%N else c.

(* value of a decimal digit string *)
Definition digits_value (t : list char) : nat :=
  fold_left (fun v c => 10 * v + N.to_nat (c - 48)%N) t 0.
