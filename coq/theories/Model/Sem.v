(* Fuel-indexed interpreters of the typed-node expression language.
   [tparse] follows the `try_parse_partial_with` path of every combinator, [tcheck] the
   `try_check_partial_with` path; they are written separately on purpose (C03 relates them).
   Model only: no proofs here. *)
From Coq Require Import List NArith ZArith Arith Bool.
From PT Require Import Model.Base Model.Stack Model.Texpr Model.SliceSpec.
Import ListNotations.

(* ---- tracker events (the tracker never influences control flow) ---- *)
Inductive event :=
| EEnter (r : N) (pos : nat)                 (* record_during_with: push on the rule stack *)
| EExit (r : N) (pos : nat) (ok : bool)      (* ... pop, maybe record *)
| EPol (b : bool)                            (* positive_during / negative_during *)
| EPolEnd
| EEmptyStack (pos : nat)
| EOutOfBound (pos : nat) (a : Z) (b : option Z).

(* newest event first *)
Record state := mk_state { stk : stack; tr : list event }.

Definition ev (e : event) (st : state) : state := mk_state (stk st) (e :: tr st).
Definition with_stk (s : stack) (st : state) : state := mk_state s (tr st).
Definition with_tr (t : list event) (st : state) : state := mk_state (stk st) t.

Inductive res (A : Type) : Type :=
| Ok (a : A) (st : state)
| Fail (st : state)         (* None: the stack and the tracker keep what the attempt did to them *)
| Panic
| Fuel.
Arguments Ok {A} a st.
Arguments Fail {A} st.
Arguments Panic {A}.
Arguments Fuel {A}.

(* environment of a run *)
Record env := mk_env {
  e_inp : inp;
  e_rules : N -> rdef;
  e_skip : skipdef;
  e_pred : N -> char -> bool;      (* unicode property tables *)
  e_eoi : N;                       (* Rule::EOI *)
  e_ron_fixed : bool;              (* restore_on_none restores by content (repaired code) *)
  e_su_cut : bool;                 (* skip_until compares against text cut at end() (repaired code) *)
  e_rep_min_after : bool           (* RepeatMinMax re-tests the lower bound after the loop (repaired code) *)
}.

Definition resolve (k : sk) (inh : bool) : bool :=
  match k with SkOff => false | SkOn => true | SkInh => inh end.

Definition lift {A B} (m : mres A) (f : A -> res B) : res B :=
  match m with MOk a => f a | MPanic => Panic end.

(* ---- restore_on_none (predefined_node/mod.rs) ---- *)
Definition ron {A} (E : env) (f : state -> res A) (st : state) : res A :=
  if e_ron_fixed E then
    let saved := cache (stk st) in
    match f st with
    | Fail st' => Fail (with_stk (s_push_all saved (s_pop_all (stk st'))) st')
    | r => r
    end
  else
    match f (with_stk (s_snapshot (stk st)) st) with
    | Ok a st' => lift (s_clear_snapshot (stk st')) (fun s => Ok a (with_stk s st'))
    | Fail st' => lift (s_restore (stk st')) (fun s => Fail (with_stk s st'))
    | Panic => Panic
    | Fuel => Fuel
    end.

(* a fresh tracker is used inside the never-failing repetitions: events are dropped *)
Definition notrack {A} (f : state -> res A) (st : state) : res A :=
  match f st with
  | Ok a st' => Ok a (with_tr (tr st) st')
  | Fail st' => Fail (with_tr (tr st) st')
  | r => r
  end.

(* `peek_spans`: match the texts of the given spans one after the other *)
Fixpoint peek_spans (E : env) (sps : list span) (pos : nat) : mres (option nat) :=
  match sps with
  | [] => MOk (Some pos)
  | sp :: rest =>
      mbind (span_str (e_inp E) sp) (fun txt =>
      mbind (i_match_string (e_inp E) txt pos) (fun o =>
        match o with
        | Some pos' => peek_spans E rest pos'
        | None => MOk None
        end))
  end.

(* `stack_slice`: None = out of bound *)
Definition stack_slice (st : stack) (a : Z) (b : option Z) : option (mres (list span)) :=
  match slice_spec a b (Z.of_nat (s_len st)) with
  | None => None
  | Some (s, e) =>
      if (e <=? s)%Z then Some (MOk []) else Some (s_index st (Z.to_nat s) (Z.to_nat e))
  end.

Definition newline_bytes : list (list byte * nlkind) :=
  [([13; 10]%N, NlCRLF); ([10]%N, NlLF); ([13]%N, NlCR)].

Section Step.
  Variable E : env.
  (* the interpreters one unit of fuel below *)
  Variable P : bool -> texpr -> nat -> state -> res (nat * tnode).
  Variable C : bool -> texpr -> nat -> state -> res nat.

  Let I := e_inp E.

  (* ---------------- leaves shared by both paths ---------------- *)

  Definition leaf_match (m : mres (option nat)) (st : state) (k : nat -> res (nat * tnode)) : res (nat * tnode) :=
    lift m (fun o => match o with Some pos' => k pos' | None => Fail st end).

  Definition leaf_check (m : mres (option nat)) (st : state) : res nat :=
    lift m (fun o => match o with Some pos' => Ok pos' st | None => Fail st end).

  Fixpoint newline_p (alts : list (list byte * nlkind)) (pos : nat) (st : state) : res (nat * tnode) :=
    match alts with
    | [] => Fail st
    | (bs, k) :: rest =>
        lift (i_match_string I bs pos) (fun o =>
          match o with
          | Some pos' => Ok (pos', NNewline k) st
          | None => newline_p rest pos st
          end)
    end.

  Fixpoint newline_c (alts : list (list byte * nlkind)) (pos : nat) (st : state) : res nat :=
    match alts with
    | [] => Fail st
    | (bs, _) :: rest =>
        lift (i_match_string I bs pos) (fun o =>
          match o with
          | Some pos' => Ok pos' st
          | None => newline_c rest pos st
          end)
    end.

  (* ---------------- never-failing skip (generics::Skipped) ---------------- *)

  (* AtomicRepeat::parse_with *)
  Fixpoint arep_p (n : nat) (inh : bool) (e : texpr) (pos : nat) (st : state) (acc : list tnode)
    : res (nat * tnode) :=
    match n with
    | O => Fuel
    | S n' =>
        match ron E (notrack (P inh e pos)) st with
        | Ok (pos', t) st' => arep_p n' inh e pos' st' (t :: acc)
        | Fail st' => Ok (pos, NAtomicRep (rev acc)) st'
        | Panic => Panic
        | Fuel => Fuel
        end
    end.

  (* AtomicRepeat::check_with *)
  Fixpoint arep_c (n : nat) (inh : bool) (e : texpr) (pos : nat) (st : state) : res nat :=
    match n with
    | O => Fuel
    | S n' =>
        match ron E (notrack (C inh e pos)) st with
        | Ok pos' st' => arep_c n' inh e pos' st'
        | Fail st' => Ok pos st'
        | Panic => Panic
        | Fuel => Fuel
        end
    end.

  Variable loopfuel : nat.

  (* Skip::parse_with / Skip::check_with for the grammar's skip type *)
  Definition skip_p (pos : nat) (st : state) : res (nat * tnode) :=
    match e_skip E with
    | SkipEmpty => Ok (pos, NEmpty) st
    | SkipRep e => arep_p loopfuel false e pos st []
    end.

  Definition skip_c (pos : nat) (st : state) : res nat :=
    match e_skip E with
    | SkipEmpty => Ok pos st
    | SkipRep e => arep_c loopfuel false e pos st
    end.

  (* `Skip::default()` *)
  Definition skip_default : tnode :=
    match e_skip E with SkipEmpty => NEmpty | SkipRep _ => NAtomicRep [] end.

  (* the `skipped: [Skip; SKIP]` array in front of an element: SKIP = 0 gives an empty array;
     SKIP = 1 gives one entry, a default value where no skipping is done (first element / iteration 0) *)
  Definition pre_skip_p (b doit : bool) (pos : nat) (st : state) : res (nat * list tnode) :=
    if b then
      if doit then
        match skip_p pos st with
        | Ok (pos', t) st' => Ok (pos', [t]) st'
        | Fail st' => Fail st'
        | Panic => Panic
        | Fuel => Fuel
        end
      else Ok (pos, [skip_default]) st
    else Ok (pos, []) st.

  Definition pre_skip_c (b : bool) (pos : nat) (st : state) : res nat :=
    if b then skip_c pos st else Ok pos st.

  (* ---------------- sequence (sequence.rs) ---------------- *)

  Fixpoint seq_p (b inh : bool) (es : list texpr) (first : bool) (pos : nat) (st : state)
           (acc : list (list tnode * tnode)) : res (nat * tnode) :=
    match es with
    | [] => Ok (pos, NSeq (rev acc)) st
    | e :: es' =>
        match pre_skip_p b (negb first) pos st with
        | Ok (pos1, skipped) st1 =>
            match P inh e pos1 st1 with
            | Ok (pos2, t) st2 => seq_p b inh es' false pos2 st2 ((skipped, t) :: acc)
            | Fail st2 => Fail st2
            | Panic => Panic
            | Fuel => Fuel
            end
        | Fail st1 => Fail st1
        | Panic => Panic
        | Fuel => Fuel
        end
    end.

  Fixpoint seq_c (b inh : bool) (es : list texpr) (first : bool) (pos : nat) (st : state) : res nat :=
    match es with
    | [] => Ok pos st
    | e :: es' =>
        match pre_skip_c (negb first && b) pos st with
        | Ok pos1 st1 =>
            match C inh e pos1 st1 with
            | Ok pos2 st2 => seq_c b inh es' false pos2 st2
            | Fail st2 => Fail st2
            | Panic => Panic
            | Fuel => Fuel
            end
        | Fail st1 => Fail st1
        | Panic => Panic
        | Fuel => Fuel
        end
    end.

  (* ---------------- choice (choices.rs) ---------------- *)

  Fixpoint choice_p (inh : bool) (n : nat) (es : list texpr) (i : nat) (pos : nat) (st : state) : res (nat * tnode) :=
    match es with
    | [] => Fail st
    | e :: es' =>
        match ron E (P inh e pos) st with
        | Ok (pos', t) st' => Ok (pos', NChoice n i t) st'
        | Fail st' => choice_p inh n es' (S i) pos st'
        | Panic => Panic
        | Fuel => Fuel
        end
    end.

  Fixpoint choice_c (inh : bool) (es : list texpr) (pos : nat) (st : state) : res nat :=
    match es with
    | [] => Fail st
    | e :: es' =>
        match ron E (C inh e pos) st with
        | Ok pos' st' => Ok pos' st'
        | Fail st' => choice_c inh es' pos st'
        | Panic => Panic
        | Fuel => Fuel
        end
    end.

  (* ---------------- repetition (repetition.rs) ---------------- *)

  (* try_parse_unit: skip only when i > 0 *)
  Definition unit_p (b inh : bool) (e : texpr) (i : nat) (pos : nat) (st : state)
    : res (nat * (list tnode * tnode)) :=
    match pre_skip_p b (negb (i =? 0)%nat) pos st with
    | Ok (pos1, skipped) st1 =>
        match P inh e pos1 st1 with
        | Ok (pos2, t) st2 => Ok (pos2, (skipped, t)) st2
        | Fail st2 => Fail st2
        | Panic => Panic
        | Fuel => Fuel
        end
    | Fail st1 => Fail st1
    | Panic => Panic
    | Fuel => Fuel
    end.

  Definition unit_c (b inh : bool) (e : texpr) (i : nat) (pos : nat) (st : state) : res nat :=
    match pre_skip_c (b && negb (i =? 0)%nat) pos st with
    | Ok pos1 st1 => C inh e pos1 st1
    | Fail st1 => Fail st1
    | Panic => Panic
    | Fuel => Fuel
    end.

  Definition bounded (mx : option nat) : bool := match mx with Some _ => true | None => false end.

  Definition below (i : nat) (mx : option nat) : bool :=
    match mx with None => true | Some m => (i <? m)%nat end.

  (* the `for i in 0..MAX` / `for i in 0usize..` loop; [n] is loop fuel *)
  Fixpoint rep_p (n : nat) (b inh : bool) (mn : nat) (mx : option nat) (e : texpr) (i : nat)
           (pos : nat) (st : state) (acc : list (list tnode * tnode)) : res (nat * tnode) :=
    if below i mx then
      match n with
      | O => Fuel
      | S n' =>
          match ron E (unit_p b inh e i pos) st with
          | Ok (pos', it) st' => rep_p n' b inh mn mx e (S i) pos' st' (it :: acc)
          | Fail st' => if (i <? mn)%nat then Fail st' else Ok (pos, NRep (bounded mx) (rev acc)) st'
          | Panic => Panic
          | Fuel => Fuel
          end
      end
    else
      (* loop left by exhausting 0..MAX *)
      if e_rep_min_after E && (i <? mn)%nat then Fail st else Ok (pos, NRep (bounded mx) (rev acc)) st.

  Fixpoint rep_c (n : nat) (b inh : bool) (mn : nat) (mx : option nat) (e : texpr) (i : nat)
           (pos : nat) (st : state) : res nat :=
    if below i mx then
      match n with
      | O => Fuel
      | S n' =>
          match ron E (unit_c b inh e i pos) st with
          | Ok pos' st' => rep_c n' b inh mn mx e (S i) pos' st'
          | Fail st' => if (i <? mn)%nat then Fail st' else Ok pos st'
          | Panic => Panic
          | Fuel => Fuel
          end
      end
    else
      if e_rep_min_after E && (i <? mn)%nat then Fail st else Ok pos st.

  (* ---------------- [T; N] (typed_node.rs) ---------------- *)

  Fixpoint arr_p (n : nat) (inh : bool) (e : texpr) (pos : nat) (st : state) (acc : list tnode)
    : res (nat * tnode) :=
    match n with
    | O => Ok (pos, NArr (rev acc)) st
    | S n' =>
        match P inh e pos st with
        | Ok (pos', t) st' => arr_p n' inh e pos' st' (t :: acc)
        | Fail st' => Fail st'
        | Panic => Panic
        | Fuel => Fuel
        end
    end.

  Fixpoint arr_c (n : nat) (inh : bool) (e : texpr) (pos : nat) (st : state) : res nat :=
    match n with
    | O => Ok pos st
    | S n' =>
        match C inh e pos st with
        | Ok pos' st' => arr_c n' inh e pos' st'
        | Fail st' => Fail st'
        | Panic => Panic
        | Fuel => Fuel
        end
    end.

  (* ---------------- stack nodes (predefined_node/mod.rs) ---------------- *)

  Definition peek_all_spans (st : state) : list span := cache (stk st).   (* top to bottom *)

  (* ---------------- one step of each path ---------------- *)

  Definition step_p (inh : bool) (e : texpr) (pos : nat) (st : state) : res (nat * tnode) :=
    match e with
    | TStr s => leaf_match (i_match_string I s pos) st (fun pos' => Ok (pos', NStr) st)
    | TInsens s =>
        leaf_match (i_match_insens I s pos) st (fun pos' =>
          lift (i_span I pos pos') (fun sp =>
          lift (span_str I sp) (fun _ => Ok (pos', NInsens pos pos') st)))
    | TRange lo hi =>
        lift (i_match_char I (fun c => (lo <=? c)%N && (c <=? hi)%N) pos) (fun o =>
          match o with
          | Some (pos', c) =>
              (* `start.span(input)`, `span.as_str().chars().next().unwrap()` *)
              lift (i_span I pos pos') (fun sp =>
              lift (span_str I sp) (fun txt =>
                match dec1 txt with
                | Some (c', _) => Ok (pos', NChar CkRange c') st
                | None => Panic
                end))
          | None => Fail st
          end)
    | TAny =>
        lift (i_match_char I (fun _ => true) pos) (fun o =>
          match o with Some (pos', c) => Ok (pos', NChar CkAny c) st | None => Fail st end)
    | TCharBy p =>
        lift (i_match_char I (e_pred E p) pos) (fun o =>
          match o with Some (pos', c) => Ok (pos', NChar (CkProp p) c) st | None => Fail st end)
    | TSoi => if i_at_start I pos then Ok (pos, NSoi) st else Fail st
    | TEoi => if i_at_end I pos then Ok (pos, NEoi) st else Fail st
    | TNewline => newline_p newline_bytes pos st
    | TSkipUntil ss =>
        let '(_, pos') := i_skip_until I (e_su_cut E) ss pos in
        lift (i_span I pos pos') (fun _ => Ok (pos', NSpanned KSkip pos pos') st)
    | TSkipChars n =>
        leaf_match (i_skip I n pos) st (fun pos' =>
          lift (i_span I pos pos') (fun _ => Ok (pos', NSpanned KSkipChar pos pos') st))
    | TSeq k es => seq_p (resolve k inh) inh es true pos st []
    | TChoice es => choice_p inh (length es) es 0 pos st
    | TOpt e1 =>
        match ron E (P inh e1 pos) st with
        | Ok (pos', t) st' => Ok (pos', NOpt (Some t)) st'
        | Fail st' => Ok (pos, NOpt None) st'
        | Panic => Panic
        | Fuel => Fuel
        end
    | TRep k mn mx e1 => rep_p loopfuel (resolve k inh) inh mn mx e1 0 pos st []
    | TAtomicRep e1 => arep_p loopfuel inh e1 pos st []
    | TPos e1 =>
        match P inh e1 pos (with_stk (s_snapshot (stk st)) (ev (EPol true) st)) with
        | Ok (_, t) st' => lift (s_restore (stk st')) (fun s => Ok (pos, NPos t) (ev EPolEnd (with_stk s st')))
        | Fail st' => lift (s_restore (stk st')) (fun s => Fail (ev EPolEnd (with_stk s st')))
        | Panic => Panic
        | Fuel => Fuel
        end
    | TNeg e1 =>
        (* the operand of a negative predicate goes through the *check* path even while parsing *)
        match C inh e1 pos (with_stk (s_snapshot (stk st)) (ev (EPol false) st)) with
        | Ok _ st' => lift (s_restore (stk st')) (fun s => Fail (ev EPolEnd (with_stk s st')))
        | Fail st' => lift (s_restore (stk st')) (fun s => Ok (pos, NNeg) (ev EPolEnd (with_stk s st')))
        | Panic => Panic
        | Fuel => Fuel
        end
    | TPush e1 =>
        match P inh e1 pos st with
        | Ok (pos', t) st' =>
            lift (i_span I pos pos') (fun sp => Ok (pos', NPush t) (with_stk (s_push sp (stk st')) st'))
        | Fail st' => Fail st'
        | Panic => Panic
        | Fuel => Fuel
        end
    | TPeek =>
        match s_peek (stk st) with
        | Some sp =>
            lift (span_str I sp) (fun txt =>
            leaf_match (i_match_string I txt pos) st (fun pos' =>
              lift (i_span I pos pos') (fun _ => Ok (pos', NSpanned KPeek pos pos') st)))
        | None => Fail (ev (EEmptyStack pos) st)
        end
    | TPop =>
        match s_pop (stk st) with
        | (Some sp, s') =>
            let st' := with_stk s' st in
            lift (span_str I sp) (fun txt =>
            leaf_match (i_match_string I txt pos) st' (fun pos' =>
              Ok (pos', NSpanned KPop (fst sp) (snd sp)) st'))
        | (None, _) => Fail (ev (EEmptyStack pos) st)
        end
    | TDrop =>
        match s_pop (stk st) with
        | (Some _, s') => Ok (pos, NDrop) (with_stk s' st)
        | (None, _) => Fail (ev (EEmptyStack pos) st)
        end
    | TPeekAll =>
        lift (s_index (stk st) 0 (s_len (stk st))) (fun bot_first =>
        leaf_match (peek_spans E (rev bot_first) pos) st (fun pos' =>
          lift (i_span I pos pos') (fun _ => Ok (pos', NSpanned KPeekAll pos pos') st)))
    | TPopAll =>
        lift (s_index (stk st) 0 (s_len (stk st))) (fun bot_first =>
        leaf_match (peek_spans E (rev bot_first) pos) st (fun pos' =>
          lift (i_span I pos pos') (fun _ =>
            Ok (pos', NSpanned KPopAll pos pos') (with_stk (s_pop_all (stk st)) st))))
    | TPeekSlice a b =>
        match stack_slice (stk st) a b with
        | None => Fail (ev (EOutOfBound pos a b) st)
        | Some m =>
            lift m (fun sps =>
            leaf_match (peek_spans E sps pos) st (fun pos' =>
              lift (i_span I pos pos') (fun _ => Ok (pos', NSlice (match b with Some _ => true | None => false end)) st)))
        end
    | TArr n e1 => arr_p n inh e1 pos st []
    | TPair a b =>
        match P inh a pos st with
        | Ok (pos1, t1) st1 =>
            match P inh b pos1 st1 with
            | Ok (pos2, t2) st2 => Ok (pos2, NPair t1 t2) st2
            | Fail st2 => Fail st2
            | Panic => Panic
            | Fuel => Fuel
            end
        | Fail st1 => Fail st1
        | Panic => Panic
        | Fuel => Fuel
        end
    | TEmpty => Ok (pos, NEmpty) st
    | TFail => Fail st
    | TRule r arg =>
        let d := e_rules E r in
        let inh' := resolve arg inh in
        match r_emis d with
        | EmExpr =>
            match P inh' (r_body d) pos st with
            | Ok (pos', t) st' => Ok (pos', NRule r (Some t) None) st'
            | Fail st' => Fail st'
            | Panic => Panic
            | Fuel => Fuel
            end
        | EmSpan =>
            (* span-only rules are matched through the check path *)
            match C inh' (r_body d) pos (ev (EEnter r pos) st) with
            | Ok pos' st' =>
                lift (i_span I pos pos') (fun sp => Ok (pos', NRule r None (Some sp)) (ev (EExit r pos true) st'))
            | Fail st' => Fail (ev (EExit r pos false) st')
            | Panic => Panic
            | Fuel => Fuel
            end
        | EmBoth =>
            match P inh' (r_body d) pos (ev (EEnter r pos) st) with
            | Ok (pos', t) st' =>
                lift (i_span I pos pos') (fun sp => Ok (pos', NRule r (Some t) (Some sp)) (ev (EExit r pos true) st'))
            | Fail st' => Fail (ev (EExit r pos false) st')
            | Panic => Panic
            | Fuel => Fuel
            end
        end
    end.

  Definition step_c (inh : bool) (e : texpr) (pos : nat) (st : state) : res nat :=
    match e with
    | TStr s => leaf_check (i_match_string I s pos) st
    | TInsens s => leaf_check (i_match_insens I s pos) st
    | TRange lo hi =>
        lift (i_match_char I (fun c => (lo <=? c)%N && (c <=? hi)%N) pos) (fun o =>
          match o with Some (pos', _) => Ok pos' st | None => Fail st end)
    | TAny =>
        lift (i_match_char I (fun _ => true) pos) (fun o =>
          match o with Some (pos', _) => Ok pos' st | None => Fail st end)
    | TCharBy p =>
        lift (i_match_char I (e_pred E p) pos) (fun o =>
          match o with Some (pos', _) => Ok pos' st | None => Fail st end)
    | TSoi => if i_at_start I pos then Ok pos st else Fail st
    | TEoi => if i_at_end I pos then Ok pos st else Fail st
    | TNewline => newline_c newline_bytes pos st
    | TSkipUntil ss => let '(_, pos') := i_skip_until I (e_su_cut E) ss pos in Ok pos' st
    | TSkipChars n => leaf_check (i_skip I n pos) st
    | TSeq k es => seq_c (resolve k inh) inh es true pos st
    | TChoice es => choice_c inh es pos st
    | TOpt e1 =>
        match ron E (C inh e1 pos) st with
        | Ok pos' st' => Ok pos' st'
        | Fail st' => Ok pos st'
        | Panic => Panic
        | Fuel => Fuel
        end
    | TRep k mn mx e1 => rep_c loopfuel (resolve k inh) inh mn mx e1 0 pos st
    | TAtomicRep e1 => arep_c loopfuel inh e1 pos st
    | TPos e1 =>
        match C inh e1 pos (with_stk (s_snapshot (stk st)) (ev (EPol true) st)) with
        | Ok _ st' => lift (s_restore (stk st')) (fun s => Ok pos (ev EPolEnd (with_stk s st')))
        | Fail st' => lift (s_restore (stk st')) (fun s => Fail (ev EPolEnd (with_stk s st')))
        | Panic => Panic
        | Fuel => Fuel
        end
    | TNeg e1 =>
        match C inh e1 pos (with_stk (s_snapshot (stk st)) (ev (EPol false) st)) with
        | Ok _ st' => lift (s_restore (stk st')) (fun s => Fail (ev EPolEnd (with_stk s st')))
        | Fail st' => lift (s_restore (stk st')) (fun s => Ok pos (ev EPolEnd (with_stk s st')))
        | Panic => Panic
        | Fuel => Fuel
        end
    | TPush e1 =>
        match C inh e1 pos st with
        | Ok pos' st' =>
            lift (i_span I pos pos') (fun sp => Ok pos' (with_stk (s_push sp (stk st')) st'))
        | Fail st' => Fail st'
        | Panic => Panic
        | Fuel => Fuel
        end
    | TPeek =>
        match s_peek (stk st) with
        | Some sp => lift (span_str I sp) (fun txt => leaf_check (i_match_string I txt pos) st)
        | None => Fail (ev (EEmptyStack pos) st)
        end
    | TPop =>
        match s_pop (stk st) with
        | (Some sp, s') =>
            let st' := with_stk s' st in
            lift (span_str I sp) (fun txt => leaf_check (i_match_string I txt pos) st')
        | (None, _) => Fail (ev (EEmptyStack pos) st)
        end
    | TDrop =>
        match s_pop (stk st) with
        | (Some _, s') => Ok pos (with_stk s' st)
        | (None, _) => Fail (ev (EEmptyStack pos) st)
        end
    | TPeekAll =>
        lift (s_index (stk st) 0 (s_len (stk st))) (fun bot_first =>
        lift (peek_spans E (rev bot_first) pos) (fun o =>
          match o with
          | Some pos' => lift (i_span I pos pos') (fun _ => Ok pos' st)
          | None => Fail st
          end))
    | TPopAll =>
        lift (s_index (stk st) 0 (s_len (stk st))) (fun bot_first =>
        lift (peek_spans E (rev bot_first) pos) (fun o =>
          match o with
          | Some pos' => lift (i_span I pos pos') (fun _ => Ok pos' (with_stk (s_pop_all (stk st)) st))
          | None => Fail st
          end))
    | TPeekSlice a b =>
        match stack_slice (stk st) a b with
        | None => Fail (ev (EOutOfBound pos a b) st)
        | Some m =>
            lift m (fun sps =>
            lift (peek_spans E sps pos) (fun o =>
              match o with
              | Some pos' => lift (i_span I pos pos') (fun _ => Ok pos' st)
              | None => Fail st
              end))
        end
    | TArr n e1 => arr_c n inh e1 pos st
    | TPair a b =>
        match C inh a pos st with
        | Ok pos1 st1 => C inh b pos1 st1
        | Fail st1 => Fail st1
        | Panic => Panic
        | Fuel => Fuel
        end
    | TEmpty => Ok pos st
    | TFail => Fail st
    | TRule r arg =>
        let d := e_rules E r in
        let inh' := resolve arg inh in
        match r_emis d with
        | EmExpr => C inh' (r_body d) pos st
        | _ =>
            match C inh' (r_body d) pos (ev (EEnter r pos) st) with
            | Ok pos' st' => Ok pos' (ev (EExit r pos true) st')
            | Fail st' => Fail (ev (EExit r pos false) st')
            | Panic => Panic
            | Fuel => Fuel
            end
        end
    end.
End Step.

Fixpoint tcheck (E : env) (fuel : nat) (inh : bool) (e : texpr) (pos : nat) (st : state) : res nat :=
  match fuel with
  | O => Fuel
  | S n => step_c E (tcheck E n) n inh e pos st
  end.

Fixpoint tparse (E : env) (fuel : nat) (inh : bool) (e : texpr) (pos : nat) (st : state)
  : res (nat * tnode) :=
  match fuel with
  | O => Fuel
  | S n => step_p E (tparse E n) (tcheck E n) n inh e pos st
  end.

(* ---------------- entry points (typed_node.rs, rule.rs) ---------------- *)

Definition st0 : state := mk_state stack_new [].

(* Skip::parse_with at top level (IGNORED of rule::parse) *)
Definition top_skip_p (E : env) (fuel : nat) (pos : nat) (st : state) : res (nat * tnode) :=
  skip_p E (tparse E fuel) fuel pos st.
Definition top_skip_c (E : env) (fuel : nat) (pos : nat) (st : state) : res nat :=
  skip_c E (tcheck E fuel) fuel pos st.

(* the EOI attempt of the full-parse wrappers: record_during_with(input, EOI, Rule::EOI) *)
Definition eoi_attempt (E : env) (pos : nat) (st : state) : res unit :=
  let st1 := ev (EEnter (e_eoi E) pos) st in
  if i_at_end (e_inp E) pos
  then Ok tt (ev (EExit (e_eoi E) pos true) st1)
  else Fail (ev (EExit (e_eoi E) pos false) st1).

(* does `impl_parse!` pick the variant without trailing skip? (atomicity = true, or the EOI rule) *)
Definition no_ignore (E : env) (r : N) : bool :=
  (r =? e_eoi E)%N || match r_atom (e_rules E r) with Some true => true | _ => false end.

(* try_parse_partial: the rule struct itself at INHERITED = 1 *)
Definition try_parse_partial (E : env) (fuel : nat) (r : N) : res (nat * tnode) :=
  tparse E fuel true (TRule r SkOn) (i_start (e_inp E)) st0.

Definition try_check_partial (E : env) (fuel : nat) (r : N) : res nat :=
  tcheck E fuel true (TRule r SkOn) (i_start (e_inp E)) st0.

(* try_parse: rule::parse / rule::parse_without_ignore *)
Definition try_parse (E : env) (fuel : nat) (r : N) : res tnode :=
  match try_parse_partial E fuel r with
  | Ok (pos, t) st =>
      if no_ignore E r then
        match eoi_attempt E pos st with
        | Ok _ st' => Ok t st'
        | Fail st' => Fail st'
        | Panic => Panic
        | Fuel => Fuel
        end
      else
        match top_skip_p E fuel pos st with
        | Ok (pos', _) st' =>
            match eoi_attempt E pos' st' with
            | Ok _ st'' => Ok t st''
            | Fail st'' => Fail st''
            | Panic => Panic
            | Fuel => Fuel
            end
        | Fail st' => Fail st'
        | Panic => Panic
        | Fuel => Fuel
        end
  | Fail st => Fail st
  | Panic => Panic
  | Fuel => Fuel
  end.

Definition try_check (E : env) (fuel : nat) (r : N) : res unit :=
  match try_check_partial E fuel r with
  | Ok pos st =>
      if no_ignore E r then eoi_attempt E pos st
      else
        match top_skip_c E fuel pos st with
        | Ok pos' st' => eoi_attempt E pos' st'
        | Fail st' => Fail st'
        | Panic => Panic
        | Fuel => Fuel
        end
  | Fail st => Fail st
  | Panic => Panic
  | Fuel => Fuel
  end.
