(* Bytes, UTF-8, and the three input cursors of main/src/input.rs.
   Model only: no proofs in this file. *)
From Coq Require Import List NArith Arith Bool.
Import ListNotations.
Local Open Scope N_scope.

Definition byte := N.   (* 0..255 *)
Definition char := N.   (* Unicode scalar value *)

(* ---- UTF-8 ---------------------------------------------------------------- *)

Definition len_utf8 (c : char) : nat :=
  if c <? 128 then 1%nat else if c <? 2048 then 2%nat else if c <? 65536 then 3%nat else 4%nat.

Definition enc (c : char) : list byte :=
  if c <? 128 then [c]
  else if c <? 2048 then [192 + c / 64; 128 + c mod 64]
  else if c <? 65536 then [224 + c / 4096; 128 + (c / 64) mod 64; 128 + c mod 64]
  else [240 + c / 262144; 128 + (c / 4096) mod 64; 128 + (c / 64) mod 64; 128 + c mod 64].

Definition encode (cs : list char) : list byte := flat_map enc cs.

Definition valid_char (c : char) : bool :=
  (c <? 1114112) && negb ((55296 <=? c) && (c <? 57344)).

Definition is_cont (b : byte) : bool := (128 <=? b) && (b <? 192).

(* first char of a byte string, as `str::chars().next()` decodes it *)
Definition dec1 (l : list byte) : option (char * nat) :=
  match l with
  | [] => None
  | b0 :: r =>
      if b0 <? 128 then Some (b0, 1%nat)
      else if b0 <? 224 then
        match r with
        | b1 :: _ => Some ((b0 - 192) * 64 + (b1 - 128), 2%nat)
        | _ => None
        end
      else if b0 <? 240 then
        match r with
        | b1 :: b2 :: _ => Some ((b0 - 224) * 4096 + (b1 - 128) * 64 + (b2 - 128), 3%nat)
        | _ => None
        end
      else
        match r with
        | b1 :: b2 :: b3 :: _ =>
            Some ((b0 - 240) * 262144 + (b1 - 128) * 4096 + (b2 - 128) * 64 + (b3 - 128), 4%nat)
        | _ => None
        end
  end.

(* `str::is_char_boundary` *)
Definition is_boundary (s : list byte) (k : nat) : bool :=
  (k =? 0)%nat ||
  match nth_error s k with
  | Some b => negb (is_cont b)
  | None => (k =? length s)%nat
  end.

(* ---- results of operations that may panic -------------------------------- *)

Inductive mres (A : Type) : Type :=
| MOk (a : A)
| MPanic.
Arguments MOk {A} a.
Arguments MPanic {A}.

Definition mbind {A B} (m : mres A) (f : A -> mres B) : mres B :=
  match m with MOk a => f a | MPanic => MPanic end.

(* `&s[a..b]` (checked slicing; in release builds `get_unchecked` is used for the
   remaining-input accessor: a violated check is undefined behaviour there, modelled
   by the same MPanic) *)
Definition slice_checked (s : list byte) (a b : nat) : mres (list byte) :=
  if (a <=? b)%nat && (b <=? length s)%nat && is_boundary s a && is_boundary s b
  then MOk (firstn (b - a) (skipn a s))
  else MPanic.

(* `s.get(a..b)` *)
Definition slice_opt (s : list byte) (a b : nat) : option (list byte) :=
  if (a <=? b)%nat && (b <=? length s)%nat && is_boundary s a && is_boundary s b
  then Some (firstn (b - a) (skipn a s))
  else None.

(* ---- inputs --------------------------------------------------------------- *)

Inductive iform := FStr | FPos | FSpan.

(* the (parent string, start, end) of an `Input`; the cursor is threaded separately.
   FStr : Position from `&str` (start 0, end len);  FPos : SubInput1 (start a, end len);
   FSpan : SubInput2 (start a, end b). *)
Record inp := mk_inp { parent : list byte; istart : nat; iend : nat; form : iform }.

Definition inp_of_str (s : list byte) : inp := mk_inp s 0 (length s) FStr.
Definition inp_of_pos (s : list byte) (a : nat) : inp := mk_inp s a (length s) FPos.
Definition inp_of_span (s : list byte) (a b : nat) : inp := mk_inp s a b FSpan.

(* `Input::end()` *)
Definition i_end (i : inp) : nat :=
  match form i with FSpan => iend i | _ => length (parent i) end.
(* `Input::start()` *)
Definition i_start (i : inp) : nat :=
  match form i with FStr => 0%nat | _ => istart i end.

(* `Input::get()` : the unconsumed text *)
Definition i_get (i : inp) (cur : nat) : mres (list byte) :=
  slice_checked (parent i) cur (i_end i).

Fixpoint is_prefix (p l : list byte) : bool :=
  match p, l with
  | [], _ => true
  | x :: p', y :: l' => (x =? y) && is_prefix p' l'
  | _ :: _, [] => false
  end.

(* `match_string` *)
Definition i_match_string (i : inp) (s : list byte) (cur : nat) : mres (option nat) :=
  mbind (i_get i cur) (fun rest =>
    MOk (if is_prefix s rest then Some (cur + length s)%nat else None)).

Definition to_lower (b : byte) : byte := if (65 <=? b) && (b <=? 90) then b + 32 else b.

Fixpoint eq_ignore_case (a b : list byte) : bool :=
  match a, b with
  | [], [] => true
  | x :: a', y :: b' => (to_lower x =? to_lower y) && eq_ignore_case a' b'
  | _, _ => false
  end.

(* `match_insensitive`: `get().get(..len)` then `eq_ignore_ascii_case` *)
Definition i_match_insens (i : inp) (s : list byte) (cur : nat) : mres (option nat) :=
  mbind (i_get i cur) (fun rest =>
    MOk (match slice_opt rest 0 (length s) with
         | Some pre => if eq_ignore_case pre s then Some (cur + length s)%nat else None
         | None => None
         end)).

(* `skip_until` (trait default).  [cut] = whether the text compared against the needles
   is cut at end() (the repaired code) or runs to the end of the parent string. *)
Definition su_hit (i : inp) (cut : bool) (ss : list (list byte)) (from : nat) : bool :=
  match slice_opt (parent i) from (if cut then i_end i else length (parent i)) with
  | Some bytes => existsb (fun s => is_prefix s bytes) ss
  | None => false
  end.

Fixpoint su_scan (i : inp) (cut : bool) (ss : list (list byte)) (from n : nat) : option nat :=
  match n with
  | O => None
  | S n' => if su_hit i cut ss from then Some from else su_scan i cut ss (S from) n'
  end.

Definition i_skip_until (i : inp) (cut : bool) (ss : list (list byte)) (cur : nat) : bool * nat :=
  match su_scan i cut ss cur (i_end i - cur) with
  | Some p => (true, p)
  | None => (false, i_end i)
  end.

(* `skip(n)`: n chars *)
Fixpoint skip_chars_len (rest : list byte) (n : nat) (acc : nat) : option nat :=
  match n with
  | O => Some acc
  | S n' =>
      match dec1 rest with
      | Some (_, l) => skip_chars_len (skipn l rest) n' (acc + l)%nat
      | None => None
      end
  end.

Definition i_skip (i : inp) (n : nat) (cur : nat) : mres (option nat) :=
  mbind (i_get i cur) (fun rest =>
    MOk (match skip_chars_len rest n 0 with Some l => Some (cur + l)%nat | None => None end)).

(* `match_char_by` / `match_range` / `next` *)
Definition i_match_char (i : inp) (f : char -> bool) (cur : nat) : mres (option (nat * char)) :=
  mbind (i_get i cur) (fun rest =>
    MOk (match dec1 rest with
         | Some (c, l) => if f c then Some ((cur + l)%nat, c) else None
         | None => None
         end)).

Definition i_at_start (i : inp) (cur : nat) : bool := (cur =? i_start i)%nat.
Definition i_at_end (i : inp) (cur : nat) : bool := (cur =? i_end i)%nat.

(* `start.span(end)`: Position::new_unchecked x2 and Span::new_unchecked carry debug assertions *)
Definition i_span (i : inp) (a b : nat) : mres (nat * nat) :=
  match slice_opt (parent i) a b with
  | Some _ => MOk (a, b)
  | None => MPanic
  end.

(* `span.as_str()`: checked slicing in every profile *)
Definition span_str (i : inp) (sp : nat * nat) : mres (list byte) :=
  slice_checked (parent i) (fst sp) (snd sp).
