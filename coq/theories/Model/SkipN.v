(* Explicit skip counts: a small, self-contained model of the raw repetition / sequence combinators of the
   runtime crate with `skipped: [Skip; SKIP]` (main/src/predefined_node/repetition.rs, main/src/sequence.rs).

   `RepeatMin<Skipped<T, Skip, SKIP>, MIN>`, `RepeatMinMax<Skipped<T, Skip, SKIP>, MIN, MAX>` and
   `SeqN<Skipped<T0, Skip, SKIP>, ...>` take ANY count SKIP and ANY never-failing node Skip.  The parse path
   (`try_parse_partial_with` / `parse_with`) and the check path (`try_check_partial_with` / `check_with`) are
   modelled by two separate families of functions, each running its own loops.

   Definitions only (no proofs): see Proofs/SkipNProofs.v. *)
From Coq Require Import List NArith Arith Bool.
From PT Require Import Model.Base.
Import ListNotations.

(* ---------------- nodes, values, results ---------------- *)

Inductive snode :=
| SStr (s : list byte)                                     (* Str<..> *)
| SEmpty                                                   (* Empty : matches nothing, never fails *)
| SChoice (a b : snode)                                    (* Choice2 *)
| SSeq (els : list snode) (skip : snode) (k : nat)         (* SeqN<Skipped<T0, Skip, k>, ...> *)
| SRep (el skip : snode) (k mn : nat) (mx : option nat).   (* None: RepeatMin<Skipped<el, skip, k>, mn>;
                                                              Some m: RepeatMinMax<.., mn, m> *)

(* per element of a sequence / repetition: the skipped array, then the matched value *)
Inductive sval :=
| VStr
| VEmpty
| VChoice (i : nat) (v : sval)
| VSeq (items : list (list sval * sval))
| VRep (items : list (list sval * sval)).

Inductive sres (A : Type) := SOk (a : A) | SFailed | SFuel.
Arguments SOk {A} a.
Arguments SFailed {A}.
Arguments SFuel {A}.

(* `Skip::default()` : what the skipped array of the first element / first iteration holds *)
Definition default_val (skip : snode) : sval :=
  match skip with
  | SRep _ _ _ _ _ => VRep []
  | _ => VEmpty
  end.

(* ---------------- which nodes the Rust type system accepts as Skip ---------------- *)

(* the shape of a NeverFailedTypedNode of this fragment: Empty, RepeatMin<_, 0>, RepeatMinMax<_, 0, MAX> *)
Definition skip_shape (n : snode) : bool :=
  match n with
  | SEmpty => true
  | SRep _ _ _ O _ => true
  | _ => false
  end.

(* every skip position holds a never-failing node *)
Fixpoint wf_snode (n : snode) : bool :=
  match n with
  | SStr _ => true
  | SEmpty => true
  | SChoice a b => wf_snode a && wf_snode b
  | SSeq els skip _ => forallb wf_snode els && (skip_shape skip && wf_snode skip)
  | SRep el skip _ _ _ => wf_snode el && (skip_shape skip && wf_snode skip)
  end.

(* SEmpty, or an SRep with mn = 0 whose own skip is skip_ok and whose element is well formed *)
Definition skip_ok (n : snode) : bool := skip_shape n && wf_snode n.

(* `for i in 0..MAX` : is index i still inside the loop range? *)
Definition below (i : nat) (mx : option nat) : bool :=
  match mx with None => true | Some m => (i <? m)%nat end.

(* `match_string` at the cursor *)
Definition str_at (s : list byte) (str : list byte) (pos : nat) : bool := is_prefix str (skipn pos s).

(* ---------------- the parse path ---------------- *)

Section PStep.
  Variable s : list byte.
  (* the recursive calls, with smaller fuel: `try_parse_partial_with`, `NeverFailedTypedNode::parse_with` *)
  Variable P : snode -> nat -> sres (nat * sval).
  Variable PN : snode -> nat -> sres (nat * sval).
  Variable lf : nat.       (* loop fuel *)

  (* `let (next, skipped) = Skip::parse_with(input); input = next; skipped`, k times *)
  Fixpoint pskips (k : nat) (skip : snode) (pos : nat) : sres (nat * list sval) :=
    match k with
    | O => SOk (pos, [])
    | S k' =>
        match PN skip pos with
        | SOk (p, v) =>
            match pskips k' skip p with
            | SOk (p', vs) => SOk (p', v :: vs)
            | SFailed => SFailed
            | SFuel => SFuel
            end
        | SFailed => SFailed
        | SFuel => SFuel
        end
    end.

  (* try_parse_unit: for i = 0 the array holds `Skip::default()` and nothing is matched *)
  Definition punit (el skip : snode) (k i pos : nat) : sres (nat * (list sval * sval)) :=
    match (if (i =? 0)%nat then SOk (pos, repeat (default_val skip) k) else pskips k skip pos) with
    | SOk (p1, sk) =>
        match P el p1 with
        | SOk (p2, v) => SOk (p2, (sk, v))
        | SFailed => SFailed
        | SFuel => SFuel
        end
    | SFailed => SFailed
    | SFuel => SFuel
    end.

  (* after the loop: RepeatMinMax re-checks `vec.len() < MIN`, RepeatMin does not *)
  Definition pfin (mn : nat) (mx : option nat) (pos : nat) (acc : list (list sval * sval)) : sres (nat * sval) :=
    match mx with
    | Some _ => if (length acc <? mn)%nat then SFailed else SOk (pos, VRep (rev acc))
    | None => SOk (pos, VRep (rev acc))
    end.

  (* the `for i in 0usize..` / `for i in 0..MAX` loop of try_parse_partial_with; [acc] is the vector, reversed *)
  Fixpoint prep (n : nat) (el skip : snode) (k mn : nat) (mx : option nat) (i pos : nat)
           (acc : list (list sval * sval)) : sres (nat * sval) :=
    if below i mx then
      match n with
      | O => SFuel
      | S n' =>
          match punit el skip k i pos with
          | SOk (p, it) => prep n' el skip k mn mx (S i) p (it :: acc)
          | SFailed => if (i <? mn)%nat then SFailed else pfin mn mx pos acc
          | SFuel => SFuel
          end
      end
    else pfin mn mx pos acc.

  (* the loop of `parse_with` (NeverFailedTypedNode for MIN = 0): `None => break`, never fails *)
  Fixpoint prep_nf (n : nat) (el skip : snode) (k : nat) (mx : option nat) (i pos : nat)
           (acc : list (list sval * sval)) : sres (nat * sval) :=
    if below i mx then
      match n with
      | O => SFuel
      | S n' =>
          match punit el skip k i pos with
          | SOk (p, it) => prep_nf n' el skip k mx (S i) p (it :: acc)
          | SFailed => SOk (pos, VRep (rev acc))
          | SFuel => SFuel
          end
      end
    else SOk (pos, VRep (rev acc)).

  (* SeqN: T0 with `[Skip::default(); SKIP]`, every further element after SKIP times `Skip::parse_with` *)
  Fixpoint pseq (els : list snode) (skip : snode) (k : nat) (first : bool) (pos : nat)
           (acc : list (list sval * sval)) : sres (nat * sval) :=
    match els with
    | [] => SOk (pos, VSeq (rev acc))
    | e :: rest =>
        match (if first then SOk (pos, repeat (default_val skip) k) else pskips k skip pos) with
        | SOk (p1, sk) =>
            match P e p1 with
            | SOk (p2, v) => pseq rest skip k false p2 ((sk, v) :: acc)
            | SFailed => SFailed
            | SFuel => SFuel
            end
        | SFailed => SFailed
        | SFuel => SFuel
        end
    end.

  (* try_parse_partial_with *)
  Definition sp_step (n : snode) (pos : nat) : sres (nat * sval) :=
    match n with
    | SStr str => if str_at s str pos then SOk ((pos + length str)%nat, VStr) else SFailed
    | SEmpty => SOk (pos, VEmpty)
    | SChoice a b =>
        match P a pos with
        | SOk (p, v) => SOk (p, VChoice 0 v)
        | SFailed =>
            match P b pos with
            | SOk (p, v) => SOk (p, VChoice 1 v)
            | SFailed => SFailed
            | SFuel => SFuel
            end
        | SFuel => SFuel
        end
    | SSeq els skip k => pseq els skip k true pos []
    | SRep el skip k mn mx => prep lf el skip k mn mx 0 pos []
    end.

  (* NeverFailedTypedNode::parse_with; nodes that are not NeverFailed are rejected by the type system *)
  Definition spnf_step (n : snode) (pos : nat) : sres (nat * sval) :=
    match n with
    | SEmpty => SOk (pos, VEmpty)
    | SRep el skip k O mx => prep_nf lf el skip k mx 0 pos []
    | _ => SFailed
    end.
End PStep.

Fixpoint sparse (fuel : nat) (s : list byte) (n : snode) (pos : nat) {struct fuel} : sres (nat * sval) :=
  match fuel with
  | O => SFuel
  | S f => sp_step s (sparse f s) (sparse_nf f s) f n pos
  end
with sparse_nf (fuel : nat) (s : list byte) (n : snode) (pos : nat) {struct fuel} : sres (nat * sval) :=
  match fuel with
  | O => SFuel
  | S f => spnf_step (sparse f s) (sparse_nf f s) f n pos
  end.

(* ---------------- the check path ---------------- *)

Section CStep.
  Variable s : list byte.
  (* `try_check_partial_with`, `NeverFailedTypedNode::check_with` with smaller fuel *)
  Variable C : snode -> nat -> sres nat.
  Variable CN : snode -> nat -> sres nat.
  Variable lf : nat.

  (* `for _ in 0..SKIP { if i > 0 { input = Skip::check_with(input); } }` *)
  Fixpoint cskips (k : nat) (skip : snode) (i pos : nat) : sres nat :=
    match k with
    | O => SOk pos
    | S k' =>
        if (0 <? i)%nat then
          match CN skip pos with
          | SOk p => cskips k' skip i p
          | SFailed => SFailed
          | SFuel => SFuel
          end
        else cskips k' skip i pos
    end.

  (* try_check_unit *)
  Definition cunit (el skip : snode) (k i pos : nat) : sres nat :=
    match cskips k skip i pos with
    | SOk p1 => C el p1
    | SFailed => SFailed
    | SFuel => SFuel
    end.

  (* RepeatMinMax re-checks `count < MIN` after the loop *)
  Definition cfin (mn : nat) (mx : option nat) (pos count : nat) : sres nat :=
    match mx with
    | Some _ => if (count <? mn)%nat then SFailed else SOk pos
    | None => SOk pos
    end.

  (* the loop of try_check_partial_with, a counter instead of the vector *)
  Fixpoint crep (n : nat) (el skip : snode) (k mn : nat) (mx : option nat) (i pos count : nat) : sres nat :=
    if below i mx then
      match n with
      | O => SFuel
      | S n' =>
          match cunit el skip k i pos with
          | SOk p => crep n' el skip k mn mx (S i) p (S count)
          | SFailed => if (i <? mn)%nat then SFailed else cfin mn mx pos count
          | SFuel => SFuel
          end
      end
    else cfin mn mx pos count.

  (* the loop of `check_with` for MIN = 0 *)
  Fixpoint crep_nf (n : nat) (el skip : snode) (k : nat) (mx : option nat) (i pos : nat) : sres nat :=
    if below i mx then
      match n with
      | O => SFuel
      | S n' =>
          match cunit el skip k i pos with
          | SOk p => crep_nf n' el skip k mx (S i) p
          | SFailed => SOk pos
          | SFuel => SFuel
          end
      end
    else SOk pos.

  (* `for _ in 0..SKIP { input = Skip::check_with(input) }` between the elements of a sequence *)
  Fixpoint cskips_seq (k : nat) (skip : snode) (pos : nat) : sres nat :=
    match k with
    | O => SOk pos
    | S k' =>
        match CN skip pos with
        | SOk p => cskips_seq k' skip p
        | SFailed => SFailed
        | SFuel => SFuel
        end
    end.

  Fixpoint cseq (els : list snode) (skip : snode) (k : nat) (first : bool) (pos : nat) : sres nat :=
    match els with
    | [] => SOk pos
    | e :: rest =>
        match (if first then SOk pos else cskips_seq k skip pos) with
        | SOk p1 =>
            match C e p1 with
            | SOk p2 => cseq rest skip k false p2
            | SFailed => SFailed
            | SFuel => SFuel
            end
        | SFailed => SFailed
        | SFuel => SFuel
        end
    end.

  (* try_check_partial_with *)
  Definition sc_step (n : snode) (pos : nat) : sres nat :=
    match n with
    | SStr str => if str_at s str pos then SOk (pos + length str)%nat else SFailed
    | SEmpty => SOk pos
    | SChoice a b =>
        match C a pos with
        | SOk p => SOk p
        | SFailed => C b pos
        | SFuel => SFuel
        end
    | SSeq els skip k => cseq els skip k true pos
    | SRep el skip k mn mx => crep lf el skip k mn mx 0 pos 0
    end.

  (* NeverFailedTypedNode::check_with *)
  Definition scnf_step (n : snode) (pos : nat) : sres nat :=
    match n with
    | SEmpty => SOk pos
    | SRep el skip k O mx => crep_nf lf el skip k mx 0 pos
    | _ => SFailed
    end.
End CStep.

Fixpoint scheck (fuel : nat) (s : list byte) (n : snode) (pos : nat) {struct fuel} : sres nat :=
  match fuel with
  | O => SFuel
  | S f => sc_step s (scheck f s) (scheck_nf f s) f n pos
  end
with scheck_nf (fuel : nat) (s : list byte) (n : snode) (pos : nat) {struct fuel} : sres nat :=
  match fuel with
  | O => SFuel
  | S f => scnf_step (scheck f s) (scheck_nf f s) f n pos
  end.
