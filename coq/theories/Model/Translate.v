(* The generator's expression-to-type translation (generator/src/graph/optimized_rule.rs, graph/rule.rs,
   graph.rs: built-in aliases and the Skipped type). Model only. *)
From Coq Require Import List NArith ZArith.
From PT Require Import Model.Base Model.Texpr Model.Ast.
Import ListNotations.

(* the #skip token chosen from the DEFINING rule's kind (optimized_rule.rs:39-43, 404-410) *)
Definition skip_of_kind (k : rkind) : sk :=
  match k with
  | KNormal | KSilent => SkInh
  | KAtomic | KCompound => SkOff
  | KNonAtomic => SkOn
  end.

Definition atom_of_kind (k : rkind) : option bool :=
  match k with
  | KNormal | KSilent => None
  | KNonAtomic => Some false
  | KAtomic | KCompound => Some true
  end.

Definition emis_of_kind (k : rkind) : emis :=
  match k with
  | KSilent => EmExpr
  | KAtomic => EmSpan
  | _ => EmBoth
  end.

Definition ch (c : nat) : char := N.of_nat c.

(* predefined_node/mod.rs:972-1012 and graph.rs:895-957 *)
Definition builtin_texpr (eoi : N) (b : builtin) : texpr :=
  match b with
  | BAny => TAny
  | BSoi => TSoi
  | BEoi => TRule eoi SkOn                 (* rules::EOI::<'i>: INHERITED defaults to 1 *)
  | BPeek => TPeek
  | BPeekAll => TPeekAll
  | BPop => TPop
  | BPopAll => TPopAll
  | BDrop => TDrop
  | BNewline => TNewline
  | BAsciiDigit => TRange (ch 48) (ch 57)
  | BAsciiNonzeroDigit => TRange (ch 49) (ch 57)
  | BAsciiBinDigit => TRange (ch 48) (ch 49)
  | BAsciiOctDigit => TRange (ch 48) (ch 55)
  | BAsciiHexDigit => TChoice [TRange (ch 48) (ch 57); TRange (ch 97) (ch 102); TRange (ch 65) (ch 70)]
  | BAsciiAlphaLower => TRange (ch 97) (ch 122)
  | BAsciiAlphaUpper => TRange (ch 65) (ch 90)
  | BAsciiAlpha => TChoice [TRange (ch 97) (ch 122); TRange (ch 65) (ch 90)]
  | BAsciiAlphanumeric =>
      TChoice [TChoice [TRange (ch 97) (ch 122); TRange (ch 65) (ch 90)]; TRange (ch 48) (ch 57)]
  | BAscii => TRange (ch 0) (ch 127)
  | BUndefinedSkip => TFail
  end.

Section Tr.
  Variable eoi : N.

  Definition tr_ident (k : sk) (i : ident) : texpr :=
    match i with
    | IdRule r => TRule r k                (* a defined rule always receives the caller's #skip *)
    | IdBuiltin b => builtin_texpr eoi b
    | IdUnicode p => TCharBy p
    end.

  (* optimized AST: Seq / Choice are flattened along the right spine (`walk!`) *)
  Fixpoint tr (k : sk) (e : oexpr) {struct e} : texpr :=
    match e with
    | OStr s => TStr s
    | OInsens s => TInsens s
    | ORange lo hi => TRange lo hi
    | OIdent i => tr_ident k i
    | OPeekSlice a b => TPeekSlice a b
    | OPosPred e1 => TPos (tr k e1)
    | ONegPred e1 => TNeg (tr k e1)
    | OSeq a b =>
        TSeq k (tr k a ::
          (fix spine (x : oexpr) : list texpr :=
             match x with
             | OSeq a' b' => tr k a' :: spine b'
             | _ => [tr k x]
             end) b)
    | OChoice a b =>
        TChoice (tr k a ::
          (fix spine (x : oexpr) : list texpr :=
             match x with
             | OChoice a' b' => tr k a' :: spine b'
             | _ => [tr k x]
             end) b)
    | OOpt e1 => TOpt (tr k e1)
    | ORep e1 => TRep k 0 None (tr k e1)
    | OSkip ss => TSkipUntil ss
    | OPush e1 => TPush (tr k e1)
    | ORestore e1 => tr k e1
    end.

  (* raw AST (pest_optimizer = false): same walk; counted repetitions keep their bounds *)
  Fixpoint rtr (k : sk) (e : rexpr) {struct e} : texpr :=
    match e with
    | RStr s => TStr s
    | RInsens s => TInsens s
    | RRange lo hi => TRange lo hi
    | RIdent i => tr_ident k i
    | RPeekSlice a b => TPeekSlice a b
    | RPosPred e1 => TPos (rtr k e1)
    | RNegPred e1 => TNeg (rtr k e1)
    | RSeq a b =>
        TSeq k (rtr k a ::
          (fix spine (x : rexpr) : list texpr :=
             match x with
             | RSeq a' b' => rtr k a' :: spine b'
             | _ => [rtr k x]
             end) b)
    | RChoice a b =>
        TChoice (rtr k a ::
          (fix spine (x : rexpr) : list texpr :=
             match x with
             | RChoice a' b' => rtr k a' :: spine b'
             | _ => [rtr k x]
             end) b)
    | ROpt e1 => TOpt (rtr k e1)
    | RRep e1 => TRep k 0 None (rtr k e1)
    | RRepOnce e1 => TRep k 1 None (rtr k e1)
    | RRepExact e1 n => TRep k n (Some n) (rtr k e1)
    | RRepMin e1 n => TRep k n None (rtr k e1)
    | RRepMax e1 n => TRep k 0 (Some n) (rtr k e1)
    | RRepMinMax e1 n m => TRep k n (Some m) (rtr k e1)
    | RSkip ss => TSkipUntil ss
    | RPush e1 => TPush (rtr k e1)
    end.

  Definition rdef_of_orule (r : orule) : rdef :=
    mk_rdef (atom_of_kind (o_kind r)) (emis_of_kind (o_kind r)) (tr (skip_of_kind (o_kind r)) (o_expr r)).

  Definition rdef_of_rrule (r : rrule) : rdef :=
    mk_rdef (atom_of_kind (rr_kind r)) (emis_of_kind (rr_kind r)) (rtr (skip_of_kind (rr_kind r)) (rr_expr r)).
End Tr.

(* generics::Skipped (graph.rs:801-825): WHITESPACE<0> / COMMENT<0> inside an AtomicRepeat *)
Definition skip_of (ws cm : option N) : skipdef :=
  match ws, cm with
  | Some w, Some c => SkipRep (TChoice [TRule w SkOff; TRule c SkOff])
  | Some w, None => SkipRep (TRule w SkOff)
  | None, Some c => SkipRep (TRule c SkOff)
  | None, None => SkipEmpty
  end.

Definition translate_opt (eoi : N) (g : ogrammar) : skipdef * list (N * rdef) :=
  (skip_of (g_ws g) (g_comment g), map (fun r => (o_name r, rdef_of_orule eoi r)) (g_rules g)).

Definition translate_raw (eoi : N) (g : rgrammar) : skipdef * list (N * rdef) :=
  (skip_of (rg_ws g) (rg_comment g), map (fun r => (rr_name r, rdef_of_rrule eoi r)) (rg_rules g)).

(* the generic names the raw path mentions for counted repetitions; `generics` defines none of them *)
Fixpoint raw_counted (e : rexpr) : bool :=
  match e with
  | RRepExact _ _ | RRepMin _ _ | RRepMax _ _ | RRepMinMax _ _ _ => true
  | RPosPred e1 | RNegPred e1 | ROpt e1 | RRep e1 | RRepOnce e1 | RPush e1 => raw_counted e1
  | RSeq a b | RChoice a b => raw_counted a || raw_counted b
  | _ => false
  end.
