(* The typed-node expression language: one constructor per combinator of the runtime crate
   (main/src/predefined_node, sequence.rs, choices.rs, typed_node.rs, rule.rs). Model only. *)
From Coq Require Import List NArith ZArith.
From PT Require Import Model.Base.
Import ListNotations.

(* the SKIP / INHERITED const-generic argument: 0, 1, or the enclosing rule's INHERITED *)
Inductive sk := SkOff | SkOn | SkInh.

Inductive texpr :=
| TStr (s : list byte)                       (* Str<w> *)
| TInsens (s : list byte)                    (* Insens<'i, w> *)
| TRange (lo hi : char)                      (* CharRange<lo, hi> *)
| TAny | TSoi | TEoi | TNewline
| TCharBy (p : N)                            (* unicode::P; predicate table in the environment *)
| TSkipUntil (ss : list (list byte))         (* Skip<'i, w> *)
| TSkipChars (n : nat)                       (* SkipChar<'i, n> *)
| TSeq (k : sk) (es : list texpr)            (* SeqN<Skipped<T, Skip, k>, ...> *)
| TChoice (es : list texpr)                  (* ChoiceN<...> *)
| TOpt (e : texpr)                           (* Option<T> *)
| TRep (k : sk) (mn : nat) (mx : option nat) (e : texpr)  (* RepeatMin / RepeatMinMax over Skipped<T, Skip, k> *)
| TAtomicRep (e : texpr)                     (* AtomicRepeat<T> *)
| TPos (e : texpr) | TNeg (e : texpr) | TPush (e : texpr)
| TPeek | TPop | TDrop | TPeekAll | TPopAll
| TPeekSlice (a : Z) (b : option Z)          (* PeekSlice2<a, b> / PeekSlice1<a> *)
| TArr (n : nat) (e : texpr)                 (* [T; n] *)
| TPair (a b : texpr)                        (* (T1, T2) *)
| TEmpty | TFail                             (* Empty<'i> / AlwaysFail<'i> *)
| TRule (r : N) (arg : sk).                  (* rules::r<'i, arg> *)

Inductive emis := EmSpan | EmExpr | EmBoth.

(* what `rule!` receives: atomicity (true / false / INHERITED), emission, inner type *)
Record rdef := mk_rdef { r_atom : option bool; r_emis : emis; r_body : texpr }.

(* generics::Skipped<'i> *)
Inductive skipdef := SkipEmpty | SkipRep (e : texpr).

Inductive nlkind := NlCRLF | NlLF | NlCR.
Inductive spk := KSkip | KSkipChar | KPeek | KPop | KPeekAll | KPopAll.
Inductive chk := CkRange | CkAny | CkProp (p : N).

(* the value a successful parse stores *)
Inductive tnode :=
| NStr
| NInsens (s e : nat)                         (* content = input[s..e] *)
| NChar (k : chk) (c : char)                  (* CharRange / ANY / unicode property node: `content` *)
| NSoi | NEoi
| NNewline (k : nlkind)
| NSpanned (k : spk) (s e : nat)              (* nodes that carry a `span` field *)
| NSeq (items : list (list tnode * tnode))    (* (skipped array, matched) per element *)
| NChoice (n i : nat) (t : tnode)             (* variant _i of ChoiceN *)
| NOpt (o : option tnode)
| NRep (bounded : bool) (items : list (list tnode * tnode))   (* RepeatMinMax / RepeatMin *)
| NAtomicRep (items : list tnode)
| NPos (t : tnode) | NNeg | NPush (t : tnode)
| NDrop | NSlice (two : bool)                 (* PeekSlice2 / PeekSlice1 *)
| NArr (l : list tnode)
| NPair (a b : tnode)
| NEmpty
| NRule (r : N) (content : option tnode) (sp : option (nat * nat)).
