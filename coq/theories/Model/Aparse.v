(* The reference interpreter with an *immutable* stack: "PEG with full backtracking" at the level
   of the runtime combinators. A failed alternative / optional / iteration / predicate operand simply
   continues from the stack value that held before it was tried; there are no snapshots, no tracker.
   This is the oracle of C05 / C06 / C19. Model only. *)
From Coq Require Import List NArith ZArith Arith Bool.
From PT Require Import Model.Base Model.Stack Model.Texpr Model.SliceSpec Model.Sem.
Import ListNotations.

Inductive ares (A : Type) : Type :=
| AOk (a : A) (stk : list span)
| AFail
| APanic
| AFuel.
Arguments AOk {A} a stk.
Arguments AFail {A}.
Arguments APanic {A}.
Arguments AFuel {A}.

Definition alift {A B} (m : mres A) (f : A -> ares B) : ares B :=
  match m with MOk a => f a | MPanic => APanic end.

Definition aleaf (m : mres (option nat)) (k : nat -> ares (nat * tnode)) : ares (nat * tnode) :=
  alift m (fun o => match o with Some pos' => k pos' | None => AFail end).

Section AStep.
  Variable E : env.
  Variable A : bool -> texpr -> nat -> list span -> ares (nat * tnode).
  Variable lf : nat.
  Let I := e_inp E.

  Fixpoint a_newline (alts : list (list byte * nlkind)) (pos : nat) (stk : list span) : ares (nat * tnode) :=
    match alts with
    | [] => AFail
    | (bs, k) :: rest =>
        alift (i_match_string I bs pos) (fun o =>
          match o with
          | Some pos' => AOk (pos', NNewline k) stk
          | None => a_newline rest pos stk
          end)
    end.

  Fixpoint a_arep (n : nat) (inh : bool) (e : texpr) (pos : nat) (stk : list span) (acc : list tnode)
    : ares (nat * tnode) :=
    match n with
    | O => AFuel
    | S n' =>
        match A inh e pos stk with
        | AOk (pos', t) stk' => a_arep n' inh e pos' stk' (t :: acc)
        | AFail => AOk (pos, NAtomicRep (rev acc)) stk
        | APanic => APanic
        | AFuel => AFuel
        end
    end.

  Definition a_skip (pos : nat) (stk : list span) : ares (nat * tnode) :=
    match e_skip E with
    | SkipEmpty => AOk (pos, NEmpty) stk
    | SkipRep e => a_arep lf false e pos stk []
    end.

  Definition a_pre_skip (b doit : bool) (pos : nat) (stk : list span) : ares (nat * list tnode) :=
    if b then
      if doit then
        match a_skip pos stk with
        | AOk (pos', t) stk' => AOk (pos', [t]) stk'
        | AFail => AFail
        | APanic => APanic
        | AFuel => AFuel
        end
      else AOk (pos, [skip_default E]) stk
    else AOk (pos, []) stk.

  Fixpoint a_seq (b inh : bool) (es : list texpr) (first : bool) (pos : nat) (stk : list span)
           (acc : list (list tnode * tnode)) : ares (nat * tnode) :=
    match es with
    | [] => AOk (pos, NSeq (rev acc)) stk
    | e :: es' =>
        match a_pre_skip b (negb first) pos stk with
        | AOk (pos1, skipped) stk1 =>
            match A inh e pos1 stk1 with
            | AOk (pos2, t) stk2 => a_seq b inh es' false pos2 stk2 ((skipped, t) :: acc)
            | AFail => AFail
            | APanic => APanic
            | AFuel => AFuel
            end
        | AFail => AFail
        | APanic => APanic
        | AFuel => AFuel
        end
    end.

  Fixpoint a_choice (inh : bool) (n : nat) (es : list texpr) (i : nat) (pos : nat) (stk : list span)
    : ares (nat * tnode) :=
    match es with
    | [] => AFail
    | e :: es' =>
        match A inh e pos stk with
        | AOk (pos', t) stk' => AOk (pos', NChoice n i t) stk'
        | AFail => a_choice inh n es' (S i) pos stk
        | APanic => APanic
        | AFuel => AFuel
        end
    end.

  Definition a_unit (b inh : bool) (e : texpr) (i : nat) (pos : nat) (stk : list span)
    : ares (nat * (list tnode * tnode)) :=
    match a_pre_skip b (negb (i =? 0)%nat) pos stk with
    | AOk (pos1, skipped) stk1 =>
        match A inh e pos1 stk1 with
        | AOk (pos2, t) stk2 => AOk (pos2, (skipped, t)) stk2
        | AFail => AFail
        | APanic => APanic
        | AFuel => AFuel
        end
    | AFail => AFail
    | APanic => APanic
    | AFuel => AFuel
    end.

  Fixpoint a_rep (n : nat) (b inh : bool) (mn : nat) (mx : option nat) (e : texpr) (i : nat)
           (pos : nat) (stk : list span) (acc : list (list tnode * tnode)) : ares (nat * tnode) :=
    if below i mx then
      match n with
      | O => AFuel
      | S n' =>
          match a_unit b inh e i pos stk with
          | AOk (pos', it) stk' => a_rep n' b inh mn mx e (S i) pos' stk' (it :: acc)
          | AFail => if (i <? mn)%nat then AFail else AOk (pos, NRep (bounded mx) (rev acc)) stk
          | APanic => APanic
          | AFuel => AFuel
          end
      end
    else
      (* the bounds are part of the specification: fewer than MIN iterations is a failure *)
      if (i <? mn)%nat then AFail else AOk (pos, NRep (bounded mx) (rev acc)) stk.

  Fixpoint a_arr (n : nat) (inh : bool) (e : texpr) (pos : nat) (stk : list span) (acc : list tnode)
    : ares (nat * tnode) :=
    match n with
    | O => AOk (pos, NArr (rev acc)) stk
    | S n' =>
        match A inh e pos stk with
        | AOk (pos', t) stk' => a_arr n' inh e pos' stk' (t :: acc)
        | AFail => AFail
        | APanic => APanic
        | AFuel => AFuel
        end
    end.

  (* the spans a slice selects, bottom to top; None = out of range *)
  Definition a_slice (stk : list span) (a : Z) (b : option Z) : option (list span) :=
    match slice_spec a b (Z.of_nat (length stk)) with
    | None => None
    | Some (s, e) =>
        if (e <=? s)%Z then Some []
        else Some (firstn (Z.to_nat e - Z.to_nat s) (skipn (Z.to_nat s) (rev stk)))
    end.

  Definition a_step (inh : bool) (e : texpr) (pos : nat) (stk : list span) : ares (nat * tnode) :=
    match e with
    | TStr s => aleaf (i_match_string I s pos) (fun pos' => AOk (pos', NStr) stk)
    | TInsens s =>
        aleaf (i_match_insens I s pos) (fun pos' =>
          alift (i_span I pos pos') (fun sp =>
          alift (span_str I sp) (fun _ => AOk (pos', NInsens pos pos') stk)))
    | TRange lo hi =>
        alift (i_match_char I (fun c => (lo <=? c)%N && (c <=? hi)%N) pos) (fun o =>
          match o with
          | Some (pos', c) =>
              alift (i_span I pos pos') (fun sp =>
              alift (span_str I sp) (fun txt =>
                match dec1 txt with
                | Some (c', _) => AOk (pos', NChar CkRange c') stk
                | None => APanic
                end))
          | None => AFail
          end)
    | TAny =>
        alift (i_match_char I (fun _ => true) pos) (fun o =>
          match o with Some (pos', c) => AOk (pos', NChar CkAny c) stk | None => AFail end)
    | TCharBy p =>
        alift (i_match_char I (e_pred E p) pos) (fun o =>
          match o with Some (pos', c) => AOk (pos', NChar (CkProp p) c) stk | None => AFail end)
    | TSoi => if i_at_start I pos then AOk (pos, NSoi) stk else AFail
    | TEoi => if i_at_end I pos then AOk (pos, NEoi) stk else AFail
    | TNewline => a_newline newline_bytes pos stk
    | TSkipUntil ss =>
        let '(_, pos') := i_skip_until I true ss pos in   (* only the text up to end() is the input *)
        alift (i_span I pos pos') (fun _ => AOk (pos', NSpanned KSkip pos pos') stk)
    | TSkipChars n =>
        aleaf (i_skip I n pos) (fun pos' =>
          alift (i_span I pos pos') (fun _ => AOk (pos', NSpanned KSkipChar pos pos') stk))
    | TSeq k es => a_seq (resolve k inh) inh es true pos stk []
    | TChoice es => a_choice inh (length es) es 0 pos stk
    | TOpt e1 =>
        match A inh e1 pos stk with
        | AOk (pos', t) stk' => AOk (pos', NOpt (Some t)) stk'
        | AFail => AOk (pos, NOpt None) stk
        | APanic => APanic
        | AFuel => AFuel
        end
    | TRep k mn mx e1 => a_rep lf (resolve k inh) inh mn mx e1 0 pos stk []
    | TAtomicRep e1 => a_arep lf inh e1 pos stk []
    | TPos e1 =>
        match A inh e1 pos stk with
        | AOk (_, t) _ => AOk (pos, NPos t) stk
        | AFail => AFail
        | APanic => APanic
        | AFuel => AFuel
        end
    | TNeg e1 =>
        match A inh e1 pos stk with
        | AOk _ _ => AFail
        | AFail => AOk (pos, NNeg) stk
        | APanic => APanic
        | AFuel => AFuel
        end
    | TPush e1 =>
        match A inh e1 pos stk with
        | AOk (pos', t) stk' => alift (i_span I pos pos') (fun sp => AOk (pos', NPush t) (sp :: stk'))
        | AFail => AFail
        | APanic => APanic
        | AFuel => AFuel
        end
    | TPeek =>
        match stk with
        | sp :: _ =>
            alift (span_str I sp) (fun txt =>
            aleaf (i_match_string I txt pos) (fun pos' =>
              alift (i_span I pos pos') (fun _ => AOk (pos', NSpanned KPeek pos pos') stk)))
        | [] => AFail
        end
    | TPop =>
        match stk with
        | sp :: stk' =>
            alift (span_str I sp) (fun txt =>
            aleaf (i_match_string I txt pos) (fun pos' => AOk (pos', NSpanned KPop (fst sp) (snd sp)) stk'))
        | [] => AFail
        end
    | TDrop =>
        match stk with
        | _ :: stk' => AOk (pos, NDrop) stk'
        | [] => AFail
        end
    | TPeekAll =>
        aleaf (peek_spans E stk pos) (fun pos' =>
          alift (i_span I pos pos') (fun _ => AOk (pos', NSpanned KPeekAll pos pos') stk))
    | TPopAll =>
        aleaf (peek_spans E stk pos) (fun pos' =>
          alift (i_span I pos pos') (fun _ => AOk (pos', NSpanned KPopAll pos pos') []))
    | TPeekSlice a b =>
        match a_slice stk a b with
        | None => AFail
        | Some sps =>
            aleaf (peek_spans E sps pos) (fun pos' =>
              alift (i_span I pos pos') (fun _ =>
                AOk (pos', NSlice (match b with Some _ => true | None => false end)) stk))
        end
    | TArr n e1 => a_arr n inh e1 pos stk []
    | TPair a b =>
        match A inh a pos stk with
        | AOk (pos1, t1) stk1 =>
            match A inh b pos1 stk1 with
            | AOk (pos2, t2) stk2 => AOk (pos2, NPair t1 t2) stk2
            | AFail => AFail
            | APanic => APanic
            | AFuel => AFuel
            end
        | AFail => AFail
        | APanic => APanic
        | AFuel => AFuel
        end
    | TEmpty => AOk (pos, NEmpty) stk
    | TFail => AFail
    | TRule r arg =>
        let d := e_rules E r in
        let inh' := resolve arg inh in
        match A inh' (r_body d) pos stk with
        | AOk (pos', t) stk' =>
            match r_emis d with
            | EmExpr => AOk (pos', NRule r (Some t) None) stk'
            | EmSpan => alift (i_span I pos pos') (fun sp => AOk (pos', NRule r None (Some sp)) stk')
            | EmBoth => alift (i_span I pos pos') (fun sp => AOk (pos', NRule r (Some t) (Some sp)) stk')
            end
        | AFail => AFail
        | APanic => APanic
        | AFuel => AFuel
        end
    end.
End AStep.

Fixpoint aparse (E : env) (fuel : nat) (inh : bool) (e : texpr) (pos : nat) (stk : list span)
  : ares (nat * tnode) :=
  match fuel with
  | O => AFuel
  | S n => a_step E (aparse E n) n inh e pos stk
  end.
