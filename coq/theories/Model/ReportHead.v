(* Executable model of the head line of main/src/tracker.rs `collect_to_message` (the text written
   before "^---").  Model only: no proofs in this file.

     let (line, col) = pos.line_col();
     let line_string = pos.line_of();
     let line_remained_index = line_string.char_indices().nth(col.saturating_sub(1))
                                          .unwrap_or((line_string.len(), '\0')).0;
     let line_matched = &line_string[..line_remained_index];      // checked slicing
     write!(message, "{}^---", line_matched);

   Strings are UTF-8 byte lists, offsets are byte offsets (nat).  `line_col` / `line_of` are the
   transcriptions of position.rs in Model/Lines.v (result type `lres`); every non-LOk result of
   theirs (panic, unreachable!(), and the model-only fuel case) is kept as MPanic here. *)
From Coq Require Import List NArith Arith Bool.
From PT Require Import Model.Base Model.Lines.
Import ListNotations.

(* `line.char_indices().nth(n).unwrap_or((line.len(), '\0')).0`:
   `char_indices` (Model/Lines.v) decodes one character after the other with dec1 and pairs each with
   the byte offset at which it starts; `nth n` counts *characters*, the result is a *byte* offset. *)
Definition nth_char_index (line : list byte) (n : nat) : nat :=
  match nth_error (char_indices line) n with
  | Some (i, _) => i
  | None => length line
  end.

(* `col.saturating_sub(1)` is truncated subtraction on nat *)
Definition head_line (s : list byte) (p : nat) : mres (list byte) :=
  match line_col s p with
  | LOk (_, col) =>
      match line_of s p with
      | LOk line => slice_checked line 0 (nth_char_index line (col - 1))
      | _ => MPanic
      end
  | _ => MPanic
  end.

(* the seeded refactor: the character count used directly as a byte index
   (`&line_string[..col.saturating_sub(1)]`); only here to show what the theorem excludes *)
Definition head_line_charidx (s : list byte) (p : nat) : mres (list byte) :=
  match line_col s p with
  | LOk (_, col) =>
      match line_of s p with
      | LOk line => slice_checked line 0 (col - 1)
      | _ => MPanic
      end
  | _ => MPanic
  end.
