(* C17: the accessors of parsed values (main/src/choices.rs, sequence.rs, predefined_node/repetition.rs,
   predefined_node/mod.rs, generator/src/match_choices.rs) as functions on the stored parse value [tnode].
   Model only: no proofs in this file. *)
From Coq Require Import List NArith Arith Bool.
From PT Require Import Model.Base Model.Stack Model.Texpr.
Import ListNotations.

(* ---- ChoiceN::_k()  (choices.rs:127-147): `if let Self::_k(res) = self { Some(res) } else { None }` ---- *)
Definition choice_acc (k : nat) (t : tnode) : option tnode :=
  match t with
  | NChoice _ i t' => if (k =? i)%nat then Some t' else None
  | _ => None
  end.

(* all accessors _0 .. _{n-1} in order *)
Definition choice_accs (n : nat) (t : tnode) : list (option tnode) :=
  map (fun k => choice_acc k t) (seq 0 n).

(* ---- the helper chain (choices.rs:23-69, 101-126) ----
   `helper::_f<Ret, V_f, .., V_{n-1}>` is an enum with the variants `_f .. _{n-1}` and `Res(Ret)`.
   [HV n f i t] = the value `helper::_f::_i(t)`;  [HR n f r] = `helper::_f::Res(r)`.
   A closure is a function of the content; [calls] logs the positions (in the chain) of the closures
   that were invoked, oldest first. A result [None] stands for a program rustc rejects (method not
   available on that helper type) or a value the enum cannot hold. *)
Inductive helper (L : Type) : Type :=
| HV (n f i : nat) (t : tnode)
| HR (n f : nat) (r : L).
Arguments HV {L} n f i t.
Arguments HR {L} n f r.

(* `reference()` / `consume()`: variant `_i(c)` of the choice becomes variant `_i(c)` of helper `_0` *)
Definition h_reference {L} (c : tnode) : option (helper L) :=
  match c with
  | NChoice n i t => Some (HV n 0 i t)
  | _ => None
  end.
Definition h_consume {L} (c : tnode) : option (helper L) := h_reference c.

(* `else_if(f)`, generated only for helpers with at least two branches left ([f + 1 < n]):
   `_f(c) => Next::Res(f(c))`, `_m(c) => Next::_m(c)` for the other branches, `Res(r) => Next::Res(r)`.
   [k] is the position of the closure in the chain (for the call log). *)
Definition h_else_if {L} (k : nat) (cl : tnode -> L) (h : helper L) (calls : list nat)
  : option (helper L * list nat) :=
  match h with
  | HV n f i t =>
      if (S f <? n)%nat then
        if (i =? f)%nat then Some (HR n (S f) (cl t), calls ++ [k])
        else if (f <? i)%nat then Some (HV n (S f) i t, calls)
        else None
      else None
  | HR n f r => if (S f <? n)%nat then Some (HR n (S f) r, calls) else None
  end.

(* `else_then(f)`, generated only for the last helper ([f + 1 = n]): `_f(c) => f(c)`, `Res(r) => r` *)
Definition h_else_then {L} (k : nat) (cl : tnode -> L) (h : helper L) (calls : list nat)
  : option (L * list nat) :=
  match h with
  | HV n f i t =>
      if (S f =? n)%nat then
        if (i =? f)%nat then Some (cl t, calls ++ [k]) else None
      else None
  | HR n f r => if (S f =? n)%nat then Some (r, calls) else None
  end.

(* `.else_if(c_k).else_if(c_{k+1}) ... .else_then(c_last)` *)
Fixpoint chain_go {L} (k : nat) (cls : list (tnode -> L)) (h : helper L) (calls : list nat)
  : option (L * list nat) :=
  match cls with
  | [] => None
  | cl :: rest =>
      match rest with
      | [] => h_else_then k cl h calls
      | _ :: _ =>
          match h_else_if k cl h calls with
          | Some (h', calls') => chain_go (S k) rest h' calls'
          | None => None
          end
      end
  end.

(* `c.reference().else_if(c_0)....else_then(c_{n-1})`;  `c.if_then(c_0)` is `c.reference().else_if(c_0)`
   and `c.consume_if_then(c_0)` is `c.consume().else_if(c_0)` (choices.rs:110-126), so the four spellings
   of the chain are this one function. Result: (value returned, closures called). *)
Definition chain_run {L} (cls : list (tnode -> L)) (c : tnode) : option (L * list nat) :=
  match h_reference c with
  | Some h => chain_go 0 cls h []
  | None => None
  end.

(* ---- `match_choices!` (generator/src/match_choices.rs:68-101) ----
   `match_choices!{ e { x_0 => b_0  ...  x_{N-1} => b_{N-1} } }` expands, for N > 1, to
   `match e { generics::ChoiceN::_0(x_0) => b_0, ..., generics::ChoiceN::_{N-1}(x_{N-1}) => b_{N-1}, }`
   (N = number of arms; arm k is given variant `_k`: positional), for N = 1 to `match e { x_0 => b_0 }`
   and for N = 0 to `match e {}`. A Rust `match` runs the first arm whose pattern fits. *)
Fixpoint mc_arms {L} (arms : list (tnode -> L)) (k : nat) (i : nat) (t : tnode) : option (L * list nat) :=
  match arms with
  | [] => None
  | b :: rest => if (i =? k)%nat then Some (b t, [k]) else mc_arms rest (S k) i t
  end.

Definition match_choices {L} (arms : list (tnode -> L)) (v : tnode) : option (L * list nat) :=
  match arms with
  | [] => None                                   (* `match e {}`: accepted for uninhabited types only *)
  | [b] => Some (b v, [0%nat])                   (* an identifier pattern binds the whole value *)
  | _ =>
      match v with
      | NChoice n i t => if (n =? length arms)%nat then mc_arms arms 0 i t else None   (* type ChoiceN *)
      | _ => None
      end
  end.

(* ---- sequences (sequence.rs:148-190) ---- *)
(* get_matched / as_ref / into_matched: `( content.0.matched, content.1.matched, ... )` *)
Definition seq_matched (t : tnode) : option (list tnode) :=
  match t with NSeq items => Some (map snd items) | _ => None end.
(* get_all / into_all: `( content.0, content.1, ... )`, each a `Skipped { skipped, matched }` *)
Definition seq_all (t : tnode) : option (list (list tnode * tnode)) :=
  match t with NSeq items => Some items | _ => None end.

(* ---- repetitions (repetition.rs:228-247, 381-402) ---- *)
(* iter_matched / into_iter_matched: `content.iter().map(|s| &s.matched)` *)
Definition rep_matched (t : tnode) : option (list tnode) :=
  match t with NRep _ items => Some (map snd items) | _ => None end.
(* iter_all / into_iter_all: `content.iter()` *)
Definition rep_all (t : tnode) : option (list (list tnode * tnode)) :=
  match t with NRep _ items => Some items | _ => None end.

(* ---- leaves (predefined_node/mod.rs) ---- *)
(* the spelling of each NewLineType *)
Definition nl_text (k : nlkind) : list byte :=
  match k with NlCRLF => [13; 10]%N | NlLF => [10]%N | NlCR => [13]%N end.

(* what the public field of a leaf node shows: `content: char`, `content: &str`, `content: NewLineType`,
   `span: Span` (its `as_str()`, checked slicing of the parent string) *)
Inductive exposed :=
| XChar (c : char)
| XText (s e : nat) (txt : mres (list byte))
| XKind (k : nlkind)
| XNothing.

Definition leaf_text (parent : list byte) (t : tnode) : exposed :=
  match t with
  | NChar _ c => XChar c
  | NInsens s e => XText s e (slice_checked parent s e)
  | NNewline k => XKind k
  | NSpanned _ s e => XText s e (slice_checked parent s e)
  | _ => XNothing
  end.

(* the text between two cursors of the input (what a node that moved the cursor from [pos] to [pos'] consumed) *)
Definition consumed (i : inp) (pos pos' : nat) : mres (list byte) :=
  mbind (i_get i pos) (fun rest => MOk (firstn (pos' - pos) rest)).
