(* The STRUCTURED specification of the value of a generated accessor `r.x()`: which tuple slot / which Option /
   which Vec element holds which stored node.  Written by structural recursion on the EXPRESSION, constructor by
   constructor like `spec_type` (Model/Getter.v), and independent of the getter forest machinery
   (wrap / merge / join / flattenable / eval_g).  Model only: no lemmas here. *)
From Coq Require Import List NArith ZArith Arith Bool.
From PT Require Import Model.Base Model.Texpr Model.Ast Model.Translate Model.Getter.
Import ListNotations.

(* the value-level counterpart of [opt_wrap]: an enclosing `?` / `|` adds `Some(..)` unless the inner TYPE already is an
   Option (no Option<Option<_>>): then the inner value is passed through unchanged *)
Definition opt_wrap_val (ty : gty) (v : gval) : gval :=
  if is_option ty then v else VOpt (Some v).

(* the value-level counterpart of [tuple_of]: no slot = no accessor, one slot = the bare value, else a tuple *)
Definition tuple_val (vs : list gval) : option gval :=
  match vs with
  | [] => None
  | [v] => Some v
  | _ => Some (VTuple vs)
  end.

Definition opt_consv (o : option gval) (l : list gval) : list gval :=
  match o with Some v => v :: l | None => l end.

(* one slot contributed by a sub-expression that sits under a `?` or is one alternative of a `|`:
   [oty] = the declarative type of the sub-expression's own accessor (None: it does not mention the name, no slot);
   [taken] = the sub-expression is the one that was matched; [ov] = its own structured value on the stored content *)
Definition slot_val (oty : option gty) (taken : bool) (ov : option gval) : option gval :=
  match oty with
  | None => None
  | Some ty => if taken then option_map (opt_wrap_val ty) ov else Some (VOpt None)
  end.

Fixpoint all_some (l : list (option gval)) : option (list gval) :=
  match l with
  | [] => Some []
  | None :: _ => None
  | Some v :: r => match all_some r with Some vs => Some (v :: vs) | None => None end
  end.

(* [spec_val x e t]: the value `r.x()` has to return when [e] is r's expression and [t] the stored content.
   None iff [x] is not mentioned outside a negative predicate (for [t] of the shape of [e]; on a tree of another shape
   the result is None as well). *)
Fixpoint spec_val (x : ident) (e : oexpr) (t : tnode) {struct e} : option gval :=
  match e with
  | OIdent i => if ident_eqb i x then Some (VRef t) else None        (* the very node stored here *)
  | OPosPred e1 => match t with NPos c => spec_val x e1 c | _ => None end
  | OPush e1 => match t with NPush c => spec_val x e1 c | _ => None end
  | ONegPred _ => None
  | ORestore e1 => spec_val x e1 t
  | OOpt e1 =>
      match t with
      | NOpt None => slot_val (spec_type x e1) false None
      | NOpt (Some c) => slot_val (spec_type x e1) true (spec_val x e1 c)
      | _ => None
      end
  | ORep e1 =>
      match t with
      | NRep _ items =>
          match spec_type x e1 with
          | None => None
          | Some _ => option_map VVec (all_some (map (fun it => spec_val x e1 (snd it)) items))
          end
      | _ => None
      end
  | OSeq a b =>                                                      (* one slot per element that mentions x *)
      match t with
      | NSeq items =>
          match items with
          | [] => None
          | it :: rest =>
              tuple_val (opt_consv (spec_val x a (snd it))
                ((fix spine (y : oexpr) (its : list (list tnode * tnode)) {struct y} : list gval :=
                    match y with
                    | OSeq a' b' =>
                        match its with
                        | [] => []
                        | it' :: rest' => opt_consv (spec_val x a' (snd it')) (spine b' rest')
                        end
                    | _ => match its with it' :: _ => opt_consv (spec_val x y (snd it')) [] | [] => [] end
                    end) b rest))
          end
      | _ => None
      end
  | OChoice a b =>                                                   (* one slot per alternative that mentions x *)
      match t with
      | NChoice _ i c =>
          tuple_val (opt_consv (slot_val (spec_type x a) (i =? 0)%nat (spec_val x a c))
            ((fix spine (y : oexpr) (j : nat) {struct y} : list gval :=
                match y with
                | OChoice a' b' => opt_consv (slot_val (spec_type x a') (i =? j)%nat (spec_val x a' c)) (spine b' (S j))
                | _ => opt_consv (slot_val (spec_type x y) (i =? j)%nat (spec_val x y c)) []
                end) b 1%nat))
      | _ => None
      end
  | _ => None
  end.
