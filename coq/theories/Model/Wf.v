(* C11 (termination half): a decidable well-foundedness check of a grammar against a certificate.

   The certificate says, per rule, whether its body may succeed without consuming input ([nullable]) and
   gives a rank to every (rule, inherited-skip flag) pair and to the implicit skip (WHITESPACE / COMMENT
   repetition).  The checker [wf_cert] verifies over the FINITE list of rule indices of the grammar that
   (a) [nullable] is a post-fixpoint of the syntactic analysis [may_be_empty];
   (b) every call that can be reached at the head of a rule body without consuming input -- a rule
       reference, or the implicit skip run between two elements of a skipping sequence -- has a strictly
       smaller rank than the rule ([head_ranks]);
   (c) every repetition body anywhere, and the element of the skip repetition, is not nullable;
   (d) every rule mentioned anywhere is in the list (closedness).
   The rank is indexed by the inherited-skip flag because whether a `~` runs the implicit skip depends on
   it: WHITESPACE is entered with the flag off (`WHITESPACE<0>`), and its own `~` then skips nothing.
   Model only: no proofs in this file (Proofs/Termination.v). *)
From Coq Require Import List NArith ZArith Arith Bool.
From PT Require Import Model.Base Model.Texpr Model.Sem.
Import ListNotations.

Record cert := mk_cert {
  nullable : N -> bool;            (* may the body of the rule succeed without consuming? *)
  rank : N -> bool -> nat;         (* rank of the rule entered with INHERITED = the flag *)
  skip_rank : nat                  (* rank of the implicit skip *)
}.

Definition is_nil {A} (l : list A) : bool := match l with [] => true | _ :: _ => false end.

(* `RepeatMinMax<T, MIN, 0>`: the loop body never runs; the unrepaired code then succeeds whatever MIN is *)
Definition max_is_zero (mx : option nat) : bool := match mx with Some O => true | _ => false end.

(* conservative: [false] only if a success certainly moves the cursor *)
Fixpoint may_be_empty (c : cert) (e : texpr) : bool :=
  match e with
  | TStr s => is_nil s
  | TInsens s => is_nil s
  | TRange _ _ => false
  | TAny => false
  | TNewline => false
  | TCharBy _ => false
  | TFail => false
  | TSkipChars n => (n =? 0)%nat
  | TSeq _ es => forallb (may_be_empty c) es
  | TChoice es => existsb (may_be_empty c) es
  | TRep _ mn mx e1 => (mn =? 0)%nat || max_is_zero mx || may_be_empty c e1
  | TPush e1 => may_be_empty c e1
  | TArr n e1 => (n =? 0)%nat || may_be_empty c e1
  | TPair a b => may_be_empty c a && may_be_empty c b
  | TRule r _ => nullable c r
  | TSoi | TEoi | TEmpty | TSkipUntil _ | TOpt _ | TAtomicRep _ | TPos _ | TNeg _
  | TPeek | TPop | TDrop | TPeekAll | TPopAll | TPeekSlice _ _ => true
  end.

(* heads of a sequence: [skr] = what the implicit skip in front of a non-first element contributes *)
Definition seq_heads (h : texpr -> list nat) (nul : texpr -> bool) (skr : list nat)
  : bool -> list texpr -> list nat :=
  fix go (first : bool) (es : list texpr) : list nat :=
    match es with
    | [] => []
    | e1 :: es' =>
        (if first then [] else skr) ++ h e1 ++ (if nul e1 then go false es' else [])
    end.

(* ranks of everything that can be called before any input is consumed *)
Fixpoint head_ranks (c : cert) (inh : bool) (e : texpr) : list nat :=
  match e with
  | TSeq k es =>
      seq_heads (head_ranks c inh) (may_be_empty c) (if resolve k inh then [skip_rank c] else []) true es
  | TChoice es => flat_map (head_ranks c inh) es
  | TOpt e1 => head_ranks c inh e1
  | TRep _ _ _ e1 => head_ranks c inh e1
  | TAtomicRep e1 => head_ranks c inh e1
  | TPos e1 => head_ranks c inh e1
  | TNeg e1 => head_ranks c inh e1
  | TPush e1 => head_ranks c inh e1
  | TArr _ e1 => head_ranks c inh e1
  | TPair a b => head_ranks c inh a ++ (if may_be_empty c a then head_ranks c inh b else [])
  | TRule r arg => [rank c r (resolve arg inh)]
  | _ => []
  end.

Definition mem_rule (rules : list N) (r : N) : bool := existsb (N.eqb r) rules.

(* (c) + (d) for one expression: repetition bodies make progress, all rules mentioned are listed *)
Fixpoint expr_ok (c : cert) (rules : list N) (e : texpr) : bool :=
  match e with
  | TSeq _ es => forallb (expr_ok c rules) es
  | TChoice es => forallb (expr_ok c rules) es
  | TOpt e1 => expr_ok c rules e1
  | TRep _ _ _ e1 => negb (may_be_empty c e1) && expr_ok c rules e1
  | TAtomicRep e1 => negb (may_be_empty c e1) && expr_ok c rules e1
  | TPos e1 => expr_ok c rules e1
  | TNeg e1 => expr_ok c rules e1
  | TPush e1 => expr_ok c rules e1
  | TArr _ e1 => expr_ok c rules e1
  | TPair a b => expr_ok c rules a && expr_ok c rules b
  | TRule r _ => mem_rule rules r
  | _ => true
  end.

Definition ranks_below (k : nat) (l : list nat) : bool := forallb (fun x => (x <? k)%nat) l.

Definition rule_ok (c : cert) (rules : list N) (tbl : N -> rdef) (r : N) : bool :=
  let b := r_body (tbl r) in
  expr_ok c rules b &&
  implb (may_be_empty c b) (nullable c r) &&
  ranks_below (rank c r true) (head_ranks c true b) &&
  ranks_below (rank c r false) (head_ranks c false b).

Definition skip_ok (c : cert) (rules : list N) (s : skipdef) : bool :=
  match s with
  | SkipEmpty => true
  | SkipRep e =>
      expr_ok c rules e && negb (may_be_empty c e) && ranks_below (skip_rank c) (head_ranks c false e)
  end.

Definition wf_cert (rules : list N) (tbl : N -> rdef) (s : skipdef) (c : cert) : bool :=
  forallb (rule_ok c rules tbl) rules && skip_ok c rules s.

(* ---- the explicit fuel bound ---------------------------------------------------------------- *)

Fixpoint depth (e : texpr) : nat :=
  match e with
  | TSeq _ es => S (list_max (map depth es))
  | TChoice es => S (list_max (map depth es))
  | TOpt e1 => S (depth e1)
  | TRep _ _ _ e1 => S (depth e1)
  | TAtomicRep e1 => S (depth e1)
  | TPos e1 => S (depth e1)
  | TNeg e1 => S (depth e1)
  | TPush e1 => S (depth e1)
  | TArr _ e1 => S (depth e1)
  | TPair a b => S (Nat.max (depth a) (depth b))
  | _ => 1
  end.

Definition skip_depth (s : skipdef) : nat := match s with SkipEmpty => 0 | SkipRep e => depth e end.

(* one more than the deepest rule body / skip element *)
Definition body_depth (rules : list N) (tbl : N -> rdef) (s : skipdef) : nat :=
  S (Nat.max (list_max (map (fun r => depth (r_body (tbl r))) rules)) (skip_depth s)).

(* one more than the largest rank in use *)
Definition rank_bound (rules : list N) (c : cert) : nat :=
  S (Nat.max (list_max (map (fun r => Nat.max (rank c r true) (rank c r false)) rules)) (skip_rank c)).

(* enough fuel below a node entered with [m] bytes left and all head ranks below [k] *)
Definition level_fuel (D K m k : nat) : nat := 2 + (m * S K + k) * D.

(* enough fuel for [e] with [m] bytes of input left:
   depth e + 2 + (m * (max_rank + 2) + max_rank + 1) * (max_body_depth + 1) *)
Definition fuel_bound (rules : list N) (tbl : N -> rdef) (s : skipdef) (c : cert) (e : texpr) (m : nat) : nat :=
  depth e + level_fuel (body_depth rules tbl s) (rank_bound rules c) m (rank_bound rules c).

(* ---- certificate inference by bounded iteration (convenience: the checker does not trust it) -- *)

Definition lookup_b (l : list (N * bool)) (r : N) : bool :=
  match find (fun p => (fst p =? r)%N) l with Some p => snd p | None => false end.

Definition lookup_n (l : list (N * bool * nat)) (r : N) (b : bool) : nat :=
  match find (fun p => (fst (fst p) =? r)%N && Bool.eqb (snd (fst p)) b) l with
  | Some p => snd p
  | None => 0
  end.

(* least fixpoint from "nothing is nullable": |rules| rounds suffice *)
Fixpoint infer_nullable_it (n : nat) (rules : list N) (tbl : N -> rdef) (cur : list (N * bool)) : list (N * bool) :=
  match n with
  | O => cur
  | S n' =>
      let c := mk_cert (lookup_b cur) (fun _ _ => 0) 0 in
      infer_nullable_it n' rules tbl (map (fun r => (r, may_be_empty c (r_body (tbl r)))) rules)
  end.

Definition infer_nullable (rules : list N) (tbl : N -> rdef) : N -> bool :=
  lookup_b (infer_nullable_it (S (length rules)) rules tbl []).

(* longest head-call chain: rank = 1 + max of the head ranks, iterated 2|rules| + 2 times from 0
   (on a well-founded grammar this has converged; otherwise the checker rejects the result) *)
Fixpoint infer_rank_it (n : nat) (nul : N -> bool) (rules : list N) (tbl : N -> rdef) (s : skipdef)
         (cur : list (N * bool * nat)) (sk : nat) : list (N * bool * nat) * nat :=
  match n with
  | O => (cur, sk)
  | S n' =>
      let c := mk_cert nul (lookup_n cur) sk in
      let next :=
        flat_map (fun r =>
          [(r, true, S (list_max (head_ranks c true (r_body (tbl r)))));
           (r, false, S (list_max (head_ranks c false (r_body (tbl r)))))]) rules in
      let sk' := match s with SkipEmpty => 0 | SkipRep e => S (list_max (head_ranks c false e)) end in
      infer_rank_it n' nul rules tbl s next sk'
  end.

Definition infer_cert (rules : list N) (tbl : N -> rdef) (s : skipdef) : cert :=
  let nul := infer_nullable rules tbl in
  let '(rk, sk) := infer_rank_it (2 * length rules + 3) nul rules tbl s [] 0 in
  mk_cert nul (lookup_n rk) sk.
