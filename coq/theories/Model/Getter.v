(* The getter forest the generator builds with `emit_rule_reference` (generator/src/graph.rs:73-355:
   Edge, Node, flattenable, wrap, merge, expand, Getter::{from_rule, content, content_i, contents, optional,
   choice, prepend, join_mut, collect}) while walking the optimized expression
   (generator/src/graph/optimized_rule.rs:153-333), the Rust type and the value of the generated accessor,
   and the specification of what `r.x()` has to return.  Model only: no lemmas here. *)
From Coq Require Import List NArith ZArith Arith Bool.
From PT Require Import Model.Base Model.Texpr Model.Ast Model.Translate.
Import ListNotations.

(* ---------------------------------------------------------------- names *)
(* A getter is keyed by the identifier as written in the grammar (BTreeMap<&str, Node>); identifiers are
   already resolved in [oexpr], so the key is the resolved identifier. *)
Definition builtin_code (b : builtin) : N :=
  match b with
  | BAny => 0 | BSoi => 1 | BEoi => 2 | BPeek => 3 | BPeekAll => 4 | BPop => 5 | BPopAll => 6 | BDrop => 7
  | BNewline => 8 | BAsciiDigit => 9 | BAsciiNonzeroDigit => 10 | BAsciiBinDigit => 11 | BAsciiOctDigit => 12
  | BAsciiHexDigit => 13 | BAsciiAlphaLower => 14 | BAsciiAlphaUpper => 15 | BAsciiAlpha => 16
  | BAsciiAlphanumeric => 17 | BAscii => 18 | BUndefinedSkip => 19
  end%N.

Definition ident_eqb (a b : ident) : bool :=
  match a, b with
  | IdRule x, IdRule y => (x =? y)%N
  | IdBuiltin x, IdBuiltin y => (builtin_code x =? builtin_code y)%N
  | IdUnicode x, IdUnicode y => (x =? y)%N
  | _, _ => false
  end.

(* ---------------------------------------------------------------- Edge / Node (graph.rs:73-115) *)
Inductive edge :=
| EContent                 (* Edge::Content *)
| EContentI (i : nat)      (* Edge::ContentI(i) *)
| EChoiceI (i : nat)       (* Edge::ChoiceI(i) *)
| EOptional                (* Edge::Optional *)
| EContents.               (* Edge::Contents *)

Inductive gnode :=
| GRule (x : ident)                          (* Node::Rule(name, has_life_time, has_skip) *)
| GContent (g : gnode)                       (* Node::Content *)
| GSeqI (i : nat) (g : gnode)                (* Node::SequenceI *)
| GChoiceI (i : nat) (flat : bool) (g : gnode)   (* Node::ChoiceI *)
| GOptional (flat : bool) (g : gnode)        (* Node::Optional *)
| GContents (g : gnode)                      (* Node::Contents *)
| GTuple (gs : list gnode).                  (* Node::Tuple *)

(* graph.rs:125-135 *)
Fixpoint flattenable (g : gnode) : bool :=
  match g with
  | GRule _ => false
  | GContent g1 | GSeqI _ g1 => flattenable g1
  | GChoiceI _ false _ | GOptional false _ => true
  | GChoiceI _ true g1 | GOptional true g1 => flattenable g1
  | GContents _ | GTuple _ => false
  end.

(* graph.rs:136-144 *)
Definition wrap (g : gnode) (ed : edge) : gnode :=
  match ed with
  | EContent => GContent g
  | EContentI i => GSeqI i g
  | EChoiceI i => GChoiceI i (flattenable g) g
  | EOptional => GOptional (flattenable g) g
  | EContents => GContents g
  end.

(* graph.rs:145-168 *)
Definition merge (a b : gnode) : gnode :=
  match a with
  | GTuple v =>
      match b with
      | GTuple v' => GTuple (v ++ v')
      | _ => GTuple (v ++ [b])
      end
  | _ =>
      match b with
      | GTuple v' => GTuple (a :: v')
      | _ => GTuple [a; b]
      end
  end.

(* ---------------------------------------------------------------- Getter (graph.rs:260-327) *)
(* the BTreeMap as an association list with unique keys; iteration order (by name in the real code) is
   irrelevant for a single name *)
Definition forest := list (ident * gnode).

Fixpoint lookup (x : ident) (f : forest) : option gnode :=
  match f with
  | [] => None
  | (y, g) :: r => if ident_eqb y x then Some g else lookup x r
  end.

Definition names (f : forest) : list ident := map fst f.

Definition from_rule (x : ident) : forest := [(x, GRule x)].

(* Getter::prepend: every tree of the forest is wrapped by the edge *)
Definition prepend (ed : edge) (f : forest) : forest :=
  map (fun p => (fst p, wrap (snd p) ed)) f.

(* one step of join_mut: Entry::Vacant -> insert, Entry::Occupied -> merge *)
Fixpoint join1 (f : forest) (x : ident) (t : gnode) : forest :=
  match f with
  | [] => [(x, t)]
  | (y, g) :: r => if ident_eqb y x then (y, merge g t) :: r else (y, g) :: join1 r x t
  end.

Definition join (f other : forest) : forest :=
  fold_left (fun acc p => join1 acc (fst p) (snd p)) other f.

(* optimized_rule.rs:153-333 with config.emit_rule_reference = true.  Seq / Choice: `walk!` collects the
   right spine, then `for (i, expr) in vec.into_iter().enumerate() { getter = getter.join(acc.content_i(i)) }`
   starting from Getter::new() *)
Fixpoint getter_of (e : oexpr) {struct e} : forest :=
  match e with
  | OIdent i => from_rule i                       (* every identifier, defined rule or built-in alias *)
  | OPosPred e1 => prepend EContent (getter_of e1)
  | OPush e1 => prepend EContent (getter_of e1)
  | ONegPred _ => []                              (* "Impossible to access inner tokens." *)
  | ORestore e1 => getter_of e1
  | OOpt e1 => prepend EOptional (getter_of e1)
  | ORep e1 => prepend EContents (getter_of e1)
  | OSeq a b =>
      (fix spine (acc : forest) (i : nat) (x : oexpr) {struct x} : forest :=
         match x with
         | OSeq a' b' => spine (join acc (prepend (EContentI i) (getter_of a'))) (S i) b'
         | _ => join acc (prepend (EContentI i) (getter_of x))
         end) (join [] (prepend (EContentI 0) (getter_of a))) 1 b
  | OChoice a b =>
      (fix spine (acc : forest) (i : nat) (x : oexpr) {struct x} : forest :=
         match x with
         | OChoice a' b' => spine (join acc (prepend (EChoiceI i) (getter_of a'))) (S i) b'
         | _ => join acc (prepend (EChoiceI i) (getter_of x))
         end) (join [] (prepend (EChoiceI 0) (getter_of a))) 1 b
  | _ => []                                       (* Str Insens Range PeekSlice Skip *)
  end.

(* graph.rs:418-429: accessors are emitted for Emission::Both and Emission::Expression only *)
Definition rule_getters (r : orule) : forest :=
  match emis_of_kind (o_kind r) with
  | EmSpan => []
  | _ => getter_of (o_expr r)
  end.

Definition getter (e : oexpr) (x : ident) : option gnode := lookup x (getter_of e).

(* ---------------------------------------------------------------- Node::expand: the type *)
Inductive gty :=
| TyRef (x : ident)              (* &'s rules::x<..> *)
| TyOption (t : gty)
| TyVec (t : gty)
| TyTuple (ts : list gty).

Fixpoint gtype (g : gnode) : gty :=
  match g with
  | GRule x => TyRef x
  | GContent g1 | GSeqI _ g1 => gtype g1
  | GOptional fl g1 | GChoiceI _ fl g1 => if fl then gtype g1 else TyOption (gtype g1)
  | GContents g1 => TyVec (gtype g1)
  | GTuple gs => TyTuple (map gtype gs)
  end.

(* the generic arguments written after the rule name (graph.rs:198-203): `::<'i, #skip>` exactly for rules the
   grammar defines (has_skip = defined.contains(id)), where #skip comes from the DEFINING rule's kind *)
Definition ref_arg (k : sk) (x : ident) : option sk :=
  match x with IdRule _ => Some k | _ => None end.

Definition is_option (t : gty) : bool := match t with TyOption _ => true | _ => false end.

(* ---------------------------------------------------------------- Node::expand: the path, evaluated *)
(* the value an accessor returns; [VErr] = an expression rustc would reject (a field / method that the
   value does not have): excluded by the theorems *)
Inductive gval :=
| VRef (t : tnode)
| VOpt (o : option gval)
| VVec (l : list gval)
| VTuple (l : list gval)
| VErr.

(* Option<Option<T>>::flatten *)
Definition flatten_opt (o : option gval) : gval :=
  match o with
  | None => VOpt None
  | Some (VOpt o') => VOpt o'
  | Some _ => VErr
  end.

Definition opt_result (fl : bool) (o : option gval) : gval :=
  if fl then flatten_opt o else VOpt o.

Fixpoint eval_g (g : gnode) (t : tnode) {struct g} : gval :=
  match g with
  | GRule _ => VRef t                                        (* `res` *)
  | GContent g1 =>                                           (* `&res.content` of Push / Positive *)
      match t with
      | NPush c | NPos c => eval_g g1 c
      | _ => VErr
      end
  | GSeqI i g1 =>                                            (* `&res.content.i.matched` of SeqN *)
      match t with
      | NSeq items =>
          match nth_error items i with
          | Some it => eval_g g1 (snd it)
          | None => VErr
          end
      | _ => VErr
      end
  | GChoiceI i fl g1 =>                                      (* `res._i().map(|res| ..) [.flatten()]` *)
      match t with
      | NChoice n j c =>
          if (i <? n)%nat
          then opt_result fl (if (j =? i)%nat then Some (eval_g g1 c) else None)
          else VErr
      | _ => VErr
      end
  | GOptional fl g1 =>                                       (* `res.as_ref().map(|res| ..) [.flatten()]` *)
      match t with
      | NOpt o => opt_result fl (option_map (eval_g g1) o)
      | _ => VErr
      end
  | GContents g1 =>                                          (* `res.content.iter().map(|res| {let res = &res.matched; ..}).collect()` *)
      match t with
      | NRep _ items => VVec (map (fun it => eval_g g1 (snd it)) items)
      | _ => VErr
      end
  | GTuple gs => VTuple (map (fun g1 => eval_g g1 t) gs)     (* `(p1, .., pn)`, all from the same `res` *)
  end.

(* the accessor `r.x()` on a parsed rule struct: `let res = &self.content;` (or `&*self.content`) *)
Definition call_getter (g : gnode) (rule_node : tnode) : gval :=
  match rule_node with
  | NRule _ (Some c) _ => eval_g g c
  | _ => VErr
  end.

(* all nodes an accessor value holds, left to right *)
Fixpoint flatten_gval (v : gval) : list tnode :=
  match v with
  | VRef t => [t]
  | VOpt None => []
  | VOpt (Some v1) => flatten_gval v1
  | VVec l | VTuple l => flat_map flatten_gval l
  | VErr => []
  end.

(* ---------------------------------------------------------------- the specification *)
(* [direct_refs x t]: the nodes of rule [x] stored in [t], in order, not descending into the content of any
   rule node, not into negative predicates (they store nothing) and not into the `skipped` arrays of
   sequences and repetitions *)
Fixpoint direct_refs (x : N) (t : tnode) {struct t} : list tnode :=
  match t with
  | NRule r _ _ => if (r =? x)%N then [t] else []
  | NSeq items | NRep _ items => flat_map (fun it => direct_refs x (snd it)) items
  | NChoice _ _ c => direct_refs x c
  | NOpt (Some c) => direct_refs x c
  | NPos c | NPush c => direct_refs x c
  | NAtomicRep l | NArr l => flat_map (direct_refs x) l
  | NPair a b => direct_refs x a ++ direct_refs x b
  | _ => []
  end.

(* which rule struct an identifier stores (a built-in alias other than EOI stores a library node, which
   carries no rule name) *)
Definition rule_key (eoi : N) (x : ident) : option N :=
  match x with
  | IdRule r => Some r
  | IdBuiltin BEoi => Some eoi
  | _ => None
  end.

(* two different identifiers of one expression that store the same rule struct (only possible if a grammar rule had
   the index reserved for EOI): then the stored value alone cannot tell which mention a node belongs to *)
Definition key_clash (eoi : N) (x y : ident) : bool :=
  match rule_key eoi x, rule_key eoi y with
  | Some a, Some b => (a =? b)%N && negb (ident_eqb x y)
  | _, _ => false
  end.

Fixpoint no_clash (eoi : N) (x : ident) (e : oexpr) : bool :=
  match e with
  | OIdent y => negb (key_clash eoi x y)
  | OPosPred e1 | ONegPred e1 | OOpt e1 | ORep e1 | OPush e1 | ORestore e1 => no_clash eoi x e1
  | OSeq a b | OChoice a b => no_clash eoi x a && no_clash eoi x b
  | _ => true
  end.

(* For identifiers in general (built-in aliases such as ANY store nodes that do not carry their name) the
   specification follows the expression: the nodes stored at the positions where [e] mentions [x], in the
   order of the mentions, negative predicates excluded *)
Fixpoint mention_refs (x : ident) (e : oexpr) (t : tnode) {struct e} : list tnode :=
  match e with
  | OIdent i => if ident_eqb i x then [t] else []
  | OPosPred e1 => match t with NPos c => mention_refs x e1 c | _ => [] end
  | OPush e1 => match t with NPush c => mention_refs x e1 c | _ => [] end
  | ONegPred _ => []
  | ORestore e1 => mention_refs x e1 t
  | OOpt e1 => match t with NOpt (Some c) => mention_refs x e1 c | _ => [] end
  | ORep e1 =>
      match t with
      | NRep _ items => flat_map (fun it => mention_refs x e1 (snd it)) items
      | _ => []
      end
  | OSeq a b =>
      match t with
      | NSeq items =>
          match items with
          | [] => []
          | it :: rest =>
              mention_refs x a (snd it) ++
              (fix spine (y : oexpr) (its : list (list tnode * tnode)) {struct y} : list tnode :=
                 match y with
                 | OSeq a' b' =>
                     match its with
                     | [] => []
                     | it' :: rest' => mention_refs x a' (snd it') ++ spine b' rest'
                     end
                 | _ => match its with it' :: _ => mention_refs x y (snd it') | [] => [] end
                 end) b rest
          end
      | _ => []
      end
  | OChoice a b =>
      match t with
      | NChoice _ i c =>
          match i with
          | O => mention_refs x a c
          | S i' =>
              (fix spine (y : oexpr) (j : nat) {struct y} : list tnode :=
                 match y with
                 | OChoice a' b' =>
                     match j with
                     | O => mention_refs x a' c
                     | S j' => spine b' j'
                     end
                 | _ => match j with O => mention_refs x y c | S _ => [] end
                 end) b i'
          end
      | _ => []
      end
  | _ => []
  end.

(* ---------------------------------------------------------------- typing of stored values *)
(* [has_shape e t]: [t] is a value the parse of the typed expression [e] can store (the Rust type of the
   node).  Rule nodes are opaque: only the rule name is part of the shape. *)
Fixpoint has_shape (e : texpr) (t : tnode) {struct e} : Prop :=
  match e, t with
  | TStr _, NStr => True
  | TInsens _, NInsens _ _ => True
  | TRange _ _, NChar CkRange _ => True
  | TAny, NChar CkAny _ => True
  | TCharBy p, NChar (CkProp q) _ => p = q
  | TSoi, NSoi => True
  | TEoi, NEoi => True
  | TNewline, NNewline _ => True
  | TSkipUntil _, NSpanned KSkip _ _ => True
  | TSkipChars _, NSpanned KSkipChar _ _ => True
  | TSeq _ es, NSeq items =>
      (fix all2 (l : list texpr) (its : list (list tnode * tnode)) {struct l} : Prop :=
         match l, its with
         | [], [] => True
         | e1 :: l', it :: its' => has_shape e1 (snd it) /\ all2 l' its'
         | _, _ => False
         end) es items
  | TChoice es, NChoice n i c =>
      n = length es /\
      (fix pick (l : list texpr) (j : nat) {struct l} : Prop :=
         match l, j with
         | e1 :: _, O => has_shape e1 c
         | _ :: l', S j' => pick l' j'
         | [], _ => False
         end) es i
  | TOpt _, NOpt None => True
  | TOpt e1, NOpt (Some c) => has_shape e1 c
  | TRep _ _ _ e1, NRep _ items =>
      (fix all (its : list (list tnode * tnode)) : Prop :=
         match its with
         | [] => True
         | it :: its' => has_shape e1 (snd it) /\ all its'
         end) items
  | TAtomicRep e1, NAtomicRep l =>
      (fix all (ts : list tnode) : Prop :=
         match ts with
         | [] => True
         | t1 :: ts' => has_shape e1 t1 /\ all ts'
         end) l
  | TPos e1, NPos c => has_shape e1 c
  | TNeg _, NNeg => True
  | TPush e1, NPush c => has_shape e1 c
  | TPeek, NSpanned KPeek _ _ => True
  | TPop, NSpanned KPop _ _ => True
  | TDrop, NDrop => True
  | TPeekAll, NSpanned KPeekAll _ _ => True
  | TPopAll, NSpanned KPopAll _ _ => True
  | TPeekSlice _ _, NSlice _ => True
  | TArr _ e1, NArr l =>
      (fix all (ts : list tnode) : Prop :=
         match ts with
         | [] => True
         | t1 :: ts' => has_shape e1 t1 /\ all ts'
         end) l
  | TPair a b, NPair ta tb => has_shape a ta /\ has_shape b tb
  | TEmpty, NEmpty => True
  | TRule r _, NRule r' _ _ => r = r'
  | _, _ => False
  end.

(* ---------------------------------------------------------------- the expected type, from the expression alone *)
(* `Option` is added by an enclosing `?` or `|` unless the type is already an Option; `Vec` by `*`; a tuple
   is formed where several elements of one sequence / several alternatives of one choice mention the name *)
Definition opt_wrap (t : gty) : gty := if is_option t then t else TyOption t.

Definition tuple_of (ts : list gty) : option gty :=
  match ts with
  | [] => None
  | [t] => Some t
  | _ => Some (TyTuple ts)
  end.

Definition opt_cons (o : option gty) (l : list gty) : list gty :=
  match o with Some t => t :: l | None => l end.

Fixpoint spec_type (x : ident) (e : oexpr) {struct e} : option gty :=
  match e with
  | OIdent i => if ident_eqb i x then Some (TyRef x) else None
  | OPosPred e1 | OPush e1 | ORestore e1 => spec_type x e1
  | ONegPred _ => None
  | OOpt e1 => option_map opt_wrap (spec_type x e1)
  | ORep e1 => option_map TyVec (spec_type x e1)
  | OSeq a b =>
      tuple_of (opt_cons (spec_type x a)
        ((fix spine (y : oexpr) {struct y} : list gty :=
            match y with
            | OSeq a' b' => opt_cons (spec_type x a') (spine b')
            | _ => opt_cons (spec_type x y) []
            end) b))
  | OChoice a b =>
      tuple_of (opt_cons (option_map opt_wrap (spec_type x a))
        ((fix spine (y : oexpr) {struct y} : list gty :=
            match y with
            | OChoice a' b' => opt_cons (option_map opt_wrap (spec_type x a')) (spine b')
            | _ => opt_cons (option_map opt_wrap (spec_type x y)) []
            end) b))
  | _ => None
  end.

(* no `Option<Option<_>>` anywhere in a type *)
Fixpoint no_nested_option (t : gty) : Prop :=
  match t with
  | TyRef _ => True
  | TyOption t1 => is_option t1 = false /\ no_nested_option t1
  | TyVec t1 => no_nested_option t1
  | TyTuple ts => (fix all (l : list gty) : Prop := match l with [] => True | a :: r => no_nested_option a /\ all r end) ts
  end.

(* a value of a type; a reference must point to a node of the shape the identifier translates to *)
Fixpoint val_of_type (shape_ok : ident -> tnode -> Prop) (v : gval) (t : gty) {struct v} : Prop :=
  match v, t with
  | VRef n, TyRef x => shape_ok x n
  | VOpt None, TyOption _ => True
  | VOpt (Some v1), TyOption t1 => val_of_type shape_ok v1 t1
  | VVec l, TyVec t1 =>
      (fix all (vs : list gval) : Prop :=
         match vs with [] => True | a :: r => val_of_type shape_ok a t1 /\ all r end) l
  | VTuple l, TyTuple ts =>
      (fix all2 (vs : list gval) (tys : list gty) {struct vs} : Prop :=
         match vs, tys with
         | [], [] => True
         | a :: r, ty :: tys' => val_of_type shape_ok a ty /\ all2 r tys'
         | _, _ => False
         end) l ts
  | _, _ => False
  end.
