(* Declarative specification of line/column, line text, and the lines touched by a span,
   stated on the *characters* of the input (a string is `encode cs`; the k-th character
   boundary is the byte offset `boff cs k`).  Definitions only. *)
From Coq Require Import List NArith Arith Bool.
From PT Require Import Model.Base Model.Lines.
Import ListNotations.
Local Open Scope N_scope.

(* byte offset of the boundary after the first k characters *)
Definition boff (cs : list char) (k : nat) : nat := length (encode (firstn k cs)).

Definition valid_str (cs : list char) : Prop := Forall (fun c => valid_char c = true) cs.

(* number of LF characters *)
Definition count_lf (cs : list char) : nat := length (filter is_lf cs).

(* longest LF-free prefix / what is left (starting with the first LF, if any) *)
Fixpoint take_nolf (cs : list char) : list char :=
  match cs with
  | [] => []
  | c :: r => if is_lf c then [] else c :: take_nolf r
  end.
Fixpoint drop_nolf (cs : list char) : list char :=
  match cs with
  | [] => []
  | c :: r => if is_lf c then cs else drop_nolf r
  end.

(* the characters after the last LF (everything if there is none) / up to and including the last LF *)
Definition after_last_lf (cs : list char) : list char := rev (take_nolf (rev cs)).
Definition upto_last_lf (cs : list char) : list char := rev (drop_nolf (rev cs)).

(* up to and including the first LF (everything if there is none) / what follows it *)
Fixpoint upto_lf (cs : list char) : list char :=
  match cs with
  | [] => []
  | c :: r => if is_lf c then [c] else c :: upto_lf r
  end.
Fixpoint after_lf (cs : list char) : list char :=
  match cs with
  | [] => []
  | c :: r => if is_lf c then r else after_lf r
  end.

(* ---- C12 ------------------------------------------------------------------------------------
   line   = 1 + number of LF before the offset
   column = 1 + number of characters (not bytes) between the last LF before the offset and the offset.
   Nothing else: a CR is an ordinary character of the line it stands in.  The CR of a CRLF
   pair therefore counts as a column for the offset between CR and LF, and is forgotten with the
   rest of its line once the LF is passed -- which is all that "CRLF is one line break" means
   (the special CRLF arm of the code is observationally the same as CR-then-LF). *)
Definition line_col_spec (cs : list char) (k : nat) : nat * nat :=
  let pre := firstn k cs in
  (1 + count_lf pre, 1 + length (after_last_lf pre))%nat.

(* the line of offset k: from after the last LF strictly before k to just after the first LF at or
   after k (end of input if none).  At k = end of input this is the last line (empty after a final LF). *)
Definition line_of_spec (cs : list char) (k : nat) : list char :=
  after_last_lf (firstn k cs) ++ upto_lf (skipn k cs).

(* ---- lines of a text, as byte ranges ----------------------------------------------------- *)

(* split after every LF; a final piece without LF is a line; there is no empty last line *)
Fixpoint split_lines (cs : list char) : list (list char) :=
  match cs with
  | [] => []
  | c :: r =>
      if is_lf c then [c] :: split_lines r
      else match split_lines r with
           | [] => [[c]]
           | l :: ls => (c :: l) :: ls
           end
  end.

Fixpoint spans_from (off : nat) (ls : list (list char)) : list (nat * nat) :=
  match ls with
  | [] => []
  | l :: r => (off, off + length (encode l))%nat :: spans_from (off + length (encode l)) r
  end.

Definition line_spans (cs : list char) : list (nat * nat) := spans_from 0 (split_lines cs).

(* the lines the span [a,b] touches: those that end after a and start at or before b
   (this includes the line that starts exactly at b -- pest's behaviour) *)
Definition touches (a b : nat) (l : nat * nat) : bool := (a <? snd l)%nat && (fst l <=? b)%nat.
Definition lines_span_spec (cs : list char) (a b : nat) : list (nat * nat) :=
  filter (touches a b) (line_spans cs).
