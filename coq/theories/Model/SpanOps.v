(* Executable model of main/src/span.rs: Span::new, get (all range forms), start/end/split,
   as_str, lines_span/lines (the LinesSpan iterator), merge_spans, ==.
   A span over the string s is the pair (start, end); the input string is passed separately.
   Model only (plus, at the end, the declarative specifications): no proofs in this file. *)
From Coq Require Import List NArith Arith Bool.
From PT Require Import Model.Base Model.Lines.
Import ListNotations.
Local Open Scope N_scope.

Definition span := (nat * nat)%type.
Definition sp_start (sp : span) : nat := fst sp.     (* Span::start *)
Definition sp_end (sp : span) : nat := snd sp.       (* Span::end *)

(* `Span::new`: `if input.get(start..end).is_some() { Some(..) } else { None }` *)
Definition span_new (s : list byte) (a b : nat) : option span :=
  match slice_opt s a b with
  | Some _ => Some (a, b)
  | None => None
  end.

(* `Span::as_str`: `&self.input[self.start..self.end]` (checked slicing in every profile) *)
Definition span_as_str (s : list byte) (sp : span) : mres (list byte) :=
  slice_checked s (fst sp) (snd sp).

(* `Position::new_unchecked`: `debug_assert!(input.get(pos..).is_some())` *)
Definition pos_new_unchecked (s : list byte) (p : nat) : mres nat :=
  match pos_new s p with
  | Some _ => MOk p
  | None => MPanic
  end.

(* `Span::split` (start_pos / end_pos are its two halves) *)
Definition span_split (s : list byte) (sp : span) : mres (nat * nat) :=
  mbind (pos_new_unchecked s (fst sp)) (fun a =>
  mbind (pos_new_unchecked s (snd sp)) (fun b => MOk (a, b))).

(* ---- get --------------------------------------------------------------------------------- *)

(* `core::ops::Bound<usize>`; the numbers are arbitrary usize values, hence N *)
Inductive bound := BIncl (n : N) | BExcl (n : N) | BUnb.

Definition usize_max : N := 18446744073709551615.

(* `*offset + 1` (debug build: overflow panics; a release build would wrap to 0) *)
Definition succ_usize (n : N) : mres N := if n =? usize_max then MPanic else MOk (n + 1).

(* `t.get(a..b)` for arbitrary usize a, b, as (a, b) in nat when it succeeds *)
Definition str_get_N (t : list byte) (a b : N) : option (nat * nat) :=
  if (a <=? b) && (b <=? N.of_nat (length t)) then
    match slice_opt t (N.to_nat a) (N.to_nat b) with
    | Some _ => Some (N.to_nat a, N.to_nat b)
    | None => None
    end
  else None.

(* `Span::get(range)`; the range forms are
     a..b = (BIncl a, BExcl b)   a..=b = (BIncl a, BIncl b)   a.. = (BIncl a, BUnb)
     ..b  = (BUnb, BExcl b)      ..=b  = (BUnb, BIncl b)      ..  = (BUnb, BUnb)
   and (Bound, Bound) tuples give the BExcl start. *)
Definition span_get (s : list byte) (sp : span) (lo hi : bound) : mres (option span) :=
  mbind (match lo with
         | BIncl n => MOk n
         | BExcl n => succ_usize n
         | BUnb => MOk 0
         end) (fun st =>
  mbind (match hi with
         | BIncl n => succ_usize n
         | BExcl n => MOk n
         | BUnb => mbind (span_as_str s sp) (fun t => MOk (N.of_nat (length t)))
         end) (fun en =>
  mbind (span_as_str s sp) (fun t =>
    MOk (match str_get_N t st en with
         | Some (a, b) => Some (fst sp + a, fst sp + b)%nat
         | None => None
         end)))).

(* ---- lines_span / lines (span.rs LinesSpan::next) ----------------------------------------- *)

(* one call of `next()` with the iterator at [pos]: the yielded span and the new `self.pos` *)
Definition ls_next (s : list byte) (sp : span) (pos : nat) : option (span * nat) :=
  if (snd sp <? pos)%nat then None                       (* if self.pos > self.span.end *)
  else match pos_new s pos with                         (* Position::new(..)? *)
       | None => None
       | Some p =>
           if (p =? length s)%nat then None             (* pos.at_end() *)
           else
             let line_start := find_line_start s p in
             let line_end := find_line_end s p in         (* self.pos = ... *)
             match span_new s line_start line_end with
             | Some it => Some (it, line_end)
             | None => None
             end
       end.

(* `.collect()`: call next() until it returns None *)
Fixpoint ls_collect (fuel : nat) (s : list byte) (sp : span) (pos : nat) : lres (list span) :=
  match ls_next s sp pos with
  | None => LOk []
  | Some (it, pos') =>
      match fuel with
      | O => LFuel
      | S f =>
          match ls_collect f s sp pos' with
          | LOk r => LOk (it :: r)
          | e => e
          end
      end
  end.

(* `span.lines_span().collect()`; every yielded line is non-empty, so length s steps suffice *)
Definition lines_span (s : list byte) (sp : span) : lres (list span) :=
  ls_collect (length s) s sp (fst sp).

Fixpoint map_as_str (s : list byte) (l : list span) : lres (list (list byte)) :=
  match l with
  | [] => LOk []
  | it :: r =>
      match span_as_str s it with
      | MPanic => LPanic
      | MOk t => match map_as_str s r with
                 | LOk ts => LOk (t :: ts)
                 | e => e
                 end
      end
  end.

(* `span.lines().collect()`: `inner.next().map(|span| span.as_str())` *)
Definition lines (s : list byte) (sp : span) : lres (list (list byte)) :=
  match lines_span s sp with
  | LOk l => map_as_str s l
  | LPanic => LPanic
  | LUnreachable => LUnreachable
  | LDead => LDead
  | LFuel => LFuel
  end.

(* ---- merge_spans, == ---------------------------------------------------------------------- *)

Definition merge_spans (s : list byte) (a b : span) : option span :=
  if (fst b <=? snd a)%nat && (fst a <=? snd b)%nat          (* a.end() >= b.start() && a.start() <= b.end() *)
  then span_new s (Nat.min (fst a) (fst b)) (Nat.max (snd a) (snd b))
  else None.

(* `PartialEq`: `ptr::eq(self.input, other.input) && start == start && end == end` *)
Definition span_eq (same_input : bool) (a b : span) : bool :=
  same_input && (fst a =? fst b)%nat && (snd a =? snd b)%nat.

(* ---- specifications ---------------------------------------------------------------------- *)

(* a pair is a valid span of s iff  a <= b <= |s|  and both are character boundaries *)
Definition valid_span (s : list byte) (a b : nat) : bool :=
  (a <=? b)%nat && (b <=? length s)%nat && is_boundary s a && is_boundary s b.

Definition lo_of (lo : bound) : N :=
  match lo with BIncl n => n | BExcl n => n + 1 | BUnb => 0 end.
Definition hi_of (hi : bound) (sublen : nat) : N :=
  match hi with BIncl n => n + 1 | BExcl n => n | BUnb => N.of_nat sublen end.
Definition bound_ok (b : bound) : Prop :=
  match b with BIncl n | BExcl n => n < usize_max | BUnb => True end.

(* get = new on the shifted bounds, as long as the range stays inside the span *)
Definition span_get_spec (s : list byte) (sp : span) (lo hi : bound) : option span :=
  let sublen := (snd sp - fst sp)%nat in
  if hi_of hi sublen <=? N.of_nat sublen
  then span_new s (fst sp + N.to_nat (lo_of lo)) (fst sp + N.to_nat (hi_of hi sublen))
  else None.

(* merging succeeds exactly for overlapping or adjacent spans and gives the hull *)
Definition merge_spec (a b : span) : option span :=
  if (fst b <=? snd a)%nat && (fst a <=? snd b)%nat
  then Some (Nat.min (fst a) (fst b), Nat.max (snd a) (snd b))
  else None.
