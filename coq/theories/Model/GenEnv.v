(* The two environments a grammar gives rise to: the typed parser's (through the generator model) and
   the PEG spec's. Model only. *)
From Coq Require Import List NArith Bool.
From PT Require Import Model.Base Model.Texpr Model.Sem Model.Ast Model.Translate Model.PegSpec.
Import ListNotations.

Definition lookup_rule (rs : list orule) (r : N) : option orule :=
  find (fun d => (o_name d =? r)%N) rs.

(* the environment of the generated typed parser (repaired runtime): rule table = translate_opt *)
Definition env_of (eoi : N) (g : ogrammar) (I : inp) (pred : N -> char -> bool) : env :=
  mk_env I
    (fun r =>
       if (r =? eoi)%N then mk_rdef None EmBoth TEoi            (* rule_eoi! *)
       else match lookup_rule (g_rules g) r with
            | Some d => rdef_of_orule eoi d
            | None => mk_rdef None EmBoth TFail
            end)
    (skip_of (g_ws g) (g_comment g)) pred eoi true true true.

Definition penv_of (eoi : N) (g : ogrammar) (I : inp) (pred : N -> char -> bool) : penv :=
  mk_penv I (lookup_rule (g_rules g)) (g_ws g) (g_comment g) pred eoi.

(* ---- where the known finding (WHITESPACE / COMMENT not forced atomic) cannot show ---- *)

(* an expression whose behaviour does not depend on the inherited atomicity: no sequence, no repetition,
   no reference to a defined rule *)
Fixpoint flat (e : oexpr) : bool :=
  match e with
  | OSeq _ _ | ORep _ => false
  | OIdent (IdRule _) => false
  | OPosPred e1 | ONegPred e1 | OOpt e1 | OPush e1 | ORestore e1 => flat e1
  | OChoice a b => flat a && flat b
  | _ => true
  end.

Fixpoint mentions (r : N) (e : oexpr) : bool :=
  match e with
  | OIdent (IdRule x) => (x =? r)%N
  | OPosPred e1 | ONegPred e1 | OOpt e1 | ORep e1 | OPush e1 | ORestore e1 => mentions r e1
  | OSeq a b | OChoice a b => mentions r a || mentions r b
  | _ => false
  end.

Definition skip_rule_ok (g : ogrammar) (o : option N) : bool :=
  match o with
  | None => true
  | Some r =>
      match lookup_rule (g_rules g) r with
      | None => true
      | Some d =>
          match o_kind d with
          | KAtomic | KCompound => true          (* declared atomic: already SKIP = 0 *)
          | KNonAtomic => flat (o_expr d)        (* `!` switches skipping ON inside the skip rule itself *)
          | _ => flat (o_expr d) || negb (existsb (fun d' => mentions r (o_expr d')) (g_rules g))
          end
      end
  end.

(* WHITESPACE / COMMENT are either insensitive to atomicity or only ever reached through the implicit skip *)
Definition ws_ok (g : ogrammar) : bool := skip_rule_ok g (g_ws g) && skip_rule_ok g (g_comment g).

Definition is_skip_name (g : ogrammar) (r : N) : bool :=
  match g_ws g with Some w => (w =? r)%N | None => false end ||
  match g_comment g with Some c => (c =? r)%N | None => false end.
