(* C18: `==`, `Hash` and `{:?}` of parse results, written field by field as the derives and the
   hand-written impls of the runtime crate compare / hash / print them.  Model only: no proofs here.

   All three functions take the bytes [i] of ONE input object: every span of the two values points into
   that object, so the pointer component of `Span::eq` (span.rs:504-508, `ptr::eq(self.input, other.input)`)
   is equal on both sides and the pointer word fed to the hasher (span.rs:512-518) is one fixed value,
   the symbolic word [HPtr].

   Rust only compares two values of ONE type.  [eq_m] is total on [tnode]: on two nodes that cannot be
   values of one Rust type (different constructors, different choice arity, different rule ...) it returns
   [false]; the theorems of Properties/C18.v are stated for ALL pairs of tnodes and therefore hold in
   particular for every pair of values of one type.

   Determinism / statelessness is NOT a statement about these functions (a Gallina function has no
   state; `clone()` is the identity on the model): that half of C18 is checked on the code, see
   vlib/props/C18.py (second parse, clone, three orders, fresh processes). *)
From Coq Require Import List NArith ZArith Arith Bool.
From PT Require Import Model.Base Model.Texpr.
Import ListNotations.

(* `&input[s..e]`: `Span::as_str()`, and the `content: &'i str` of Insens *)
Definition text (i : list byte) (s e : nat) : list byte := firstn (e - s) (skipn s i).

(* ------------------------------------------------------------------ PartialEq *)

(* `<str as PartialEq>::eq` / `<[u8] as PartialEq>::eq`: equal length and equal bytes *)
Fixpoint bytes_eqb (a b : list byte) : bool :=
  match a, b with
  | [], [] => true
  | x :: a', y :: b' => (x =? y)%N && bytes_eqb a' b'
  | _, _ => false
  end.

Section ListEq.
  Context {A : Type}.
  Variable f : A -> A -> bool.
  (* `<[T] as PartialEq>::eq` (Vec, arrays): `self.len() == other.len()` and all pairs equal
     (same function as the length test followed by the zip, see EqHashProofs.list_eqb_spec) *)
  Fixpoint list_eqb (l1 l2 : list A) : bool :=
    match l1, l2 with
    | [], [] => true
    | x :: l1', y :: l2' => f x y && list_eqb l1' l2'
    | _, _ => false
    end.

  (* derived PartialEq of `Option<T>` *)
  Definition opt_eqb (a b : option A) : bool :=
    match a, b with
    | None, None => true
    | Some x, Some y => f x y
    | _, _ => false
    end.
End ListEq.

Definition nlkind_eqb (a b : nlkind) : bool :=
  match a, b with
  | NlCRLF, NlCRLF | NlLF, NlLF | NlCR, NlCR => true
  | _, _ => false
  end.

Definition spk_eqb (a b : spk) : bool :=
  match a, b with
  | KSkip, KSkip | KSkipChar, KSkipChar | KPeek, KPeek | KPop, KPop | KPeekAll, KPeekAll | KPopAll, KPopAll => true
  | _, _ => false
  end.

Definition chk_eqb (a b : chk) : bool :=
  match a, b with
  | CkRange, CkRange | CkAny, CkAny => true
  | CkProp p, CkProp q => (p =? q)%N
  | _, _ => false
  end.

(* span.rs:504-508 on one input object: start and end *)
Definition span_eqb (a b : nat * nat) : bool :=
  (fst a =? fst b)%nat && (snd a =? snd b)%nat.

Fixpoint eq_m (i : list byte) (t1 t2 : tnode) {struct t1} : bool :=
  match t1, t2 with
  | NStr, NStr => true                                        (* only a PhantomData field *)
  | NInsens s1 e1, NInsens s2 e2 =>                           (* `content: &str` compares the TEXT *)
      bytes_eqb (text i s1 e1) (text i s2 e2)
  | NChar k1 c1, NChar k2 c2 => chk_eqb k1 k2 && (c1 =? c2)%N (* `content: char` *)
  | NSoi, NSoi => true
  | NEoi, NEoi => true
  | NNewline k1, NNewline k2 => nlkind_eqb k1 k2
  | NSpanned k1 s1 e1, NSpanned k2 s2 e2 => spk_eqb k1 k2 && span_eqb (s1, e1) (s2, e2)
  | NSeq it1, NSeq it2 =>                                     (* sequence.rs:126-135: every element *)
      list_eqb (fun a b => list_eqb (eq_m i) (fst a) (fst b) && eq_m i (snd a) (snd b)) it1 it2
  | NChoice n1 i1 u1, NChoice n2 i2 u2 =>                     (* derived on the enum: variant, then payload *)
      (n1 =? n2)%nat && (i1 =? i2)%nat && eq_m i u1 u2
  | NOpt o1, NOpt o2 => opt_eqb (eq_m i) o1 o2
  | NRep b1 it1, NRep b2 it2 =>                               (* `content: Vec<Skipped<..>>` *)
      Bool.eqb b1 b2 &&
      list_eqb (fun a b => list_eqb (eq_m i) (fst a) (fst b) && eq_m i (snd a) (snd b)) it1 it2
  | NAtomicRep l1, NAtomicRep l2 => list_eqb (eq_m i) l1 l2
  | NPos u1, NPos u2 => eq_m i u1 u2
  | NNeg, NNeg => true
  | NPush u1, NPush u2 => eq_m i u1 u2
  | NDrop, NDrop => true
  | NSlice b1, NSlice b2 => Bool.eqb b1 b2
  | NArr l1, NArr l2 => list_eqb (eq_m i) l1 l2
  | NPair a1 b1, NPair a2 b2 => eq_m i a1 a2 && eq_m i b1 b2
  | NEmpty, NEmpty => true
  | NRule r1 c1 sp1, NRule r2 c2 sp2 =>                       (* rule.rs:487-547: derived, `content` then `span` *)
      (r1 =? r2)%N && opt_eqb (eq_m i) c1 c2 && opt_eqb span_eqb sp1 sp2
  | _, _ => false
  end.

(* ------------------------------------------------------------------ Hash *)

(* one call of a `Hasher` method *)
Inductive hword :=
| HPtr                      (* write_usize(address of the input object) *)
| HUsize (n : nat)          (* write_usize: usize fields, length prefixes, the `str` pointer's metadata *)
| HIsize (z : Z)            (* write_isize: `mem::discriminant` of an enum *)
| HU32 (c : N)              (* write_u32: char *)
| HU8 (b : N)               (* write_u8 *)
| HBytes (l : list byte).   (* write(&[u8]) *)

(* `Hash for str` = `write_str` = bytes, then 0xFF *)
Definition hash_str (b : list byte) : list hword := [HBytes b; HU8 255].

(* span.rs:512-518: `(self.input as *const str).hash(state)` writes the address and the metadata of the
   fat pointer (the length of the whole input), then start, then end *)
Definition hash_span (i : list byte) (s e : nat) : list hword :=
  [HPtr; HUsize (length i); HUsize s; HUsize e].

Definition nl_discr (k : nlkind) : Z :=
  match k with NlCRLF => 0%Z | NlLF => 1%Z | NlCR => 2%Z end.

Fixpoint hash_m (i : list byte) (t : tnode) : list hword :=
  match t with
  | NStr => []                                    (* PhantomData hashes nothing *)
  | NInsens s e => hash_str (text i s e)
  | NChar _ c => [HU32 c]
  | NSoi | NEoi => []
  | NNewline k => [HIsize (nl_discr k)]
  | NSpanned _ s e => hash_span i s e
  | NSeq items =>                                 (* sequence.rs:140-147: every element, in order;
                                                     element = derived Hash of Skipped: the array `[Skip; SKIP]`
                                                     (hashed as a slice: length prefix, elements), then `matched` *)
      flat_map (fun it => HUsize (length (fst it)) :: flat_map (hash_m i) (fst it) ++ hash_m i (snd it)) items
  | NChoice _ k u => HIsize (Z.of_nat k) :: hash_m i u
  | NOpt None => [HIsize 0]
  | NOpt (Some u) => HIsize 1 :: hash_m i u
  | NRep _ items =>                               (* Vec: length prefix, elements *)
      HUsize (length items) ::
      flat_map (fun it => HUsize (length (fst it)) :: flat_map (hash_m i) (fst it) ++ hash_m i (snd it)) items
  | NAtomicRep l => HUsize (length l) :: flat_map (hash_m i) l
  | NPos u => hash_m i u
  | NNeg => []
  | NPush u => hash_m i u
  | NDrop => []
  | NSlice _ => []
  | NArr l => HUsize (length l) :: flat_map (hash_m i) l     (* `[T; N]` hashes as a slice: WITH length prefix *)
  | NPair a b => hash_m i a ++ hash_m i b
  | NEmpty => []
  | NRule _ c sp =>
      match c with Some u => hash_m i u | None => [] end ++
      match sp with Some (s, e) => hash_span i s e | None => [] end
  end.

(* ------------------------------------------------------------------ Debug *)

(* identifiers that occur in the `{:?}` output (type names, variant names, field names) *)
Inductive dname :=
| DnStr | DnInsens | DnCharRange | DnANY | DnProp (p : N) | DnSOI | DnEOI | DnNEWLINE | DnNl (k : nlkind)
| DnSpanned (k : spk) | DnSpan | DnSeq (n : nat) | DnSkipped | DnChoice (n : nat) | DnVariant (k : nat)
| DnNone | DnSome | DnRepeatMinMax | DnRepeatMin | DnAtomicRepeat | DnPositive | DnNegative | DnPush
| DnDROP | DnPeekSlice2 | DnPeekSlice1 | DnEmpty | DnRule (r : N)
| DnContent | DnSpanField | DnSkippedField | DnMatched | DnStrField | DnStart | DnEnd.

(* the lexical items of the (non-pretty) `{:?}` rendering; every token stands for a fixed piece of text,
   so that the string is the concatenation of the texts of the tokens (ocaml/EqHash_drv.ml: [tok_text]) *)
Inductive dtoken :=
| DName (n : dname)
| DOpenB                    (* " { " *)
| DCloseB                   (* " }"  *)
| DColon                    (* ": "  *)
| DComma                    (* ", "  *)
| DOpenP | DCloseP          (* ( )   *)
| DOpenS | DCloseS          (* [ ]   *)
| DChar (c : char)          (* 'c' with Rust's escapes *)
| DStrLit (s : list byte)   (* "..." with Rust's escapes *)
| DNum (n : nat).

(* a, b, c *)
Fixpoint djoin (ds : list (list dtoken)) : list dtoken :=
  match ds with
  | [] => []
  | d :: rest => d ++ match rest with [] => [] | _ :: _ => DComma :: djoin rest end
  end.

(* `f.debug_struct(name).field(f1, v1)...finish()`.  (Without fields `debug_struct` prints the bare name;
   no node type reaches [dstruct] with an empty field list: unit-like nodes are printed directly below and
   a rule struct has `content`, `span` or both.) *)
Definition dstruct (n : dname) (fields : list (dname * list dtoken)) : list dtoken :=
  DName n :: DOpenB :: djoin (map (fun fv => DName (fst fv) :: DColon :: snd fv) fields) ++ [DCloseB].

(* `f.debug_tuple(name).field(v1)...finish()` (never without fields: sequences have >= 2 elements) *)
Definition dtuple (n : dname) (fields : list (list dtoken)) : list dtoken :=
  DName n :: DOpenP :: djoin fields ++ [DCloseP].

(* Debug of a slice / Vec / array *)
Definition dlist (items : list (list dtoken)) : list dtoken := DOpenS :: djoin items ++ [DCloseS].

(* span.rs:494-502 *)
Definition debug_span (i : list byte) (s e : nat) : list dtoken :=
  dstruct DnSpan [(DnStrField, [DStrLit (text i s e)]); (DnStart, [DNum s]); (DnEnd, [DNum e])].

Definition chk_name (k : chk) : dname :=
  match k with CkRange => DnCharRange | CkAny => DnANY | CkProp p => DnProp p end.

Fixpoint debug_m (i : list byte) (t : tnode) : list dtoken :=
  match t with
  | NStr => [DName DnStr]
  | NInsens s e => dstruct DnInsens [(DnContent, [DStrLit (text i s e)])]
  | NChar k c => dstruct (chk_name k) [(DnContent, [DChar c])]
  | NSoi => [DName DnSOI]
  | NEoi => [DName DnEOI]
  | NNewline k => dstruct DnNEWLINE [(DnContent, [DName (DnNl k)])]
  | NSpanned k s e => dstruct (DnSpanned k) [(DnSpanField, debug_span i s e)]
  | NSeq items =>
      (* predefined_node/mod.rs:662-674: `Skipped` prints only `matched` when SKIP = 0 *)
      dtuple (DnSeq (length items))
        (map (fun it => match fst it with
                        | [] => debug_m i (snd it)
                        | _ :: _ => dstruct DnSkipped [(DnSkippedField, dlist (map (debug_m i) (fst it)));
                                                       (DnMatched, debug_m i (snd it))]
                        end) items)
  | NChoice n k u => dstruct (DnChoice n) [(DnVariant k, debug_m i u)]
  | NOpt None => [DName DnNone]
  | NOpt (Some u) => dtuple DnSome [debug_m i u]
  | NRep b items =>
      dstruct (if b then DnRepeatMinMax else DnRepeatMin)
        [(DnContent,
          dlist (map (fun it => match fst it with
                                | [] => debug_m i (snd it)
                                | _ :: _ => dstruct DnSkipped [(DnSkippedField, dlist (map (debug_m i) (fst it)));
                                                               (DnMatched, debug_m i (snd it))]
                                end) items))]
  | NAtomicRep l => dstruct DnAtomicRepeat [(DnContent, dlist (map (debug_m i) l))]
  | NPos u => dstruct DnPositive [(DnContent, debug_m i u)]
  | NNeg => [DName DnNegative]
  | NPush u => dstruct DnPush [(DnContent, debug_m i u)]
  | NDrop => [DName DnDROP]
  | NSlice two => [DName (if two then DnPeekSlice2 else DnPeekSlice1)]
  | NArr l => dlist (map (debug_m i) l)
  | NPair a b => DOpenP :: djoin [debug_m i a; debug_m i b] ++ [DCloseP]
  | NEmpty => [DName DnEmpty]
  | NRule r c sp =>
      dstruct (DnRule r)
        (match c with Some u => [(DnContent, debug_m i u)] | None => [] end ++
         match sp with Some (s, e) => [(DnSpanField, debug_span i s e)] | None => [] end)
  end.
