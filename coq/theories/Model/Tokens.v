(* What the Pair/Pairs API exposes for a parse result (iterators.rs 198-309, rule.rs 26-82, 135-194). *)
From Coq Require Import List NArith Arith Bool.
From PT Require Import Model.Base Model.Stack Model.Texpr Model.Sem Model.Tok.
Import ListNotations.

Section Tokens.
  Variable E : env.

  (* does `impl_pair!` give the rule struct children? (atomicity = true: no) *)
  Definition has_children (r : N) : bool :=
    match r_atom (e_rules E r) with Some true => false | _ => true end.

  (* Pairs::for_self_or_each_child *)
  Fixpoint tokens (t : tnode) : list tok :=
    match t with
    | NSeq items | NRep _ items =>
        flat_map (fun it => flat_map tokens (fst it) ++ tokens (snd it)) items
    | NChoice _ _ t1 => tokens t1
    | NOpt (Some t1) => tokens t1
    | NAtomicRep items | NArr items => flat_map tokens items
    | NPush t1 => tokens t1
    | NPair a b => tokens a ++ tokens b
    | NRule r content sp =>
        match r_emis (e_rules E r), sp with
        | EmExpr, _ => match content with Some c => tokens c | None => [] end
        | _, Some (s, e) =>
            [Tok r s e (if has_children r
                        then match content with Some c => tokens c | None => [] end
                        else [])]
        | _, None => []
        end
    | _ => []
    end.
End Tokens.
