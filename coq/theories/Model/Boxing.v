(* Which rule structs keep their content in a `Box` (option `box_only_if_needed`):
   generator/src/graph.rs:653-694 (`collect_reachability`), :718-721 (`not_boxed`),
   generator/src/graph/optimized_rule.rs:420 (`boxed`), :446-478 (`collect_used_rule`).
   Model only: no proofs in this file.

   Names.  The Rust sets hold `&str` names: names of rules, but also of built-ins, unicode properties and
   undefined identifiers (`collect_used_rule` inserts EVERY `Ident`).  Only set operations are used
   (insert / extend / contains / len / map get / remove / insert), so any injective coding of names will do:
   [code_rule r = 3r], built-ins [3c+1], unicode properties [3p+2] ([ident_code]).  (The resolved AST of
   Model/Ast.v has one constructor [BUndefinedSkip] for an undefined WHITESPACE and an undefined COMMENT: the
   two names are merged.  This can change the size of a set only, never its rule-name members.)
   `BTreeSet<&str>` = duplicate-free list (`nadd` appends a new member at the end; `len` = `length`);
   `BTreeMap<&str, BTreeSet>` = association list with unique keys (`mremove` deletes the key, `minsert` = delete then
   cons). *)
From Coq Require Import List NArith Arith Bool.
From PT Require Import Model.Base Model.Ast.
Import ListNotations.

(* ---- sets and maps -------------------------------------------------------- *)
Definition nset := list N.

Definition nmem (x : N) (s : nset) : bool := existsb (N.eqb x) s.
(* BTreeSet::insert *)
Definition nadd (x : N) (s : nset) : nset := if nmem x s then s else s ++ [x].
(* BTreeSet::extend: s.extend(t) *)
Definition nunion (s t : nset) : nset := fold_left (fun acc x => nadd x acc) t s.

Definition amap := list (N * nset).

Fixpoint mlookup (k : N) (m : amap) : option nset :=
  match m with
  | [] => None
  | (k', v) :: m' => if N.eqb k k' then Some v else mlookup k m'
  end.

Fixpoint mremove (k : N) (m : amap) : amap :=
  match m with
  | [] => []
  | (k', v) :: m' => if N.eqb k k' then mremove k m' else (k', v) :: mremove k m'
  end.

Definition minsert (k : N) (v : nset) (m : amap) : amap := (k, v) :: mremove k m.

Definition mkeys (m : amap) : list N := map fst m.

(* ---- rules ---------------------------------------------------------------- *)
(* a rule as the analysis sees it: name, kind, every identifier mentioned in its expression *)
Record brule := mk_brule { b_name : N; b_kind : rkind; b_mentions : list N }.

Definition builtin_code (b : builtin) : N :=
  match b with
  | BAny => 0 | BSoi => 1 | BEoi => 2 | BPeek => 3 | BPeekAll => 4 | BPop => 5 | BPopAll => 6 | BDrop => 7
  | BNewline => 8 | BAsciiDigit => 9 | BAsciiNonzeroDigit => 10 | BAsciiBinDigit => 11 | BAsciiOctDigit => 12
  | BAsciiHexDigit => 13 | BAsciiAlphaLower => 14 | BAsciiAlphaUpper => 15 | BAsciiAlpha => 16
  | BAsciiAlphanumeric => 17 | BAscii => 18 | BUndefinedSkip => 19
  end%N.

Definition code_rule (r : N) : N := (3 * r)%N.

Definition ident_code (i : ident) : N :=
  match i with
  | IdRule r => code_rule r
  | IdBuiltin b => (3 * builtin_code b + 1)%N
  | IdUnicode p => (3 * p + 2)%N
  end.

(* optimized_rule.rs:456-477: the work-list walk visits every sub-expression (also under predicates, PUSH,
   repetitions, options); only `Ident` contributes.  The visiting order is irrelevant for a set. *)
Fixpoint mentioned (e : oexpr) : list N :=
  match e with
  | OStr _ | OInsens _ | ORange _ _ => []
  | OIdent i => [ident_code i]
  | OPeekSlice _ _ => []
  | OPosPred e | ONegPred e => mentioned e
  | OSeq a b | OChoice a b => mentioned a ++ mentioned b
  | OOpt e | ORep e => mentioned e
  | OSkip _ => []
  | OPush e | ORestore e => mentioned e
  end.

Definition is_normal (k : rkind) : bool := match k with KNormal => true | _ => false end.

Definition opt_list (o : option N) : list N := match o with Some x => [x] | None => [] end.

(* optimized_rule.rs:446-478 `collect_used_rule(rule, implicit, res)`: the names inserted into `res`, in order.
   `ws` / `cm` = the name of the rule WHITESPACE / COMMENT when the grammar defines it (`Implicit`);
   inserted for rules of type Normal ONLY (not for silent, atomic, compound-atomic, non-atomic rules). *)
Definition used_rule (ws cm : option N) (r : brule) : list N :=
  (if is_normal (b_kind r) then opt_list cm ++ opt_list ws else []) ++ b_mentions r.

(* graph.rs:665-669  `res.entry(rule.name()).or_default()` + collect_used_rule into the entry *)
Fixpoint init_map (ws cm : option N) (rules : list brule) (res : amap) : amap :=
  match rules with
  | [] => res
  | r :: rs =>
      let entry := match mlookup (b_name r) res with Some s => s | None => [] end in
      init_map ws cm rs (minsert (b_name r) (nunion entry (used_rule ws cm r)) res)
  end.

(* graph.rs:676-680  `for referenced in cur { if let Some(iter) = res.get(referenced) { new.extend(iter) } }` *)
Definition absorb (res : amap) (cur : nset) : nset :=
  fold_left (fun new referenced =>
               match mlookup referenced res with
               | Some s => nunion new s
               | None => new
               end) cur cur.

(* graph.rs:673-687: the body of the inner loop for one rule name; state = (res, updated) *)
Definition reach_step (st : amap * bool) (name : N) : amap * bool :=
  let (res, updated) := st in
  match mlookup name res with
  | None => (res, updated)
  | Some cur =>
      let res1 := mremove name res in
      let new := absorb res1 cur in
      let updated' := updated || (length cur <? length new) in
      (if nmem name new then res1 else minsert name new res1, updated')
  end.

(* graph.rs:671-688: one round over the rules IN ORDER; returns the map and `updated` *)
Definition reach_round (names : list N) (res : amap) : amap * bool :=
  fold_left reach_step names (res, false).

(* graph.rs:670-692: at most [fuel] rounds, `break` after a round without update.
   second component: true iff the loop was left by the `break` *)
Fixpoint reach_loop (fuel : nat) (names : list N) (res : amap) : amap * bool :=
  match fuel with
  | O => (res, false)
  | S f =>
      let (res', updated) := reach_round names res in
      if updated then reach_loop f names res' else (res', true)
  end.

Definition collect_reachability_full (ws cm : option N) (rules : list brule) : amap * bool :=
  reach_loop (length rules) (map b_name rules) (init_map ws cm rules []).

Definition collect_reachability (ws cm : option N) (rules : list brule) : amap :=
  fst (collect_reachability_full ws cm rules).

(* did the loop end because a round changed nothing (and not because `rules.len()` rounds were used up)?
   (an empty grammar runs no round at all) *)
Definition last_round_made_no_update (ws cm : option N) (rules : list brule) : bool :=
  match rules with
  | [] => true
  | _ => snd (collect_reachability_full ws cm rules)
  end.

(* graph.rs:718-721 *)
Definition not_boxed (ws cm : option N) (rules : list brule) : list N :=
  mkeys (collect_reachability ws cm rules).

(* optimized_rule.rs:420 *)
Definition is_boxed (box_only_if_needed : bool) (ws cm : option N) (rules : list brule) (name : N) : bool :=
  negb box_only_if_needed || negb (nmem name (not_boxed ws cm rules)).

Definition boxed_flags (box_only_if_needed : bool) (ws cm : option N) (rules : list brule) : list bool :=
  map (fun r => is_boxed box_only_if_needed ws cm rules (b_name r)) rules.

(* ---- from a grammar of Model/Ast.v ---------------------------------------- *)
Definition brule_of (r : orule) : brule :=
  mk_brule (code_rule (o_name r)) (o_kind r) (mentioned (o_expr r)).

Definition brules_of (g : ogrammar) : list brule := map brule_of (g_rules g).

Definition grammar_ws (g : ogrammar) : option N := option_map code_rule (g_ws g).
Definition grammar_cm (g : ogrammar) : option N := option_map code_rule (g_comment g).

(* per rule, in grammar order: (rule, boxed) *)
Definition grammar_boxed (box_only_if_needed : bool) (g : ogrammar) : list (N * bool) :=
  combine (map o_name (g_rules g))
          (boxed_flags box_only_if_needed (grammar_ws g) (grammar_cm g) (brules_of g)).

Definition grammar_no_update (g : ogrammar) : bool :=
  last_round_made_no_update (grammar_ws g) (grammar_cm g) (brules_of g).

(* the same for the un-optimized AST (graph/rule.rs:523-559, used with `pest_optimizer = false`) *)
Fixpoint mentioned_raw (e : rexpr) : list N :=
  match e with
  | RStr _ | RInsens _ | RRange _ _ => []
  | RIdent i => [ident_code i]
  | RPeekSlice _ _ => []
  | RPosPred e | RNegPred e => mentioned_raw e
  | RSeq a b | RChoice a b => mentioned_raw a ++ mentioned_raw b
  | ROpt e | RRep e | RRepOnce e => mentioned_raw e
  | RRepExact e _ | RRepMin e _ | RRepMax e _ => mentioned_raw e
  | RRepMinMax e _ _ => mentioned_raw e
  | RSkip _ => []
  | RPush e => mentioned_raw e
  end.

Definition brule_of_raw (r : rrule) : brule :=
  mk_brule (code_rule (rr_name r)) (rr_kind r) (mentioned_raw (rr_expr r)).

Definition brules_of_raw (g : rgrammar) : list brule := map brule_of_raw (rg_rules g).

Definition grammar_boxed_raw (box_only_if_needed : bool) (g : rgrammar) : list (N * bool) :=
  combine (map rr_name (rg_rules g))
          (boxed_flags box_only_if_needed (option_map code_rule (rg_ws g)) (option_map code_rule (rg_comment g))
                       (brules_of_raw g)).

Definition grammar_no_update_raw (g : rgrammar) : bool :=
  last_round_made_no_update (option_map code_rule (rg_ws g)) (option_map code_rule (rg_comment g)) (brules_of_raw g).

(* ---- the mention graph (vocabulary of the statements) ---------------------- *)
(* x mentions y: some rule named x has y among the names collect_used_rule inserts *)
Definition mention_edge (ws cm : option N) (rules : list brule) (x y : N) : Prop :=
  exists r, In r rules /\ b_name r = x /\ In y (used_rule ws cm r).

(* a non-empty path x -> l1 -> .. -> lk -> y *)
Fixpoint chain (E : N -> N -> Prop) (x : N) (l : list N) (y : N) : Prop :=
  match l with
  | [] => E x y
  | z :: l' => E x z /\ chain E z l' y
  end.

(* the generator's own unit test graph.rs `inter_reference`:  a = { "a" ~ b* } b = { "b" ~ c? } c = { a+ }
   (optimizer: a+ = a ~ a* ), rules 1 2 3 *)
Definition inter_reference_rules : list brule :=
  [ mk_brule (code_rule 1) KNormal (mentioned (OSeq (OStr [97%N]) (ORep (OIdent (IdRule 2%N)))));
    mk_brule (code_rule 2) KNormal (mentioned (OSeq (OStr [98%N]) (OOpt (OIdent (IdRule 3%N)))));
    mk_brule (code_rule 3) KNormal (mentioned (OSeq (OIdent (IdRule 1%N)) (ORep (OIdent (IdRule 1%N))))) ].
