(* Declarative spec of pest's stack-slice index normalisation (PEEK[a..b]). *)
From Coq Require Import ZArith Bool.
Local Open Scope Z_scope.

(* a non-negative index counts from the bottom, a negative one from the top;
   anything outside 0..len is rejected *)
Definition norm_spec (i len : Z) : option Z :=
  if 0 <=? i then (if i <=? len then Some i else None)
  else (if 0 <=? len + i then Some (len + i) else None).

Definition slice_spec (a : Z) (b : option Z) (len : Z) : option (Z * Z) :=
  match norm_spec a len with
  | None => None
  | Some s =>
      match b with
      | None => Some (s, len)
      | Some b' => match norm_spec b' len with
                   | None => None
                   | Some e => Some (s, e)
                   end
      end
  end.
