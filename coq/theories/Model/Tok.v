(* Token trees of the Pair/Pairs API (main/src/iterators.rs: Token / ThinToken). Model only. *)
From Coq Require Import List NArith.
Import ListNotations.

Inductive tok := Tok (rule : N) (s e : nat) (children : list tok).

Definition tok_rule (t : tok) : N := match t with Tok r _ _ _ => r end.
Definition tok_start (t : tok) : nat := match t with Tok _ s _ _ => s end.
Definition tok_end (t : tok) : nat := match t with Tok _ _ e _ => e end.
Definition tok_children (t : tok) : list tok := match t with Tok _ _ _ c => c end.
