(* SPEC: PEG semantics of a pest grammar with full backtracking, as the parser pest generates behaves
   wherever pest has a defined answer (pest_generator 2.7.14 generator.rs, pest parser_state.rs):
   dynamic three-valued atomicity, implicit skip (WS-star, then any number of COMMENT followed by WS-star) in non-atomic context only,
   WHITESPACE / COMMENT forced atomic, pest's token rule (a token iff not inside lookahead and the
   atomicity seen by `rule()` is not Atomic), an immutable stack (every failure leaves no trace),
   PEEK / POP / DROP on an empty stack *fail*.  Model only: no proofs in this file. *)
From Coq Require Import List NArith ZArith Arith Bool.
From PT Require Import Model.Base Model.Stack Model.Texpr Model.SliceSpec Model.Ast Model.Tok.
Import ListNotations.

Inductive atomicity := ANon | AAtomic | ACompound.

Inductive pres : Type :=
| POk (pos : nat) (stk : list span) (toks : list tok)
| PFail
| PPanic
| PFuel.

Record penv := mk_penv {
  p_inp : inp;
  p_rules : N -> option orule;          (* rule index -> definition *)
  p_ws : option N;
  p_comment : option N;
  p_pred : N -> char -> bool;
  p_eoi : N
}.

Definition plift {A} (m : mres A) (f : A -> pres) : pres :=
  match m with MOk a => f a | MPanic => PPanic end.

Definition pleaf (m : mres (option nat)) (stk : list span) : pres :=
  plift m (fun o => match o with Some pos' => POk pos' stk [] | None => PFail end).

Definition pchar (m : mres (option (nat * char))) (stk : list span) : pres :=
  plift m (fun o => match o with Some (pos', _) => POk pos' stk [] | None => PFail end).

(* the texts of the given spans, matched one after the other *)
Fixpoint p_peek_spans (I : inp) (sps : list span) (pos : nat) : mres (option nat) :=
  match sps with
  | [] => MOk (Some pos)
  | sp :: rest =>
      mbind (span_str I sp) (fun txt =>
      mbind (i_match_string I txt pos) (fun o =>
        match o with
        | Some pos' => p_peek_spans I rest pos'
        | None => MOk None
        end))
  end.

Definition in_range (lo hi : nat) (c : char) : bool := (N.of_nat lo <=? c)%N && (c <=? N.of_nat hi)%N.

Section Peg.
  Variable G : penv.
  (* the interpreter one unit of fuel below: atomicity, inside-lookahead flag, expression, cursor, stack *)
  Variable R : atomicity -> bool -> oexpr -> nat -> list span -> pres.
  (* calling rule r one unit of fuel below *)
  Variable CALL : atomicity -> bool -> N -> nat -> list span -> pres.
  Variable lf : nat.
  Let I := p_inp G.

  (* `state.repeat(|s| rule(s))` *)
  Fixpoint p_repeat_rule (n : nat) (at_ : atomicity) (la : bool) (r : N) (pos : nat) (stk : list span)
           (acc : list tok) : pres :=
    match n with
    | O => PFuel
    | S n' =>
        match CALL at_ la r pos stk with
        | POk pos' stk' toks => p_repeat_rule n' at_ la r pos' stk' (acc ++ toks)
        | PFail => POk pos stk acc
        | PPanic => PPanic
        | PFuel => PFuel
        end
    end.

  (* repeat (COMMENT then WHITESPACE-star) *)
  Fixpoint p_repeat_cw (n : nat) (at_ : atomicity) (la : bool) (w c : N) (pos : nat) (stk : list span)
           (acc : list tok) : pres :=
    match n with
    | O => PFuel
    | S n' =>
        match CALL at_ la c pos stk with
        | POk pos1 stk1 t1 =>
            match p_repeat_rule lf at_ la w pos1 stk1 [] with
            | POk pos2 stk2 t2 => p_repeat_cw n' at_ la w c pos2 stk2 (acc ++ t1 ++ t2)
            | PFail => PFail
            | PPanic => PPanic
            | PFuel => PFuel
            end
        | PFail => POk pos stk acc
        | PPanic => PPanic
        | PFuel => PFuel
        end
    end.

  (* hidden::skip *)
  Definition p_skip (at_ : atomicity) (la : bool) (pos : nat) (stk : list span) : pres :=
    match at_ with
    | ANon =>
        match p_ws G, p_comment G with
        | None, None => POk pos stk []
        | Some w, None => p_repeat_rule lf at_ la w pos stk []
        | None, Some c => p_repeat_rule lf at_ la c pos stk []
        | Some w, Some c =>
            match p_repeat_rule lf at_ la w pos stk [] with
            | POk pos1 stk1 t1 => p_repeat_cw lf at_ la w c pos1 stk1 t1
            | r => r
            end
        end
    | _ => POk pos stk []
    end.

  (* e-star : the first iteration without skip, every further one preceded by the skip; an iteration that
     fails gives its skip back *)
  Fixpoint p_rep_more (n : nat) (at_ : atomicity) (la : bool) (e : oexpr) (pos : nat) (stk : list span)
           (acc : list tok) : pres :=
    match n with
    | O => PFuel
    | S n' =>
        match p_skip at_ la pos stk with
        | POk pos1 stk1 t1 =>
            match R at_ la e pos1 stk1 with
            | POk pos2 stk2 t2 => p_rep_more n' at_ la e pos2 stk2 (acc ++ t1 ++ t2)
            | PFail => POk pos stk acc
            | PPanic => PPanic
            | PFuel => PFuel
            end
        | PFail => POk pos stk acc
        | PPanic => PPanic
        | PFuel => PFuel
        end
    end.

  Definition p_slice (stk : list span) (a : Z) (b : option Z) : option (list span) :=
    match slice_spec a b (Z.of_nat (length stk)) with
    | None => None
    | Some (s, e) =>
        if (e <=? s)%Z then Some []
        else Some (firstn (Z.to_nat e - Z.to_nat s) (skipn (Z.to_nat s) (rev stk)))
    end.

  Definition p_newline (pos : nat) (stk : list span) : pres :=
    plift (i_match_string I [10%N] pos) (fun o =>
      match o with
      | Some p => POk p stk []
      | None =>
          plift (i_match_string I [13%N; 10%N] pos) (fun o2 =>
            match o2 with
            | Some p => POk p stk []
            | None => pleaf (i_match_string I [13%N] pos) stk
            end)
      end).

  Definition p_builtin (at_ : atomicity) (la : bool) (b : builtin) (pos : nat) (stk : list span) : pres :=
    match b with
    | BAny => pchar (i_match_char I (fun _ => true) pos) stk
    | BSoi => if i_at_start I pos then POk pos stk [] else PFail
    | BEoi =>
        (* `state.rule(Rule::EOI, |s| s.end_of_input())` : a token under the usual condition *)
        if i_at_end I pos
        then POk pos stk (if negb la && negb (match at_ with AAtomic => true | _ => false end)
                          then [Tok (p_eoi G) pos pos []] else [])
        else PFail
    | BPeek =>
        match stk with
        | sp :: _ => plift (span_str I sp) (fun txt => pleaf (i_match_string I txt pos) stk)
        | [] => PFail
        end
    | BPeekAll => pleaf (p_peek_spans I stk pos) stk
    | BPop =>
        match stk with
        | sp :: stk' => plift (span_str I sp) (fun txt => pleaf (i_match_string I txt pos) stk')
        | [] => PFail
        end
    | BPopAll => pleaf (p_peek_spans I stk pos) []
    | BDrop => match stk with _ :: stk' => POk pos stk' [] | [] => PFail end
    | BNewline => p_newline pos stk
    | BAsciiDigit => pchar (i_match_char I (in_range 48 57) pos) stk
    | BAsciiNonzeroDigit => pchar (i_match_char I (in_range 49 57) pos) stk
    | BAsciiBinDigit => pchar (i_match_char I (in_range 48 49) pos) stk
    | BAsciiOctDigit => pchar (i_match_char I (in_range 48 55) pos) stk
    | BAsciiHexDigit =>
        pchar (i_match_char I (fun c => in_range 48 57 c || in_range 97 102 c || in_range 65 70 c) pos) stk
    | BAsciiAlphaLower => pchar (i_match_char I (in_range 97 122) pos) stk
    | BAsciiAlphaUpper => pchar (i_match_char I (in_range 65 90) pos) stk
    | BAsciiAlpha => pchar (i_match_char I (fun c => in_range 97 122 c || in_range 65 90 c) pos) stk
    | BAsciiAlphanumeric =>
        pchar (i_match_char I (fun c => in_range 97 122 c || in_range 65 90 c || in_range 48 57 c) pos) stk
    | BAscii => pchar (i_match_char I (in_range 0 127) pos) stk
    | BUndefinedSkip => PFail
    end.

  Definition p_step (at_ : atomicity) (la : bool) (e : oexpr) (pos : nat) (stk : list span) : pres :=
    match e with
    | OStr s => pleaf (i_match_string I s pos) stk
    | OInsens s => pleaf (i_match_insens I s pos) stk
    | ORange lo hi => pchar (i_match_char I (fun c => (lo <=? c)%N && (c <=? hi)%N) pos) stk
    | OIdent (IdRule r) => CALL at_ la r pos stk
    | OIdent (IdBuiltin b) => p_builtin at_ la b pos stk
    | OIdent (IdUnicode p) => pchar (i_match_char I (p_pred G p) pos) stk
    | OPeekSlice a b =>
        match p_slice stk a b with
        | None => PFail
        | Some sps => pleaf (p_peek_spans I sps pos) stk
        end
    | OPosPred e1 =>
        match R at_ true e1 pos stk with
        | POk _ _ _ => POk pos stk []
        | r => r
        end
    | ONegPred e1 =>
        match R at_ true e1 pos stk with
        | POk _ _ _ => PFail
        | PFail => POk pos stk []
        | r => r
        end
    | OSeq a b =>
        match R at_ la a pos stk with
        | POk p1 s1 t1 =>
            match p_skip at_ la p1 s1 with
            | POk p2 s2 t2 =>
                match R at_ la b p2 s2 with
                | POk p3 s3 t3 => POk p3 s3 (t1 ++ t2 ++ t3)
                | r => r
                end
            | r => r
            end
        | r => r
        end
    | OChoice a b =>
        match R at_ la a pos stk with
        | PFail => R at_ la b pos stk
        | r => r
        end
    | OOpt e1 =>
        match R at_ la e1 pos stk with
        | PFail => POk pos stk []
        | r => r
        end
    | ORep e1 =>
        match R at_ la e1 pos stk with
        | POk p1 s1 t1 => p_rep_more lf at_ la e1 p1 s1 t1
        | PFail => POk pos stk []
        | r => r
        end
    | OSkip ss => let '(_, pos') := i_skip_until I true ss pos in POk pos' stk []
    | OPush e1 =>
        match R at_ la e1 pos stk with
        | POk p1 s1 t1 => POk p1 ((pos, p1) :: s1) t1
        | r => r
        end
    | ORestore e1 => R at_ la e1 pos stk
    end.
End Peg.

Definition is_skip_rule (G : penv) (r : N) : bool :=
  match p_ws G with Some w => (w =? r)%N | None => false end ||
  match p_comment G with Some c => (c =? r)%N | None => false end.

(* the rule functions pest generates (generate_rule): which atomicity the body runs in, which atomicity
   `rule()` sees, whether a token is produced *)
Definition p_call (G : penv) (R : atomicity -> bool -> oexpr -> nat -> list span -> pres)
           (at_ : atomicity) (la : bool) (r : N) (pos : nat) (stk : list span) : pres :=
  match p_rules G r with
  | None => PFail
  | Some d =>
      let k := o_kind d in
      let inner :=
        match k with
        | KAtomic => AAtomic
        | KCompound => ACompound
        | KNonAtomic => if is_skip_rule G r then AAtomic else ANon
        | KNormal | KSilent => if is_skip_rule G r then AAtomic else at_
        end in
      (* atomicity in force when `rule()` decides about the token *)
      let seen :=
        match k with
        | KCompound => ACompound
        | KNonAtomic => ANon
        | _ => at_
        end in
      match R inner la (o_expr d) pos stk with
      | POk pos' stk' toks =>
          match k with
          | KSilent => POk pos' stk' toks
          | _ =>
              if negb la && negb (match seen with AAtomic => true | _ => false end)
              then POk pos' stk' [Tok r pos pos' toks]
              else POk pos' stk' toks
          end
      | res => res
      end
  end.

Fixpoint peg (G : penv) (fuel : nat) (at_ : atomicity) (la : bool) (e : oexpr) (pos : nat) (stk : list span)
  : pres :=
  match fuel with
  | O => PFuel
  | S n => p_step G (peg G n) (p_call G (peg G n)) n at_ la e pos stk
  end.

(* parsing with rule r as entry point: pest starts non-atomic, outside lookahead, with an empty stack *)
Definition peg_entry (G : penv) (fuel : nat) (r : N) : pres :=
  match fuel with
  | O => PFuel
  | S n => p_call G (peg G n) ANon false r (i_start (p_inp G)) []
  end.
