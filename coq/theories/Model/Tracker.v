(* main/src/tracker.rs as a fold over the event trace of a run. Model only. *)
From Coq Require Import List NArith ZArith Arith Bool.
From PT Require Import Model.Base Model.Stack Model.Texpr Model.Sem.
Import ListNotations.

Inductive special := SpOutOfBound (a : Z) (b : option Z) | SpEmptyStack.

(* one entry of `attempts`: upper rule -> (positives, negatives, special), vectors oldest first *)
Record tentry := mk_tentry { te_key : option N; te_pos : list N; te_neg : list N; te_spec : list special }.

Record tracker := mk_tracker {
  t_position : nat;
  t_positive : bool;
  t_saved : list bool;                 (* polarities saved by the enclosing `during` calls *)
  t_attempts : list tentry;            (* unordered association list; output is sorted by key *)
  t_stack : list (N * nat * bool)      (* (rule, pos, has_children), top first *)
}.

Definition tracker_new (pos : nat) : tracker := mk_tracker pos true [] [] [].

Definition key_eqb (a b : option N) : bool :=
  match a, b with
  | None, None => true
  | Some x, Some y => (x =? y)%N
  | _, _ => false
  end.

(* `prepare`: (may this attempt be recorded?, tracker with position/attempts updated) *)
Definition prepare (t : tracker) (pos : nat) : bool * tracker :=
  if (pos <? t_position t)%nat then (false, t)
  else if (pos =? t_position t)%nat then (true, t)
  else (true, mk_tracker pos (t_positive t) (t_saved t) [] (t_stack t)).

(* `get_entry`: the lowest enclosing rule that started at a different position *)
Fixpoint upper_rule (stack : list (N * nat * bool)) (pos : nat) : option N :=
  match stack with
  | [] => None
  | (r, p, _) :: rest => if (p =? pos)%nat then upper_rule rest pos else Some r
  end.

Fixpoint upd_entry (k : option N) (f : tentry -> tentry) (l : list tentry) : list tentry :=
  match l with
  | [] => [f (mk_tentry k [] [] [])]
  | e :: rest => if key_eqb (te_key e) k then f e :: rest else e :: upd_entry k f rest
  end.

Definition push_dedup (r : N) (v : list N) : list N :=
  match rev v with
  | last :: _ => if (last =? r)%N then v else v ++ [r]
  | [] => [r]
  end.

Definition record (t : tracker) (r : N) (pos : nat) (ok : bool) : tracker :=
  let '(go, t1) := prepare t pos in
  if go && negb (Bool.eqb ok (t_positive t1)) then
    let k := upper_rule (t_stack t1) pos in
    let f := fun e =>
      if t_positive t1
      then mk_tentry (te_key e) (push_dedup r (te_pos e)) (te_neg e) (te_spec e)
      else mk_tentry (te_key e) (te_pos e) (push_dedup r (te_neg e)) (te_spec e) in
    mk_tracker (t_position t1) (t_positive t1) (t_saved t1) (upd_entry k f (t_attempts t1)) (t_stack t1)
  else t1.

Definition add_special (t : tracker) (pos : nat) (s : special) : tracker :=
  let '(go, t1) := prepare t pos in
  if go then
    let k := upper_rule (t_stack t1) pos in
    let f := fun e => mk_tentry (te_key e) (te_pos e) (te_neg e) (te_spec e ++ [s]) in
    mk_tracker (t_position t1) (t_positive t1) (t_saved t1) (upd_entry k f (t_attempts t1)) (t_stack t1)
  else t1.

Definition mark_children (stack : list (N * nat * bool)) : list (N * nat * bool) :=
  match stack with
  | (r, p, _) :: rest => (r, p, true) :: rest
  | [] => []
  end.

Definition tstep (t : tracker) (e : event) : tracker :=
  match e with
  | EEnter r pos =>
      mk_tracker (t_position t) (t_positive t) (t_saved t) (t_attempts t)
                 ((r, pos, false) :: mark_children (t_stack t))
  | EExit r pos ok =>
      match t_stack t with
      | (_, _, hc) :: rest =>
          let t1 := mk_tracker (t_position t) (t_positive t) (t_saved t) (t_attempts t) rest in
          if hc then t1 else record t1 r pos ok
      | [] => t   (* unbalanced trace: cannot be produced by the interpreters *)
      end
  | EPol b => mk_tracker (t_position t) b (t_positive t :: t_saved t) (t_attempts t) (t_stack t)
  | EPolEnd =>
      match t_saved t with
      | b :: rest => mk_tracker (t_position t) b rest (t_attempts t) (t_stack t)
      | [] => t
      end
  | EEmptyStack pos => add_special t pos SpEmptyStack
  | EOutOfBound pos a b => add_special t pos (SpOutOfBound a b)
  end.

(* the trace of a [state] is newest-first *)
Definition run_tracker (start : nat) (trace_newest_first : list event) : tracker :=
  fold_left tstep (rev trace_newest_first) (tracker_new start).
