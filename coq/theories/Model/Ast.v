(* pest_meta's grammar ASTs (2.7.14): the optimized expression (optimizer::OptimizedExpr) and the raw
   expression (ast::Expr), with names already resolved against the set of defined rules. Model only. *)
From Coq Require Import List NArith ZArith.
From PT Require Import Model.Base.
Import ListNotations.

Inductive builtin :=
| BAny | BSoi | BEoi | BPeek | BPeekAll | BPop | BPopAll | BDrop | BNewline
| BAsciiDigit | BAsciiNonzeroDigit | BAsciiBinDigit | BAsciiOctDigit | BAsciiHexDigit
| BAsciiAlphaLower | BAsciiAlphaUpper | BAsciiAlpha | BAsciiAlphanumeric | BAscii
| BUndefinedSkip.          (* WHITESPACE / COMMENT referenced but not defined: AlwaysFail *)

(* an identifier of the grammar, resolved: a rule defined by the grammar shadows every built-in *)
Inductive ident :=
| IdRule (r : N)
| IdBuiltin (b : builtin)
| IdUnicode (p : N).

Inductive oexpr :=
| OStr (s : list byte)
| OInsens (s : list byte)
| ORange (lo hi : char)
| OIdent (i : ident)
| OPeekSlice (a : Z) (b : option Z)
| OPosPred (e : oexpr)
| ONegPred (e : oexpr)
| OSeq (a b : oexpr)
| OChoice (a b : oexpr)
| OOpt (e : oexpr)
| ORep (e : oexpr)
| OSkip (ss : list (list byte))
| OPush (e : oexpr)
| ORestore (e : oexpr).

Inductive rexpr :=
| RStr (s : list byte)
| RInsens (s : list byte)
| RRange (lo hi : char)
| RIdent (i : ident)
| RPeekSlice (a : Z) (b : option Z)
| RPosPred (e : rexpr)
| RNegPred (e : rexpr)
| RSeq (a b : rexpr)
| RChoice (a b : rexpr)
| ROpt (e : rexpr)
| RRep (e : rexpr)
| RRepOnce (e : rexpr)
| RRepExact (e : rexpr) (n : nat)
| RRepMin (e : rexpr) (n : nat)
| RRepMax (e : rexpr) (n : nat)
| RRepMinMax (e : rexpr) (n m : nat)
| RSkip (ss : list (list byte))
| RPush (e : rexpr).

Inductive rkind := KNormal | KSilent | KAtomic | KCompound | KNonAtomic.

Record orule := mk_orule { o_name : N; o_kind : rkind; o_expr : oexpr }.
Record rrule := mk_rrule { rr_name : N; rr_kind : rkind; rr_expr : rexpr }.

(* a grammar: its rules in order, and which of them (if any) are WHITESPACE and COMMENT *)
Record ogrammar := mk_ogrammar { g_rules : list orule; g_ws : option N; g_comment : option N }.
Record rgrammar := mk_rgrammar { rg_rules : list rrule; rg_ws : option N; rg_comment : option N }.
