(* pest::Stack (pest 2.7.14, src/stack.rs) transcribed operation by operation.
   Lists are kept top-first: [cache] head = top of the stack, [popped] head = the most
   recently recorded pop, [lengths] head = the innermost snapshot. Model only. *)
From Coq Require Import List Arith Bool.
From PT Require Import Model.Base.
Import ListNotations.

Definition span := (nat * nat)%type.

Record stack := mk_stack {
  cache : list span;
  popped : list span;
  lengths : list (nat * nat)   (* (len at snapshot, remained) *)
}.

Definition stack_new : stack := mk_stack [] [] [].

Definition s_len (s : stack) : nat := length (cache s).
Definition s_peek (s : stack) : option span := hd_error (cache s).
Definition s_push (x : span) (s : stack) : stack := mk_stack (x :: cache s) (popped s) (lengths s).

Definition s_pop (s : stack) : option span * stack :=
  match cache s with
  | [] => (None, s)
  | x :: c' =>
      match lengths s with
      | (l, r) :: ls =>
          if (length (cache s) =? r)%nat
          then (Some x, mk_stack c' (x :: popped s) ((l, r - 1) :: ls))
          else (Some x, mk_stack c' (popped s) (lengths s))
      | [] => (Some x, mk_stack c' (popped s) [])
      end
  end.

Definition s_snapshot (s : stack) : stack :=
  mk_stack (cache s) (popped s) ((s_len s, s_len s) :: lengths s).

(* `popped.truncate(popped.len() - (len - unpopped))`; the usize subtractions panic on underflow
   (debug) -- reported as MPanic *)
Definition s_clear_snapshot (s : stack) : mres stack :=
  match lengths s with
  | (l, r) :: ls =>
      if (r <=? l)%nat && (l - r <=? length (popped s))%nat
      then MOk (mk_stack (cache s) (skipn (l - r) (popped s)) ls)
      else MPanic
  | [] => MOk s
  end.

(* keep the bottom [r] elements of a top-first list *)
Definition keep_bottom {A} (r : nat) (c : list A) : list A := skipn (length c - r) c.

Definition s_restore (s : stack) : mres stack :=
  match lengths s with
  | (l, r) :: ls =>
      let c1 := if (r <? length (cache s))%nat then keep_bottom r (cache s) else cache s in
      if (r <? l)%nat then
        let rw := (l - r)%nat in
        if (rw <=? length (popped s))%nat
        then MOk (mk_stack (rev (firstn rw (popped s)) ++ c1) (skipn rw (popped s)) ls)
        else MPanic
      else MOk (mk_stack c1 (popped s) ls)
  | [] => MOk (mk_stack [] (popped s) [])
  end.

(* `&stack[a..b]` (bottom-first, as a Vec is indexed); panics when out of range *)
Definition s_index (s : stack) (a b : nat) : mres (list span) :=
  if (a <=? b)%nat && (b <=? s_len s)%nat
  then MOk (firstn (b - a) (skipn a (rev (cache s))))
  else MPanic.

(* `while stack.pop().is_some() {}` *)
Fixpoint s_pop_all_fuel (n : nat) (s : stack) : stack :=
  match n with
  | O => s
  | S n' => match s_pop s with
            | (Some _, s') => s_pop_all_fuel n' s'
            | (None, s') => s'
            end
  end.
Definition s_pop_all (s : stack) : stack := s_pop_all_fuel (s_len s) s.

(* push a saved content (top-first list) back, bottom element first *)
Definition s_push_all (saved : list span) (s : stack) : stack :=
  fold_left (fun acc x => s_push x acc) (rev saved) s.

(* ---- operation histories, for the correspondence check against the real pest::Stack ---- *)
Inductive sop := SoPush (x : span) | SoPop | SoSnapshot | SoRestore | SoClear.

Definition sop_step (s : stack) (o : sop) : mres stack :=
  match o with
  | SoPush x => MOk (s_push x s)
  | SoPop => MOk (snd (s_pop s))
  | SoSnapshot => MOk (s_snapshot s)
  | SoRestore => s_restore s
  | SoClear => s_clear_snapshot s
  end.

Fixpoint sop_run (s : stack) (os : list sop) : mres stack :=
  match os with
  | [] => MOk s
  | o :: os' => mbind (sop_step s o) (fun s' => sop_run s' os')
  end.
