(* Machine integers as they appear in the translated Rust (tools/rs2v.py):
   every integer is a Z, casts and arithmetic results go through these wraps. *)
From Coq Require Import ZArith.
Local Open Scope Z_scope.

Definition wrap_usize (z : Z) : Z := z mod 2 ^ 64.
Definition wrap_i32 (z : Z) : Z := (z + 2 ^ 31) mod 2 ^ 32 - 2 ^ 31.

Definition is_i32 (z : Z) : Prop := - 2 ^ 31 <= z < 2 ^ 31.
Definition is_usize (z : Z) : Prop := 0 <= z < 2 ^ 64.
