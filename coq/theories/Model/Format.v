(* Executable model of main/src/formatter.rs (C14): visualize_ws_and_cntrl, Partition/Partition2,
   ceil_log10, display_snippet_single_pos / single_line / multi_line, display_span, display_position,
   followed path by path.  Model only: no proofs in this file.

   Output: a list of [piece]s.  Raw characters written straight to the writer are one [Raw c] each
   (so consecutive `write!`s concatenate canonically); the strings handed to the three user
   formatters are kept apart ([SpanP], [MarkP], [NumP]) -- the default option writes them
   unchanged, a recording option brackets them.

   Every operation of the Rust code that can panic is explicit: `unwrap` on None, `split_at` off a
   char boundary or beyond the length, `usize` subtraction below zero (debug profile), `lines[i]`.
   Loops run on fuel; running out of fuel is the distinct result [RFuel].

   The display width of a string (unicode-width's `UnicodeWidthStr::width_cjk`) is the Section variable
   [swidth], an arbitrary function of the string.

   Two flags select the *repaired* code (proposed_fixes/C14-F4a.diff, C14-F4c.diff):
     fixA = true : display_span returns Ok(()) at once for an empty input
     fixC = true : display_position also accepts the line that ends at the end of the input
   (false, false) is the code as found. *)
From Coq Require Import List NArith Arith Bool.
From PT Require Import Model.Base.
Import ListNotations.
Local Open Scope nat_scope.

(* ---- results ------------------------------------------------------------------------------ *)

Inductive fr (A : Type) : Type :=
| ROk (a : A)
| RPanic          (* a Rust panic *)
| RFuel.          (* model artefact: fuel exhausted *)
Arguments ROk {A} a.
Arguments RPanic {A}.
Arguments RFuel {A}.

Definition fbind {A B} (m : fr A) (f : A -> fr B) : fr B :=
  match m with ROk a => f a | RPanic => RPanic | RFuel => RFuel end.

Inductive piece :=
| Raw (c : char)              (* one character written directly *)
| SpanP (t : list char)       (* (self.span_formatter)(t, f) *)
| MarkP (t : list char)       (* (self.marker_formatter)(t, f) *)
| NumP (t : list char).       (* (self.number_formatter)(t, f) *)

Definition raw (t : list char) : list piece := map Raw t.

(* sequencing of two groups of writes *)
Definition fapp (x y : fr (list piece)) : fr (list piece) :=
  fbind x (fun a => fbind y (fun b => ROk (a ++ b))).
Infix "+++" := fapp (at level 61, left associativity).
Definition ok (ps : list piece) : fr (list piece) := ROk ps.

(* `usize` subtraction (debug profile: overflow check) *)
Definition csub (x y : nat) : fr nat := if y <=? x then ROk (x - y) else RPanic.

(* `v[i]` *)
Definition vidx {A} (v : list A) (i : nat) : fr A :=
  match nth_error v i with Some x => ROk x | None => RPanic end.

(* `str::split_at(mid)`: panics unless `is_char_boundary(mid)` (which implies mid <= len) *)
Definition split_at (l : list byte) (k : nat) : fr (list byte * list byte) :=
  if is_boundary l k && (k <=? length l) then ROk (firstn k l, skipn k l) else RPanic.

(* ---- chars, control pictures, widths ------------------------------------------------------- *)

(* `str::chars()` by a structural decoder: [need] continuation bytes still to come, [acc] the bits
   read so far.  On valid UTF-8 it yields exactly the characters. *)
Fixpoint chars_st (l : list byte) (acc : N) (need : nat) : list char :=
  match l with
  | [] => []
  | b :: r =>
      match need with
      | O => if (b <? 128)%N then b :: chars_st r 0%N 0
             else if (b <? 224)%N then chars_st r (b - 192)%N 1
             else if (b <? 240)%N then chars_st r (b - 224)%N 2
             else chars_st r (b - 240)%N 3
      | S n =>
          let acc' := (acc * 64 + (b - 128))%N in
          match n with
          | O => acc' :: chars_st r 0%N 0
          | S _ => chars_st r acc' n
          end
      end
  end.
Definition chars (l : list byte) : list char := chars_st l 0%N 0.

(* the match of visualize_ws_and_cntrl: 33 entries, U+0020 is NOT replaced *)
Definition pic (c : char) : char :=
  match c with
  | 0 => 9216
  | 1 => 9217
  | 2 => 9218
  | 3 => 9219
  | 4 => 9220
  | 5 => 9221
  | 6 => 9222
  | 7 => 9223
  | 8 => 9224
  | 9 => 9225
  | 10 => 9226
  | 11 => 9227
  | 12 => 9228
  | 13 => 9229
  | 14 => 9230
  | 15 => 9231
  | 16 => 9232
  | 17 => 9233
  | 18 => 9234
  | 19 => 9235
  | 20 => 9236
  | 21 => 9237
  | 22 => 9238
  | 23 => 9239
  | 24 => 9240
  | 25 => 9241
  | 26 => 9242
  | 27 => 9243
  | 28 => 9244
  | 29 => 9245
  | 30 => 9246
  | 31 => 9247
  | 127 => 9249
  | _ => c
  end%N.

(* visualize_ws_and_cntrl *)
Definition vis (l : list byte) : list char := map pic (chars l).

(* ---- numbers -------------------------------------------------------------------------------- *)

(* FormatOption::ceil_log10: `while i >= 10 { digit += 1; i /= 10 }` *)
Fixpoint ceil_log10_fuel (f i digit : nat) : fr nat :=
  match f with
  | O => RFuel
  | S f' => if 10 <=? i then ceil_log10_fuel f' (i / 10) (S digit) else ROk digit
  end.
Definition ceil_log10 (n : nat) : fr nat := ceil_log10_fuel (S n) n 1.

(* decimal digits of a usize (`{}`) *)
Fixpoint digits_fuel (f n : nat) (acc : list char) : fr (list char) :=
  match f with
  | O => RFuel
  | S f' =>
      let acc' := (48 + N.of_nat (n mod 10))%N :: acc in
      if 10 <=? n then digits_fuel f' (n / 10) acc' else ROk acc'
  end.
Definition digits (n : nat) : fr (list char) := digits_fuel (S n) n [].

Definition spaces (n : nat) : list char := repeat 32%N n.

(* `format!("{:w$}", n, w = w)`: right-aligned, padded with spaces, never truncated *)
Definition pad (w : nat) (t : list char) : list char := spaces (w - length t) ++ t.
Definition fmt_num (w n : nat) : fr (list char) := fbind (digits n) (fun ds => ROk (pad w ds)).

Definition BAR : char := 124%N.    (* | *)
Definition SP : char := 32%N.
Definition NL : char := 10%N.
Definition CARET : char := 94%N.   (* ^ *)
Definition VEE : char := 118%N.    (* v *)
Definition DOT : char := 46%N.

(* ---- the lines of the whole input ----------------------------------------------------------
   `Span::new(input, 0, input.len()).unwrap().lines()`: LinesSpan::next (span.rs:611-624) with
   Position::find_line_start / find_line_end (position.rs:210-244).  The searches for '\n' over
   `char_indices()` are done here on bytes: in UTF-8 the byte 0x0A occurs only as the character
   U+000A, and every offset involved is a character boundary (checked below as in the code). *)

(* index (offset by i) of the first LF of l *)
Fixpoint first_lf (l : list byte) (i : nat) : option nat :=
  match l with
  | [] => None
  | b :: r => if (b =? 10)%N then Some i else first_lf r (S i)
  end.

(* index (offset by i) of the last LF of l, [acc] if none *)
Fixpoint last_lf (l : list byte) (i : nat) (acc : option nat) : option nat :=
  match l with
  | [] => acc
  | b :: r => last_lf r (S i) (if (b =? 10)%N then Some i else acc)
  end.

Definition fmt_find_line_start (s : list byte) (pos : nat) : nat :=
  match s with
  | [] => 0
  | _ => match last_lf (firstn pos s) 0 None with Some i => S i | None => 0 end
  end.

Definition fmt_find_line_end (s : list byte) (pos : nat) : nat :=
  match s with
  | [] => 0
  | _ =>
      if pos =? length s - 1 then length s
      else match first_lf (skipn pos s) pos with Some i => S i | None => length s end
  end.

(* `lines().collect()` of the span (0, e) with the iterator at [pos] *)
Fixpoint lines_fuel (f : nat) (s : list byte) (e pos : nat) : fr (list (list byte)) :=
  match f with
  | O => RFuel
  | S f' =>
      if e <? pos then ROk []                                   (* self.pos > self.span.end *)
      else
        match slice_opt s pos (length s) with                   (* Position::new(input, pos)? *)
        | None => ROk []
        | Some _ =>
            if pos =? length s then ROk []                      (* pos.at_end() *)
            else
              let ls := fmt_find_line_start s pos in
              let le := fmt_find_line_end s pos in              (* self.pos = ... *)
              match slice_opt s ls le with                      (* Span::new(..) : None ends it *)
              | None => ROk []
              | Some t => fbind (lines_fuel f' s e le) (fun r => ROk (t :: r))
              end
        end
  end.

(* every yielded line is non-empty: length s + 1 calls of next() suffice *)
Definition lines_full (s : list byte) : fr (list (list byte)) :=
  lines_fuel (S (length s)) s (length s) 0.

(* ---- locating the first and the last line (formatter.rs:331-358) --------------------------- *)

(* first loop: `while let Some((index, line)) = iter.peek()`.  Result: `start`, and the state the
   iterator is left in (lines not yet consumed -- the peeked one included --, its index, `pos`) *)
Fixpoint find_start (ls : list (list byte)) (idx pos a : nat)
  : fr (option (nat * nat) * (list (list byte) * nat * nat)) :=
  match ls with
  | [] => ROk (None, ([], idx, pos))
  | l :: r =>
      if a <=? pos + length l                                   (* pos + line.len() >= span.start() *)
      then fbind (csub a pos) (fun c => ROk (Some (idx, c), (ls, idx, pos)))
      else find_start r (S idx) (pos + length l) a
  end.

(* second loop: `for (index, line) in iter` *)
Fixpoint find_end (ls : list (list byte)) (idx pos b : nat) : fr (option (nat * nat)) :=
  match ls with
  | [] => ROk None
  | l :: r =>
      if b <=? pos + length l                                   (* pos + line.len() >= span.end() *)
      then fbind (csub b pos) (fun c => ROk (Some (idx, c)))
      else find_end r (S idx) (pos + length l) b
  end.

Section Fmt.
(* UnicodeWidthStr::width_cjk of a string: an arbitrary function of the string (NOT assumed to be the sum of the widths of its
   characters -- for emoji modifier / ZWJ / variation-selector sequences it is not) *)
Variable swidth : list char -> nat.

(* `write!(f, "{} ", spacing)?; (self.number_formatter)("|", f)?;` *)
Definition gutter (d : nat) : list piece := raw (spaces d ++ [SP]) ++ [NumP [BAR]].
Definition nl : list piece := [Raw NL].

(* number, " ", "|" *)
Definition numrow (d n : nat) : fr (list piece) :=
  fbind (fmt_num d n) (fun t => ROk [NumP t; Raw SP; NumP [BAR]]).

(* display_snippet_single_pos; [line] is 0-based *)
Definition snippet_single_pos (d line : nat) (former latter : list char) : fr (list piece) :=
  ok (gutter d ++ nl)
  +++ numrow d (line + 1) +++ ok (raw (SP :: former ++ latter) ++ nl)
  +++ ok (gutter d ++ raw (SP :: spaces (swidth former)) ++ [MarkP [CARET]] ++ nl).

(* display_snippet_single_line *)
Definition snippet_single_line (d line : nat) (former middle latter : list char) : fr (list piece) :=
  ok (gutter d ++ nl)
  +++ numrow d (line + 1) +++ ok (raw (SP :: former) ++ [SpanP middle] ++ raw latter ++ nl)
  +++ ok (gutter d ++ raw (SP :: spaces (swidth former)) ++ [MarkP (repeat CARET (swidth middle))] ++ nl).

(* display_full_covered_snippet; [n] is the number printed *)
Definition full_covered (d n : nat) (content : list char) : fr (list piece) :=
  numrow d n +++ ok (raw [SP] ++ [SpanP content] ++ nl).

(* display_snippet_multi_line *)
Definition snippet_multi_line (d sline : nat) (sformer slatter : list char)
           (eline : nat) (eformer elatter : list char)
           (inner0 inner1 : option (list char)) (dots : bool) (inner3 : option (list char))
  : fr (list piece) :=
  ok (gutter d ++ raw (SP :: spaces (swidth sformer)) ++ [MarkP [VEE]] ++ nl)
  +++ numrow d (sline + 1) +++ ok (raw (SP :: sformer) ++ [SpanP slatter] ++ nl)
  +++ match inner0 with Some l => full_covered d (sline + 2) l | None => ok [] end
  +++ match inner1 with
      | Some l => full_covered d (sline + 3) l
      | None => if dots then ok (gutter d ++ raw [SP; DOT; DOT; DOT] ++ nl) else ok []
      end
  +++ match inner3 with Some l => full_covered d eline l | None => ok [] end
  +++ numrow d (eline + 1) +++ ok (raw [SP] ++ [SpanP eformer] ++ raw elatter ++ nl)
  +++ ok (gutter d ++ raw (SP :: spaces (swidth eformer - 1)) ++ [MarkP [CARET]] ++ nl).

(* start / end located by the two loops, then the two unwraps *)
Definition locate_span (L : list (list byte)) (a b : nat) : fr ((nat * nat) * (nat * nat)) :=
  fbind (find_start L 0 0 a) (fun r =>
    let '(st, (rest, idx, pos)) := r in
    fbind (find_end rest idx pos b) (fun en =>
      match st with
      | None => RPanic                                          (* start.unwrap() *)
      | Some s0 =>
          match en with
          | None => RPanic                                      (* end.unwrap() *)
          | Some e0 => ROk (s0, e0)
          end
      end)).

(* the body of display_span once start = (sl, sc) and end = (el, ec) are known *)
Definition render_located (L : list (list byte)) (sl sc el ec : nat) : fr (list piece) :=
  fbind (csub el sl) (fun dl =>                                 (* end.line - start.line *)
  let sel := firstn (dl + 1) (skipn sl L) in                    (* .skip(start.line).take(.. + 1) *)
  fbind (ceil_log10 (el + 1)) (fun d =>
  if sl =? el then
    match sel with
    | [] => RPanic                                              (* lines.next().unwrap() *)
    | cur :: _ =>
        fbind (split_at cur ec) (fun p1 =>                      (* Partition2::new *)
        fbind (split_at (fst p1) sc) (fun p2 =>
        snippet_single_line d sl (vis (fst p2)) (vis (snd p2)) (vis (snd p1))))
    end
  else
    let n := length sel in
    match sel with
    | [] => RPanic                                              (* lines.first().unwrap() *)
    | sline :: _ =>
        let eline := last sel sline in                          (* lines.last().unwrap() *)
        fbind (split_at sline sc) (fun ps =>                    (* Partition::new (start) *)
        fbind (split_at eline ec) (fun pe =>                    (* Partition::new (end) *)
        fbind (if 3 <=? n then fbind (vidx sel 1) (fun l => ROk (Some (vis l))) else ROk None)
              (fun i0 =>
        fbind (if 6 <=? n then ROk (None, true)
               else if n =? 5 then fbind (vidx sel 2) (fun l => ROk (Some (vis l), false))
               else ROk (None, false))
              (fun i1 =>
        fbind (if 4 <=? n
               then fbind (csub n 2) (fun k => fbind (vidx sel k) (fun l => ROk (Some (vis l))))
               else ROk None)
              (fun i3 =>
        snippet_multi_line d sl (vis (fst ps)) (vis (snd ps)) el (vis (fst pe)) (vis (snd pe))
                           i0 (fst i1) (snd i1) i3)))))
    end)).

(* FormatOption::display_span for the span (a, b) of s *)
Definition display_span (fixA : bool) (s : list byte) (a b : nat) : fr (list piece) :=
  if fixA && (length s =? 0) then ROk [] else
  fbind (lines_full s) (fun L =>
  fbind (locate_span L a b) (fun se =>
  render_located L (fst (fst se)) (snd (fst se)) (fst (snd se)) (snd (snd se)))).

(* FormatOption::display_position: `while let Some((index, line)) = iter.peek()`.
   [total] = position.input.len() (only looked at by the repaired code) *)
Fixpoint pos_loop (fixC : bool) (total : nat) (ls : list (list byte)) (idx pos p : nat)
  : fr (list piece) :=
  match ls with
  | [] => ROk []
  | l :: r =>
      if (p <? pos + length l) || (fixC && (pos + length l =? total))
      then
        fbind (csub p pos) (fun c =>
        fbind (ceil_log10 (idx + 1)) (fun d =>
        fbind (split_at l c) (fun pr =>                         (* Partition::new *)
        snippet_single_pos d idx (vis (fst pr)) (vis (snd pr)))))
      else pos_loop fixC total r (S idx) (pos + length l) p
  end.

Definition display_position (fixC : bool) (s : list byte) (p : nat) : fr (list piece) :=
  fbind (lines_full s) (fun L => pos_loop fixC (length s) L 0 0 p).

End Fmt.

(* ---- observation ---------------------------------------------------------------------------- *)

(* `to_string()` with the default option *)
Definition piece_text (p : piece) : list char :=
  match p with Raw c => [c] | SpanP t => t | MarkP t => t | NumP t => t end.
Definition flat (ps : list piece) : list char := flat_map piece_text ps.

(* the recording option of harness/unitfmt: span text in U+0001..U+0002, marker text in
   U+0003..U+0004, number text in U+0005..U+0006 (no such character occurs in visualized text) *)
Definition piece_log (p : piece) : list char :=
  match p with
  | Raw c => [c]
  | SpanP t => 1%N :: t ++ [2%N]
  | MarkP t => 3%N :: t ++ [4%N]
  | NumP t => 5%N :: t ++ [6%N]
  end.
Definition flat_rec (ps : list piece) : list char := flat_map piece_log ps.

(* what is a valid Span / Position of s (`Span::new` / `Position::new` return Some) *)
Definition fmt_valid_span (s : list byte) (a b : nat) : bool :=
  (a <=? b) && (b <=? length s) && is_boundary s a && is_boundary s b.
Definition fmt_valid_pos (s : list byte) (p : nat) : bool :=
  (p <=? length s) && is_boundary s p.
