(* Model of the traversal helpers of main/src/iterators.rs (C15, traversal half). Definitions only.

   Rust                                          here
   ----                                          ----
   Token<'i,R>  { rule, span, children }         Tok.tok  (rule : N, span = start/end byte offsets)
   ThinToken<R> { rule, start, end, children }   thin
   Token::to_thin                                to_thin
   Pair::children / as_token / as_thin_token     children_of / as_token / as_thin_token
   iterate_level_order (lines 105-122)           level_order_loop / level_order
   iterate_pre_order   (lines 124-145)           pre_order_loop / pre_order
   write_tree_to / format_as_tree (148-164)      render_entry / render

   The callback `f` of the iterators is modelled by the list of its calls, in call order
   (the argument pairs `(token, usize)`); `f` returning `Err` just stops the loop, i.e. the calls
   made are a prefix of that list.  Loops run on explicit fuel: `None` = out of fuel (excluded by the
   theorems of Proofs/TraverseProofs.v, which prove which fuel suffices).

   Specifications (what the loops are proved to compute): preorder, all_tokens, level_at, levels,
   with_remaining, size, height. *)
From Coq Require Import List NArith Arith.
From PT Require Import Model.Tok.
Import ListNotations.

(* ---------------------------------------------------------------- thin tokens *)

Inductive thin := Thin (rule : N) (s e : nat) (children : list thin).

Definition thin_rule (t : thin) : N := match t with Thin r _ _ _ => r end.
Definition thin_start (t : thin) : nat := match t with Thin _ s _ _ => s end.
Definition thin_end (t : thin) : nat := match t with Thin _ _ e _ => e end.
Definition thin_children (t : thin) : list thin := match t with Thin _ _ _ c => c end.

(* Token::to_thin : rule, span.start(), span.end(), children.iter().map(|c| c.to_thin()).collect() *)
Fixpoint to_thin (t : tok) : thin :=
  match t with
  | Tok r s e cs => Thin r s e (map to_thin cs)
  end.

(* the inverse embedding, used to state that to_thin loses nothing *)
Fixpoint of_thin (t : thin) : tok :=
  match t with
  | Thin r s e cs => Tok r s e (map of_thin cs)
  end.

(* A `Pair` whose for_each_child yields the tokens of its children is represented by its token. *)
Definition children_of (t : tok) : list tok := tok_children t.
Definition as_token (t : tok) : tok := Tok (tok_rule t) (tok_start t) (tok_end t) (children_of t).
Definition as_thin_token (t : tok) : thin := to_thin (as_token t).

(* ---------------------------------------------------------------- emission helpers *)

Definition ocons {A : Type} (x : A) (o : option (list A)) : option (list A) :=
  match o with
  | Some l => Some (x :: l)
  | None => None
  end.

(* ---------------------------------------------------------------- iterate_level_order
     let mut queue = VecDeque::new(); let mut next = VecDeque::new();
     queue.push_back(p.as_token());
     loop {
         while let Some(p) = queue.pop_front() { f(&p, queue.len())?; next.extend(p.children); }
         swap(&mut queue, &mut next);
         if queue.is_empty() { return Ok(()); }
     }
   One unit of fuel per iteration of the inner `while` (first match arm) and one per exit of the inner
   loop followed by swap + emptiness test (second arm; after the swap `next` is the drained, empty,
   old queue).  The second component passed to `f` is `queue.len()` AFTER the pop. *)
Fixpoint level_order_loop (fuel : nat) (queue next : list tok) : option (list (tok * nat)) :=
  match fuel with
  | O => None
  | S fuel' =>
      match queue with
      | p :: queue' =>
          ocons (p, length queue') (level_order_loop fuel' queue' (next ++ tok_children p))
      | [] =>
          match next with
          | [] => Some []
          | _ :: _ => level_order_loop fuel' next []
          end
      end
  end.

Definition level_order (fuel : nat) (t : tok) : option (list (tok * nat)) :=
  level_order_loop fuel [as_token t] [].

(* ---------------------------------------------------------------- iterate_pre_order
     let mut stack: Vec<VecDeque<Token>> = Vec::new();
     stack.push(VecDeque::from_iter(once(p.as_token())));
     loop {
         if let Some(parent) = stack.last_mut() {
             if let Some(first) = parent.pop_front() { f(&first, stack.len() - 1)?; stack.push(first.children.into()); }
             else { stack.pop(); }
         } else { return Ok(()); }
     }
   The stack is a list whose HEAD is the top (`stack.last_mut()`).  One unit of fuel per iteration of
   `loop`.  `stack.len()` is not changed by popping from the top queue, so the depth passed to `f` is
   `length stack - 1` of the stack at the start of the iteration. *)
Fixpoint pre_order_loop (fuel : nat) (stack : list (list tok)) : option (list (tok * nat)) :=
  match fuel with
  | O => None
  | S fuel' =>
      match stack with
      | [] => Some []
      | [] :: rest => pre_order_loop fuel' rest
      | (first :: parent') :: rest =>
          ocons (first, length stack - 1)
                (pre_order_loop fuel' (tok_children first :: parent' :: rest))
      end
  end.

Definition pre_order (fuel : nat) (t : tok) : option (list (tok * nat)) :=
  pre_order_loop fuel [[as_token t]].

(* ---------------------------------------------------------------- write_tree_to / format_as_tree
     iterate_pre_order(p, |p, depth| {
         if p.children.is_empty() { write "{}{:?} {:?}\n", "    ".repeat(depth), p.rule, p.span.as_str() }
         else                     { write "{}{:?}\n",      "    ".repeat(depth), p.rule } })
   A rendered line is kept abstract: number of leading spaces, the rule, and the span whose text is
   printed (leaves only).  The driver turns it into bytes (`{:?}` of the rule name / of the text). *)
Record line := Line { l_indent : nat; l_rule : N; l_text : option (nat * nat) }.

Definition render_entry (p : tok * nat) : line :=
  match p with
  | (Tok r s e cs, depth) =>
      match cs with
      | [] => Line (4 * depth) r (Some (s, e))
      | _ :: _ => Line (4 * depth) r None
      end
  end.

Definition render (fuel : nat) (t : tok) : option (list line) :=
  option_map (map render_entry) (pre_order fuel t).

(* fuel used by the drivers and proved sufficient (and, for pre-order, exactly necessary) *)
Fixpoint size (t : tok) : nat :=
  match t with
  | Tok _ _ _ cs => S (list_sum (map size cs))
  end.

Definition fuel_for (t : tok) : nat := 2 * size t + 2.

(* ---------------------------------------------------------------- specifications *)

Definition fsize (f : list tok) : nat := list_sum (map size f).

Fixpoint height (t : tok) : nat :=
  match t with
  | Tok _ _ _ cs => S (list_max (map height cs))
  end.

Definition fheight (f : list tok) : nat := list_max (map height f).

(* depth-first, parent before children, children left to right, with depth *)
Fixpoint preorder (t : tok) (d : nat) : list (tok * nat) :=
  match t with
  | Tok _ _ _ cs => (t, d) :: flat_map (fun c => preorder c (S d)) cs
  end.

(* every token (sub-tree occurrence) of the tree *)
Fixpoint all_tokens (t : tok) : list tok :=
  match t with
  | Tok _ _ _ cs => t :: flat_map all_tokens cs
  end.

(* the tokens at distance k below the root, left to right *)
Fixpoint level_at (k : nat) (t : tok) : list tok :=
  match k with
  | O => [t]
  | S k' => flat_map (level_at k') (tok_children t)
  end.

Definition flevel_at (k : nat) (f : list tok) : list tok := flat_map (level_at k) f.

Definition levels (t : tok) : list (list tok) :=
  map (fun k => level_at k t) (seq 0 (height t)).

(* the second argument the level-order loop passes to f: how many tokens of the same level follow *)
Fixpoint with_remaining (l : list tok) : list (tok * nat) :=
  match l with
  | [] => []
  | p :: l' => (p, length l') :: with_remaining l'
  end.

(* spec of a rendered line *)
Definition is_leaf (t : tok) : bool :=
  match tok_children t with [] => true | _ :: _ => false end.

Definition line_of (p : tok * nat) : line :=
  Line (4 * snd p) (tok_rule (fst p))
       (if is_leaf (fst p) then Some (tok_start (fst p), tok_end (fst p)) else None).

(* thin pre-order: (rule, start, end, depth) *)
Fixpoint thin_preorder (t : thin) (d : nat) : list (N * nat * nat * nat) :=
  match t with
  | Thin r s e cs => (r, s, e, d) :: flat_map (fun c => thin_preorder c (S d)) cs
  end.

Definition tok_quad (p : tok * nat) : N * nat * nat * nat :=
  (tok_rule (fst p), tok_start (fst p), tok_end (fst p), snd p).
