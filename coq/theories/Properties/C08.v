(* C08 -- parsing a Span or Position sub-input equals parsing that slice on its own. *)
From Coq Require Import List NArith.
From PT Require Import Model.Base.
(* placeholder replaced below once Proofs/SubInput.v is in place *)
Theorem C08_placeholder : True.
Proof. exact I. Qed.
Print Assumptions C08_placeholder.
