(* C08 -- parsing a Span or Position sub-input equals parsing that slice on its own.
   "Parsing Span(s, a, b) gives the result of parsing a fresh copy of s[a..b] with all offsets shifted
   by a, and parsing Position(s, a) gives the result for s[a..]: same verdict, consumed length, spans
   and tree, for the partial and the full entry points. SOI holds only at a, EOI only at b, and
   nothing at or beyond b influences the outcome."
   Statements only; every proof is `exact` of a lemma of Proofs/SubInputOps.v / Proofs/SubInput.v.

   Vocabulary (Proofs/SubInputOps.v, Proofs/SubInput.v):
     valid_range s a b   a <= b <= length s, both on char boundaries (what Span::new / Position::new accept)
     sub_slice s a b     the text s[a..b]
     sub_of I2 s a b     the input I2 has parent s, start() = a, end() = b  (SubInput2, and SubInput1 with b = len)
     env_agree s a b E2 E0   E2 runs on such an input, E0 on the fresh `inp_of_str (sub_slice s a b)`; same
                         rules, skip type, property tables, EOI rule and switches (no assumption on
                         e_ron_fixed / e_rep_min_after beyond being equal)
     shift_* a           add a to every byte offset: cursor, node spans (recursively), stack spans, tracker events
     state_ok n st       every span on the stack (cache and popped) has start <= end <= n
     res_ok ok n r       a result keeps the cursor <= n and the state state_ok *)
From Coq Require Import List NArith.
From PT Require Import Model.Base Model.Stack Model.Texpr Model.Sem Model.Tok Model.Tokens.
From PT Require Import Proofs.SubInputOps Proofs.SubInput.
Import ListNotations.

(* ---- byte level: every operation of the cursor on the sub-input is the operation on the fresh
   text with offsets shifted by a (returned chars and texts are equal) ---- *)
Theorem C08_matchers : forall s a b I2,
  valid_range s a b -> sub_of I2 s a b ->
  let I0 := inp_of_str (sub_slice s a b) in
  length (sub_slice s a b) = b - a /\
  (forall c0, i_get I2 (c0 + a) = i_get I0 c0) /\
  (forall t c0, i_match_string I2 t (c0 + a) = mmap (option_map (shift_cur a)) (i_match_string I0 t c0)) /\
  (forall t c0, i_match_insens I2 t (c0 + a) = mmap (option_map (shift_cur a)) (i_match_insens I0 t c0)) /\
  (forall k c0, i_skip I2 k (c0 + a) = mmap (option_map (shift_cur a)) (i_skip I0 k c0)) /\
  (forall f c0, i_match_char I2 f (c0 + a) = mmap (option_map (shift_char_hit a)) (i_match_char I0 f c0)) /\
  (forall ss c0, c0 <= b - a ->
     i_skip_until I2 true ss (c0 + a) = shift_until a (i_skip_until I0 true ss c0)) /\
  (forall c0, i_at_start I2 (c0 + a) = i_at_start I0 c0) /\
  (forall c0, i_at_end I2 (c0 + a) = i_at_end I0 c0) /\
  (forall x0 y0, y0 <= b - a -> i_span I2 (x0 + a) (y0 + a) = mmap (shift_span a) (i_span I0 x0 y0)) /\
  (forall sp0, snd sp0 <= b - a -> span_str I2 (shift_span a sp0) = span_str I0 sp0).
Proof. exact matchers_related. Qed.
Print Assumptions C08_matchers.

(* every cursor an operation returns stays <= end() (input of any form): the invariant that keeps the
   run inside the range where C08_matchers applies *)
Theorem C08_matchers_bounded : forall I,
  (forall t c p, i_match_string I t c = MOk (Some p) -> p <= i_end I) /\
  (forall t c p, i_match_insens I t c = MOk (Some p) -> p <= i_end I) /\
  (forall k c p, i_skip I k c = MOk (Some p) -> p <= i_end I) /\
  (forall f c p ch, i_match_char I f c = MOk (Some (p, ch)) -> p <= i_end I) /\
  (forall cut ss c, snd (i_skip_until I cut ss c) <= i_end I) /\
  (forall x y sp, i_span I x y = MOk sp -> sp = (x, y) /\ x <= y).
Proof. exact matchers_bounded. Qed.
Print Assumptions C08_matchers_bounded.

(* ---- pest::Stack: every operation commutes with mapping the stored spans (so with the shift), and
   preserves any element-wise invariant of cache and popped (so the range invariant state_ok) ---- *)
Theorem C08_stack_ops_commute : forall (f : span -> span) (s : stack),
  s_len (map_stack f s) = s_len s /\
  s_peek (map_stack f s) = option_map f (s_peek s) /\
  (forall x, s_push (f x) (map_stack f s) = map_stack f (s_push x s)) /\
  s_pop (map_stack f s) = (option_map f (fst (s_pop s)), map_stack f (snd (s_pop s))) /\
  s_snapshot (map_stack f s) = map_stack f (s_snapshot s) /\
  s_clear_snapshot (map_stack f s) = mmap (map_stack f) (s_clear_snapshot s) /\
  s_restore (map_stack f s) = mmap (map_stack f) (s_restore s) /\
  (forall x y, s_index (map_stack f s) x y = mmap (map f) (s_index s x y)) /\
  s_pop_all (map_stack f s) = map_stack f (s_pop_all s) /\
  (forall saved, s_push_all (map f saved) (map_stack f s) = map_stack f (s_push_all saved s)).
Proof. exact stack_ops_commute. Qed.
Print Assumptions C08_stack_ops_commute.

Theorem C08_stack_ops_preserve : forall (Q : span -> Prop) (s : stack),
  stack_all Q s ->
  (forall x, Q x -> stack_all Q (s_push x s)) /\
  (forall x, s_peek s = Some x -> Q x) /\
  stack_all Q (snd (s_pop s)) /\
  (forall x, fst (s_pop s) = Some x -> Q x) /\
  stack_all Q (s_snapshot s) /\
  (forall s1, s_clear_snapshot s = MOk s1 -> stack_all Q s1) /\
  (forall s1, s_restore s = MOk s1 -> stack_all Q s1) /\
  (forall x y l, s_index s x y = MOk l -> Forall Q l) /\
  stack_all Q (s_pop_all s) /\
  (forall saved, Forall Q saved -> stack_all Q (s_push_all saved s)).
Proof. exact stack_ops_preserve. Qed.
Print Assumptions C08_stack_ops_preserve.

(* ---- the parse path: for every grammar, expression, fuel, cursor c0 inside the fresh text and
   state whose stack spans lie inside it, the run on the sub-input from c0 + a on the shifted state
   is the shifted run on the fresh text: same verdict (Ok / Fail / Panic / Fuel), cursor + a, tree
   with every span + a, stack spans + a, tracker events + a.  The fresh run keeps the invariant. ---- *)
Theorem C08_subinput : forall s a b E2 E0 fuel inh e c0 st,
  valid_range s a b -> env_agree s a b E2 E0 -> e_su_cut E2 = true -> e_su_cut E0 = true ->
  c0 <= b - a -> state_ok (b - a) st ->
  tparse E2 fuel inh e (c0 + a) (shift_state a st) = shift_pres a (tparse E0 fuel inh e c0 st)
  /\ res_ok (cur_ok (b - a)) (b - a) (tparse E0 fuel inh e c0 st).
Proof. exact subinput_parse. Qed.
Print Assumptions C08_subinput.

(* ---- the check path ---- *)
Theorem C08_subinput_check : forall s a b E2 E0 fuel inh e c0 st,
  valid_range s a b -> env_agree s a b E2 E0 -> e_su_cut E2 = true -> e_su_cut E0 = true ->
  c0 <= b - a -> state_ok (b - a) st ->
  tcheck E2 fuel inh e (c0 + a) (shift_state a st) = shift_cres a (tcheck E0 fuel inh e c0 st)
  /\ res_ok (fun p => p <= b - a) (b - a) (tcheck E0 fuel inh e c0 st).
Proof. exact subinput_check. Qed.
Print Assumptions C08_subinput_check.

(* ---- the four entry points (the full ones include the trailing skip and the EOI attempt) ---- *)
Theorem C08_entry_points : forall s a b E2 E0 fuel r,
  valid_range s a b -> env_agree s a b E2 E0 -> e_su_cut E2 = true -> e_su_cut E0 = true ->
  try_parse_partial E2 fuel r = shift_pres a (try_parse_partial E0 fuel r) /\
  try_check_partial E2 fuel r = shift_cres a (try_check_partial E0 fuel r) /\
  try_parse E2 fuel r = shift_tres a (try_parse E0 fuel r) /\
  try_check E2 fuel r = shift_ures a (try_check E0 fuel r).
Proof. exact subinput_entry_points. Qed.
Print Assumptions C08_entry_points.

(* the same, spelled out for the two concrete forms: Span(s, a, b) against the fresh s[a..b] ... *)
Theorem C08_span_entry_points : forall s a b E fuel r,
  valid_range s a b -> e_inp E = inp_of_str (sub_slice s a b) -> e_su_cut E = true ->
  let E2 := with_inp E (inp_of_span s a b) in
  try_parse_partial E2 fuel r = shift_pres a (try_parse_partial E fuel r) /\
  try_check_partial E2 fuel r = shift_cres a (try_check_partial E fuel r) /\
  try_parse E2 fuel r = shift_tres a (try_parse E fuel r) /\
  try_check E2 fuel r = shift_ures a (try_check E fuel r).
Proof. exact span_entry_points. Qed.
Print Assumptions C08_span_entry_points.

(* ... and Position(s, a) against the fresh s[a..] *)
Theorem C08_position_entry_points : forall s a E fuel r,
  a <= length s -> is_boundary s a = true -> e_inp E = inp_of_str (skipn a s) -> e_su_cut E = true ->
  let E2 := with_inp E (inp_of_pos s a) in
  try_parse_partial E2 fuel r = shift_pres a (try_parse_partial E fuel r) /\
  try_check_partial E2 fuel r = shift_cres a (try_check_partial E fuel r) /\
  try_parse E2 fuel r = shift_tres a (try_parse E fuel r) /\
  try_check E2 fuel r = shift_ures a (try_check E fuel r).
Proof. exact position_entry_points. Qed.
Print Assumptions C08_position_entry_points.

(* ---- what the Pairs API exposes: a successful full parse of the sub-input yields exactly the tokens
   of the fresh parse with start/end shifted by a (recursively through the children) ---- *)
Theorem C08_tokens : forall s a b E2 E0 fuel r t st,
  valid_range s a b -> env_agree s a b E2 E0 -> e_su_cut E2 = true -> e_su_cut E0 = true ->
  try_parse E0 fuel r = Ok t st ->
  exists t2 st2, try_parse E2 fuel r = Ok t2 st2 /\ tokens E2 t2 = map (shift_tok a) (tokens E0 t).
Proof. exact subinput_tokens. Qed.
Print Assumptions C08_tokens.

(* ---- SOI holds only at a, EOI only at b ---- *)
Theorem C08_soi_eoi : forall s a b E2 k inh c st,
  sub_of (e_inp E2) s a b ->
  ((exists x st', tparse E2 (S k) inh TSoi c st = Ok x st') <-> c = a) /\
  ((exists x st', tparse E2 (S k) inh TEoi c st = Ok x st') <-> c = b).
Proof. exact soi_eoi. Qed.
Print Assumptions C08_soi_eoi.

(* ---- nothing at or beyond b (nor before a) influences the outcome: two parent strings that carry the
   same text between a and b (both sub-inputs agree with the same fresh environment E0) give identical
   runs ---- *)
Theorem C08_outside_irrelevant : forall s1 s2 a b E1 E2 E0 fuel inh e c0 st,
  valid_range s1 a b -> valid_range s2 a b ->
  env_agree s1 a b E1 E0 -> env_agree s2 a b E2 E0 ->
  e_su_cut E1 = true -> e_su_cut E2 = true -> e_su_cut E0 = true ->
  c0 <= b - a -> state_ok (b - a) st ->
  tparse E1 fuel inh e (c0 + a) (shift_state a st) = tparse E2 fuel inh e (c0 + a) (shift_state a st) /\
  tcheck E1 fuel inh e (c0 + a) (shift_state a st) = tcheck E2 fuel inh e (c0 + a) (shift_state a st).
Proof. exact outside_irrelevant. Qed.
Print Assumptions C08_outside_irrelevant.

(* ---- the hypotheses are satisfiable and the conclusion is not trivial: a Span over a multi-byte
   char with implicit whitespace, a stack push, skip_until and a look-ahead at the cut-off end ---- *)
Theorem C08_nonvacuous :
  let E2 := ex_env (inp_of_span ex_s 1 6) true in
  let E0 := ex_env (inp_of_str (sub_slice ex_s 1 6)) true in
  valid_range ex_s 1 6 /\ env_agree ex_s 1 6 E2 E0 /\ e_su_cut E2 = true /\ e_su_cut E0 = true /\
  sub_slice ex_s 1 6 = [195; 169; 32; 97; 98]%N /\
  try_parse_partial E0 10 0%N =
    Ok (5, NRule 0%N (Some (NSeq [([NAtomicRep []], NSoi);
                                  ([NAtomicRep []], NChar CkAny 233%N);
                                  ([NAtomicRep [NStr]], NPush NStr);
                                  ([NAtomicRep []], NSpanned KSkip 4 4);
                                  ([NAtomicRep []], NStr);
                                  ([NAtomicRep []], NNeg);
                                  ([NAtomicRep []], NEoi)])) (Some (0, 5)))
       (mk_state (mk_stack [(3, 4)] [] []) [EExit 0%N 0 true; EPolEnd; EPol false; EEnter 0%N 0]) /\
  try_parse_partial E2 10 0%N =
    Ok (6, NRule 0%N (Some (NSeq [([NAtomicRep []], NSoi);
                                  ([NAtomicRep []], NChar CkAny 233%N);
                                  ([NAtomicRep [NStr]], NPush NStr);
                                  ([NAtomicRep []], NSpanned KSkip 5 5);
                                  ([NAtomicRep []], NStr);
                                  ([NAtomicRep []], NNeg);
                                  ([NAtomicRep []], NEoi)])) (Some (1, 6)))
       (mk_state (mk_stack [(4, 5)] [] []) [EExit 0%N 1 true; EPolEnd; EPol false; EEnter 0%N 1]).
Proof. exact subinput_nonvacuous. Qed.
Print Assumptions C08_nonvacuous.

(* ---- the repaired defect: with skip_until comparing against text that runs to the end of the parent
   string (e_su_cut = false, the code before the fix) the statement is false ---- *)
Theorem C08_refuted_before_fix :
  exists s a b E2 E0 e,
    valid_range s a b /\ env_agree s a b E2 E0 /\ e_su_cut E2 = false /\ e_su_cut E0 = false /\
    tparse E2 2 true e (0 + a) (shift_state a st0) <> shift_pres a (tparse E0 2 true e 0 st0) /\
    tcheck E2 2 true e (0 + a) (shift_state a st0) <> shift_cres a (tcheck E0 2 true e 0 st0).
Proof. exact subinput_refuted_before_fix. Qed.
Print Assumptions C08_refuted_before_fix.
