(* C12 -- line, column and line text of every position agree with pest.
   Statements only; every proof is `exact` of a lemma proved in Proofs/LinesProofs.v.

   A string is `encode cs` for a list cs of valid Unicode scalar values (that is what a Rust `&str`
   is); its character boundaries are exactly the offsets `boff cs k` (C12_boundaries).
   `line_col_t trap` is the transcription of position.rs:142-183 (`trap = false` is the real
   function; with `trap = true` the `if pos == 1` arm of the CRLF case returns LDead instead), `line_of`
   that of position.rs:202-244.  A result `LOk _` excludes LPanic (slice / underflow / explicit
   panic), LUnreachable (`unreachable!()`), LDead and LFuel (fuel = pos suffices). *)
From Coq Require Import List NArith Arith.
From PT Require Import Model.Base Model.Lines Model.LinesSpec Proofs.LinesProofs.
Import ListNotations.

(* line = 1 + #LF before the offset, column = 1 + #characters since the last LF before the offset,
   for every string and every boundary -- the CR/LF peeking loop is observationally the plain scan,
   never panics, never reaches unreachable!(), and the `pos == 1` arm is dead (holds for both traps) *)
Theorem C12_line_col : forall (cs : list char) (k : nat) (trap : bool),
  valid_str cs ->
  line_col_t trap (encode cs) (boff cs k) =
  LOk (1 + count_lf (firstn k cs), 1 + length (after_last_lf (firstn k cs))).
Proof. exact line_col_correct. Qed.
Print Assumptions C12_line_col.

(* line_of = from after the last LF strictly before the offset to just after the first LF at or after
   it (end of input if none); in particular the offset at end of input belongs to the last line;
   the `pos == len - 1` shortcut changes nothing; the slice never panics *)
Theorem C12_line_of : forall (cs : list char) (k : nat),
  valid_str cs ->
  line_of (encode cs) (boff cs k) =
  LOk (encode (after_last_lf (firstn k cs) ++ upto_lf (skipn k cs))).
Proof. exact line_of_correct. Qed.
Print Assumptions C12_line_of.

(* the offsets `Position::new` accepts (the character boundaries) are exactly the `boff cs k` *)
Theorem C12_boundaries : forall (cs : list char) (p : nat),
  valid_str cs ->
  (pos_new (encode cs) p = Some p <-> exists k, k <= length cs /\ p = boff cs k) /\
  (pos_new (encode cs) p = Some p \/ pos_new (encode cs) p = None).
Proof. exact pos_new_boundaries. Qed.
Print Assumptions C12_boundaries.

(* the wording of the property, read off the spec: passing CR LF is one line break ... *)
Theorem C12_crlf_is_one_break : forall pre : list char,
  line_col_spec (pre ++ [CR; LF]) (length pre + 2) = (fst (line_col_spec pre (length pre)) + 1, 1).
Proof. exact spec_crlf. Qed.
Print Assumptions C12_crlf_is_one_break.

(* ... and a CR with no LF after it inside the prefix (a lone CR, or the offset between CR and LF)
   is one more column on the same line *)
Theorem C12_lone_cr_is_a_column : forall pre : list char,
  line_col_spec (pre ++ [CR]) (length pre + 1) =
  (fst (line_col_spec pre (length pre)), snd (line_col_spec pre (length pre)) + 1).
Proof. exact spec_lone_cr. Qed.
Print Assumptions C12_lone_cr_is_a_column.
