(* C20 -- generation options change representation only, and generation is deterministic. Statements only.
   In the generator model the parsing-relevant output (Model/Translate.v: rule kinds, emissions, type expressions,
   skip type) is a function of the grammar AST alone: the options box_only_if_needed, emit_rule_reference,
   emit_tagged_node_reference, do_not_emit_span, no_warnings are not arguments of translate_opt at all; that the
   REAL generator's parsing-relevant output is the same under every option set is checked by V1 per option set
   (vlib/props/C20.py). Boxing: see the theorems merged below from Proofs/BoxingProofs.v. *)
From Coq Require Import List NArith.
From PT Require Import Model.Base Model.Stack Model.Texpr Model.Sem Model.Ast Model.Translate Model.PegSpec Model.GenEnv.
From PT Require Import Model.Boxing Proofs.OptionsProofs Proofs.BoxingProofs.
Import ListNotations.

(* pest_optimizer: where the un-optimized expression is the optimized one read back (the optimizer only added
   RestoreOnErr, none of it directly on a Seq / Choice spine), both paths emit the same type *)
Theorem C20_opt_raw_partial : forall eoi k e,
  no_restore_on_spine e = true -> rtr eoi k (raw_of e) = tr eoi k e.
Proof. exact raw_same_when_unchanged. Qed.
Print Assumptions C20_opt_raw_partial.

(* known finding F6 (class optimizer_rewrote_rule): e = { "x"+ } with WHITESPACE on "x  y" *)
Theorem C20_refuted_skip :
  (match tparse (env_of 0 g_opt (inp_of_str in_f6) nopred) 30 true (TRule 1 SkOn) 0 st0 with
   | Ok (p, _) _ => p = 3 | _ => False end) /\
  (match tparse (env_of_raw 0 g_raw (inp_of_str in_f6) nopred) 30 true (TRule 1 SkOn) 0 st0 with
   | Ok (p, _) _ => p = 1 | _ => False end) /\
  (match peg_entry (penv_of 0 g_opt (inp_of_str in_f6) nopred) 30 1 with
   | POk p _ _ => p = 3 | _ => False end).
Proof. exact optimizer_changes_offset. Qed.
Print Assumptions C20_refuted_skip.

(* ---- box_only_if_needed: "recursive grammars still compile when boxing is reduced" ------------------------
   Model/Boxing.v transcribes collect_reachability / not_boxed (generator/src/graph.rs) and collect_used_rule;
   V1 compares its flags with the `boxed` argument of every rule! the REAL generator emits (vlib/props/C20.py).
   A struct type is finite iff no cycle of "stores inline" runs through unboxed rule structs only. *)

(* soundness, for every rule list: no cycle of the mention graph runs through unboxed rules only -- in
   particular the cap of `rules.len()` rounds never stops the analysis too early *)
Theorem C20_boxing_sound : forall ws cm rules x l,
  (forall z, In z (x :: l) -> is_boxed true ws cm rules z = false) ->
  ~ chain (mention_edge ws cm rules) x l x.
Proof. exact boxing_sound. Qed.
Print Assumptions C20_boxing_sound.

(* a rule on no cycle of the full mention graph is never boxed (the option does reduce boxing) *)
Theorem C20_boxing_minimal : forall ws cm rules r,
  In r rules ->
  (forall l, ~ chain (mention_edge ws cm rules) (b_name r) l (b_name r)) ->
  is_boxed true ws cm rules (b_name r) = false.
Proof. exact boxing_minimal. Qed.
Print Assumptions C20_boxing_minimal.

(* what every remaining entry of the reachability map holds *)
Theorem C20_boxing_invariant : forall ws cm rules x s,
  mlookup x (collect_reachability ws cm rules) = Some s ->
  In x (map b_name rules) /\ NoDup s /\ ~ In x s /\
  (forall y, In y s -> exists l, chain (mention_edge ws cm rules) x l y) /\
  (forall l y, chain (mention_edge ws cm rules) x l y ->
     (forall z, In z l -> In z (not_boxed ws cm rules)) -> In y s).
Proof. exact boxing_invariant. Qed.
Print Assumptions C20_boxing_invariant.

(* without the option every rule is boxed *)
Theorem C20_boxing_off : forall ws cm rules, boxed_flags false ws cm rules = map (fun _ => true) rules.
Proof. exact boxing_off. Qed.
Print Assumptions C20_boxing_off.

(* non-vacuity: the generator's own unit-test graph (a -> b -> c -> a): b stays unboxed, the cycle exists *)
Theorem C20_boxing_example :
  boxed_flags true None None inter_reference_rules = [true; false; true] /\
  boxed_flags false None None inter_reference_rules = [true; true; true] /\
  last_round_made_no_update None None inter_reference_rules = true.
Proof. exact inter_reference_flags. Qed.
Print Assumptions C20_boxing_example.

(* ---- pest_optimizer: the skip-until node the optimizer introduces ("skipper": (!(t1 | t2 ..) ~ ANY)*  ==>  Skip([t1; t2; ..]), inside
   atomic rules) against the expression it replaces, on the REAL parse and check path: same offset, same logical stack, neither fails
   or panics; the offset is the first character boundary at which a terminator matches within the input range, else the end of the
   range.  Premises: the repaired skip_until (fix F3: [e_su_cut], necessary -- SkipRewrite.ex2_uncut_refuted), valid UTF-8 input and a
   cursor on a character boundary (necessary -- ex3_inside_char).  Nothing is assumed about the terminators.  The trace differs: the
   node logs nothing, the expansion logs one negative-predicate frame per skipped character and one for the closing iteration. ------ *)
From PT Require Import Model.LinesSpec Proofs.BoundaryOps Proofs.SkipRewrite.

Theorem C20_skip_rewrite : forall E fuel inh ss X pos st,
  e_su_cut E = true -> good_inp (e_inp E) -> good_cur (e_inp E) pos -> operand_of ss X ->
  tparse E fuel inh (su_expansion X) pos st <> Sem.Fuel ->
  exists p cs,
    su_spec (e_inp E) ss pos p /\
    valid_str cs /\ between (e_inp E) pos p = encode cs /\
    tparse E fuel inh (TSkipUntil ss) pos st = Sem.Ok (p, NSpanned KSkip pos p) st /\
    tparse E fuel inh (su_expansion X) pos st =
      Sem.Ok (p, NRep false (map skip_item cs))
         (mk_state (ron_fail_stk E (stk st)) (neg_tr (S (length cs)) (Sem.tr st))) /\
    cache (ron_fail_stk E (stk st)) = cache (stk st).
Proof. exact C20_skip_rewrite_parse. Qed.
Print Assumptions C20_skip_rewrite.

Theorem C20_skip_rewrite_on_check : forall E fuel inh ss X pos st,
  e_su_cut E = true -> good_inp (e_inp E) -> good_cur (e_inp E) pos -> operand_of ss X ->
  tcheck E fuel inh (su_expansion X) pos st <> Sem.Fuel ->
  exists p cs, su_spec (e_inp E) ss pos p /\ valid_str cs /\ between (e_inp E) pos p = encode cs /\
    tcheck E fuel inh (TSkipUntil ss) pos st = Sem.Ok p st /\
    tcheck E fuel inh (su_expansion X) pos st =
      Sem.Ok p (mk_state (ron_fail_stk E (stk st)) (neg_tr (S (length cs)) (Sem.tr st))) /\
    cache (ron_fail_stk E (stk st)) = cache (stk st).
Proof. exact C20_skip_rewrite_check. Qed.
Print Assumptions C20_skip_rewrite_on_check.

(* the expansion ends within input-length + 5 fuel: the statement above is not vacuous *)
Theorem C20_skip_rewrite_fuel : forall E fuel inh ss X pos st,
  e_su_cut E = true -> good_inp (e_inp E) -> good_cur (e_inp E) pos -> operand_of ss X ->
  i_end (e_inp E) - pos + 5 <= fuel ->
  tparse E fuel inh (su_expansion X) pos st <> Sem.Fuel /\ tcheck E fuel inh (su_expansion X) pos st <> Sem.Fuel.
Proof. exact skip_expansion_fuel. Qed.
Print Assumptions C20_skip_rewrite_fuel.

(* the specification determines the offset *)
Theorem C20_skip_spec_unique : forall I ss pos p q, su_spec I ss pos p -> su_spec I ss pos q -> p = q.
Proof. exact su_spec_unique. Qed.
Print Assumptions C20_skip_spec_unique.
