(* C20 -- generation options change representation only, and generation is deterministic. Statements only.
   In the generator model the parsing-relevant output (Model/Translate.v: rule kinds, emissions, type expressions,
   skip type) is a function of the grammar AST alone: the options box_only_if_needed, emit_rule_reference,
   emit_tagged_node_reference, do_not_emit_span, no_warnings are not arguments of translate_opt at all; that the
   REAL generator's parsing-relevant output is the same under every option set is checked by V1 per option set
   (vlib/props/C20.py). Boxing: see the theorems merged below from Proofs/BoxingProofs.v. *)
From Coq Require Import List NArith.
From PT Require Import Model.Base Model.Stack Model.Texpr Model.Sem Model.Ast Model.Translate Model.PegSpec Model.GenEnv.
From PT Require Import Proofs.OptionsProofs.
Import ListNotations.

(* pest_optimizer: where the un-optimized expression is the optimized one read back (the optimizer only added
   RestoreOnErr, none of it directly on a Seq / Choice spine), both paths emit the same type *)
Theorem C20_opt_raw_partial : forall eoi k e,
  no_restore_on_spine e = true -> rtr eoi k (raw_of e) = tr eoi k e.
Proof. exact raw_same_when_unchanged. Qed.
Print Assumptions C20_opt_raw_partial.

(* known finding F6 (class optimizer_rewrote_rule): e = { "x"+ } with WHITESPACE on "x  y" *)
Theorem C20_refuted_skip :
  (match tparse (env_of 0 g_opt (inp_of_str in_f6) nopred) 30 true (TRule 1 SkOn) 0 st0 with
   | Ok (p, _) _ => p = 3 | _ => False end) /\
  (match tparse (env_of_raw 0 g_raw (inp_of_str in_f6) nopred) 30 true (TRule 1 SkOn) 0 st0 with
   | Ok (p, _) _ => p = 1 | _ => False end) /\
  (match peg_entry (penv_of 0 g_opt (inp_of_str in_f6) nopred) 30 1 with
   | POk p _ _ => p = 3 | _ => False end).
Proof. exact optimizer_changes_offset. Qed.
Print Assumptions C20_refuted_skip.
