(* C09 -- for arbitrary Unicode input every entry point returns Ok or Err without panicking, and every
   offset it reports (returned cursor, every span in the tree, the error location) lies within the
   given input range on a character boundary, so that span text can always be taken; identically in
   debug and in release builds ([MPanic] / [Panic] model both the debug panic and the release-mode
   undefined behaviour of unchecked slicing).
   Statements only; proofs are in Proofs/BoundaryOps.v (cursor operations) and Proofs/Boundary.v
   (interpreters, entry points, tracker).

   Vocabulary (Proofs/BoundaryOps.v, Proofs/Boundary.v):
   [valid_utf8 s]   s = encode cs for characters cs that are all Unicode scalar values;
   [good_inp I]     the parent string is valid UTF-8, start() <= end() <= len, both on boundaries
                    (any of the three input forms);
   [good_cur I c]   c is a character boundary of the parent and start() <= c <= end();
   [good_span I sp] two good cursors in order;
   [ret_good I c m] m = MOk o, and if o = Some c' then c <= c' and c' is a good cursor;
   [good_node I t]  every (start, end) pair stored anywhere in the tree ([node_spans t]) is a good span;
   [good_state I st] every span in the stack's cache and popped lists is good and every position an
                    event of the trace hands to the tracker ([ev_pos]) is a good cursor;
   [lits_ok e]      the needles of the TStr nodes of e ([str_lits e]) are valid UTF-8 (the needles of
                    TInsens and TSkipUntil may be arbitrary bytes);
   [env_ok E]       good input, repaired skip_until and restore_on_none, [lits_ok] for every rule body
                    and for the skip definition;
   [SInv s gs]      representation invariant of pest::Stack (Proofs/StackInv.v). *)
From Coq Require Import List NArith.
From PT Require Import Model.Base Model.Stack Model.Texpr Model.Sem Model.Tracker Model.LinesSpec.
From PT Require Import Proofs.StackInv Proofs.BoundaryOps Proofs.Boundary.
Import ListNotations.

(* ---- C09_matchers: the cursor operations ---- *)

(* every operation, from one good cursor: it returns normally and what it returns is good *)
Theorem C09_matchers : forall I c, good_inp I -> good_cur I c ->
  (exists rs, valid_str rs /\ i_get I c = MOk (encode rs)) /\
  (forall t, valid_utf8 t -> ret_good I c (i_match_string I t c)) /\
  (forall t, ret_good I c (i_match_insens I t c)) /\
  (forall n, ret_good I c (i_skip I n c)) /\
  (forall f, exists o, i_match_char I f c = MOk o /\
     forall c' ch, o = Some (c', ch) -> c < c' /\ good_cur I c' /\ c' = c + len_utf8 ch) /\
  (forall ss, c <= snd (i_skip_until I true ss c) /\ good_cur I (snd (i_skip_until I true ss c))) /\
  (forall y, good_cur I y -> c <= y ->
     i_span I c y = MOk (c, y) /\ exists txt, span_str I (c, y) = MOk txt /\ valid_utf8 txt).
Proof. exact matchers_good. Qed.
Print Assumptions C09_matchers.

(* the same, operation by operation and with [ret_good] spelled out *)

(* UTF-8 is a prefix code: a valid needle that is a byte prefix is a character prefix *)
Theorem C09_prefix_code : forall ts m, valid_str ts -> valid_str m ->
  is_prefix (encode ts) (encode m) = true -> exists m2, m = ts ++ m2.
Proof. exact is_prefix_encode. Qed.
Print Assumptions C09_prefix_code.

(* Input::get(): the remaining text is valid UTF-8 starting at a character *)
Theorem C09_get : forall I c, good_inp I -> good_cur I c ->
  exists rs, valid_str rs /\ i_get I c = MOk (encode rs).
Proof. exact get_good. Qed.
Print Assumptions C09_get.

Theorem C09_match_string : forall I t c, good_inp I -> good_cur I c -> valid_utf8 t ->
  exists o, i_match_string I t c = MOk o /\ forall c', o = Some c' -> c <= c' /\ good_cur I c'.
Proof. exact match_string_good. Qed.
Print Assumptions C09_match_string.

Theorem C09_match_insens : forall I t c, good_inp I -> good_cur I c ->
  exists o, i_match_insens I t c = MOk o /\ forall c', o = Some c' -> c <= c' /\ good_cur I c'.
Proof. exact match_insens_good. Qed.
Print Assumptions C09_match_insens.

Theorem C09_skip : forall I n c, good_inp I -> good_cur I c ->
  exists o, i_skip I n c = MOk o /\ forall c', o = Some c' -> c <= c' /\ good_cur I c'.
Proof. exact skip_good. Qed.
Print Assumptions C09_skip.

(* match_char_by / match_range / next: advance by the decoded character, whose text can be re-taken *)
Theorem C09_match_char : forall I f c, good_inp I -> good_cur I c ->
  exists o, i_match_char I f c = MOk o /\
    forall c' ch, o = Some (c', ch) ->
      c < c' /\ c' = c + len_utf8 ch /\ good_cur I c' /\ valid_char ch = true /\
      i_span I c c' = MOk (c, c') /\ span_str I (c, c') = MOk (enc ch).
Proof. exact match_char_good. Qed.
Print Assumptions C09_match_char.

(* skip_until, repaired code (cut = true) *)
Theorem C09_skip_until : forall I ss c, good_inp I -> good_cur I c ->
  c <= snd (i_skip_until I true ss c) /\ good_cur I (snd (i_skip_until I true ss c)).
Proof. exact skip_until_good. Qed.
Print Assumptions C09_skip_until.

(* start.span(end) and span.as_str() *)
Theorem C09_span : forall I x y, good_inp I -> good_cur I x -> good_cur I y -> x <= y ->
  i_span I x y = MOk (x, y) /\ exists ms, valid_str ms /\ span_str I (x, y) = MOk (encode ms).
Proof. exact span_good. Qed.
Print Assumptions C09_span.

(* ---- C09_boundaries: the parse path ---- *)

Theorem C09_boundaries : forall E, env_ok E -> forall fuel inh e pos st gs,
  lits_ok e -> good_cur (e_inp E) pos -> good_state (e_inp E) st -> SInv (stk st) gs ->
  match tparse E fuel inh e pos st with
  | Ok (pos', t) st' =>
      pos <= pos' /\ good_cur (e_inp E) pos' /\ good_node (e_inp E) t /\
      good_state (e_inp E) st' /\ SInv (stk st') gs
  | Fail st' => good_state (e_inp E) st' /\ SInv (stk st') gs
  | Panic => False
  | Fuel => True
  end.
Proof. exact c09_tparse. Qed.
Print Assumptions C09_boundaries.

(* ---- the check path ---- *)

Theorem C09_boundaries_check : forall E, env_ok E -> forall fuel inh e pos st gs,
  lits_ok e -> good_cur (e_inp E) pos -> good_state (e_inp E) st -> SInv (stk st) gs ->
  match tcheck E fuel inh e pos st with
  | Ok pos' st' => pos <= pos' /\ good_cur (e_inp E) pos' /\ good_state (e_inp E) st' /\ SInv (stk st') gs
  | Fail st' => good_state (e_inp E) st' /\ SInv (stk st') gs
  | Panic => False
  | Fuel => True
  end.
Proof. exact c09_tcheck. Qed.
Print Assumptions C09_boundaries_check.

(* ---- the four entry points ---- *)

Theorem C09_entry_points : forall E fuel r, env_ok E ->
  match try_parse_partial E fuel r with
  | Ok (pos', t) st' =>
      i_start (e_inp E) <= pos' /\ good_cur (e_inp E) pos' /\ good_node (e_inp E) t /\ good_state (e_inp E) st'
  | Fail st' => good_state (e_inp E) st'
  | Panic => False
  | Fuel => True
  end /\
  match try_check_partial E fuel r with
  | Ok pos' st' => i_start (e_inp E) <= pos' /\ good_cur (e_inp E) pos' /\ good_state (e_inp E) st'
  | Fail st' => good_state (e_inp E) st'
  | Panic => False
  | Fuel => True
  end /\
  match try_parse E fuel r with
  | Ok t st' => good_node (e_inp E) t /\ good_state (e_inp E) st'
  | Fail st' => good_state (e_inp E) st'
  | Panic => False
  | Fuel => True
  end /\
  match try_check E fuel r with
  | Ok _ st' => good_state (e_inp E) st'
  | Fail st' => good_state (e_inp E) st'
  | Panic => False
  | Fuel => True
  end.
Proof. exact c09_entry_points. Qed.
Print Assumptions C09_entry_points.

(* ---- the error location: the tracker's position after replaying the trace of any entry point ---- *)

Theorem C09_tracker_position : forall E, env_ok E -> forall st,
  good_state (e_inp E) st ->
  good_cur (e_inp E) (t_position (run_tracker (i_start (e_inp E)) (tr st))).
Proof. exact error_location_good. Qed.
Print Assumptions C09_tracker_position.

Theorem C09_error_location : forall E fuel r, env_ok E ->
  forall st,
    (final_state (try_parse_partial E fuel r) = Some st \/ final_state (try_check_partial E fuel r) = Some st \/
     final_state (try_parse E fuel r) = Some st \/ final_state (try_check E fuel r) = Some st) ->
    good_cur (e_inp E) (t_position (run_tracker (i_start (e_inp E)) (tr st))).
Proof. exact entry_error_location. Qed.
Print Assumptions C09_error_location.

(* ---- span text can always be taken ---- *)

Theorem C09_span_text : forall I t, good_inp I -> good_node I t ->
  forall sp, In sp (node_spans t) -> exists txt, span_str I sp = MOk txt /\ valid_utf8 txt.
Proof. exact good_node_span_text. Qed.
Print Assumptions C09_span_text.

(* a `&str` made of Unicode scalar values is a good input *)
Theorem C09_str_input : forall cs, valid_str cs -> good_inp (inp_of_str (encode cs)).
Proof. exact good_inp_str. Qed.
Print Assumptions C09_str_input.
