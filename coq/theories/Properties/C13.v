(* C13 -- Span operations agree with pest's Span for every span.
   Statements only; every proof is `exact` of a lemma proved in Proofs/SpanProofs.v.

   The model (Model/SpanOps.v) transcribes main/src/span.rs; a span over the string s is the pair
   (start, end).  `valid_span s a b` is the declarative notion: a <= b <= |s| and both offsets are
   character boundaries.  For s = encode cs these are exactly the pairs (boff cs i, boff cs j), i <= j. *)
From Coq Require Import List NArith Arith Bool.
From PT Require Import Model.Base Model.Lines Model.LinesSpec Model.SpanOps Proofs.SpanProofs Gen.SpanGen Proofs.SpanGenProofs Proofs.SpanAlgebra.
Import ListNotations.

(* Span::new: Some exactly for in-range, ordered, on-boundary pairs (every byte string s) *)
Theorem C13_new : forall (s : list byte) (a b : nat),
  span_new s a b = if valid_span s a b then Some (a, b) else None.
Proof. exact span_new_spec. Qed.
Print Assumptions C13_new.

Theorem C13_valid_spans : forall (cs : list char) (a b : nat), valid_str cs ->
  (valid_span (encode cs) a b = true <->
   exists i j, i <= j <= length cs /\ a = boff cs i /\ b = boff cs j).
Proof. exact valid_span_chars. Qed.
Print Assumptions C13_valid_spans.

(* Span::get, every range form (lo, hi in {Included n, Excluded n, Unbounded}, n < usize::MAX so that
   `n + 1` does not overflow): Span::new on the bounds shifted by the span's start, provided the range
   ends inside the span; no panic *)
Theorem C13_get : forall (s : list byte) (a b : nat) (lo hi : bound),
  valid_span s a b = true -> bound_ok lo -> bound_ok hi ->
  span_get s (a, b) lo hi =
  MOk (if (hi_of hi (b - a) <=? N.of_nat (b - a))%N
       then span_new s (a + N.to_nat (lo_of lo)) (a + N.to_nat (hi_of hi (b - a)))
       else None).
Proof. exact span_get_correct. Qed.
Print Assumptions C13_get.

(* split (= start_pos, end_pos) and as_str of a valid span do not panic and are the projections *)
Theorem C13_split : forall (s : list byte) (a b : nat),
  valid_span s a b = true -> span_split s (a, b) = MOk (a, b).
Proof. exact span_split_correct. Qed.
Print Assumptions C13_split.

Theorem C13_as_str : forall (cs : list char) (i j : nat), valid_str cs -> i <= j ->
  span_as_str (encode cs) (boff cs i, boff cs j) = MOk (encode (firstn (j - i) (skipn i cs))).
Proof. exact as_str_chars. Qed.
Print Assumptions C13_as_str.

(* lines_span: exactly the lines [ls, le) of the text with  le > start  and  ls <= end  (every line
   the span touches -- including, as in pest, the line that begins exactly at `end`), each once, in
   order; `length s` calls of next() suffice, no intermediate Span::new fails *)
Theorem C13_lines_span : forall (cs : list char) (i j : nat), valid_str cs -> i <= j ->
  lines_span (encode cs) (boff cs i, boff cs j) =
  LOk (filter (touches (boff cs i) (boff cs j)) (line_spans cs)).
Proof. exact lines_span_correct. Qed.
Print Assumptions C13_lines_span.

(* lines: the texts of those same line spans *)
Theorem C13_lines : forall (cs : list char) (i j : nat), valid_str cs -> i <= j ->
  lines (encode cs) (boff cs i, boff cs j) =
  LOk (map (slice_of (encode cs)) (lines_span_spec cs (boff cs i) (boff cs j))).
Proof. exact lines_correct. Qed.
Print Assumptions C13_lines.

(* merge_spans: Some exactly when a.end >= b.start and a.start <= b.end (overlapping or adjacent),
   and then the hull; symmetric *)
Theorem C13_merge : forall (s : list byte) (a1 a2 b1 b2 : nat),
  valid_span s a1 a2 = true -> valid_span s b1 b2 = true ->
  SpanOps.merge_spans s (a1, a2) (b1, b2) =
  if (b1 <=? a2) && (a1 <=? b2) then Some (Nat.min a1 b1, Nat.max a2 b2) else None.
Proof. exact merge_spans_correct. Qed.
Print Assumptions C13_merge.

(* the same over the definition REGENERATED from main/src/span.rs on every run (tie T1, tools/rs2v.py -> Gen/SpanGen.v):
   an edit of the condition or of the hull in the Rust source changes this definition and breaks the proof *)
Theorem C13_merge_generated : forall (s : list byte) (a1 a2 b1 b2 : nat),
  valid_span s a1 a2 = true -> valid_span s b1 b2 = true ->
  SpanGen.merge_spans (of_span s (a1, a2)) (of_span s (b1, b2)) =
  if (b1 <=? a2) && (a1 <=? b2) then Some (of_span s (Nat.min a1 b1, Nat.max a2 b2)) else None.
Proof. exact merge_gen_correct. Qed.
Print Assumptions C13_merge_generated.

Theorem C13_merge_sym : forall a b : span, merge_spec a b = merge_spec b a.
Proof. exact merge_spec_sym. Qed.
Print Assumptions C13_merge_sym.

(* == is identity of (input, start, end) *)
Theorem C13_eq : forall (same : bool) (a b : span), span_eq same a b = true <-> same = true /\ a = b.
Proof. exact span_eq_spec. Qed.
Print Assumptions C13_eq.

(* ---- algebra of the operations (Proofs/SpanAlgebra.v): what a user composing them relies on, as with pest's Span ---- *)

(* a successful get lies inside the span, is a valid span, and its text is that slice of the span's text *)
Theorem C13_get_sub_text : forall (s : list byte) (a b : nat) (lo hi : bound) (a' b' : nat) (t : list byte),
  valid_span s a b = true -> bound_ok lo -> bound_ok hi ->
  span_get s (a, b) lo hi = MOk (Some (a', b')) ->
  span_as_str s (a, b) = MOk t ->
  a <= a' /\ a' <= b' /\ b' <= b /\ valid_span s a' b' = true /\
  span_as_str s (a', b') = MOk (firstn (b' - a') (skipn (a' - a) t)).
Proof. exact get_sub_text. Qed.
Print Assumptions C13_get_sub_text.

(* get of a get is the get with added offsets *)
Theorem C13_get_compose : forall (s : list byte) (a b : nat) (x y u v : N) (sp1 sp2 : span),
  valid_span s a b = true ->
  (y < usize_max)%N -> (u <= v)%N -> (v < usize_max)%N -> (x + v < usize_max)%N ->
  span_get s (a, b) (BIncl x) (BExcl y) = MOk (Some sp1) ->
  span_get s sp1 (BIncl u) (BExcl v) = MOk (Some sp2) ->
  span_get s (a, b) (BIncl (x + u)) (BExcl (x + v)) = MOk (Some sp2).
Proof. exact get_compose. Qed.
Print Assumptions C13_get_compose.

(* merging adjacent spans gives the span whose text is the concatenation of the two texts *)
Theorem C13_merge_adjacent_text : forall (s : list byte) (a m b : nat) (ta tb : list byte),
  valid_span s a m = true -> valid_span s m b = true ->
  span_as_str s (a, m) = MOk ta -> span_as_str s (m, b) = MOk tb ->
  SpanOps.merge_spans s (a, m) (m, b) = Some (a, b) /\ span_as_str s (a, b) = MOk (ta ++ tb).
Proof. exact merge_adjacent_text. Qed.
Print Assumptions C13_merge_adjacent_text.

Theorem C13_merge_idem : forall (s : list byte) (a b : nat),
  valid_span s a b = true -> SpanOps.merge_spans s (a, b) (a, b) = Some (a, b).
Proof. exact merge_idem. Qed.
Print Assumptions C13_merge_idem.

(* a successful merge is a valid span, contains both arguments, and is the least such pair *)
Theorem C13_merge_is_hull : forall (s : list byte) (a1 a2 b1 b2 m1 m2 : nat),
  valid_span s a1 a2 = true -> valid_span s b1 b2 = true ->
  SpanOps.merge_spans s (a1, a2) (b1, b2) = Some (m1, m2) ->
  valid_span s m1 m2 = true /\ m1 <= a1 /\ m1 <= b1 /\ a2 <= m2 /\ b2 <= m2 /\
  (forall c1 c2, c1 <= a1 -> c1 <= b1 -> a2 <= c2 -> b2 <= c2 -> c1 <= m1 /\ m2 <= c2).
Proof. exact merge_is_hull. Qed.
Print Assumptions C13_merge_is_hull.
