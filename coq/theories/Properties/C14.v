(* C14 -- displaying any Span or Position never panics and marks the right text.
   Statements only; every proof is `exact` of a lemma proved in Proofs/FormatProofs.v (FormatLinesProofs.v).

   Model/Format.v is the formatter of main/src/formatter.rs path by path (flags fixA / fixC = the repaired
   code of proposed_fixes/C14-F4a.diff / C14-F4c.diff; false = the code as found); Model/FormatSpec.v says
   what has to be shown.  `w` is the display width of a STRING (unicode-width's `UnicodeWidthStr::width_cjk`), an arbitrary function: nothing is
   assumed about it, in particular not that it is the sum of the widths of the characters (it is not, for emoji sequences).
   A string is `encode cs`; a valid span / position is one `Span::new` / `Position::new` accepts. *)
From Coq Require Import List NArith.
From PT Require Import Model.Base Model.Format Model.FormatSpec Proofs.FormatLinesProofs Proofs.FormatProofs.

(* ---- never panics ---------------------------------------------------------------------------- *)

(* code as found: no panic (and no fuel exhaustion) for every valid span of every NON-EMPTY input *)
Theorem C14_total_partial : forall (w : list char -> nat) cs a b,
  valid_str cs -> encode cs <> nil -> fmt_valid_span (encode cs) a b = true ->
  exists ps, display_span w false (encode cs) a b = ROk ps.
Proof. exact total_span_as_found. Qed.
Print Assumptions C14_total_partial.

(* F4a: the code as found panics on a Span of the empty input *)
Theorem C14_refuted_empty :
  exists (w : list char -> nat) (s : list byte) (a b : nat),
    fmt_valid_span s a b = true /\ display_span w false s a b = RPanic.
Proof. exact display_span_empty_panics. Qed.
Print Assumptions C14_refuted_empty.

(* with the repair F4a: every valid span of every input *)
Theorem C14_total_repaired : forall (w : list char -> nat) cs a b,
  valid_str cs -> fmt_valid_span (encode cs) a b = true ->
  exists ps, display_span w true (encode cs) a b = ROk ps.
Proof. exact total_span_repaired. Qed.
Print Assumptions C14_total_repaired.

(* positions: as found and repaired, every input, every valid offset including end of input *)
Theorem C14_total_position : forall (w : list char -> nat) fixC cs p,
  valid_str cs -> fmt_valid_pos (encode cs) p = true ->
  exists ps, display_position w fixC (encode cs) p = ROk ps.
Proof. exact total_position. Qed.
Print Assumptions C14_total_position.

(* ---- shows and marks the right text ---------------------------------------------------------- *)

(* what the code prints for EVERY valid span (as found and repaired): the specified rendering, with the
   rows running from the line holding the byte before `start` to the line holding the byte before `end` *)
Theorem C14_rows_of_the_code : forall (w : list char -> nat) fixA cs a b,
  valid_str cs -> encode cs <> nil -> fmt_valid_span (encode cs) a b = true ->
  display_span w fixA (encode cs) a b
  = ROk (spec_span_at w (encode cs) a b (impl_line (encode cs) a) (impl_line (encode cs) b)).
Proof. exact span_lines_of_the_code. Qed.
Print Assumptions C14_rows_of_the_code.

(* rows, 1-based numbers, visualized texts, span parts and marker columns are the demanded ones for every
   valid span that does not start exactly at the start of a line other than the first *)
Theorem C14_rows_partial : forall (w : list char -> nat) fixA cs a b,
  valid_str cs -> encode cs <> nil -> fmt_valid_span (encode cs) a b = true ->
  starts_at_line_start (encode cs) a = false ->
  display_span w fixA (encode cs) a b = ROk (spec_span w (encode cs) a b).
Proof. exact rows_span_partial. Qed.
Print Assumptions C14_rows_partial.

(* F4b: a span starting exactly at a line start (not the first line) is rendered from the line before *)
Theorem C14_refuted_linestart :
  exists (w : list char -> nat) (s : list byte) (a b : nat),
    fmt_valid_span s a b = true /\ starts_at_line_start s a = true /\
    display_span w false s a b <> ROk (spec_span w s a b).
Proof. exact display_span_linestart_deviates. Qed.
Print Assumptions C14_refuted_linestart.

(* ... and so is every member of that class: the first row is the line before the demanded one *)
Theorem C14_linestart_off_by_one : forall cs a,
  valid_str cs -> a <= length (encode cs) -> starts_at_line_start (encode cs) a = true ->
  cursor_line (encode cs) a = S (impl_line (encode cs) a).
Proof. exact linestart_off_by_one. Qed.
Print Assumptions C14_linestart_off_by_one.

(* positions: the demanded row and marker column for every offset inside the input (code as found), and
   also at end of input with the repair F4c *)
Theorem C14_rows_position_partial : forall (w : list char -> nat) fixC cs p,
  valid_str cs -> fmt_valid_pos (encode cs) p = true ->
  p < length (encode cs) \/ fixC = true ->
  display_position w fixC (encode cs) p = ROk (spec_pos w (encode cs) p).
Proof. exact rows_position_partial. Qed.
Print Assumptions C14_rows_position_partial.

(* F4c: the code as found prints nothing for a Position at end of input ... *)
Theorem C14_position_eof_as_found : forall (w : list char -> nat) cs,
  valid_str cs -> display_position w false (encode cs) (length (encode cs)) = ROk nil.
Proof. exact position_eof_as_found. Qed.
Print Assumptions C14_position_eof_as_found.

(* ... although the statement asks for the last line *)
Theorem C14_refuted_pos_eof :
  exists (w : list char -> nat) (s : list byte) (p : nat),
    fmt_valid_pos s p = true /\ p = length s /\
    display_position w false s p = ROk nil /\ spec_pos w s p <> nil.
Proof. exact display_position_eof_deviates. Qed.
Print Assumptions C14_refuted_pos_eof.

(* ---- ingredients ----------------------------------------------------------------------------- *)

(* the line iterator of the code yields exactly the pieces cut after every LF, for every UTF-8 string *)
Theorem C14_lines : forall cs, valid_str cs -> lines_full (encode cs) = ROk (split_incl (encode cs)).
Proof. exact lines_full_encode. Qed.
Print Assumptions C14_lines.

(* the 33-entry match is: U+0000..U+001F -> U+2400+c, U+007F -> U+2421, everything else (U+0020 too) unchanged *)
Theorem C14_pictures : forall c, pic c = pic_spec c.
Proof. exact pic_is_pic_spec. Qed.
Print Assumptions C14_pictures.

(* the number printed for n is its decimal representation, as wide as ceil_log10 says *)
Theorem C14_numbers : forall n,
  exists t, digits n = ROk t /\ digits_value t = n /\ (forall d, ceil_log10 n = ROk d -> length t = d).
Proof. exact digits_ok. Qed.
Print Assumptions C14_numbers.
