(* C14 -- displaying any Span or Position never panics and marks the right text.
   Statements only; every proof is `exact` of a lemma proved in Proofs/FormatProofs.v. *)
From Coq Require Import List NArith.
From PT Require Import Model.Base Model.Format Model.FormatSpec Proofs.FormatProofs.

(* F4a: the code as found panics on a Span of the empty input *)
Theorem C14_refuted_empty :
  exists (w : char -> nat) (s : list byte) (a b : nat),
    fmt_valid_span s a b = true /\ display_span w false s a b = RPanic.
Proof. exact display_span_empty_panics. Qed.
Print Assumptions C14_refuted_empty.

(* F4b: a span starting exactly at a line start (not the first line) is rendered from the line before *)
Theorem C14_refuted_linestart :
  exists (w : char -> nat) (s : list byte) (a b : nat),
    fmt_valid_span s a b = true /\ starts_at_line_start s a = true /\
    display_span w false s a b <> ROk (spec_span w s a b).
Proof. exact display_span_linestart_deviates. Qed.
Print Assumptions C14_refuted_linestart.

(* F4c: the code as found renders nothing for a Position at end of input *)
Theorem C14_refuted_pos_eof :
  exists (w : char -> nat) (s : list byte) (p : nat),
    fmt_valid_pos s p = true /\ p = length s /\
    display_position w false s p = ROk nil /\ spec_pos w s p <> nil.
Proof. exact display_position_eof_deviates. Qed.
Print Assumptions C14_refuted_pos_eof.
