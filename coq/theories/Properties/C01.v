(* C01 -- the typed parser recognises exactly what pest recognises, consuming the same prefix. Statements only.
   SPEC = Model/PegSpec.v (validated against the real pest parser on every explored case);
   typed parser = Sem.v on the generator model's output (Model/Translate.v, Model/GenEnv.v). *)
From Coq Require Import List NArith.
From PT Require Import Model.Base Model.Stack Model.Texpr Model.Sem Model.Aparse Model.Ast Model.Translate Model.PegSpec Model.GenEnv.
From PT Require Import Proofs.GenWitness.
Import ListNotations.

(* known finding (class WsNonAtomic, F2): the unrestricted statement is false of the faithful model *)
Theorem C01_refuted_ws :
  (match tparse (env_of 0 wg (inp_of_str w_input) no_pred) 30 true (TRule 1 SkOn) 0 st0 with
   | Ok (p, _) _ => p = 4 | _ => False end) /\
  peg_entry (penv_of 0 wg (inp_of_str w_input) no_pred) 30 1 = PFail /\
  ws_ok wg = false.
Proof. exact ws_not_forced_atomic. Qed.
Print Assumptions C01_refuted_ws.
