(* C01 -- the typed parser recognises exactly what pest recognises, consuming the same prefix. Statements only.
   SPEC = Model/PegSpec.v (validated against the real pest parser on every explored case: verdict, offset, Pairs);
   typed parser = Sem.v (the runtime, tied by T2) on the generator model's output (Model/Translate.v, tied by V1). *)
From Coq Require Import List NArith.
From PT Require Import Model.Base Model.Stack Model.Texpr Model.Sem Model.Aparse Model.Ast Model.Translate Model.PegSpec Model.GenEnv.
From PT Require Import Proofs.GenWitness Proofs.PegSimBase Proofs.PegSimFwd Proofs.RefineCor Proofs.PegMain.
From PT Require Import Proofs.BoundaryOps Proofs.Boundary Proofs.RefinePanic Proofs.PegMain2 Model.Wf Proofs.PegSimRev Proofs.PegMain3.
Import ListNotations.

(* Main theorem.  For every grammar [g] (pest_meta's optimized AST) whose WHITESPACE / COMMENT cannot tell the
   inherited atomicity ([ws_ok], the complement of the known finding F2), every rule [r] that may be referred to
   ([callable]: not the EOI index; WHITESPACE / COMMENT only when atomicity-insensitive), every input [I],
   every Unicode predicate table, and every pair of fuels on which the PEG spec and the reference run end:
   the typed prefix parse [try_parse_partial] (the REAL parse path of Sem.v, with pest::Stack modelled bug for
   bug) succeeds exactly when the spec does, stops at the same offset and leaves the same stack contents; it
   fails when the spec fails; and the spec never panics.  ([aparse <> APanic]: the run trips no debug assertion --
   for valid UTF-8 inputs that is C09.) *)
Theorem C01_typed_is_peg : forall g eoi I pred,
  ws_ok g = true -> eoi_fresh eoi g = true ->
  forall r, callable eoi g r = true -> forall n m,
  peg_entry (penv_of eoi g I pred) n r <> PFuel ->
  aparse (env_of eoi g I pred) m true (TRule r SkOn) (i_start I) [] <> AFuel ->
  aparse (env_of eoi g I pred) m true (TRule r SkOn) (i_start I) [] <> APanic ->
  match peg_entry (penv_of eoi g I pred) n r with
  | POk pos stk _ => exists t st', try_parse_partial (env_of eoi g I pred) m r = Ok (pos, t) st' /\ cache (Sem.stk st') = stk
  | PFail => exists st', try_parse_partial (env_of eoi g I pred) m r = Fail st'
  | PPanic => False
  | PFuel => False
  end.
Proof. exact typed_is_peg. Qed.
Print Assumptions C01_typed_is_peg.

Theorem C01_accepts_iff : forall g eoi I pred,
  ws_ok g = true -> eoi_fresh eoi g = true ->
  forall r, callable eoi g r = true -> forall n m,
  peg_entry (penv_of eoi g I pred) n r <> PFuel ->
  aparse (env_of eoi g I pred) m true (TRule r SkOn) (i_start I) [] <> AFuel ->
  aparse (env_of eoi g I pred) m true (TRule r SkOn) (i_start I) [] <> APanic ->
  forall pos,
  (exists t st', try_parse_partial (env_of eoi g I pred) m r = Ok (pos, t) st') <->
  (exists stk toks, peg_entry (penv_of eoi g I pred) n r = POk pos stk toks).
Proof. exact typed_accepts_iff_peg. Qed.
Print Assumptions C01_accepts_iff.

(* The same with every premise about a run stated on the REAL parse path, for what a Rust caller can build: a valid
   UTF-8 input with its bounds on character boundaries ([good_inp]) and a grammar whose string literals are valid UTF-8
   ([glits_ok]).  No panic premise is left: under these hypotheses neither run panics (C09). *)
Theorem C01_typed_is_peg_wf : forall g eoi I pred,
  ws_ok g = true -> eoi_fresh eoi g = true -> good_inp I -> glits_ok g ->
  forall r, callable eoi g r = true -> forall n m,
  peg_entry (penv_of eoi g I pred) n r <> PFuel ->
  try_parse_partial (env_of eoi g I pred) m r <> Fuel ->
  match peg_entry (penv_of eoi g I pred) n r with
  | POk pos stk _ => exists t st', try_parse_partial (env_of eoi g I pred) m r = Ok (pos, t) st' /\ cache (Sem.stk st') = stk
  | PFail => exists st', try_parse_partial (env_of eoi g I pred) m r = Fail st'
  | PPanic => False
  | PFuel => False
  end.
Proof. exact typed_is_peg_wf. Qed.
Print Assumptions C01_typed_is_peg_wf.

Theorem C01_accepts_iff_wf : forall g eoi I pred,
  ws_ok g = true -> eoi_fresh eoi g = true -> good_inp I -> glits_ok g ->
  forall r, callable eoi g r = true -> forall n m,
  peg_entry (penv_of eoi g I pred) n r <> PFuel ->
  try_parse_partial (env_of eoi g I pred) m r <> Fuel ->
  forall pos,
  (exists t st', try_parse_partial (env_of eoi g I pred) m r = Ok (pos, t) st') <->
  (exists stk toks, peg_entry (penv_of eoi g I pred) n r = POk pos stk toks).
Proof. exact typed_accepts_iff_peg_wf. Qed.
Print Assumptions C01_accepts_iff_wf.

Theorem C01_example_wf :
  ws_ok ex_g = true /\ eoi_fresh 0 ex_g = true /\ good_inp (inp_of_str ex_in1) /\ glits_ok ex_g /\
  callable 0 ex_g 1 = true /\
  peg_entry (penv_of 0 ex_g (inp_of_str ex_in1) (fun _ _ => false)) 40 1 <> PFuel /\
  try_parse_partial (env_of 0 ex_g (inp_of_str ex_in1) (fun _ _ => false)) 40 1 <> Fuel.
Proof. exact typed_is_peg_wf_example. Qed.
Print Assumptions C01_example_wf.

(* TOTAL form: no premise about either run.  For a well-founded grammar -- one accepted by the verified certificate checker
   [wf_cert] of C11 (Model/Wf.v) -- both runs end, and on all large enough fuels the real prefix parse agrees with pest's PEG
   semantics: same verdict, same offset, same stack; neither panics ([agrees_with_peg] excludes PFuel and PPanic).
   Ingredients: C11 (the typed run ends within [fuel_bound]), the BACKWARD simulation (PegSimRev.v: the spec run ends whenever the
   typed run does, under the same side conditions), and C01_typed_is_peg_wf. *)
Theorem C01_total : forall g eoi I pred rules c,
  ws_ok g = true -> eoi_fresh eoi g = true -> good_inp I -> glits_ok g ->
  wf_cert rules (e_rules (env_of eoi g I pred)) (e_skip (env_of eoi g I pred)) c = true ->
  forall r, callable eoi g r = true -> In r rules ->
  exists n m, forall n' m', n <= n' -> m <= m' ->
    match peg_entry (penv_of eoi g I pred) n' r with
    | POk pos stk _ => exists t st', try_parse_partial (env_of eoi g I pred) m' r = Ok (pos, t) st' /\ cache (Sem.stk st') = stk
    | PFail => exists st', try_parse_partial (env_of eoi g I pred) m' r = Fail st'
    | PPanic => False
    | PFuel => False
    end.
Proof. exact typed_is_peg_total. Qed.
Print Assumptions C01_total.

(* the spec run ends whenever the typed run does (every grammar with ws_ok, valid UTF-8) *)
Theorem C01_spec_ends_if_typed_ends : forall g eoi I pred,
  ws_ok g = true -> eoi_fresh eoi g = true -> good_inp I -> glits_ok g ->
  forall r, callable eoi g r = true -> forall m,
  try_parse_partial (env_of eoi g I pred) m r <> Fuel ->
  exists n, forall n', n <= n' ->
    peg_entry (penv_of eoi g I pred) n' r <> PFuel /\ peg_entry (penv_of eoi g I pred) n' r <> PPanic.
Proof. exact peg_ends_if_typed_ends. Qed.
Print Assumptions C01_spec_ends_if_typed_ends.

Theorem C01_total_example :
  let E := env_of 0 ex_g (inp_of_str ex_in1) (fun _ _ => false) in
  ws_ok ex_g = true /\ eoi_fresh 0 ex_g = true /\ good_inp (inp_of_str ex_in1) /\ glits_ok ex_g /\
  wf_cert [1; 2; 3]%N (e_rules E) (e_skip E) (infer_cert [1; 2; 3]%N (e_rules E) (e_skip E)) = true /\
  callable 0 ex_g 1 = true /\ In 1%N [1; 2; 3]%N.
Proof. exact typed_is_peg_total_example. Qed.
Print Assumptions C01_total_example.

(* the forward simulation for every expression in every context (what the main theorem is an instance of) *)
Theorem C01_simulation : forall g eoi I pred,
  ws_ok g = true -> eoi_fresh eoi g = true -> forall n,
  forall at_ la e pos stk k inh,
  ctx e k inh at_ -> refs_ok eoi g e = true ->
  exists m, forall m', m <= m' ->
    fsim (peg (penv_of eoi g I pred) n at_ la e pos stk) (aparse (env_of eoi g I pred) m' inh (tr eoi k e) pos stk).
Proof. exact (fun g eoi I pred Hws Heoi n => proj1 (peg_fwd g eoi I pred Hws Heoi n)). Qed.
Print Assumptions C01_simulation.

(* the premises are satisfiable, on an accepted and on a rejected input *)
Theorem C01_example :
  ws_ok ex_g = true /\ eoi_fresh 0 ex_g = true /\ callable 0 ex_g 1 = true /\
  (exists stk toks, peg_entry (penv_of 0 ex_g (inp_of_str ex_in1) (fun _ _ => false)) 40 1 = POk 7 stk toks) /\
  is_aok (aparse (env_of 0 ex_g (inp_of_str ex_in1) (fun _ _ => false)) 40 true (TRule 1 SkOn) 0 []) = true /\
  peg_entry (penv_of 0 ex_g (inp_of_str ex_in2) (fun _ _ => false)) 40 1 = PFail /\
  aparse (env_of 0 ex_g (inp_of_str ex_in2) (fun _ _ => false)) 40 true (TRule 1 SkOn) 0 [] = AFail.
Proof. exact typed_is_peg_example. Qed.
Print Assumptions C01_example.

(* known finding (class WsNonAtomic, F2): without [ws_ok] the statement is false of the faithful model *)
Theorem C01_refuted_ws :
  (match tparse (env_of 0 wg (inp_of_str w_input) no_pred) 30 true (TRule 1 SkOn) 0 st0 with
   | Ok (p, _) _ => p = 4 | _ => False end) /\
  peg_entry (penv_of 0 wg (inp_of_str w_input) no_pred) 30 1 = PFail /\
  ws_ok wg = false.
Proof. exact ws_not_forced_atomic. Qed.
Print Assumptions C01_refuted_ws.
