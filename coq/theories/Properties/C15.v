(* C15 -- traversal helpers enumerate exactly the tokens of the pair tree.
   Statements only; every proof is `exact` of a lemma proved in Proofs/TraverseProofs.v.
   Model: Model/Traverse.v (loops of main/src/iterators.rs transcribed on explicit fuel; `None` = out of
   fuel).  `fuel_for t = 2 * size t + 2`.  The list returned by a loop is the sequence of calls of the
   callback `f` (token, usize).  All statements hold for EVERY token tree `t` (no well-formedness
   assumption on spans or rules). *)
From Coq Require Import List NArith Arith Permutation.
From Coq Require Import Sorted.
From PT Require Import Model.Base Model.Stack Model.Texpr Model.Sem Model.Tok Model.Tokens Model.Traverse Proofs.TraverseProofs Proofs.TokenNesting.
Import ListNotations.

(* iterate_pre_order: with fuel >= 2*size+2 the stack-of-queues loop terminates and calls f exactly on
   preorder t 0 = (t,0) :: flat_map (fun c => preorder c 1) children ... (depth-first, with depth);
   one unit less is not enough (the step count is exact); every token of the tree is visited exactly
   once (the visited tokens ARE the list all_tokens t, whose length is size t). *)
Theorem C15_preorder : forall t fuel,
  fuel_for t <= fuel ->
  pre_order fuel t = Some (preorder t 0)
  /\ pre_order (fuel_for t - 1) t = None
  /\ map fst (preorder t 0) = all_tokens t
  /\ length (preorder t 0) = size t.
Proof. exact c15_preorder. Qed.
Print Assumptions C15_preorder.

(* iterate_level_order: the two-queue loop terminates and calls f on level 0, then level 1, ... each
   left to right, the second argument being the number of tokens still queued on that level
   (`queue.len()` after the pop); the visited tokens are a permutation of all_tokens t (each exactly
   once; no duplicates if the tree has none), and level k is exactly the sub-sequence of the pre-order
   at depth k. *)
Theorem C15_levelorder : forall t fuel,
  fuel_for t <= fuel ->
  level_order fuel t = Some (concat (map with_remaining (levels t)))
  /\ map fst (concat (map with_remaining (levels t))) = concat (levels t)
  /\ Permutation (concat (levels t)) (all_tokens t)
  /\ length (concat (levels t)) = size t
  /\ (NoDup (all_tokens t) -> NoDup (concat (levels t)))
  /\ (forall k, level_at k t = map fst (filter (fun p => snd p =? k) (preorder t 0))).
Proof. exact c15_levelorder. Qed.
Print Assumptions C15_levelorder.

(* format_as_tree: one line per pre-order entry: 4*depth spaces, the rule, and the span whose text is
   printed iff the token has no children (line_of). *)
Theorem C15_render : forall t fuel,
  fuel_for t <= fuel ->
  render fuel t = Some (map line_of (preorder t 0)).
Proof. exact c15_render. Qed.
Print Assumptions C15_render.

(* to_thin / as_thin_token keep rule, start, end and shape: the defining equation, losslessness
   (of_thin is a left inverse) and equality of the (rule, start, end, depth) pre-order sequences;
   as_token / children are the token itself / its direct children in order. *)
Theorem C15_thin : forall t,
  (forall r s e cs, to_thin (Tok r s e cs) = Thin r s e (map to_thin cs))
  /\ as_thin_token t = to_thin t
  /\ of_thin (to_thin t) = t
  /\ thin_preorder (to_thin t) 0 = map tok_quad (preorder t 0)
  /\ as_token t = t
  /\ children_of t = tok_children t.
Proof. exact c15_thin. Qed.
Print Assumptions C15_thin.

(* PLACEHOLDER (parser-driven half, owned by the parser model): Theorem C15_nesting -- for every token
   tree produced by the parser model, child spans are nested in their parent and siblings are ordered
   and disjoint.  To be added here as `Theorem C15_nesting : ... Proof. exact <lemma>. Qed.` followed by
   its Print Assumptions line. *)

(* ---- "All spans are nested in their parent and ordered among siblings" / "children() are the direct child tokens in input
   order" -- about the token tree of every parse result (Model/Tokens.v = what the Pair API exposes).
   [nested lo hi toks]: the tokens lie inside [lo, hi] in order (end_i <= start_(i+1)), each with start <= end, and recursively
   so for the children inside the token's own span.  Unconditional: every successful run of the real parse path, every
   expression, every environment (also the unrepaired variants), every input. *)
Theorem C15_nesting : forall E fuel inh e pos st p t st',
  tparse E fuel inh e pos st = Ok (p, t) st' -> nested pos p (tokens E t).
Proof. exact tokens_nested. Qed.
Print Assumptions C15_nesting.

Theorem C15_entry_nesting : forall E fuel r p t st',
  try_parse_partial E fuel r = Ok (p, t) st' -> nested (i_start (e_inp E)) p (tokens E t).
Proof. exact entry_tokens_nested. Qed.
Print Assumptions C15_entry_nesting.

(* a parsed non-silent rule is ONE token spanning exactly what it consumed, its children nested inside *)
Theorem C15_rule_token : forall E fuel inh r arg pos st p t st',
  r_emis (e_rules E r) <> EmExpr ->
  tparse E fuel inh (TRule r arg) pos st = Ok (p, t) st' ->
  exists cs, tokens E t = [Tok r pos p cs] /\ nested pos p cs /\
    (cs = [] \/ exists c sp, t = NRule r (Some c) sp /\ cs = tokens E c /\ has_children E r = true).
Proof. exact rule_token_children_nested. Qed.
Print Assumptions C15_rule_token.

(* siblings are in input order and disjoint; every token of the tree (pre-order enumeration of Model/Traverse.v) lies inside
   the parsed range, its children inside it and sorted *)
Theorem C15_siblings_ordered : forall E fuel inh e pos st p t st',
  tparse E fuel inh e pos st = Ok (p, t) st' ->
  Sorted tok_before (tokens E t) /\
  (forall i a b, nth_error (tokens E t) i = Some a -> nth_error (tokens E t) (S i) = Some b -> tok_end a <= tok_start b) /\
  (forall i j a b, i < j -> nth_error (tokens E t) i = Some a -> nth_error (tokens E t) j = Some b -> tok_end a <= tok_start b) /\
  Forall (fun a => pos <= tok_start a /\ tok_start a <= tok_end a /\ tok_end a <= p) (tokens E t).
Proof. exact tokens_sorted. Qed.
Print Assumptions C15_siblings_ordered.

Theorem C15_nested_everywhere : forall E fuel inh e pos st p t st',
  tparse E fuel inh e pos st = Ok (p, t) st' ->
  forall top d, In top (tokens E t) -> In d (all_tokens top) ->
    pos <= tok_start d /\ tok_start d <= tok_end d /\ tok_end d <= p /\
    Forall (fun c => tok_start d <= tok_start c /\ tok_start c <= tok_end c /\ tok_end c <= tok_end d) (tok_children d) /\
    StronglySorted tok_before (tok_children d).
Proof. exact tokens_nested_everywhere. Qed.
Print Assumptions C15_nested_everywhere.
