(* C16 -- generated getters (`emit_rule_reference`) return exactly the referenced sub-nodes that matched. Statements only.
   Model/Getter.v transcribes the getter forest of generator/src/graph.rs (Node / Edge / wrap / merge / flattenable /
   join / expand, attached while walking the optimized expression as optimized_rule.rs does): [getter e x] is the path the
   accessor `x()` of a rule with expression [e] follows through the rule's content, [eval_g] follows it through a typed
   tree, [gtype] is the Rust type it is emitted with.  V1g (vlib/getters.py) compares path and type with what the REAL
   generator emits for every rule x identifier of the corpus; the compiled accessors are run against the model (T2) and
   against the specification below (T3) by vlib/props/C16.py. *)
From Coq Require Import List NArith.
From PT Require Import Model.Base Model.Stack Model.Texpr Model.Sem Model.Ast Model.Translate Model.GenEnv Model.Getter Model.GetterSpec.
From PT Require Import Proofs.GetterProofs Proofs.GetterProofs2 Proofs.GetterProofs3.
Import ListNotations.

(* The specification [direct_refs x t]: the x rule nodes stored in the tree t itself, in storage (= mention = input) order,
   not descending into other rules' contents and not into negative predicates (which store nothing).
   For every expression e, every rule x other than the EOI index, every tree t of the shape of e's translation: flattening
   what the accessor returns gives exactly those nodes -- the very nodes of t, in that order. *)
Theorem C16_getters_direct : forall eoi k e r g t,
  r <> eoi ->
  has_shape (Translate.tr eoi k e) t -> getter e (IdRule r) = Some g ->
  flatten_gval (eval_g g t) = direct_refs r t.
Proof. exact getters_direct. Qed.
Print Assumptions C16_getters_direct.

(* the EOI accessor, for expressions that do not call a rule that happens to have the EOI index *)
Theorem C16_getters_direct_eoi : forall eoi k e g t,
  mentions eoi e = false ->
  has_shape (Translate.tr eoi k e) t -> getter e (IdBuiltin BEoi) = Some g ->
  flatten_gval (eval_g g t) = direct_refs eoi t.
Proof. exact getters_direct_eoi. Qed.
Print Assumptions C16_getters_direct_eoi.

(* every identifier (built-in aliases and Unicode properties store library nodes that do not carry their name, so the
   specification follows the expression): the nodes stored at the positions where e mentions x, in the order of the
   mentions, negative predicates excluded *)
Theorem C16_getters_mention : forall eoi k e x g t,
  has_shape (Translate.tr eoi k e) t -> getter e x = Some g ->
  flatten_gval (eval_g g t) = mention_refs x e t.
Proof. exact getters_ident. Qed.
Print Assumptions C16_getters_mention.

(* `Option<Option<_>>` is never emitted: a node is flattened exactly when its type is an Option *)
Theorem C16_flattenable : forall g, flattenable g = is_option (gtype g).
Proof. exact flattenable_char. Qed.
Print Assumptions C16_flattenable.

(* one accessor per name: repeated mentions are merged into one tuple-valued accessor *)
Theorem C16_one_getter_per_name : forall e, NoDup (names (getter_of e)).
Proof. exact nodup_getter_of. Qed.
Print Assumptions C16_one_getter_per_name.

(* ---- the same, about what the PARSER returns (no shape hypothesis) ---------------------------------------- *)

(* every tree the real parse path returns has the shape of the expression it was parsed with *)
Theorem C16_tparse_has_shape : forall E fuel inh e pos st p t st',
  tparse E fuel inh e pos st = Ok (p, t) st' -> has_shape e t.
Proof. exact tparse_has_shape. Qed.
Print Assumptions C16_tparse_has_shape.

(* Main statement.  For every grammar g, every rule r0 with definition d for which accessors are emitted (rule_getters:
   every kind but atomic), every successful prefix parse of r0 on any input: the result is a rule node WITH content c,
   and the emitted accessor r0.x() (call_getter) applied to it yields, after flattening Option / Vec / tuples, exactly the
   x nodes stored directly in c (direct_refs: not those inside other rules' contents, none from negative predicates),
   in storage = mention order. *)
Theorem C16_getters : forall eoi g I pred fuel r0 d x gn p t st',
  r0 <> eoi -> lookup_rule (g_rules g) r0 = Some d ->
  try_parse_partial (env_of eoi g I pred) fuel r0 = Ok (p, t) st' ->
  lookup (IdRule x) (rule_getters d) = Some gn -> x <> eoi ->
  exists c sp, t = NRule r0 (Some c) sp /\
               has_shape (Translate.tr eoi (skip_of_kind (o_kind d)) (o_expr d)) c /\
               flatten_gval (call_getter gn t) = direct_refs x c.
Proof. exact try_parse_partial_call_getter. Qed.
Print Assumptions C16_getters.

(* ... for every rule node the parser builds anywhere in a tree, not only at the entry point *)
Theorem C16_getters_nested : forall eoi g I pred fuel inh arg pos st r0 d x gn p c sp st',
  r0 <> eoi -> lookup_rule (g_rules g) r0 = Some d ->
  tparse (env_of eoi g I pred) fuel inh (TRule r0 arg) pos st = Ok (p, NRule r0 (Some c) sp) st' ->
  getter (o_expr d) (IdRule x) = Some gn -> x <> eoi ->
  flatten_gval (eval_g gn c) = direct_refs x c.
Proof. exact parsed_rule_getters_direct. Qed.
Print Assumptions C16_getters_nested.

(* "wrapped in Option / Vec / tuple according to where x is mentioned": the emitted type is the declarative reading
   [spec_type] of the expression (Option under ? and under an alternative, Vec under a repetition, a tuple for several
   mentions; a getter exists exactly for the identifiers mentioned outside negative predicates), never contains
   Option<Option<_>>, and the accessor's value on a parsed tree has exactly that type (in particular the path never
   leaves the stored structure: no rejected expression) *)
Theorem C16_type : forall e x, option_map gtype (getter e x) = spec_type x e.
Proof. exact getter_type_spec. Qed.
Print Assumptions C16_type.

Theorem C16_getter_exists_iff : forall e x, getter e x = None <-> spec_type x e = None.
Proof. exact getter_none_iff. Qed.
Print Assumptions C16_getter_exists_iff.

Theorem C16_value_typed : forall eoi g I pred fuel inh arg pos st r0 d x gn p c sp st',
  r0 <> eoi -> lookup_rule (g_rules g) r0 = Some d ->
  tparse (env_of eoi g I pred) fuel inh (TRule r0 arg) pos st = Ok (p, NRule r0 (Some c) sp) st' ->
  getter (o_expr d) x = Some gn ->
  val_of_type (ref_ok eoi (skip_of_kind (o_kind d))) (eval_g gn c) (gtype gn) /\
  spec_type x (o_expr d) = Some (gtype gn) /\ no_nested_option (gtype gn).
Proof. exact parsed_rule_getter_typed. Qed.
Print Assumptions C16_value_typed.

(* non-vacuity: r = { (a ~ b)? ~ (a | b ~ a)* ~ &b ~ PUSH(b)? ~ (b | a)? } on "abababb": the types, and the values the
   two accessors return on the parser's own result *)
Theorem C16_example_types :
  option_map gtype (getter Example.xe Example.ra) =
    Some (TyTuple [TyOption (TyRef Example.ra); TyVec (TyTuple [TyOption (TyRef Example.ra); TyOption (TyRef Example.ra)]); TyOption (TyRef Example.ra)]) /\
  spec_type Example.ra Example.xe = option_map gtype (getter Example.xe Example.ra) /\
  option_map gtype (getter Example.xe Example.rb) =
    Some (TyTuple [TyOption (TyRef Example.rb); TyVec (TyOption (TyRef Example.rb)); TyRef Example.rb; TyOption (TyRef Example.rb); TyOption (TyRef Example.rb)]) /\
  spec_type Example.rb Example.xe = option_map gtype (getter Example.xe Example.rb) /\
  getter Example.xe (IdRule 3) = None /\ spec_type (IdRule 3) Example.xe = None.
Proof. exact Example.getter_types. Qed.
Print Assumptions C16_example_types.

(* ---- which slot holds which node ------------------------------------------------------------------------
   [spec_val x e t] (Model/GetterSpec.v) is the declarative STRUCTURED value of the accessor, by recursion on the expression
   only (it uses nothing of the getter forest: no wrap / merge / join / flattenable): an identifier equal to x is the stored
   node; `e?` is None when the stored option is None, else the inner value in an Option (unless it already is one); `e*` is the
   Vec of the iterations' values; a sequence is the tuple of the values of the elements mentioning x, one slot per such element,
   in order; a choice has one Option slot per alternative mentioning x: None unless that alternative was taken.
   For every rule with accessors and every successful prefix parse, the emitted accessor returns exactly that value. *)
Theorem C16_value_spec : forall eoi g I pred fuel r0 d x gn p t st',
  r0 <> eoi -> lookup_rule (g_rules g) r0 = Some d ->
  try_parse_partial (env_of eoi g I pred) fuel r0 = Ok (p, t) st' ->
  lookup x (rule_getters d) = Some gn ->
  exists c sp, t = NRule r0 (Some c) sp /\
               has_shape (Translate.tr eoi (skip_of_kind (o_kind d)) (o_expr d)) c /\
               spec_val x (o_expr d) c = Some (call_getter gn t).
Proof. exact try_parse_partial_call_getter_value. Qed.
Print Assumptions C16_value_spec.

(* the structured specification refines the flat one *)
Theorem C16_spec_val_flatten : forall eoi k e x t v,
  has_shape (Translate.tr eoi k e) t -> spec_val x e t = Some v -> flatten_gval v = mention_refs x e t.
Proof. exact spec_val_flatten. Qed.
Print Assumptions C16_spec_val_flatten.

(* r = { "a" ~ x | "b" ~ x ~ y } on "ax": the accessor x() is (Some(x@1..2), None); the value with the slots swapped has
   the same type and the same flattening, and is NOT the specified one (a seeded change of the generator did exactly that) *)
Theorem C16_slot_example :
  match try_parse_partial (SlotExample.cenv [97; 120]%N) 40 0, getter SlotExample.ce SlotExample.rx, getter SlotExample.ce SlotExample.ry with
  | Ok (p, NRule 0 (Some c) _) _, Some gx, Some gy =>
      p = 2 /\
      spec_val SlotExample.rx SlotExample.ce c = Some (VTuple [VOpt (Some (VRef (SlotExample.nx 1 2))); VOpt None]) /\
      spec_val SlotExample.rx SlotExample.ce c <> Some (VTuple [VOpt None; VOpt (Some (VRef (SlotExample.nx 1 2)))]) /\
      flatten_gval (VTuple [VOpt None; VOpt (Some (VRef (SlotExample.nx 1 2)))]) = mention_refs SlotExample.rx SlotExample.ce c /\
      spec_val SlotExample.rx SlotExample.ce c = Some (eval_g gx c) /\
      spec_val SlotExample.ry SlotExample.ce c = Some (VOpt None) /\
      spec_val SlotExample.ry SlotExample.ce c = Some (eval_g gy c) /\
      spec_val (IdRule 3) SlotExample.ce c = None
  | _, _, _ => False
  end.
Proof. exact SlotExample.slot_ax. Qed.
Print Assumptions C16_slot_example.
