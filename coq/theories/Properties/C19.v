(* C19 -- counted repetition and the raw combinators obey their stated bounds.
   Statements only; proofs in Proofs/RepSpec.v (on the reference interpreter) and, through the
   refinement theorem of C05, on the real parse path. Parse/check agreement is C03. *)
From Coq Require Import List NArith.
From PT Require Import Model.Base Model.Stack Model.Texpr Model.Sem Model.Aparse.
From PT Require Import Proofs.StackInv Proofs.Refine Proofs.RepSpec.
Import ListNotations.

(* A bounded repetition, for every element expression, bounds, skip setting, input and stack:
   [units] = consecutive successful units from index 0 (unit 0 = the element, unit i>0 = skip-if-on then
   the element), each starting where the previous one stopped; [stopped] = the next unit fails or MAX is
   reached.  Success returns exactly those units: greedy, MIN <= count <= MAX, cursor and stack are those
   after the last matched unit (so a skip not followed by a matched iteration is not consumed).
   Failure happens only with fewer than MIN matched units. *)
Theorem C19_rep_bounds : forall E fuel inh k mn mx e pos stk,
  let b := resolve k inh in
  match aparse E (S fuel) inh (TRep k mn mx e) pos stk with
  | AOk (pos', t) stk' =>
      exists its, t = NRep (bounded mx) its /\
                  units E (aparse E fuel) fuel b inh e 0 pos stk its pos' stk' /\
                  mn <= length its /\
                  (forall m, mx = Some m -> length its <= m) /\
                  stopped E (aparse E fuel) fuel b inh e mx (length its) pos' stk'
  | AFail =>
      exists its pos' stk', units E (aparse E fuel) fuel b inh e 0 pos stk its pos' stk' /\
                  length its < mn /\
                  stopped E (aparse E fuel) fuel b inh e mx (length its) pos' stk'
  | _ => True
  end.
Proof. exact aparse_rep_bounds. Qed.
Print Assumptions C19_rep_bounds.

(* the same for the real parse path (repaired code), through C05 *)
Theorem C19_rep_bounds_impl : forall E, fixed E -> forall fuel inh k mn mx e pos st gs p t st',
  SInv (stk st) gs ->
  aparse E (S fuel) inh (TRep k mn mx e) pos (cache (stk st)) <> APanic ->
  tparse E (S fuel) inh (TRep k mn mx e) pos st = Ok (p, t) st' ->
  exists its, t = NRep (bounded mx) its /\ mn <= length its /\ (forall m, mx = Some m -> length its <= m) /\
    units E (aparse E fuel) fuel (resolve k inh) inh e 0 pos (cache (stk st)) its p (cache (stk st')) /\
    stopped E (aparse E fuel) fuel (resolve k inh) inh e mx (length its) p (cache (stk st')).
Proof. exact tparse_rep_bounds. Qed.
Print Assumptions C19_rep_bounds_impl.

Theorem C19_rep_fails_impl : forall E, fixed E -> forall fuel inh k mn mx e pos st gs st',
  SInv (stk st) gs ->
  aparse E (S fuel) inh (TRep k mn mx e) pos (cache (stk st)) <> APanic ->
  tparse E (S fuel) inh (TRep k mn mx e) pos st = Fail st' ->
  exists its p' s', units E (aparse E fuel) fuel (resolve k inh) inh e 0 pos (cache (stk st)) its p' s' /\
    length its < mn /\ stopped E (aparse E fuel) fuel (resolve k inh) inh e mx (length its) p' s'.
Proof. exact tparse_rep_fails. Qed.
Print Assumptions C19_rep_fails_impl.

(* fixed arrays: exactly n consecutive matches, nothing skipped in between; fail at the first miss *)
Theorem C19_array : forall E fuel inh n e pos stk,
  match aparse E (S fuel) inh (TArr n e) pos stk with
  | AOk (pos', t) stk' => exists ts, t = NArr ts /\ length ts = n /\ chain (aparse E fuel) inh e n pos stk ts pos' stk'
  | AFail => exists k ts pos' stk', k < n /\ chain (aparse E fuel) inh e k pos stk ts pos' stk' /\
                                    aparse E fuel inh e pos' stk' = AFail
  | _ => True
  end.
Proof. exact aparse_arr. Qed.
Print Assumptions C19_array.

(* the finding repaired by "fix: RepeatMinMax enforces MIN when the loop ends by reaching MAX" *)
Theorem C19_refuted_before_fix :
  match tparse (w19_env false) 10 true (TRep SkOff 1 (Some 0) (TStr [120%N])) 0 st0 with
  | Ok (_, NRep _ its) _ => length its = 0
  | _ => False
  end.
Proof. exact unrepaired_ignores_min. Qed.
Print Assumptions C19_refuted_before_fix.
