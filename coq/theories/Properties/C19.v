(* C19 -- counted repetition and the raw combinators obey their stated bounds.
   Statements only; proofs in Proofs/RepSpec.v (on the reference interpreter) and, through the
   refinement theorem of C05, on the real parse path. Parse/check agreement is C03. *)
From Coq Require Import List NArith Arith.
From PT Require Import Model.Base Model.Stack Model.Texpr Model.Sem Model.Aparse Model.LinesSpec.
From PT Require Import Proofs.StackInv Proofs.Refine Proofs.RepSpec Proofs.BoundaryOps Proofs.RawCombinators.
Import ListNotations.

(* A bounded repetition, for every element expression, bounds, skip setting, input and stack:
   [units] = consecutive successful units from index 0 (unit 0 = the element, unit i>0 = skip-if-on then
   the element), each starting where the previous one stopped; [stopped] = the next unit fails or MAX is
   reached.  Success returns exactly those units: greedy, MIN <= count <= MAX, cursor and stack are those
   after the last matched unit (so a skip not followed by a matched iteration is not consumed).
   Failure happens only with fewer than MIN matched units. *)
Theorem C19_rep_bounds : forall E fuel inh k mn mx e pos stk,
  let b := resolve k inh in
  match aparse E (S fuel) inh (TRep k mn mx e) pos stk with
  | AOk (pos', t) stk' =>
      exists its, t = NRep (bounded mx) its /\
                  units E (aparse E fuel) fuel b inh e 0 pos stk its pos' stk' /\
                  mn <= length its /\
                  (forall m, mx = Some m -> length its <= m) /\
                  stopped E (aparse E fuel) fuel b inh e mx (length its) pos' stk'
  | AFail =>
      exists its pos' stk', units E (aparse E fuel) fuel b inh e 0 pos stk its pos' stk' /\
                  length its < mn /\
                  stopped E (aparse E fuel) fuel b inh e mx (length its) pos' stk'
  | _ => True
  end.
Proof. exact aparse_rep_bounds. Qed.
Print Assumptions C19_rep_bounds.

(* the same for the real parse path (repaired code), through C05 *)
Theorem C19_rep_bounds_impl : forall E, fixed E -> forall fuel inh k mn mx e pos st gs p t st',
  SInv (stk st) gs ->
  aparse E (S fuel) inh (TRep k mn mx e) pos (cache (stk st)) <> APanic ->
  tparse E (S fuel) inh (TRep k mn mx e) pos st = Ok (p, t) st' ->
  exists its, t = NRep (bounded mx) its /\ mn <= length its /\ (forall m, mx = Some m -> length its <= m) /\
    units E (aparse E fuel) fuel (resolve k inh) inh e 0 pos (cache (stk st)) its p (cache (stk st')) /\
    stopped E (aparse E fuel) fuel (resolve k inh) inh e mx (length its) p (cache (stk st')).
Proof. exact tparse_rep_bounds. Qed.
Print Assumptions C19_rep_bounds_impl.

Theorem C19_rep_fails_impl : forall E, fixed E -> forall fuel inh k mn mx e pos st gs st',
  SInv (stk st) gs ->
  aparse E (S fuel) inh (TRep k mn mx e) pos (cache (stk st)) <> APanic ->
  tparse E (S fuel) inh (TRep k mn mx e) pos st = Fail st' ->
  exists its p' s', units E (aparse E fuel) fuel (resolve k inh) inh e 0 pos (cache (stk st)) its p' s' /\
    length its < mn /\ stopped E (aparse E fuel) fuel (resolve k inh) inh e mx (length its) p' s'.
Proof. exact tparse_rep_fails. Qed.
Print Assumptions C19_rep_fails_impl.

(* fixed arrays: exactly n consecutive matches, nothing skipped in between; fail at the first miss *)
Theorem C19_array : forall E fuel inh n e pos stk,
  match aparse E (S fuel) inh (TArr n e) pos stk with
  | AOk (pos', t) stk' => exists ts, t = NArr ts /\ length ts = n /\ chain (aparse E fuel) inh e n pos stk ts pos' stk'
  | AFail => exists k ts pos' stk', k < n /\ chain (aparse E fuel) inh e k pos stk ts pos' stk' /\
                                    aparse E fuel inh e pos' stk' = AFail
  | _ => True
  end.
Proof. exact aparse_arr. Qed.
Print Assumptions C19_array.

(* ---- pairs, optionals, skip-n-chars, the skip repetition: exactly the concatenation they denote ---------------- *)

(* (T1, T2): first then second, nothing skipped in between; fails iff one of them fails *)
Theorem C19_pair : forall E fuel inh a b pos stk,
  match aparse E (S fuel) inh (TPair a b) pos stk with
  | AOk (pos', t) stk' => exists p1 ta s1 tb, t = NPair ta tb /\
        aparse E fuel inh a pos stk = AOk (p1, ta) s1 /\ aparse E fuel inh b p1 s1 = AOk (pos', tb) stk'
  | AFail => aparse E fuel inh a pos stk = AFail \/
      exists p1 ta s1, aparse E fuel inh a pos stk = AOk (p1, ta) s1 /\ aparse E fuel inh b p1 s1 = AFail
  | APanic => aparse E fuel inh a pos stk = APanic \/
      exists p1 ta s1, aparse E fuel inh a pos stk = AOk (p1, ta) s1 /\ aparse E fuel inh b p1 s1 = APanic
  | AFuel => aparse E fuel inh a pos stk = AFuel \/
      exists p1 ta s1, aparse E fuel inh a pos stk = AOk (p1, ta) s1 /\ aparse E fuel inh b p1 s1 = AFuel
  end.
Proof. exact aparse_pair_spec. Qed.
Print Assumptions C19_pair.

(* Option<T>: never fails; Some exactly when the operand matches; otherwise None with position and stack untouched *)
Theorem C19_opt : forall E fuel inh e pos stk,
  match aparse E (S fuel) inh (TOpt e) pos stk with
  | AOk (pos', t) stk' =>
      (exists t1, t = NOpt (Some t1) /\ aparse E fuel inh e pos stk = AOk (pos', t1) stk') \/
      (t = NOpt None /\ pos' = pos /\ stk' = stk /\ aparse E fuel inh e pos stk = AFail)
  | AFail => False
  | APanic => aparse E fuel inh e pos stk = APanic
  | AFuel => aparse E fuel inh e pos stk = AFuel
  end.
Proof. exact aparse_opt_spec. Qed.
Print Assumptions C19_opt.

(* SkipChar<N> on the REAL parse and check paths, for valid UTF-8: succeeds iff at least N characters remain, and then
   consumes exactly the first N characters (their encoded length); otherwise fails consuming nothing *)
Theorem C19_skip_chars : forall E fuel inh n pos st,
  good_inp (e_inp E) -> good_cur (e_inp E) pos ->
  exists m, valid_str m /\ i_get (e_inp E) pos = MOk (encode m) /\
    tparse E (S fuel) inh (TSkipChars n) pos st =
      (if n <=? length m then Ok (pos + length (encode (firstn n m)), NSpanned KSkipChar pos (pos + length (encode (firstn n m)))) st else Fail st) /\
    tcheck E (S fuel) inh (TSkipChars n) pos st =
      (if n <=? length m then Ok (pos + length (encode (firstn n m))) st else Fail st).
Proof. exact tparse_skip_chars_utf8. Qed.
Print Assumptions C19_skip_chars.

(* AtomicRepeat (the skip repetition): never fails; the greedy run of consecutive matches, nothing skipped in between,
   ending where the next attempt fails *)
Theorem C19_atomic_rep : forall E fuel inh e pos stk,
  match aparse E (S fuel) inh (TAtomicRep e) pos stk with
  | AOk (pos', t) stk' => exists ts, t = NAtomicRep ts /\ length ts < fuel /\
        chain (aparse E fuel) inh e (length ts) pos stk ts pos' stk' /\ aparse E fuel inh e pos' stk' = AFail
  | AFail => False
  | APanic => exists ts p s, length ts < fuel /\ chain (aparse E fuel) inh e (length ts) pos stk ts p s /\ aparse E fuel inh e p s = APanic
  | AFuel => exists ts p s, chain (aparse E fuel) inh e (length ts) pos stk ts p s /\
        (length ts = fuel \/ (length ts < fuel /\ aparse E fuel inh e p s = AFuel))
  end.
Proof. exact aparse_atomic_rep_spec. Qed.
Print Assumptions C19_atomic_rep.

(* ... and it records nothing with the tracker ("without tracking"), on the real path, for every environment *)
Theorem C19_atomic_rep_silent : forall E fuel inh e pos st,
  match tparse E fuel inh (TAtomicRep e) pos st with Ok _ st' => tr st' = tr st | Fail _ => False | _ => True end.
Proof. exact tparse_atomic_rep_silent. Qed.
Print Assumptions C19_atomic_rep_silent.

(* transfer of any such characterisation to the real parse path (repaired code), through C05 *)
Theorem C19_real_path : forall E, fixed E -> forall fuel inh e pos st gs p t st', SInv (stk st) gs ->
  aparse E fuel inh e pos (cache (stk st)) <> APanic -> tparse E fuel inh e pos st = Ok (p, t) st' ->
  aparse E fuel inh e pos (cache (stk st)) = AOk (p, t) (cache (stk st')) /\ SInv (stk st') gs.
Proof. exact tparse_ok_aparse. Qed.
Print Assumptions C19_real_path.

(* the finding repaired by "fix: RepeatMinMax enforces MIN when the loop ends by reaching MAX" *)
Theorem C19_refuted_before_fix :
  match tparse (w19_env false) 10 true (TRep SkOff 1 (Some 0) (TStr [120%N])) 0 st0 with
  | Ok (_, NRep _ its) _ => length its = 0
  | _ => False
  end.
Proof. exact unrepaired_ignores_min. Qed.
Print Assumptions C19_refuted_before_fix.

(* ---- explicit skip counts: Model/SkipN.v, the repetition / sequence combinators with `[Skip; SKIP]` for ANY count and ANY
   never-failing skip node (the main model's skip argument is off / on / inherited = what the generator emits).  [sparse] and
   [scheck] transcribe the parse path and the check path separately; [smatch] / [sfails] = "some fuel gives this result"
   (well defined: SkipNProofs.sparse_mono, smatch_fun); [units_from] = the chain of units: the first element without skips, every
   further element preceded by exactly k consecutive never-failing skip matches ------------------------------------------------- *)
From PT Require Import Model.SkipN Proofs.SkipNProofs Proofs.SkipNEntry.

(* parse and check agree, for every node and every skip count *)
Theorem C19_skipn_check_is_parse : forall f s n pos, scheck f s n pos = pos_of (sparse f s n pos).
Proof. exact check_is_parse. Qed.
Print Assumptions C19_skipn_check_is_parse.

(* the never-failing entry points (`NeverFailedTypedNode::parse_with` / `check_with`: Empty, RepeatMin<_, 0>, RepeatMinMax<_, 0, MAX>,
   any skip count, any skip node) are the fallible ones -- same offset, same value -- and never fail; their check half is the offset
   of their parse half.  Tie: harness/unitskip `nf` mode (these entry points on every MIN = 0 type with SKIP in 0..3). *)
Theorem C19_skipn_never_failing_entry : forall f s n pos, skip_shape n = true ->
  sparse_nf f s n pos = sparse f s n pos /\ scheck_nf f s n pos = scheck f s n pos /\
  sparse_nf f s n pos <> SFailed /\ scheck_nf f s n pos <> SFailed /\
  scheck_nf f s n pos = pos_of (sparse_nf f s n pos).
Proof. exact nf_entry_points. Qed.
Print Assumptions C19_skipn_never_failing_entry.

Theorem C19_skipn_cursor : forall f s n pos p v,
  pos <= length s -> sparse f s n pos = SOk (p, v) -> pos <= p <= length s.
Proof. exact cursor_monotone. Qed.
Print Assumptions C19_skipn_cursor.

(* between MIN and MAX elements; every element carries exactly k skipped values, the first one the defaults (nothing is skipped
   in front of the first element) *)
Theorem C19_skipn_rep_bounds : forall f s el skip k mn mx pos p items,
  wf_snode (SRep el skip k mn mx) = true ->
  sparse f s (SRep el skip k mn mx) pos = SOk (p, VRep items) ->
  mn <= length items /\ (forall m, mx = Some m -> length items <= m) /\
  Forall (fun it => length (fst it) = k) items /\
  (forall it its, items = it :: its -> fst it = repeat (default_val skip) k).
Proof. exact rep_bounds. Qed.
Print Assumptions C19_skipn_rep_bounds.

(* greedy, stops at MAX, never keeps a skip that is not followed by a matched element: the result is exactly the chain of units
   that ends because MAX is reached or because the NEXT unit (k skips, then the element) fails at its element -- and the cursor is
   where the last matched element ended *)
Theorem C19_skipn_rep_match_iff : forall s el skip k mn mx pos p items, wf_snode (SRep el skip k mn mx) = true ->
  (smatch s (SRep el skip k mn mx) pos p (VRep items) <->
   units_from (smatch s) (smatch_nf s) skip k el 0 pos items p /\ mn <= length items /\
   (forall m, mx = Some m -> length items <= m) /\
   (mx = Some (length items) \/ unit_fails (smatch_nf s) (sfails s) skip k el (length items) p)).
Proof. exact rep_match_iff. Qed.
Print Assumptions C19_skipn_rep_match_iff.

(* fails exactly when fewer than MIN units match *)
Theorem C19_skipn_rep_fails_iff : forall s el skip k mn mx pos, wf_snode (SRep el skip k mn mx) = true ->
  (sfails s (SRep el skip k mn mx) pos <->
   exists items p, units_from (smatch s) (smatch_nf s) skip k el 0 pos items p /\ length items < mn /\
     (forall m, mx = Some m -> length items <= m) /\
     (mx = Some (length items) \/ unit_fails (smatch_nf s) (sfails s) skip k el (length items) p)).
Proof. exact rep_fails_iff. Qed.
Print Assumptions C19_skipn_rep_fails_iff.

(* sequences: exactly the concatenation they denote, k skips in front of every element but the first *)
Theorem C19_skipn_seq_match_iff : forall s els skip k pos p v,
  smatch s (SSeq els skip k) pos p v <->
  exists items, v = VSeq items /\ seq_from (smatch s) (smatch_nf s) skip k 0 els pos items p.
Proof. exact seq_match_iff. Qed.
Print Assumptions C19_skipn_seq_match_iff.

Theorem C19_skipn_seq_fails_iff : forall s els skip k pos, wf_snode (SSeq els skip k) = true ->
  (sfails s (SSeq els skip k) pos <-> seq_fails (smatch s) (smatch_nf s) (sfails s) skip k 0 els pos).
Proof. exact seq_fails_iff. Qed.
Print Assumptions C19_skipn_seq_fails_iff.

(* non-vacuity ("a  a a" with skip = " "?, SKIP = 2: three elements, offset 6, on both paths), and the seeded variant that matches
   the skip once instead of k times is NOT the parse path *)
Theorem C19_skipn_example :
  scheck_once 50 in_a__a_a (SRep a_ blank 2 0 None) 0 = SOk 1 /\
  scheck 50 in_a__a_a (SRep a_ blank 2 0 None) 0 = SOk 6 /\ pos_of (sparse 50 in_a__a_a (SRep a_ blank 2 0 None) 0) = SOk 6.
Proof. exact once_differs. Qed.
Print Assumptions C19_skipn_example.
