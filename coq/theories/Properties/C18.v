(* C18: parse results are values: `==`, `Hash`, `{:?}` and `clone()` agree (Model/EqHash.v).
   The theorems hold for ALL pairs of tnodes over one input object [i], hence for every two values of one
   Rust type obtained from one input object, through whatever sub-ranges.
   Determinism / statelessness ("a second parse gives the same value", "no entry point keeps state") is
   trivially true of the model (Gallina functions) and therefore NOT claimed here: it is checked on the
   code by vlib/props/C18.py (second parse, clone, three case orders in one process, fresh processes). *)
From Coq Require Import List NArith ZArith.
From PT Require Import Model.Base Model.Stack Model.Texpr Model.Sem Model.EqHash Proofs.EqHashProofs.

Theorem C18_eq_debug : forall (i : list byte) (t1 t2 : tnode),
  eq_m i t1 t2 = true <-> debug_m i t1 = debug_m i t2.
Proof. exact eq_debug_iff. Qed.
Print Assumptions C18_eq_debug.

Theorem C18_ne_debug : forall (i : list byte) (t1 t2 : tnode),
  eq_m i t1 t2 = false <-> debug_m i t1 <> debug_m i t2.
Proof. exact ne_debug_iff. Qed.
Print Assumptions C18_ne_debug.

Theorem C18_eq_hash : forall (i : list byte) (t1 t2 : tnode),
  eq_m i t1 t2 = true -> hash_m i t1 = hash_m i t2.
Proof. exact eq_hash. Qed.
Print Assumptions C18_eq_hash.

Theorem C18_refl : forall (i : list byte) (t : tnode), eq_m i t t = true.
Proof. exact eq_refl_m. Qed.
Print Assumptions C18_refl.

Theorem C18_sym : forall (i : list byte) (t1 t2 : tnode), eq_m i t1 t2 = eq_m i t2 t1.
Proof. exact eq_sym_m. Qed.
Print Assumptions C18_sym.

Theorem C18_trans : forall (i : list byte) (t1 t2 t3 : tnode),
  eq_m i t1 t2 = true -> eq_m i t2 t3 = true -> eq_m i t1 t3 = true.
Proof. exact eq_trans_m. Qed.
Print Assumptions C18_trans.

Theorem C18_parse_results :
  forall (E1 E2 : env) (fuel1 fuel2 : nat) (inh1 inh2 : bool) (e : texpr) (pos1 pos2 : nat) (st1 st2 : state)
         (p1 p2 : nat) (t1 t2 : tnode) (s1 s2 : state),
  parent (e_inp E1) = parent (e_inp E2) ->
  tparse E1 fuel1 inh1 e pos1 st1 = Ok (p1, t1) s1 ->
  tparse E2 fuel2 inh2 e pos2 st2 = Ok (p2, t2) s2 ->
  (eq_m (parent (e_inp E1)) t1 t2 = true <-> debug_m (parent (e_inp E1)) t1 = debug_m (parent (e_inp E1)) t2) /\
  (eq_m (parent (e_inp E1)) t1 t2 = true -> hash_m (parent (e_inp E1)) t1 = hash_m (parent (e_inp E1)) t2).
Proof. exact parse_results_eq. Qed.
Print Assumptions C18_parse_results.
