(* C04 -- full parse succeeds only when the whole input is consumed. Statements only. *)
From Coq Require Import List NArith.
From PT Require Import Model.Base Model.Stack Model.Texpr Model.Sem Model.Tok Model.Ast Model.PegSpec Model.GenEnv Model.Wf.
From PT Require Import Proofs.FullParse Proofs.PegSimBase Proofs.BoundaryOps Proofs.Boundary Proofs.PegMain Proofs.PegMain2 Proofs.FullParsePeg.

(* try_parse returns Ok exactly when the rule matches a prefix and, after skipping trailing
   WHITESPACE/COMMENT (no trailing skip when the rule is atomic / compound-atomic or the EOI rule:
   [no_ignore]), the cursor is at the end of the input; the tree is the prefix parse's tree *)
Theorem C04_full_iff : forall E fuel r t st'',
  try_parse E fuel r = Ok t st'' <->
  exists pos st,
    try_parse_partial E fuel r = Ok (pos, t) st /\
    if no_ignore E r
    then eoi_attempt E pos st = Ok tt st''
    else exists pos' t' st', top_skip_p E fuel pos st = Ok (pos', t') st' /\ eoi_attempt E pos' st' = Ok tt st''.
Proof. exact full_parse_iff. Qed.
Print Assumptions C04_full_iff.

Theorem C04_eoi_attempt : forall E pos st st'',
  eoi_attempt E pos st = Ok tt st'' <->
  i_at_end (e_inp E) pos = true /\
  st'' = ev (EExit (e_eoi E) pos true) (ev (EEnter (e_eoi E) pos) st).
Proof. exact eoi_attempt_ok. Qed.
Print Assumptions C04_eoi_attempt.

Theorem C04_check_iff : forall E fuel r st'',
  try_check E fuel r = Ok tt st'' <->
  exists pos st,
    try_check_partial E fuel r = Ok pos st /\
    if no_ignore E r
    then eoi_attempt E pos st = Ok tt st''
    else exists pos' st', top_skip_c E fuel pos st = Ok pos' st' /\ eoi_attempt E pos' st' = Ok tt st''.
Proof. exact full_check_iff. Qed.
Print Assumptions C04_check_iff.

Theorem C04_no_success_with_unread : forall E fuel r t st'',
  try_parse E fuel r = Ok t st'' ->
  exists pos st, try_parse_partial E fuel r = Ok (pos, t) st /\
    if no_ignore E r then i_at_end (e_inp E) pos = true
    else exists pos' t' st', top_skip_p E fuel pos st = Ok (pos', t') st' /\ i_at_end (e_inp E) pos' = true.
Proof. exact no_success_with_unread. Qed.
Print Assumptions C04_no_success_with_unread.

Theorem C04_no_reject_at_end : forall E fuel r pos t st,
  try_parse_partial E fuel r = Ok (pos, t) st ->
  (if no_ignore E r then i_at_end (e_inp E) pos = true
   else exists pos' t' st', top_skip_p E fuel pos st = Ok (pos', t') st' /\ i_at_end (e_inp E) pos' = true) ->
  exists st'', try_parse E fuel r = Ok t st''.
Proof. exact no_reject_at_end. Qed.
Print Assumptions C04_no_reject_at_end.

(* ---- the same in terms of pest's own semantics (Model/PegSpec.v) of the grammar the types were generated from -------------- *)

(* which variant the generator picks (trailing skip or not) is decided by the kind of the rule *)
Theorem C04_no_ignore_by_kind : forall eoi g I pred r d,
  r <> eoi -> lookup_rule (g_rules g) r = Some d ->
  no_ignore (env_of eoi g I pred) r = kind_atomic (o_kind d).
Proof. exact no_ignore_by_kind. Qed.
Print Assumptions C04_no_ignore_by_kind.

(* the typed trailing skip is pest's implicit skip in non-atomic state: same end offset, same stack *)
Theorem C04_trailing_skip_is_pest_skip : forall g eoi I pred,
  ws_ok g = true -> eoi_fresh eoi g = true -> good_inp I -> glits_ok g ->
  forall m n pos st gs,
  pre I pos st gs ->
  top_skip_p (env_of eoi g I pred) m pos st <> Fuel ->
  p_skip (penv_of eoi g I pred) (p_call (penv_of eoi g I pred) (peg (penv_of eoi g I pred) n)) n ANon false pos (cache (stk st)) <> PFuel ->
  forall pos' stk',
  (exists t' st', top_skip_p (env_of eoi g I pred) m pos st = Ok (pos', t') st' /\ cache (stk st') = stk') <->
  (exists toks, p_skip (penv_of eoi g I pred) (p_call (penv_of eoi g I pred) (peg (penv_of eoi g I pred) n)) n ANon false pos (cache (stk st))
                = POk pos' stk' toks).
Proof. exact top_skip_iff_peg_skip. Qed.
Print Assumptions C04_trailing_skip_is_pest_skip.

(* the full parse accepts exactly when pest matches a prefix with the rule and -- for an atomic / compound-atomic rule -- that
   prefix is the whole input, or -- otherwise -- pest's implicit skip run after it ends at the end of the input *)
Theorem C04_full_parse_is_pest : forall g eoi I pred,
  ws_ok g = true -> eoi_fresh eoi g = true -> good_inp I -> glits_ok g ->
  forall r d, callable eoi g r = true -> lookup_rule (g_rules g) r = Some d ->
  forall m n,
  try_parse (env_of eoi g I pred) m r <> Fuel ->
  peg_full (penv_of eoi g I pred) n (kind_atomic (o_kind d)) r <> PFuel ->
  forall t,
  (exists st'', try_parse (env_of eoi g I pred) m r = Ok t st'') <->
  (exists pos sk toks,
     peg_entry (penv_of eoi g I pred) n r = POk pos sk toks /\
     (exists st, try_parse_partial (env_of eoi g I pred) m r = Ok (pos, t) st /\ cache (stk st) = sk) /\
     ((kind_atomic (o_kind d) = true /\ pos = i_end I) \/
      (kind_atomic (o_kind d) = false /\
       exists sk' toks', p_skip (penv_of eoi g I pred) (p_call (penv_of eoi g I pred) (peg (penv_of eoi g I pred) n)) n ANon false pos sk
                         = POk (i_end I) sk' toks'))).
Proof. exact full_parse_is_peg. Qed.
Print Assumptions C04_full_parse_is_pest.

(* verdict for verdict (accept at the end of the input / reject), no premise on pest's side *)
Theorem C04_full_parse_agrees : forall g eoi I pred,
  ws_ok g = true -> eoi_fresh eoi g = true -> good_inp I -> glits_ok g ->
  forall r d, callable eoi g r = true -> lookup_rule (g_rules g) r = Some d ->
  forall m, try_parse (env_of eoi g I pred) m r <> Fuel ->
  exists n0, forall n, n0 <= n ->
    full_agrees_with_peg I (peg_full (penv_of eoi g I pred) n (kind_atomic (o_kind d)) r)
                         (try_parse (env_of eoi g I pred) m r) (try_parse_partial (env_of eoi g I pred) m r).
Proof. exact full_parse_agrees_rev. Qed.
Print Assumptions C04_full_parse_agrees.

(* total form: for a grammar with a well-foundedness certificate both sides end for all large enough fuels and agree *)
Theorem C04_full_parse_total : forall g eoi I pred rules c,
  ws_ok g = true -> eoi_fresh eoi g = true -> good_inp I -> glits_ok g ->
  wf_cert rules (e_rules (env_of eoi g I pred)) (e_skip (env_of eoi g I pred)) c = true ->
  forall r d, callable eoi g r = true -> lookup_rule (g_rules g) r = Some d -> In r rules ->
  exists n0 m0, forall n m, n0 <= n -> m0 <= m ->
    full_agrees_with_peg I (peg_full (penv_of eoi g I pred) n (kind_atomic (o_kind d)) r)
                         (try_parse (env_of eoi g I pred) m r) (try_parse_partial (env_of eoi g I pred) m r).
Proof. exact full_parse_agrees_total. Qed.
Print Assumptions C04_full_parse_total.

(* non-vacuity: "a xy  b  " accepted through the trailing skip, "a xy  b x" rejected, atomic rule rejects "xy  " and accepts "xy" *)
Theorem C04_example : full_agrees_with_peg (inp_of_str ex_in3)
    (peg_full (penv_of 0%N ex_g (inp_of_str ex_in3) ex_nopred) 40 false 1%N)
    (try_parse (env_of 0%N ex_g (inp_of_str ex_in3) ex_nopred) 40 1%N)
    (try_parse_partial (env_of 0%N ex_g (inp_of_str ex_in3) ex_nopred) 40 1%N) /\
  full_agrees_with_peg (inp_of_str ex_in4)
    (peg_full (penv_of 0%N ex_g (inp_of_str ex_in4) ex_nopred) 40 true 2%N)
    (try_parse (env_of 0%N ex_g (inp_of_str ex_in4) ex_nopred) 40 2%N)
    (try_parse_partial (env_of 0%N ex_g (inp_of_str ex_in4) ex_nopred) 40 2%N).
Proof. exact full_parse_agrees_instance. Qed.
Print Assumptions C04_example.
