(* C04 -- full parse succeeds only when the whole input is consumed. Statements only. *)
From Coq Require Import List NArith.
From PT Require Import Model.Base Model.Stack Model.Texpr Model.Sem Proofs.FullParse.

(* try_parse returns Ok exactly when the rule matches a prefix and, after skipping trailing
   WHITESPACE/COMMENT (no trailing skip when the rule is atomic / compound-atomic or the EOI rule:
   [no_ignore]), the cursor is at the end of the input; the tree is the prefix parse's tree *)
Theorem C04_full_iff : forall E fuel r t st'',
  try_parse E fuel r = Ok t st'' <->
  exists pos st,
    try_parse_partial E fuel r = Ok (pos, t) st /\
    if no_ignore E r
    then eoi_attempt E pos st = Ok tt st''
    else exists pos' t' st', top_skip_p E fuel pos st = Ok (pos', t') st' /\ eoi_attempt E pos' st' = Ok tt st''.
Proof. exact full_parse_iff. Qed.
Print Assumptions C04_full_iff.

Theorem C04_eoi_attempt : forall E pos st st'',
  eoi_attempt E pos st = Ok tt st'' <->
  i_at_end (e_inp E) pos = true /\
  st'' = ev (EExit (e_eoi E) pos true) (ev (EEnter (e_eoi E) pos) st).
Proof. exact eoi_attempt_ok. Qed.
Print Assumptions C04_eoi_attempt.

Theorem C04_check_iff : forall E fuel r st'',
  try_check E fuel r = Ok tt st'' <->
  exists pos st,
    try_check_partial E fuel r = Ok pos st /\
    if no_ignore E r
    then eoi_attempt E pos st = Ok tt st''
    else exists pos' st', top_skip_c E fuel pos st = Ok pos' st' /\ eoi_attempt E pos' st' = Ok tt st''.
Proof. exact full_check_iff. Qed.
Print Assumptions C04_check_iff.

Theorem C04_no_success_with_unread : forall E fuel r t st'',
  try_parse E fuel r = Ok t st'' ->
  exists pos st, try_parse_partial E fuel r = Ok (pos, t) st /\
    if no_ignore E r then i_at_end (e_inp E) pos = true
    else exists pos' t' st', top_skip_p E fuel pos st = Ok (pos', t') st' /\ i_at_end (e_inp E) pos' = true.
Proof. exact no_success_with_unread. Qed.
Print Assumptions C04_no_success_with_unread.

Theorem C04_no_reject_at_end : forall E fuel r pos t st,
  try_parse_partial E fuel r = Ok (pos, t) st ->
  (if no_ignore E r then i_at_end (e_inp E) pos = true
   else exists pos' t' st', top_skip_p E fuel pos st = Ok (pos', t') st' /\ i_at_end (e_inp E) pos' = true) ->
  exists st'', try_parse E fuel r = Ok t st''.
Proof. exact no_reject_at_end. Qed.
Print Assumptions C04_no_reject_at_end.
