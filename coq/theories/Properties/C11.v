(* C11 -- ill-formed grammars are rejected at generation time; sound ones terminate. Statements only.
   The verdict parity generator <-> pest_meta validator and "emits code that compiles" compare real programs
   and are decided by validation runs (vlib/props/C11.py).  The termination half is the theorem below:
   "well-founded" is made precise as acceptance by the decidable certificate checker [wf_cert] (Model/Wf.v):
   nullability is a post-fixpoint, every call reachable before input is consumed has a smaller rank, every
   repetition body (and the implicit skip's element) is not nullable, the rule list is closed. *)
From Coq Require Import List NArith.
From PT Require Import Model.Base Model.Stack Model.Texpr Model.Sem Model.Wf Model.Ast Model.GenEnv.
From PT Require Import Proofs.StackInv Proofs.BoundaryOps Proofs.Boundary Proofs.ErrorLocation Proofs.Termination Proofs.PegMain.
Import ListNotations.

(* every parse (and every check) of every expression from every good state returns, within an explicit fuel bound *)
Theorem C11_terminates : forall E rules c, env_ok E -> wf_cert rules (e_rules E) (e_skip E) c = true ->
  forall e inh pos st gs,
  lits_ok e -> expr_ok c rules e = true ->
  good_cur (e_inp E) pos -> good_state (e_inp E) st -> SInv (stk st) gs ->
  forall fuel, fuel_bound rules (e_rules E) (e_skip E) c e (i_end (e_inp E) - pos) <= fuel ->
  tparse E fuel inh e pos st <> Fuel /\ tcheck E fuel inh e pos st <> Fuel.
Proof. exact c11_terminates. Qed.
Print Assumptions C11_terminates.

(* ... and what it returns is a value or a failure: neither out-of-fuel nor a panic, cursor inside the input *)
Theorem C11_returns : forall E rules c, env_ok E -> wf_cert rules (e_rules E) (e_skip E) c = true ->
  forall e inh pos st gs,
  lits_ok e -> expr_ok c rules e = true ->
  good_cur (e_inp E) pos -> good_state (e_inp E) st -> SInv (stk st) gs ->
  forall fuel, fuel_bound rules (e_rules E) (e_skip E) c e (i_end (e_inp E) - pos) <= fuel ->
  match tparse E fuel inh e pos st with
  | Ok (pos', _) _ => pos <= pos' <= i_end (e_inp E)
  | Fail _ => True
  | Panic => False
  | Fuel => False
  end.
Proof. exact c11_returns. Qed.
Print Assumptions C11_returns.

(* the four entry points of every rule of the grammar *)
Theorem C11_entry_points : forall E rules c, env_ok E -> wf_cert rules (e_rules E) (e_skip E) c = true ->
  forall r, In r rules ->
  forall fuel,
  fuel_bound rules (e_rules E) (e_skip E) c (TRule r SkOn) (i_end (e_inp E) - i_start (e_inp E)) <= fuel ->
  try_parse_partial E fuel r <> Fuel /\ try_check_partial E fuel r <> Fuel /\
  try_parse E fuel r <> Fuel /\ try_check E fuel r <> Fuel.
Proof. exact c11_entry_points. Qed.
Print Assumptions C11_entry_points.

(* why repetitions end: a successful run of a non-nullable expression moves the cursor *)
Theorem C11_progress : forall E rules c, env_ok E -> wf_cert rules (e_rules E) (e_skip E) c = true ->
  forall fuel inh e pos st gs pos' t st',
  lits_ok e -> expr_ok c rules e = true ->
  good_cur (e_inp E) pos -> good_state (e_inp E) st -> SInv (stk st) gs ->
  may_be_empty c e = false ->
  tparse E fuel inh e pos st = Ok (pos', t) st' -> pos < pos'.
Proof. exact c11_progress. Qed.
Print Assumptions C11_progress.

(* the implicit skip of the full entry points can only loop or succeed, never reject *)
Theorem C11_trailing_skip_never_fails : forall E fuel pos st st', top_skip_p E fuel pos st <> Fail st'.
Proof. exact top_skip_never_fails. Qed.
Print Assumptions C11_trailing_skip_never_fails.

(* the checker accepts a real grammar (with its inferred certificate) and rejects left recursion through `?` *)
Theorem C11_example :
  let E := env_of 0 ex_g (inp_of_str ex_in1) (fun _ _ => false) in
  wf_cert [1; 2; 3]%N (e_rules E) (e_skip E) (infer_cert [1; 2; 3]%N (e_rules E) (e_skip E)) = true /\
  N.of_nat (fuel_bound [1; 2; 3]%N (e_rules E) (e_skip E) (infer_cert [1; 2; 3]%N (e_rules E) (e_skip E))
              (TRule 1 SkOn) 7) = 158%N.
Proof. exact wf_cert_example. Qed.
Print Assumptions C11_example.

Theorem C11_rejects_left_recursion :
  let E := env_of 0 lr_g (inp_of_str []) (fun _ _ => false) in
  wf_cert [1]%N (e_rules E) (e_skip E) (infer_cert [1]%N (e_rules E) (e_skip E)) = false.
Proof. exact wf_cert_rejects_left_recursion. Qed.
Print Assumptions C11_rejects_left_recursion.
