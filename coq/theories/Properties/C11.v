(* C11 -- ill-formed grammars are rejected at generation time; sound ones terminate. Statements only.
   (The verdict parity generator <-> pest_meta validator and "emits code that compiles" compare real programs
    and are decided by validation runs, see vlib/props/C11.py; the termination theorem is added below once
    Proofs/Termination.v is complete.) *)
From Coq Require Import List NArith.
From PT Require Import Model.Base Model.Stack Model.Texpr Model.Sem Proofs.ErrorLocation.

(* the implicit skip of the full entry points can only loop or succeed, never reject *)
Theorem C11_trailing_skip_never_fails : forall E fuel pos st st', top_skip_p E fuel pos st <> Fail st'.
Proof. exact top_skip_never_fails. Qed.
Print Assumptions C11_trailing_skip_never_fails.
