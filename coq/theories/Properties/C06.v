(* C06 -- stack operations behave as pest specifies and fail gracefully.
   Statements only; every proof is `exact` of a lemma proved elsewhere. *)
From Coq Require Import ZArith.
From PT Require Import Model.MachInt Model.SliceSpec Gen.SliceGen Proofs.SliceProofs Proofs.SliceSpecProofs.
Local Open Scope Z_scope.

(* T1: the index functions *as regenerated from main/src/parser_state.rs* compute the slice spec
   for every stack length below 2^31 and all i32 bounds *)
Theorem C06_slice_spec : forall a b len,
  is_i32 a -> opt_i32 b -> 0 <= len < 2 ^ 31 ->
  constrain_idxs a b len = slice_spec a b len.
Proof. exact constrain_idxs_spec. Qed.
Print Assumptions C06_slice_spec.

(* an accepted slice lies inside the stack, so `stack[range]` cannot panic *)
Theorem C06_slice_in_bounds : forall a b len s e,
  0 <= len -> slice_spec a b len = Some (s, e) -> 0 <= s <= len /\ 0 <= e <= len.
Proof. exact slice_spec_in_bounds. Qed.
Print Assumptions C06_slice_in_bounds.

(* ---------------------------------------------------------------------------------------------- *)
From Coq Require Import List NArith Arith.
From PT Require Import Model.Base Model.Stack Model.Texpr Model.Sem Model.Aparse Proofs.StackOps.
Import ListNotations.
Local Close Scope Z_scope.

(* graceful failure on the real parse path: PEEK / POP / DROP on an empty stack and an out-of-range
   slice make the expression fail with the corresponding special event; they never panic *)
Theorem C06_peek_empty : forall E n inh pos st,
  cache (stk st) = [] -> tparse E (S n) inh TPeek pos st = Fail (ev (EEmptyStack pos) st).
Proof. exact peek_empty. Qed.
Print Assumptions C06_peek_empty.

Theorem C06_pop_empty : forall E n inh pos st,
  cache (stk st) = [] -> tparse E (S n) inh TPop pos st = Fail (ev (EEmptyStack pos) st).
Proof. exact pop_empty. Qed.
Print Assumptions C06_pop_empty.

Theorem C06_drop_empty : forall E n inh pos st,
  cache (stk st) = [] -> tparse E (S n) inh TDrop pos st = Fail (ev (EEmptyStack pos) st).
Proof. exact drop_empty. Qed.
Print Assumptions C06_drop_empty.

Theorem C06_slice_out_of_range : forall E n inh a b pos st,
  slice_spec a b (Z.of_nat (length (cache (stk st)))) = None ->
  tparse E (S n) inh (TPeekSlice a b) pos st = Fail (ev (EOutOfBound pos a b) st).
Proof. exact slice_out_of_range. Qed.
Print Assumptions C06_slice_out_of_range.

(* an accepted slice selects entries s..e of the stack, bottom to top, without ever indexing outside it *)
Theorem C06_slice_index_safe : forall st a b s e,
  slice_spec a b (Z.of_nat (length (cache (stk st)))) = Some (s, e) ->
  exists sps, stack_slice (stk st) a b = Some (MOk sps) /\
              sps = if (e <=? s)%Z then []
                    else firstn (Z.to_nat e - Z.to_nat s) (skipn (Z.to_nat s) (rev (cache (stk st)))).
Proof. exact slice_index_safe. Qed.
Print Assumptions C06_slice_index_safe.

(* effects on the reference interpreter (which the real parse path refines: C05_no_trace) *)
Theorem C06_push_text : forall E n inh e pos stk p t stk',
  aparse E (S n) inh (TPush e) pos stk = AOk (p, t) stk' ->
  exists t1 stk1, aparse E n inh e pos stk = AOk (p, t1) stk1 /\ t = NPush t1 /\ stk' = (pos, p) :: stk1.
Proof. exact a_push_effect. Qed.
Print Assumptions C06_push_text.

Theorem C06_pop : forall E n inh pos stk p t stk',
  aparse E (S n) inh TPop pos stk = AOk (p, t) stk' ->
  exists sp txt, stk = sp :: stk' /\ span_str (e_inp E) sp = MOk txt /\
                 i_match_string (e_inp E) txt pos = MOk (Some p) /\ t = NSpanned KPop (fst sp) (snd sp).
Proof. exact a_pop_effect. Qed.
Print Assumptions C06_pop.

Theorem C06_peek : forall E n inh pos stk p t stk',
  aparse E (S n) inh TPeek pos stk = AOk (p, t) stk' ->
  exists sp rest txt, stk = sp :: rest /\ stk' = stk /\ span_str (e_inp E) sp = MOk txt /\
                      i_match_string (e_inp E) txt pos = MOk (Some p).
Proof. exact a_peek_effect. Qed.
Print Assumptions C06_peek.

Theorem C06_drop : forall E n inh pos stk p t stk',
  aparse E (S n) inh TDrop pos stk = AOk (p, t) stk' -> exists sp, stk = sp :: stk' /\ p = pos.
Proof. exact a_drop_effect. Qed.
Print Assumptions C06_drop.

Theorem C06_peek_all : forall E n inh pos stk p t stk',
  aparse E (S n) inh TPeekAll pos stk = AOk (p, t) stk' ->
  peek_spans E stk pos = MOk (Some p) /\ stk' = stk.
Proof. exact a_peek_all_effect. Qed.
Print Assumptions C06_peek_all.

Theorem C06_pop_all : forall E n inh pos stk p t stk',
  aparse E (S n) inh TPopAll pos stk = AOk (p, t) stk' ->
  peek_spans E stk pos = MOk (Some p) /\ stk' = [].
Proof. exact a_pop_all_effect. Qed.
Print Assumptions C06_pop_all.

Theorem C06_peek_slice : forall E n inh a b pos stk p t stk',
  aparse E (S n) inh (TPeekSlice a b) pos stk = AOk (p, t) stk' ->
  exists s e, slice_spec a b (Z.of_nat (length stk)) = Some (s, e) /\ stk' = stk /\
    peek_spans E (if (e <=? s)%Z then []
                  else firstn (Z.to_nat e - Z.to_nat s) (skipn (Z.to_nat s) (rev stk))) pos = MOk (Some p).
Proof. exact a_slice_effect. Qed.
Print Assumptions C06_peek_slice.

Theorem C06_slice_invalid : forall E n inh a b pos stk,
  slice_spec a b (Z.of_nat (length stk)) = None -> aparse E (S n) inh (TPeekSlice a b) pos stk = AFail.
Proof. exact a_slice_invalid. Qed.
Print Assumptions C06_slice_invalid.
