(* C06 -- stack operations behave as pest specifies and fail gracefully.
   Statements only; every proof is `exact` of a lemma proved elsewhere. *)
From Coq Require Import ZArith.
From PT Require Import Model.MachInt Model.SliceSpec Gen.SliceGen Proofs.SliceProofs Proofs.SliceSpecProofs.
Local Open Scope Z_scope.

(* T1: the index functions *as regenerated from main/src/parser_state.rs* compute the slice spec
   for every stack length below 2^31 and all i32 bounds *)
Theorem C06_slice_spec : forall a b len,
  is_i32 a -> opt_i32 b -> 0 <= len < 2 ^ 31 ->
  constrain_idxs a b len = slice_spec a b len.
Proof. exact constrain_idxs_spec. Qed.
Print Assumptions C06_slice_spec.

(* an accepted slice lies inside the stack, so `stack[range]` cannot panic *)
Theorem C06_slice_in_bounds : forall a b len s e,
  0 <= len -> slice_spec a b len = Some (s, e) -> 0 <= s <= len /\ 0 <= e <= len.
Proof. exact slice_spec_in_bounds. Qed.
Print Assumptions C06_slice_in_bounds.

(* ---------------------------------------------------------------------------------------------- *)
From Coq Require Import List NArith Arith.
From PT Require Import Model.Base Model.Stack Model.Texpr Model.Sem Model.Aparse Proofs.StackOps.
From PT Require Import Proofs.StackInv Proofs.BoundaryOps Proofs.RefineCor Proofs.StackOpsReal.
Import ListNotations.
Local Close Scope Z_scope.

(* graceful failure on the real parse path: PEEK / POP / DROP on an empty stack and an out-of-range
   slice make the expression fail with the corresponding special event; they never panic *)
Theorem C06_peek_empty : forall E n inh pos st,
  cache (stk st) = [] -> tparse E (S n) inh TPeek pos st = Fail (ev (EEmptyStack pos) st).
Proof. exact peek_empty. Qed.
Print Assumptions C06_peek_empty.

Theorem C06_pop_empty : forall E n inh pos st,
  cache (stk st) = [] -> tparse E (S n) inh TPop pos st = Fail (ev (EEmptyStack pos) st).
Proof. exact pop_empty. Qed.
Print Assumptions C06_pop_empty.

Theorem C06_drop_empty : forall E n inh pos st,
  cache (stk st) = [] -> tparse E (S n) inh TDrop pos st = Fail (ev (EEmptyStack pos) st).
Proof. exact drop_empty. Qed.
Print Assumptions C06_drop_empty.

Theorem C06_slice_out_of_range : forall E n inh a b pos st,
  slice_spec a b (Z.of_nat (length (cache (stk st)))) = None ->
  tparse E (S n) inh (TPeekSlice a b) pos st = Fail (ev (EOutOfBound pos a b) st).
Proof. exact slice_out_of_range. Qed.
Print Assumptions C06_slice_out_of_range.

(* an accepted slice selects entries s..e of the stack, bottom to top, without ever indexing outside it *)
Theorem C06_slice_index_safe : forall st a b s e,
  slice_spec a b (Z.of_nat (length (cache (stk st)))) = Some (s, e) ->
  exists sps, stack_slice (stk st) a b = Some (MOk sps) /\
              sps = if (e <=? s)%Z then []
                    else firstn (Z.to_nat e - Z.to_nat s) (skipn (Z.to_nat s) (rev (cache (stk st)))).
Proof. exact slice_index_safe. Qed.
Print Assumptions C06_slice_index_safe.

(* effects on the reference interpreter (which the real parse path refines: C05_no_trace) *)
Theorem C06_push_text : forall E n inh e pos stk p t stk',
  aparse E (S n) inh (TPush e) pos stk = AOk (p, t) stk' ->
  exists t1 stk1, aparse E n inh e pos stk = AOk (p, t1) stk1 /\ t = NPush t1 /\ stk' = (pos, p) :: stk1.
Proof. exact a_push_effect. Qed.
Print Assumptions C06_push_text.

Theorem C06_pop : forall E n inh pos stk p t stk',
  aparse E (S n) inh TPop pos stk = AOk (p, t) stk' ->
  exists sp txt, stk = sp :: stk' /\ span_str (e_inp E) sp = MOk txt /\
                 i_match_string (e_inp E) txt pos = MOk (Some p) /\ t = NSpanned KPop (fst sp) (snd sp).
Proof. exact a_pop_effect. Qed.
Print Assumptions C06_pop.

Theorem C06_peek : forall E n inh pos stk p t stk',
  aparse E (S n) inh TPeek pos stk = AOk (p, t) stk' ->
  exists sp rest txt, stk = sp :: rest /\ stk' = stk /\ span_str (e_inp E) sp = MOk txt /\
                      i_match_string (e_inp E) txt pos = MOk (Some p).
Proof. exact a_peek_effect. Qed.
Print Assumptions C06_peek.

Theorem C06_drop : forall E n inh pos stk p t stk',
  aparse E (S n) inh TDrop pos stk = AOk (p, t) stk' -> exists sp, stk = sp :: stk' /\ p = pos.
Proof. exact a_drop_effect. Qed.
Print Assumptions C06_drop.

Theorem C06_peek_all : forall E n inh pos stk p t stk',
  aparse E (S n) inh TPeekAll pos stk = AOk (p, t) stk' ->
  peek_spans E stk pos = MOk (Some p) /\ stk' = stk.
Proof. exact a_peek_all_effect. Qed.
Print Assumptions C06_peek_all.

Theorem C06_pop_all : forall E n inh pos stk p t stk',
  aparse E (S n) inh TPopAll pos stk = AOk (p, t) stk' ->
  peek_spans E stk pos = MOk (Some p) /\ stk' = [].
Proof. exact a_pop_all_effect. Qed.
Print Assumptions C06_pop_all.

Theorem C06_peek_slice : forall E n inh a b pos stk p t stk',
  aparse E (S n) inh (TPeekSlice a b) pos stk = AOk (p, t) stk' ->
  exists s e, slice_spec a b (Z.of_nat (length stk)) = Some (s, e) /\ stk' = stk /\
    peek_spans E (if (e <=? s)%Z then []
                  else firstn (Z.to_nat e - Z.to_nat s) (skipn (Z.to_nat s) (rev stk))) pos = MOk (Some p).
Proof. exact a_slice_effect. Qed.
Print Assumptions C06_peek_slice.

Theorem C06_slice_invalid : forall E n inh a b pos stk,
  slice_spec a b (Z.of_nat (length stk)) = None -> aparse E (S n) inh (TPeekSlice a b) pos stk = AFail.
Proof. exact a_slice_invalid. Qed.
Print Assumptions C06_slice_invalid.

(* ---- the same effects on the REAL parse path: pest::Stack (cache / popped / snapshots, Model/Stack.v) read through its logical
   content [cache (stk st)]; [SInv] is the representation invariant every reachable state satisfies (Proofs/StackInv.v) ---------- *)

(* PUSH(e) pushes exactly the span e matched -- from where e started to where e ended, implicit skips inside e included -- on top
   of the stack e left *)
Theorem C06_real_push_text : forall E n inh e pos st p t st',
  tparse E (S n) inh (TPush e) pos st = Ok (p, t) st' ->
  exists t1 st1, tparse E n inh e pos st = Ok (p, t1) st1 /\ t = NPush t1 /\
    cache (stk st') = (pos, p) :: cache (stk st1) /\ tr st' = tr st1 /\ pos <= p /\
    span_str (e_inp E) (pos, p) = MOk (firstn (p - pos) (skipn pos (parent (e_inp E)))) /\
    (forall gs, SInv (stk st1) gs -> SInv (stk st') gs).
Proof. exact real_push_text. Qed.
Print Assumptions C06_real_push_text.

Theorem C06_real_pop : forall E n inh pos st gs p t st',
  SInv (stk st) gs ->
  tparse E (S n) inh TPop pos st = Ok (p, t) st' ->
  exists sp txt, cache (stk st) = sp :: cache (stk st') /\ span_str (e_inp E) sp = MOk txt /\
                 i_match_string (e_inp E) txt pos = MOk (Some p) /\ t = NSpanned KPop (fst sp) (snd sp) /\
                 p = pos + length txt /\ tr st' = tr st /\ SInv (stk st') gs.
Proof. exact real_pop. Qed.
Print Assumptions C06_real_pop.

(* POP fails, never panics: on an empty stack (one special event) or on a mismatch -- and then, as in pest, the entry HAS been
   popped: it is the enclosing restore-on-failure (C05) that gives it back, next theorem *)
Theorem C06_real_pop_fail : forall E n inh pos st gs st',
  SInv (stk st) gs ->
  tparse E (S n) inh TPop pos st = Fail st' ->
  (cache (stk st) = [] /\ st' = ev (EEmptyStack pos) st) \/
  (exists sp txt, cache (stk st) = sp :: cache (stk st') /\ span_str (e_inp E) sp = MOk txt /\
                  i_match_string (e_inp E) txt pos = MOk None /\ tr st' = tr st /\ SInv (stk st') gs).
Proof. exact real_pop_fail. Qed.
Print Assumptions C06_real_pop_fail.

Theorem C06_real_opt_pop_mismatch_restores : forall E n inh pos st gs st1,
  e_ron_fixed E = true -> SInv (stk st) gs ->
  tparse E (S n) inh TPop pos st = Fail st1 ->
  exists st2, tparse E (S (S n)) inh (TOpt TPop) pos st = Ok (pos, NOpt None) st2 /\
              cache (stk st2) = cache (stk st) /\ SInv (stk st2) gs.
Proof. exact real_opt_pop_mismatch_restores. Qed.
Print Assumptions C06_real_opt_pop_mismatch_restores.

(* total form on good inputs: parse path and check path, every case *)
Theorem C06_real_pop_total : forall E n inh pos st gs,
  good_inp (e_inp E) -> good_cur (e_inp E) pos -> Forall (good_span (e_inp E)) (cache (stk st)) ->
  SInv (stk st) gs ->
  match cache (stk st) with
  | [] => tparse E (S n) inh TPop pos st = Fail (ev (EEmptyStack pos) st) /\
          tcheck E (S n) inh TPop pos st = Fail (ev (EEmptyStack pos) st)
  | sp :: rest =>
      exists txt o st1, span_str (e_inp E) sp = MOk txt /\ i_match_string (e_inp E) txt pos = MOk o /\
        cache (stk st1) = rest /\ tr st1 = tr st /\ SInv (stk st1) gs /\
        tparse E (S n) inh TPop pos st =
          match o with Some p => Ok (p, NSpanned KPop (fst sp) (snd sp)) st1 | None => Fail st1 end /\
        tcheck E (S n) inh TPop pos st =
          match o with Some p => Ok p st1 | None => Fail st1 end
  end.
Proof. exact real_pop_total. Qed.
Print Assumptions C06_real_pop_total.

Theorem C06_real_peek : forall E n inh pos st p t st',
  tparse E (S n) inh TPeek pos st = Ok (p, t) st' ->
  exists sp rest txt, cache (stk st) = sp :: rest /\ st' = st /\ span_str (e_inp E) sp = MOk txt /\
                      i_match_string (e_inp E) txt pos = MOk (Some p) /\
                      t = NSpanned KPeek pos p /\ p = pos + length txt.
Proof. exact real_peek. Qed.
Print Assumptions C06_real_peek.

Theorem C06_real_drop : forall E n inh pos st gs,
  SInv (stk st) gs ->
  match cache (stk st) with
  | [] => tparse E (S n) inh TDrop pos st = Fail (ev (EEmptyStack pos) st) /\
          tcheck E (S n) inh TDrop pos st = Fail (ev (EEmptyStack pos) st)
  | sp :: rest =>
      exists st1, cache (stk st1) = rest /\ tr st1 = tr st /\ SInv (stk st1) gs /\
        tparse E (S n) inh TDrop pos st = Ok (pos, NDrop) st1 /\
        tcheck E (S n) inh TDrop pos st = Ok pos st1
  end.
Proof. exact real_drop_total. Qed.
Print Assumptions C06_real_drop.

(* PEEK_ALL / POP_ALL match the entries top to bottom ([peek_spans] over the logical stack, top first); POP_ALL leaves the empty
   stack, and on a mismatch leaves the state untouched (never a half-popped stack) *)
Theorem C06_real_peek_all : forall E n inh pos st p t st',
  tparse E (S n) inh TPeekAll pos st = Ok (p, t) st' ->
  peek_spans E (cache (stk st)) pos = MOk (Some p) /\ st' = st /\ t = NSpanned KPeekAll pos p.
Proof. exact real_peek_all. Qed.
Print Assumptions C06_real_peek_all.

Theorem C06_real_pop_all : forall E n inh pos st gs p t st',
  SInv (stk st) gs ->
  tparse E (S n) inh TPopAll pos st = Ok (p, t) st' ->
  peek_spans E (cache (stk st)) pos = MOk (Some p) /\ cache (stk st') = [] /\
  t = NSpanned KPopAll pos p /\ tr st' = tr st /\ SInv (stk st') gs.
Proof. exact real_pop_all. Qed.
Print Assumptions C06_real_pop_all.

Theorem C06_real_pop_all_fail : forall E n inh pos st st',
  tparse E (S n) inh TPopAll pos st = Fail st' ->
  peek_spans E (cache (stk st)) pos = MOk None /\ st' = st.
Proof. exact real_pop_all_fail. Qed.
Print Assumptions C06_real_pop_all_fail.

(* what [peek_spans] means: the concatenation of the entries' texts, in list order, is a prefix of the rest of the input *)
Theorem C06_peek_spans_concat : forall E sps pos p,
  peek_spans E sps pos = MOk (Some p) ->
  exists txts, texts_of (e_inp E) sps txts /\
    is_prefix (concat txts) (raw_rest (e_inp E) pos) = true /\ p = pos + length (concat txts).
Proof. exact peek_spans_some_concat. Qed.
Print Assumptions C06_peek_spans_concat.

(* PEEK[a..b]: entries s..e-1 counted from the bottom, bottom to top; the stack is unchanged; total form for both paths *)
Theorem C06_real_peek_slice : forall E n inh a b pos st p t st',
  tparse E (S n) inh (TPeekSlice a b) pos st = Ok (p, t) st' ->
  exists s e, slice_spec a b (Z.of_nat (length (cache (stk st)))) = Some (s, e) /\ st' = st /\
    peek_spans E (if (e <=? s)%Z then []
                  else firstn (Z.to_nat e - Z.to_nat s) (skipn (Z.to_nat s) (rev (cache (stk st))))) pos
      = MOk (Some p) /\
    t = slice_node b.
Proof. exact real_peek_slice. Qed.
Print Assumptions C06_real_peek_slice.

Theorem C06_real_slice_invalid : forall E n inh a b pos st,
  slice_spec a b (Z.of_nat (length (cache (stk st)))) = None ->
  tparse E (S n) inh (TPeekSlice a b) pos st = Fail (ev (EOutOfBound pos a b) st) /\
  tcheck E (S n) inh (TPeekSlice a b) pos st = Fail (ev (EOutOfBound pos a b) st).
Proof. exact real_slice_invalid. Qed.
Print Assumptions C06_real_slice_invalid.

(* an empty range succeeds without consuming *)
Theorem C06_real_peek_slice_empty : forall E n inh a b pos st s e,
  good_inp (e_inp E) -> good_cur (e_inp E) pos ->
  slice_spec a b (Z.of_nat (length (cache (stk st)))) = Some (s, e) -> (e <= s)%Z ->
  tparse E (S n) inh (TPeekSlice a b) pos st = Ok (pos, slice_node b) st /\
  tcheck E (S n) inh (TPeekSlice a b) pos st = Ok pos st.
Proof. exact real_peek_slice_empty. Qed.
Print Assumptions C06_real_peek_slice_empty.

(* negative indices count from the top: PEEK[-k..] matches the k topmost entries, the lowest of them first *)
Theorem C06_real_peek_slice_neg_top : forall E n inh k pos st p t st',
  0 < k <= length (cache (stk st)) ->
  tparse E (S n) inh (TPeekSlice (- Z.of_nat k) None) pos st = Ok (p, t) st' ->
  peek_spans E (rev (firstn k (cache (stk st)))) pos = MOk (Some p) /\ st' = st.
Proof. exact real_peek_slice_neg_top. Qed.
Print Assumptions C06_real_peek_slice_neg_top.

(* non-vacuity, on "abbba": PUSH("a") PUSH("b") PEEK[-1..] POP_ALL -- the logical stack after every step *)
Theorem C06_real_example :
  run_steps (w_env true [97; 98; 98; 98; 97]%N) 4
    [TPush (TStr [97%N]); TPush (TStr [98%N]); TPeekSlice (-1) None; TPopAll] 0 st0
  = [Some (1, [(0, 1)]); Some (2, [(1, 2); (0, 1)]); Some (3, [(1, 2); (0, 1)]); Some (5, [])].
Proof. exact real_run_steps. Qed.
Print Assumptions C06_real_example.
