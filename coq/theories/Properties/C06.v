(* C06 -- stack operations behave as pest specifies and fail gracefully.
   Statements only; every proof is `exact` of a lemma proved elsewhere. *)
From Coq Require Import ZArith.
From PT Require Import Model.MachInt Model.SliceSpec Gen.SliceGen Proofs.SliceProofs Proofs.SliceSpecProofs.
Local Open Scope Z_scope.

(* T1: the index functions *as regenerated from main/src/parser_state.rs* compute the slice spec
   for every stack length below 2^31 and all i32 bounds *)
Theorem C06_slice_spec : forall a b len,
  is_i32 a -> opt_i32 b -> 0 <= len < 2 ^ 31 ->
  constrain_idxs a b len = slice_spec a b len.
Proof. exact constrain_idxs_spec. Qed.
Print Assumptions C06_slice_spec.

(* an accepted slice lies inside the stack, so `stack[range]` cannot panic *)
Theorem C06_slice_in_bounds : forall a b len s e,
  0 <= len -> slice_spec a b len = Some (s, e) -> 0 <= s <= len /\ 0 <= e <= len.
Proof. exact slice_spec_in_bounds. Qed.
Print Assumptions C06_slice_in_bounds.
