(* C10 -- error reports are in bounds, not before consumed input, and truthful. Statements only. *)
From Coq Require Import List NArith.
From PT Require Import Model.Base Model.Stack Model.Texpr Model.Sem Model.Tracker.
From PT Require Import Proofs.TrackerProofs Proofs.ErrorLocation.
Import ListNotations.

(* the reported location is never before the starting cursor (boundary / upper bound: C09_error_location) *)
Theorem C10_position_ge_start : forall start trace, start <= t_position (run_tracker start trace).
Proof. exact position_ge_start. Qed.
Print Assumptions C10_position_ge_start.

(* truthfulness of the tracker w.r.t. the run's event history, for every event trace: every rule listed as
   expected has an exit event with verdict `false` at exactly the reported position, every rule listed as
   unexpected an exit event with verdict `true` there, every special error its event there *)
Theorem C10_tracker_truth : forall start trace,
  Forall (entry_ok trace (t_position (run_tracker start trace))) (t_attempts (run_tracker start trace)).
Proof. exact tracker_truth. Qed.
Print Assumptions C10_tracker_truth.

(* a full parse whose prefix parse matched up to [pos] is rejected only by the EOI attempt after the trailing
   skip, and the reported location is at or after the cursor of that attempt (= pos without trailing skip) *)
Theorem C10_location : forall E fuel r pos t st st'',
  try_parse_partial E fuel r = Ok (pos, t) st ->
  try_parse E fuel r = Fail st'' ->
  exists pos' st',
    (if no_ignore E r then pos' = pos /\ st' = st
     else exists t', top_skip_p E fuel pos st = Ok (pos', t') st') /\
    i_at_end (e_inp E) pos' = false /\
    st'' = ev (EExit (e_eoi E) pos' false) (ev (EEnter (e_eoi E) pos') st') /\
    pos' <= t_position (run_tracker (i_start (e_inp E)) (tr st'')).
Proof. exact rejected_full_parse_location. Qed.
Print Assumptions C10_location.
