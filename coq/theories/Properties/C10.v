(* C10 -- error reports are in bounds, not before consumed input, and truthful. Statements only. *)
From Coq Require Import List NArith.
From PT Require Import Model.Base Model.Stack Model.Texpr Model.Sem Model.Tracker Model.Report.
From Coq Require Import Sorted.
From PT Require Import Proofs.TrackerProofs Proofs.ErrorLocation Proofs.CheckParse Proofs.TraceSound Proofs.ReportProofs.
From PT Require Import Model.Lines Model.LinesSpec Model.ReportHead Proofs.BoundaryOps Proofs.Boundary Proofs.ReportHeadProofs Proofs.ReportHeadEntry.
Import ListNotations.

(* the reported location is never before the starting cursor (boundary / upper bound: C09_error_location) *)
Theorem C10_position_ge_start : forall start trace, start <= t_position (run_tracker start trace).
Proof. exact position_ge_start. Qed.
Print Assumptions C10_position_ge_start.

(* truthfulness of the tracker w.r.t. the run's event history, for every event trace: every rule listed as
   expected has an exit event with verdict `false` at exactly the reported position, every rule listed as
   unexpected an exit event with verdict `true` there, every special error its event there *)
Theorem C10_tracker_truth : forall start trace,
  Forall (entry_ok trace (t_position (run_tracker start trace))) (t_attempts (run_tracker start trace)).
Proof. exact tracker_truth. Qed.
Print Assumptions C10_tracker_truth.

(* a full parse whose prefix parse matched up to [pos] is rejected only by the EOI attempt after the trailing
   skip, and the reported location is at or after the cursor of that attempt (= pos without trailing skip) *)
Theorem C10_location : forall E fuel r pos t st st'',
  try_parse_partial E fuel r = Ok (pos, t) st ->
  try_parse E fuel r = Fail st'' ->
  exists pos' st',
    (if no_ignore E r then pos' = pos /\ st' = st
     else exists t', top_skip_p E fuel pos st = Ok (pos', t') st') /\
    i_at_end (e_inp E) pos' = false /\
    st'' = ev (EExit (e_eoi E) pos' false) (ev (EEnter (e_eoi E) pos') st') /\
    pos' <= t_position (run_tracker (i_start (e_inp E)) (tr st'')).
Proof. exact rejected_full_parse_location. Qed.
Print Assumptions C10_location.

(* ---- trace soundness: the events the tracker is fed are backed by real runs (Proofs/TraceSound.v) ---- *)
(* C10 (truthfulness w.r.t. the grammar) -- to be merged into Properties/C10.v by its owner.
   Needs in the Require block:  From PT Require Import Proofs.TraceSound.
   Definitions used (all in Proofs/TraceSound.v):
     verdict r        = Some true (Ok) / Some false (Fail) / None (Panic, Fuel)
     final r          = Some st' for Ok _ st' and Fail st', None otherwise
     justified E ev   = for ev = EExit r p ok:
                          exists fuel inh st1,
                            verdict (tcheck E fuel inh (r_body (e_rules E r)) p (ev (EEnter r p) st1)) = Some ok
                        True for every other event
     justified_eoi E ev = for ev = EExit r p ok: r = e_eoi E /\ i_at_end (e_inp E) p = ok; True otherwise
     justified_top E ev = justified E ev \/ justified_eoi E ev
     rule_outcome E r p ok = (r = e_eoi E /\ i_at_end (e_inp E) p = ok) \/
                             exists fuel inh st1, verdict (tcheck ... r ... p (ev (EEnter r p) st1)) = Some ok *)

(* a terminated run only adds events at the head of the trace *)
Theorem C10_trace_extends_parse : forall E fuel inh e pos st st',
  (exists a, tparse E fuel inh e pos st = Ok a st') \/ tparse E fuel inh e pos st = Fail st' ->
  exists new, tr st' = new ++ tr st.
Proof. exact trace_extends_parse. Qed.
Print Assumptions C10_trace_extends_parse.

Theorem C10_trace_extends_check : forall E fuel inh e pos st st',
  (exists a, tcheck E fuel inh e pos st = Ok a st') \/ tcheck E fuel inh e pos st = Fail st' ->
  exists new, tr st' = new ++ tr st.
Proof. exact trace_extends_check. Qed.
Print Assumptions C10_trace_extends_check.

(* every exit event a run logs (all constructs, both paths) is backed by the verdict of the rule's body run
   at that position in the state in which the rule was tried *)
Theorem C10_trace_sound : forall E fuel inh e pos st st',
  final (tparse E fuel inh e pos st) = Some st' ->
  exists new, tr st' = new ++ tr st /\ Forall (justified E) new.
Proof. exact trace_sound_parse. Qed.
Print Assumptions C10_trace_sound.

Theorem C10_trace_sound_check : forall E fuel inh e pos st st',
  final (tcheck E fuel inh e pos st) = Some st' ->
  exists new, tr st' = new ++ tr st /\ Forall (justified E) new.
Proof. exact trace_sound_check. Qed.
Print Assumptions C10_trace_sound_check.

(* entry points: the whole trace *)
Theorem C10_try_parse_partial_sound : forall E fuel r st',
  final (try_parse_partial E fuel r) = Some st' -> Forall (justified E) (tr st').
Proof. exact try_parse_partial_sound. Qed.
Print Assumptions C10_try_parse_partial_sound.

Theorem C10_try_check_partial_sound : forall E fuel r st',
  final (try_check_partial E fuel r) = Some st' -> Forall (justified E) (tr st').
Proof. exact try_check_partial_sound. Qed.
Print Assumptions C10_try_check_partial_sound.

(* full entry points: additionally the exit event of the EOI attempt, justified by the end-of-input test *)
Theorem C10_try_parse_sound : forall E fuel r st',
  final (try_parse E fuel r) = Some st' -> Forall (justified_top E) (tr st').
Proof. exact try_parse_sound. Qed.
Print Assumptions C10_try_parse_sound.

Theorem C10_try_check_sound : forall E fuel r st',
  final (try_check E fuel r) = Some st' -> Forall (justified_top E) (tr st').
Proof. exact try_check_sound. Qed.
Print Assumptions C10_try_check_sound.

(* the report of a rejected full parse: every rule listed as expected fails to match at the reported position
   in a context it was tried in (or is the EOI pseudo-rule and the position is not the end of the input);
   every rule listed as unexpected matches there *)
Theorem C10_report_truthful : forall E fuel r st',
  try_parse E fuel r = Fail st' ->
  forall en, In en (t_attempts (run_tracker (i_start (e_inp E)) (tr st'))) ->
    (forall r', In r' (te_pos en) ->
       (r' = e_eoi E /\ i_at_end (e_inp E) (t_position (run_tracker (i_start (e_inp E)) (tr st'))) = false) \/
       (exists fuel' inh' st1,
          verdict (tcheck E fuel' inh' (r_body (e_rules E r'))
                     (t_position (run_tracker (i_start (e_inp E)) (tr st')))
                     (ev (EEnter r' (t_position (run_tracker (i_start (e_inp E)) (tr st')))) st1)) = Some false)) /\
    (forall r', In r' (te_neg en) ->
       (r' = e_eoi E /\ i_at_end (e_inp E) (t_position (run_tracker (i_start (e_inp E)) (tr st'))) = true) \/
       (exists fuel' inh' st1,
          verdict (tcheck E fuel' inh' (r_body (e_rules E r'))
                     (t_position (run_tracker (i_start (e_inp E)) (tr st')))
                     (ev (EEnter r' (t_position (run_tracker (i_start (e_inp E)) (tr st')))) st1)) = Some true)).
Proof. exact report_truthful. Qed.
Print Assumptions C10_report_truthful.

Theorem C10_report_truthful_check : forall E fuel r st',
  try_check E fuel r = Fail st' ->
  forall en, In en (t_attempts (run_tracker (i_start (e_inp E)) (tr st'))) ->
    (forall r', In r' (te_pos en) ->
       rule_outcome E r' (t_position (run_tracker (i_start (e_inp E)) (tr st'))) false) /\
    (forall r', In r' (te_neg en) ->
       rule_outcome E r' (t_position (run_tracker (i_start (e_inp E)) (tr st'))) true).
Proof. exact report_truthful_check. Qed.
Print Assumptions C10_report_truthful_check.

(* sharper for the unexpected list of a rejected full parse: no EOI alternative is needed *)
Theorem C10_report_unexpected_matches : forall E fuel r st',
  try_parse E fuel r = Fail st' ->
  forall en, In en (t_attempts (run_tracker (i_start (e_inp E)) (tr st'))) ->
  forall r', In r' (te_neg en) ->
    exists fuel' inh' st1,
      verdict (tcheck E fuel' inh' (r_body (e_rules E r'))
                 (t_position (run_tracker (i_start (e_inp E)) (tr st')))
                 (ev (EEnter r' (t_position (run_tracker (i_start (e_inp E)) (tr st')))) st1)) = Some true.
Proof. exact report_unexpected_matches. Qed.
Print Assumptions C10_report_unexpected_matches.

Theorem C10_report_unexpected_matches_check : forall E fuel r st',
  try_check E fuel r = Fail st' ->
  forall en, In en (t_attempts (run_tracker (i_start (e_inp E)) (tr st'))) ->
  forall r', In r' (te_neg en) ->
    exists fuel' inh' st1,
      verdict (tcheck E fuel' inh' (r_body (e_rules E r'))
                 (t_position (run_tracker (i_start (e_inp E)) (tr st')))
                 (ev (EEnter r' (t_position (run_tracker (i_start (e_inp E)) (tr st')))) st1)) = Some true.
Proof. exact report_unexpected_matches_check. Qed.
Print Assumptions C10_report_unexpected_matches_check.

(* [justified] is not vacuous: a rule whose body is AlwaysFail can never be logged as matched *)
Theorem C10_justified_discriminates : forall E r p,
  r_body (e_rules E r) = TFail -> ~ justified E (EExit r p true).
Proof. exact justified_discriminates. Qed.
Print Assumptions C10_justified_discriminates.

(* ---- the RENDERED report (Model/Report.v transcribes Tracker::collect_to_message: one line per entry in BTreeMap order,
   lists sorted and de-duplicated, "Expected" / "Unexpected" / "Unexpected .., expected .." by which lists are empty) ---- *)

(* every line comes from an entry of the tracker and calls a rule "expected" exactly when it is among that entry's
   positives, "unexpected" exactly when among its negatives; the enclosing rule and the special errors are the entry's *)
Theorem C10_report_says : forall t l, In l (report t) ->
  exists en, In en (t_attempts t) /\ l_by l = te_key en /\ l_special l = te_spec en /\
             (forall r, In r (says_expected l) <-> In r (te_pos en)) /\
             (forall r, In r (says_unexpected l) <-> In r (te_neg en)).
Proof. exact report_says. Qed.
Print Assumptions C10_report_says.

Theorem C10_report_complete : forall t en, In en (t_attempts t) -> In (line_of_entry en) (report t).
Proof. exact report_complete. Qed.
Print Assumptions C10_report_complete.

Theorem C10_report_lists_sorted : forall e,
  StronglySorted N.lt (says_expected (line_of_entry e)) /\ StronglySorted N.lt (says_unexpected (line_of_entry e)).
Proof. exact report_lists_sorted. Qed.
Print Assumptions C10_report_lists_sorted.

(* hence the statement of the property on the text of the report of a rejected full parse: every rule a line lists as expected
   really fails at the reported location in a context it was tried in (or is EOI and the location is not the end of input),
   every rule listed as unexpected really matches there *)
Theorem C10_rendered_report_truthful : forall E fuel r st',
  try_parse E fuel r = Fail st' ->
  let T := run_tracker (i_start (e_inp E)) (tr st') in
  forall l, In l (report T) ->
    (forall r', In r' (says_expected l) ->
       (r' = e_eoi E /\ i_at_end (e_inp E) (t_position T) = false) \/
       (exists fuel' inh' st1,
          verdict (tcheck E fuel' inh' (r_body (e_rules E r')) (t_position T) (ev (EEnter r' (t_position T)) st1)) = Some false)) /\
    (forall r', In r' (says_unexpected l) ->
       exists fuel' inh' st1,
          verdict (tcheck E fuel' inh' (r_body (e_rules E r')) (t_position T) (ev (EEnter r' (t_position T)) st1)) = Some true).
Proof. exact rendered_report_truthful. Qed.
Print Assumptions C10_rendered_report_truthful.

(* ---- the head of the rendered message: `&line[..index_of_the_(col-1)th_char]` (tracker.rs collect_to_message) ------------- *)

(* at every character boundary of every string the slice is taken without panic and is the text between the last LF before the
   location and the location -- byte index of the (col-1)-th char, not col-1 itself *)
Theorem C10_head_line : forall cs k, valid_str cs ->
  head_line (encode cs) (boff cs k) = MOk (encode (after_last_lf (firstn k cs))).
Proof. exact head_line_correct. Qed.
Print Assumptions C10_head_line.

Theorem C10_head_line_no_panic : forall cs p, valid_str cs -> pos_new (encode cs) p = Some p ->
  exists h, head_line (encode cs) p = MOk h.
Proof. exact head_line_no_panic. Qed.
Print Assumptions C10_head_line_no_panic.

(* hence at the location reported for any entry point on any input string *)
Theorem C10_entry_report_head_renders : forall E fuel r cs, env_ok E -> valid_str cs -> parent (e_inp E) = encode cs ->
  forall st,
    (final_state (try_parse_partial E fuel r) = Some st \/ final_state (try_check_partial E fuel r) = Some st \/
     final_state (try_parse E fuel r) = Some st \/ final_state (try_check E fuel r) = Some st) ->
    exists h, head_line (encode cs) (t_position (run_tracker (i_start (e_inp E)) (tr st))) = MOk h.
Proof. exact entry_report_head_renders. Qed.
Print Assumptions C10_entry_report_head_renders.

(* the statement is not vacuous, and indexing by the column itself would panic: "\229\144\141=" (one CJK character, then '=') at its end *)
Theorem C10_head_line_example :
  head_line [229; 144; 141; 61]%N 4 = MOk [229; 144; 141; 61]%N /\ head_line_charidx [229; 144; 141; 61]%N 4 = MPanic.
Proof. exact head_line_example. Qed.
Print Assumptions C10_head_line_example.
