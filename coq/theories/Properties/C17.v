(* C17 -- choice, sequence, repetition and leaf accessors reflect what was actually matched.
   Statements only; proofs in Proofs/AccessProofs.v (on the reference interpreter [aparse] and, through the
   refinement theorem of C05, on the real parse path [tparse]); the accessor models are in Model/Access.v. *)
From Coq Require Import List NArith Arith Bool.
From PT Require Import Model.Base Model.Stack Model.Texpr Model.Sem Model.Aparse Model.Access.
From PT Require Import Proofs.StackInv Proofs.Refine Proofs.RepSpec Proofs.AccessProofs.
Import ListNotations.

(* (a) First match wins. For every list of alternatives (any arity), every alternative expression, cursor and
   stack: if the choice returns variant [i] of [ChoiceN] then N is the number of alternatives, alternative [i]
   (grammar order) matches at that cursor and stack with exactly that cursor / content / stack as result, and
   every earlier alternative fails there. *)
Theorem C17_first_match : forall E fuel inh es pos stk p n i t stk',
  aparse E (S fuel) inh (TChoice es) pos stk = AOk (p, NChoice n i t) stk' ->
  n = length es /\ i < length es /\
  exists e_i, nth_error es i = Some e_i /\
    aparse E fuel inh e_i pos stk = AOk (p, t) stk' /\
    (forall j e_j, j < i -> nth_error es j = Some e_j -> aparse E fuel inh e_j pos stk = AFail).
Proof. exact aparse_first_match. Qed.
Print Assumptions C17_first_match.

(* ... and nothing else can be returned: the value is always a variant of ChoiceN; the choice fails only when
   every alternative fails; and if alternative i matches after all earlier ones failed, variant i is returned *)
Theorem C17_choice_shape : forall E fuel inh es pos stk p t stk',
  aparse E (S fuel) inh (TChoice es) pos stk = AOk (p, t) stk' ->
  exists i t', t = NChoice (length es) i t' /\ i < length es.
Proof. exact aparse_choice_shape. Qed.
Print Assumptions C17_choice_shape.

Theorem C17_choice_fails : forall E fuel inh es pos stk,
  aparse E (S fuel) inh (TChoice es) pos stk = AFail ->
  forall j e_j, nth_error es j = Some e_j -> aparse E fuel inh e_j pos stk = AFail.
Proof. exact aparse_choice_fails. Qed.
Print Assumptions C17_choice_fails.

Theorem C17_choice_complete : forall E fuel inh es pos stk i e p t stk',
  nth_error es i = Some e ->
  aparse E fuel inh e pos stk = AOk (p, t) stk' ->
  (forall j e_j, j < i -> nth_error es j = Some e_j -> aparse E fuel inh e_j pos stk = AFail) ->
  aparse E (S fuel) inh (TChoice es) pos stk = AOk (p, NChoice (length es) i t) stk'.
Proof. exact aparse_choice_complete. Qed.
Print Assumptions C17_choice_complete.

(* the same for the real parse path (repaired code), through C05 *)
Theorem C17_first_match_impl : forall E, fixed E -> forall fuel inh es pos st gs p t st',
  SInv (stk st) gs ->
  aparse E (S fuel) inh (TChoice es) pos (cache (stk st)) <> APanic ->
  tparse E (S fuel) inh (TChoice es) pos st = Ok (p, t) st' ->
  exists i e_i t', t = NChoice (length es) i t' /\ i < length es /\ nth_error es i = Some e_i /\
    aparse E fuel inh e_i pos (cache (stk st)) = AOk (p, t') (cache (stk st')) /\
    (forall j e_j, j < i -> nth_error es j = Some e_j -> aparse E fuel inh e_j pos (cache (stk st)) = AFail).
Proof. exact tparse_first_match. Qed.
Print Assumptions C17_first_match_impl.

Theorem C17_choice_fails_impl : forall E, fixed E -> forall fuel inh es pos st gs st',
  SInv (stk st) gs ->
  aparse E (S fuel) inh (TChoice es) pos (cache (stk st)) <> APanic ->
  tparse E (S fuel) inh (TChoice es) pos st = Fail st' ->
  forall j e_j, nth_error es j = Some e_j -> aparse E fuel inh e_j pos (cache (stk st)) = AFail.
Proof. exact tparse_choice_fails. Qed.
Print Assumptions C17_choice_fails_impl.

(* (b) `_k()` is Some exactly for k = i, and then it is the stored content *)
Theorem C17_accessor_unique : forall k n i t t',
  choice_acc k (NChoice n i t) = Some t' <-> k = i /\ t' = t.
Proof. exact accessor_unique. Qed.
Print Assumptions C17_accessor_unique.

Theorem C17_accessors_exactly_one : forall n i t, i < n ->
  forall k, k < n -> nth_error (choice_accs n (NChoice n i t)) k = Some (if k =? i then Some t else None).
Proof. exact accessors_exactly_one. Qed.
Print Assumptions C17_accessors_exactly_one.

(* (c) The helper chain `reference()/if_then/consume()/consume_if_then . else_if ... else_then` given n closures, and
   the `match_choices!` expansion given n arms, return what closure / arm i returns on the stored content and call
   no other closure ([i] is the whole call log) -- for every arity n >= 2, every variant i < n. *)
Theorem C17_chain : forall (L : Type) (d : tnode -> L) n i t (cls : list (tnode -> L)),
  2 <= n -> i < n -> length cls = n ->
  chain_run cls (NChoice n i t) = Some (nth i cls d t, [i]).
Proof. exact @chain_runs_exactly. Qed.
Print Assumptions C17_chain.

Theorem C17_match_choices : forall (L : Type) (d : tnode -> L) n i t (arms : list (tnode -> L)),
  2 <= n -> i < n -> length arms = n ->
  match_choices arms (NChoice n i t) = Some (nth i arms d t, [i]).
Proof. exact @match_choices_runs_exactly. Qed.
Print Assumptions C17_match_choices.

(* (a)+(b)+(c) on a value a choice really returned *)
Theorem C17_choice_accessors : forall (L : Type) (d : tnode -> L) E fuel inh es pos stk p t stk' (cls : list (tnode -> L)),
  2 <= length es -> length cls = length es ->
  aparse E (S fuel) inh (TChoice es) pos stk = AOk (p, t) stk' ->
  exists i t', t = NChoice (length es) i t' /\ i < length es /\
    chain_run cls t = Some (nth i cls d t', [i]) /\
    match_choices cls t = Some (nth i cls d t', [i]) /\
    (forall k, choice_acc k t = Some t' <-> k = i).
Proof. exact @chain_on_parsed. Qed.
Print Assumptions C17_choice_accessors.

(* (d) Sequences. [seq_items es first pos stk its pos' stk'] : the elements [es] matched one after the other from
   (pos, stk) to (pos', stk'), each preceded by the implicit skip (none before the first), each starting where the
   previous one stopped, [its] = their (skipped, matched) results in that order.  A parsed sequence stores exactly
   these, one per element, in grammar order; get_matched / as_ref / into_matched are the second components,
   get_all the pairs. *)
Theorem C17_seq : forall E fuel inh k es pos stk p t stk',
  aparse E (S fuel) inh (TSeq k es) pos stk = AOk (p, t) stk' ->
  exists its, t = NSeq its /\
    seq_items E (aparse E fuel) fuel (resolve k inh) inh es true pos stk its p stk' /\
    length its = length es /\
    seq_matched t = Some (map snd its) /\ seq_all t = Some its.
Proof. exact aparse_seq. Qed.
Print Assumptions C17_seq.

(* item j is the result of element j, run after the skip, from the state the j items before it left *)
Theorem C17_seq_nth : forall E A lf b inh es first pos stk its p stk',
  seq_items E A lf b inh es first pos stk its p stk' ->
  forall j e_j, nth_error es j = Some e_j ->
  exists pre first_j pos_j stk_j pos1 skipped stk1 pos2 t_j stk2,
    seq_items E A lf b inh (firstn j es) first pos stk pre pos_j stk_j /\ pre = firstn j its /\
    first_j = (if j =? 0 then first else false) /\
    a_pre_skip E A lf b (negb first_j) pos_j stk_j = AOk (pos1, skipped) stk1 /\
    A inh e_j pos1 stk1 = AOk (pos2, t_j) stk2 /\
    nth_error its j = Some (skipped, t_j).
Proof. exact seq_items_nth. Qed.
Print Assumptions C17_seq_nth.

Theorem C17_seq_impl : forall E, fixed E -> forall fuel inh k es pos st gs p t st',
  SInv (stk st) gs ->
  aparse E (S fuel) inh (TSeq k es) pos (cache (stk st)) <> APanic ->
  tparse E (S fuel) inh (TSeq k es) pos st = Ok (p, t) st' ->
  exists its, t = NSeq its /\
    seq_items E (aparse E fuel) fuel (resolve k inh) inh es true pos (cache (stk st)) its p (cache (stk st')) /\
    length its = length es /\
    seq_matched t = Some (map snd its) /\ seq_all t = Some its.
Proof. exact tparse_seq. Qed.
Print Assumptions C17_seq_impl.

(* (e) Repetitions: the stored items are the consecutive units 0, 1, 2, ... (C19's [units]: unit 0 = the element,
   unit j > 0 = skip then the element, each from the state the previous one left) in input order; iter_matched /
   into_iter_matched are the second components, iter_all the pairs; item j is the result of unit j. *)
Theorem C17_rep : forall E fuel inh k mn mx e pos stk p t stk',
  aparse E (S fuel) inh (TRep k mn mx e) pos stk = AOk (p, t) stk' ->
  exists its, t = NRep (bounded mx) its /\
    units E (aparse E fuel) fuel (resolve k inh) inh e 0 pos stk its p stk' /\
    rep_matched t = Some (map snd its) /\ rep_all t = Some its /\
    (forall j it, nth_error its j = Some it ->
       exists pos_j stk_j pos_j' stk_j',
         units E (aparse E fuel) fuel (resolve k inh) inh e 0 pos stk (firstn j its) pos_j stk_j /\
         a_unit E (aparse E fuel) fuel (resolve k inh) inh e j pos_j stk_j = AOk (pos_j', it) stk_j').
Proof. exact aparse_rep_access. Qed.
Print Assumptions C17_rep.

Theorem C17_rep_impl : forall E, fixed E -> forall fuel inh k mn mx e pos st gs p t st',
  SInv (stk st) gs ->
  aparse E (S fuel) inh (TRep k mn mx e) pos (cache (stk st)) <> APanic ->
  tparse E (S fuel) inh (TRep k mn mx e) pos st = Ok (p, t) st' ->
  exists its, t = NRep (bounded mx) its /\
    units E (aparse E fuel) fuel (resolve k inh) inh e 0 pos (cache (stk st)) its p (cache (stk st')) /\
    rep_matched t = Some (map snd its) /\ rep_all t = Some its.
Proof. exact tparse_rep_access. Qed.
Print Assumptions C17_rep_impl.

(* (f) Leaves. [consumed I pos p] = the input text between the two cursors; [leaf_text] = what the node's public
   field shows.  CharRange / ANY / unicode property ([char_leaf_spec]): the stored char is the char decoded at
   the cursor, satisfies the node's predicate, the cursor moves by its encoded length.  Insens: content is the span
   (old cursor, new cursor), i.e. the actual spelling, equal to the pattern up to ASCII case.  NEWLINE: the consumed
   text is the spelling of the stored kind (and CR is stored only if "\r\n" was not there).  PEEK / Skip / SkipChar:
   span = (old cursor, new cursor).  POP: the stored (popped) span has the same text as the text consumed. *)
Theorem C17_leaf_text : forall E n inh pos stk p t stk',
  let I := e_inp E in
  (aparse E (S n) inh TAny pos stk = AOk (p, t) stk' ->
     char_leaf_spec E (fun _ => true) CkAny pos stk p t stk') /\
  (forall lo hi, aparse E (S n) inh (TRange lo hi) pos stk = AOk (p, t) stk' ->
     char_leaf_spec E (fun c => (lo <=? c)%N && (c <=? hi)%N) CkRange pos stk p t stk') /\
  (forall q, aparse E (S n) inh (TCharBy q) pos stk = AOk (p, t) stk' ->
     char_leaf_spec E (e_pred E q) (CkProp q) pos stk p t stk') /\
  (forall s, aparse E (S n) inh (TInsens s) pos stk = AOk (p, t) stk' ->
     exists txt, t = NInsens pos p /\ stk' = stk /\ p = pos + length s /\
       leaf_text (parent I) t = XText pos p (MOk txt) /\
       consumed I pos p = MOk txt /\ eq_ignore_case txt s = true) /\
  (aparse E (S n) inh TNewline pos stk = AOk (p, t) stk' ->
     exists k, t = NNewline k /\ stk' = stk /\ leaf_text (parent I) t = XKind k /\
       consumed I pos p = MOk (nl_text k) /\ p = pos + length (nl_text k) /\
       (k = NlCR -> consumed I pos (pos + 2) <> MOk (nl_text NlCRLF))) /\
  (aparse E (S n) inh TPeek pos stk = AOk (p, t) stk' ->
     exists sp rest_stk txt, t = NSpanned KPeek pos p /\ stk = sp :: rest_stk /\ stk' = stk /\
       span_str I sp = MOk txt /\ consumed I pos p = MOk txt /\
       leaf_text (parent I) t = XText pos p (slice_checked (parent I) pos p)) /\
  (aparse E (S n) inh TPop pos stk = AOk (p, t) stk' ->
     exists sp txt, t = NSpanned KPop (fst sp) (snd sp) /\ stk = sp :: stk' /\
       leaf_text (parent I) t = XText (fst sp) (snd sp) (MOk txt) /\
       consumed I pos p = MOk txt /\ p = pos + length txt) /\
  (forall ss, aparse E (S n) inh (TSkipUntil ss) pos stk = AOk (p, t) stk' ->
     t = NSpanned KSkip pos p /\ stk' = stk /\ pos <= p /\
     (exists found, i_skip_until I true ss pos = (found, p)) /\
     leaf_text (parent I) t = XText pos p (slice_checked (parent I) pos p)) /\
  (forall k, aparse E (S n) inh (TSkipChars k) pos stk = AOk (p, t) stk' ->
     t = NSpanned KSkipChar pos p /\ stk' = stk /\ pos <= p /\
     i_skip I k pos = MOk (Some p) /\
     leaf_text (parent I) t = XText pos p (slice_checked (parent I) pos p)).
Proof. exact aparse_leaf_text. Qed.
Print Assumptions C17_leaf_text.

(* the definition used above, spelled out *)
Theorem C17_char_leaf_spec_unfold : forall E pred kind pos stk p t stk',
  char_leaf_spec E pred kind pos stk p t stk' <->
  exists c rest l, t = NChar kind c /\ stk' = stk /\
    i_get (e_inp E) pos = MOk rest /\ dec1 rest = Some (c, l) /\ p = pos + l /\ pred c = true /\
    i_match_char (e_inp E) pred pos = MOk (Some (p, c)) /\
    leaf_text (parent (e_inp E)) t = XChar c.
Proof. exact char_leaf_spec_unfold. Qed.
Print Assumptions C17_char_leaf_spec_unfold.

Theorem C17_newline_kind_determined : forall k1 k2, nl_text k1 = nl_text k2 -> k1 = k2.
Proof. exact nl_text_inj. Qed.
Print Assumptions C17_newline_kind_determined.

(* a successful run of the real parse path (repaired code) returns the value of the reference run (C05), so every
   statement about leaves above holds of the nodes the real parser stores *)
Theorem C17_leaf_impl : forall E, fixed E -> forall n inh e pos st gs p t st',
  SInv (stk st) gs ->
  aparse E n inh e pos (cache (stk st)) <> APanic ->
  tparse E n inh e pos st = Ok (p, t) st' ->
  aparse E n inh e pos (cache (stk st)) = AOk (p, t) (cache (stk st')).
Proof. exact tparse_leaf_is_aparse. Qed.
Print Assumptions C17_leaf_impl.
