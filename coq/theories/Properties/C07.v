(* C07 -- atomicity is inherited and implicit skipping applied exactly as in pest. Statements only. *)
From Coq Require Import List NArith.
From PT Require Import Model.Base Model.Stack Model.Texpr Model.Sem Model.Aparse Model.Ast Model.Translate Model.PegSpec Model.GenEnv.
From PT Require Import Proofs.GenWitness Proofs.SkipPositions Proofs.RepSpec Proofs.PegSimBase Proofs.PegSimFwd.
Import ListNotations.

(* generator: every sequence and repetition of a rule's translated body carries the skip token of the DEFINING
   rule (0 for @ and $, 1 for !, INHERITED for normal and silent rules) ... *)
Theorem C07_skip_token : forall eoi k e, skips_are k (tr eoi k e).
Proof. exact tr_skips. Qed.
Print Assumptions C07_skip_token.

(* ... and so does every reference to a defined rule *)
Theorem C07_rule_reference : forall eoi k r, tr eoi k (OIdent (IdRule r)) = TRule r k.
Proof. exact tr_ident_rule. Qed.
Print Assumptions C07_rule_reference.

(* inheritance: what the skip flag of a rule body resolves to, by the kind of its rule: atomic and compound-atomic
   switch skipping off, non-atomic switches it on, normal and silent rules take the caller's value *)
Theorem C07_inheritance : forall kind inh,
  resolve (skip_of_kind kind) inh =
  match kind with
  | KAtomic | KCompound => false
  | KNonAtomic => true
  | KNormal | KSilent => inh
  end.
Proof. exact resolve_by_kind. Qed.
Print Assumptions C07_inheritance.

(* inside the implicit skip, WHITESPACE and COMMENT are matched with SKIP = 0 *)
Theorem C07_skip_rules_atomic : forall ws cm e,
  skip_of ws cm = SkipRep e ->
  (exists w, e = TRule w SkOff) \/ (exists w c, e = TChoice [TRule w SkOff; TRule c SkOff]).
Proof. exact skip_rules_called_atomically. Qed.
Print Assumptions C07_skip_rules_atomic.

(* runtime: no skip before the first element / iteration 0; none at all when the flag is off *)
Theorem C07_no_skip_at_start : forall E P lf b pos st,
  pre_skip_p E P lf b false pos st = Ok (pos, if b then [skip_default E] else []) st.
Proof. exact no_skip_at_start. Qed.
Print Assumptions C07_no_skip_at_start.

Theorem C07_no_skip_when_off : forall E P lf doit pos st,
  pre_skip_p E P lf false doit pos st = Ok (pos, []) st.
Proof. exact no_skip_when_off. Qed.
Print Assumptions C07_no_skip_when_off.

(* never at the start or end of a rule: the rule's span is exactly what its body consumed *)
Theorem C07_no_skip_at_rule_edges : forall E fuel inh r arg pos st p t st',
  tparse E (S fuel) inh (TRule r arg) pos st = Ok (p, t) st' ->
  match t with
  | NRule r' _ (Some (s, e)) => r' = r /\ s = pos /\ e = p
  | NRule r' _ None => r' = r /\ r_emis (e_rules E r) = EmExpr
  | _ => False
  end.
Proof. exact rule_body_starts_at_rule_start. Qed.
Print Assumptions C07_no_skip_at_rule_edges.

(* a skip made before an iteration that then fails is given back: the repetition ends at the cursor after the
   last matched unit (C19_rep_bounds, restated) *)
Theorem C07_rep_gives_back : forall E fuel inh k mn mx e pos stk,
  let b := resolve k inh in
  match aparse E (S fuel) inh (TRep k mn mx e) pos stk with
  | AOk (pos', t) stk' =>
      exists its, t = NRep (bounded mx) its /\
                  units E (aparse E fuel) fuel b inh e 0 pos stk its pos' stk' /\
                  mn <= length its /\
                  (forall m, mx = Some m -> length its <= m) /\
                  stopped E (aparse E fuel) fuel b inh e mx (length its) pos' stk'
  | AFail =>
      exists its pos' stk', units E (aparse E fuel) fuel b inh e 0 pos stk its pos' stk' /\
                  length its < mn /\
                  stopped E (aparse E fuel) fuel b inh e mx (length its) pos' stk'
  | _ => True
  end.
Proof. exact aparse_rep_bounds. Qed.
Print Assumptions C07_rep_gives_back.

(* "exactly as in pest": the invariant that carries the whole comparison with pest's DYNAMIC atomicity.  [ctx e k inh at_]
   says the typed skip flag (the const argument k resolved against the inherited value) is on exactly when pest's
   atomicity state is NonAtomic (or the expression cannot tell).  For every expression of every rule of a grammar whose
   WHITESPACE / COMMENT cannot tell ([ws_ok]), in every such related context, whatever pest's PEG semantics answers
   (Model/PegSpec.v: skips between sequence elements and between repetition iterations only in NonAtomic state, @ and $
   switch it off for everything reached through normal and silent rules, ! switches it back on, WHITESPACE / COMMENT forced
   atomic) the translated type answers too, with the same offset and stack -- the relation is re-established at every rule
   call by the generator's choice of 0 / 1 / INHERITED (call_ctx). *)
Theorem C07_atomicity_simulation : forall g eoi I pred,
  ws_ok g = true -> eoi_fresh eoi g = true -> forall n,
  forall at_ la e pos stk k inh,
  ctx e k inh at_ -> refs_ok eoi g e = true ->
  exists m, forall m', m <= m' ->
    fsim (peg (penv_of eoi g I pred) n at_ la e pos stk) (aparse (env_of eoi g I pred) m' inh (tr eoi k e) pos stk).
Proof. exact (fun g eoi I pred Hws Heoi n => proj1 (peg_fwd g eoi I pred Hws Heoi n)). Qed.
Print Assumptions C07_atomicity_simulation.

(* known finding (class WsNonAtomic): referenced explicitly, WHITESPACE is NOT matched atomically *)
Theorem C07_refuted_ws :
  (match tparse (env_of 0 wg (inp_of_str w_input) no_pred) 30 true (TRule 1 SkOn) 0 st0 with
   | Ok (p, _) _ => p = 4 | _ => False end) /\
  peg_entry (penv_of 0 wg (inp_of_str w_input) no_pred) 30 1 = PFail /\
  ws_ok wg = false.
Proof. exact ws_not_forced_atomic. Qed.
Print Assumptions C07_refuted_ws.

(* the never-failing entry points of the MIN = 0 repetitions (`NeverFailedTypedNode::parse_with` / `check_with`; Model/SkipN.v, any
   skip count, any skip node) place their skips exactly where the fallible entry points do -- they compute the same offset and the
   same value, whose unit chain (C19_skipn_rep_match_iff) has the first element WITHOUT skips and every later one after exactly k skips *)
From PT Require Import Model.SkipN Proofs.SkipNProofs Proofs.SkipNEntry.
Theorem C07_never_failing_entry_points : forall f s n pos, skip_shape n = true ->
  sparse_nf f s n pos = sparse f s n pos /\ scheck_nf f s n pos = scheck f s n pos /\
  sparse_nf f s n pos <> SFailed /\ scheck_nf f s n pos <> SFailed /\
  scheck_nf f s n pos = pos_of (sparse_nf f s n pos).
Proof. exact nf_entry_points. Qed.
Print Assumptions C07_never_failing_entry_points.
