(* C05 -- a failed alternative, optional, iteration or lookahead leaves no trace.
   Statements only; proofs are in Proofs/Refine.v, Proofs/RefineCor.v, Proofs/StackInv.v. *)
From Coq Require Import List NArith.
From PT Require Import Model.Base Model.Stack Model.Texpr Model.Sem Model.Aparse.
From PT Require Import Proofs.StackInv Proofs.Refine Proofs.RefineCor Proofs.BoundaryOps Proofs.Boundary Proofs.RefinePanic.
Import ListNotations.

(* Refinement. [aparse] is the interpreter in which a failed alternative / optional body / iteration /
   predicate operand simply continues from the position and the (immutable) stack value that held before
   it was tried, and predicates always continue from the old stack. For the repaired code
   ([fixed E]: restore_on_none by content, skip_until cut at end(), MIN re-tested after the loop), for
   every expression, cursor, fuel, and every concrete pest::Stack satisfying its representation invariant
   w.r.t. the enclosing open snapshots [gs]: the real parse path returns the same verdict, the same
   cursor, the same tree and the same stack *content* as [aparse] does from that content, and keeps the
   invariant -- whether it succeeds or fails. (The reference run may not panic: C09.) *)
Theorem C05_no_trace : forall E, fixed E -> forall fuel inh e pos st gs,
  SInv (stk st) gs ->
  aparse E fuel inh e pos (cache (stk st)) <> APanic ->
  rel gs (tparse E fuel inh e pos st) (aparse E fuel inh e pos (cache (stk st))).
Proof. exact tparse_refines_aparse. Qed.
Print Assumptions C05_no_trace.

(* The premise about the reference run can be dropped for everything a Rust caller can build (valid UTF-8 input and
   literals, cursor and stack spans on character boundaries: [env_ok], [lits_ok], [pre] of C09): there neither run panics. *)
Theorem C05_no_trace_good : forall E, fixed E -> env_ok E -> forall fuel inh e pos st gs,
  lits_ok e -> pre (e_inp E) pos st gs ->
  rel gs (tparse E fuel inh e pos st) (aparse E fuel inh e pos (cache (stk st))).
Proof. exact tparse_refines_aparse_good. Qed.
Print Assumptions C05_no_trace_good.

Theorem C05_entry_good : forall E fuel r, fixed E -> env_ok E ->
  rel [] (try_parse_partial E fuel r) (aparse E fuel true (TRule r SkOn) (i_start (e_inp E)) []).
Proof. exact try_parse_partial_refines'. Qed.
Print Assumptions C05_entry_good.

(* without those hypotheses the premise cannot be moved to the real path: the reference interpreter follows the parse
   path everywhere and so trips debug assertions (cursor off a boundary) that the check path, used under `!` and in
   span-only rules, does not *)
Theorem C05_panic_premise_needed : exists E fuel inh e pos st gs,
  fixed E /\ SInv (stk st) gs /\ tparse E fuel inh e pos st <> Panic /\
  ~ rel gs (tparse E fuel inh e pos st) (aparse E fuel inh e pos (cache (stk st))).
Proof. exact tparse_refines_aparse'_refuted. Qed.
Print Assumptions C05_panic_premise_needed.

(* every entry point starts from an empty stack, which satisfies the invariant *)
Theorem C05_entry : forall E fuel r, fixed E ->
  aparse E fuel true (TRule r SkOn) (i_start (e_inp E)) [] <> APanic ->
  rel [] (try_parse_partial E fuel r) (aparse E fuel true (TRule r SkOn) (i_start (e_inp E)) []).
Proof. exact try_parse_partial_refines. Qed.
Print Assumptions C05_entry.

(* predicates restore the stack even when their operand matches *)
Theorem C05_pred_restores : forall E, fixed E -> forall fuel inh e pos st gs p t st',
  SInv (stk st) gs ->
  aparse E fuel inh (TPos e) pos (cache (stk st)) <> APanic ->
  tparse E fuel inh (TPos e) pos st = Ok (p, t) st' ->
  p = pos /\ cache (stk st') = cache (stk st) /\ SInv (stk st') gs.
Proof. exact pred_restores. Qed.
Print Assumptions C05_pred_restores.

(* the finding repaired by "fix: restore_on_none restores the stack by content": with the original
   snapshot/clear_snapshot/restore discipline the statement is false *)
Theorem C05_refuted_before_fix :
  is_fail (tparse (w_env false [97; 97]%N) 20 true w_expr 0 st0) = true /\
  is_aok (aparse (w_env false [97; 97]%N) 20 true w_expr 0 []) = true.
Proof. exact unrepaired_loses_pop. Qed.
Print Assumptions C05_refuted_before_fix.
