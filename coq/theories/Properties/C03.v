(* C03 -- check-only entry points give the same verdict, offset and error as parsing.
   Statements only; every proof is `exact` of a lemma proved in Proofs/CheckParse.v. *)
From Coq Require Import List NArith.
From PT Require Import Model.Base Model.Stack Model.Texpr Model.Sem Model.Tracker Model.Report Proofs.CheckParse Proofs.SameReport.

(* For every environment (grammar, skip type, input of any of the three forms), every expression,
   every starting cursor / stack / tracker trace and every amount of fuel: the check path returns the
   result of the parse path with the tree erased -- same verdict, same cursor, same stack and the same
   tracker event trace (hence the same error report). The parse path may not panic (C09 shows it does
   not on valid UTF-8); running out of fuel is preserved, not hidden. *)
Theorem C03_check_is_parse : forall E fuel inh e pos st,
  tparse E fuel inh e pos st <> Panic ->
  tcheck E fuel inh e pos st = erase (tparse E fuel inh e pos st).
Proof. exact check_is_parse. Qed.
Print Assumptions C03_check_is_parse.

(* the partial entry points of a rule struct *)
Theorem C03_partial_entry : forall E fuel r,
  try_parse_partial E fuel r <> Panic ->
  try_check_partial E fuel r = erase (try_parse_partial E fuel r).
Proof. exact try_check_partial_is_parse. Qed.
Print Assumptions C03_partial_entry.

(* the full entry points (trailing skip and EOI attempt included) *)
Theorem C03_full_entry : forall E fuel r,
  try_parse E fuel r <> Panic ->
  try_check E fuel r = erase_all (try_parse E fuel r).
Proof. exact try_check_is_parse. Qed.
Print Assumptions C03_full_entry.

(* "... and on failure produce the identical error report": a rejected full parse and the full check leave the same state, hence
   the same tracker (position, expected / unexpected lists per enclosing rule, special errors) and the same rendered report *)
Theorem C03_same_report : forall E fuel r st,
  try_parse E fuel r = Fail st ->
  try_check E fuel r = Fail st /\
  forall st', try_check E fuel r = Fail st' ->
    run_tracker (i_start (e_inp E)) (tr st') = run_tracker (i_start (e_inp E)) (tr st) /\
    report (run_tracker (i_start (e_inp E)) (tr st')) = report (run_tracker (i_start (e_inp E)) (tr st)).
Proof. exact full_same_report. Qed.
Print Assumptions C03_same_report.

Theorem C03_check_fail_parse_fail : forall E fuel r st,
  try_parse E fuel r <> Panic -> try_check E fuel r = Fail st -> try_parse E fuel r = Fail st.
Proof. exact full_check_fail_parse_fail. Qed.
Print Assumptions C03_check_fail_parse_fail.
