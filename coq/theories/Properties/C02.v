(* C02 -- the pair tree equals pest's, minus the documented pruning under atomic rules. Statements only. *)
From Coq Require Import List NArith.
From PT Require Import Model.Base Model.Stack Model.Texpr Model.Sem Model.Tok Model.Tokens Model.Ast Model.Translate Model.PegSpec Model.GenEnv.
From PT Require Import Proofs.GenWitness Proofs.SkipPositions.
Import ListNotations.

Theorem C02_lookahead_no_tokens : forall E t, tokens E (NPos t) = [] /\ tokens E NNeg = [].
Proof. exact lookahead_no_tokens. Qed.
Print Assumptions C02_lookahead_no_tokens.

Theorem C02_silent_transparent : forall E r c,
  r_emis (e_rules E r) = EmExpr -> tokens E (NRule r (Some c) None) = tokens E c.
Proof. exact silent_transparent. Qed.
Print Assumptions C02_silent_transparent.

(* the documented pruning: atomic and compound-atomic rules report no children *)
Theorem C02_atomic_pruned : forall E r c s e,
  r_emis (e_rules E r) <> EmExpr -> r_atom (e_rules E r) = Some true ->
  tokens E (NRule r c (Some (s, e))) = [Tok r s e []].
Proof. exact atomic_rules_have_no_children. Qed.
Print Assumptions C02_atomic_pruned.

Theorem C02_rule_token : forall E r c s e,
  r_emis (e_rules E r) <> EmExpr -> r_atom (e_rules E r) <> Some true ->
  tokens E (NRule r (Some c) (Some (s, e))) = [Tok r s e (tokens E c)].
Proof. exact rule_token. Qed.
Print Assumptions C02_rule_token.

Theorem C02_skipped_before_matched : forall E sk m rest,
  tokens E (NSeq ((sk, m) :: rest)) = flat_map (tokens E) sk ++ tokens E m ++ tokens E (NSeq rest).
Proof. exact skipped_before_matched. Qed.
Print Assumptions C02_skipped_before_matched.

(* known finding (class WsNonAtomic, F8): a non-silent WHITESPACE keeps the tokens of the rules it uses *)
Theorem C02_refuted_ws :
  (match tparse (env_of 0 wg2 (inp_of_str w_input2) no_pred) 30 true (TRule 3 SkOn) 0 st0 with
   | Ok (_, t) _ => tokens (env_of 0 wg2 (inp_of_str w_input2) no_pred) t =
                    [Tok 3 0 3 [Tok 1 1 2 [Tok 2 1 2 []]]]
   | _ => False end) /\
  peg_entry (penv_of 0 wg2 (inp_of_str w_input2) no_pred) 30 3 = POk 3 [] [Tok 3 0 3 [Tok 1 1 2 []]].
Proof. exact ws_inner_tokens_kept. Qed.
Print Assumptions C02_refuted_ws.
