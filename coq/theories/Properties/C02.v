(* C02 -- the pair tree equals pest's, minus the documented pruning under atomic rules. Statements only. *)
From Coq Require Import List NArith.
From PT Require Import Model.Base Model.Stack Model.Texpr Model.Sem Model.Tok Model.Tokens Model.Ast Model.Translate Model.PegSpec Model.GenEnv.
From PT Require Import Proofs.GenWitness Proofs.SkipPositions Proofs.PegSimBase Proofs.BoundaryOps Proofs.Boundary Proofs.PegMain2.
From PT Require Import Proofs.PegSimTokBase Proofs.PegSimTok Proofs.TokMain.
Import ListNotations.

(* Main theorem.  [prune g] removes every descendant of a token whose rule is declared atomic (@) or compound-atomic ($).
   For every grammar whose WHITESPACE / COMMENT cannot tell the inherited atomicity ([ws_ok]) and reach, outside
   lookahead, only rules that yield the same tokens in pest's forced-atomic skip context ([tok_ok]: undefined, `!`, `$`
   or quiet silent rules -- the complement of known finding F8), every callable rule, valid UTF-8 input and literals:
   whenever the PEG spec of pest accepts with token tree [toks] and the REAL prefix parse returns a tree t, it stops at the
   same offset with the same stack, and the Pair tree it exposes is exactly pest's tree after that pruning
   (rule, start, end, children in order; lookahead contributes nothing, silent rules are transparent, EOI and
   non-silent WHITESPACE / COMMENT tokens sit where pest puts them). *)
Theorem C02_tokens : forall g eoi I pred,
  ws_ok g = true -> eoi_fresh eoi g = true -> tok_ok eoi g = true -> good_inp I -> glits_ok g ->
  forall r, callable eoi g r = true -> forall n pos stk toks,
  peg_entry (penv_of eoi g I pred) n r = POk pos stk toks ->
  forall m pos' t st',
  try_parse_partial (env_of eoi g I pred) m r = Ok (pos', t) st' ->
  pos' = pos /\ cache (Sem.stk st') = stk /\ tokens (env_of eoi g I pred) t = map (prune g) toks.
Proof. exact typed_pair_tree_is_pest. Qed.
Print Assumptions C02_tokens.

(* non-vacuity: main = { "a" ~ comp ~ &inner ~ inner ~ EOI }  comp = ${ inner ~ inner }  inner = { "x" }  with a
   NON-silent WHITESPACE = { " " } on "a xx  x ": pest's tree, the typed tree, and typed = prune pest *)
Theorem C02_example :
  ws_ok tx_g = true /\ eoi_fresh 0 tx_g = true /\ tok_ok 0 tx_g = true /\ callable 0 tx_g 1 = true /\
  tok_pair tx_g tx_in 1 40 =
    Some ([Tok 1 0 8 [Tok 4 1 2 []; Tok 2 2 4 [Tok 3 2 3 []; Tok 3 3 4 []]; Tok 4 4 5 []; Tok 4 5 6 [];
                      Tok 3 6 7 []; Tok 4 7 8 []; Tok 0 8 8 []]],
          [Tok 1 0 8 [Tok 4 1 2 []; Tok 2 2 4 []; Tok 4 4 5 []; Tok 4 5 6 [];
                      Tok 3 6 7 []; Tok 4 7 8 []; Tok 0 8 8 []]]) /\
  match tok_pair tx_g tx_in 1 40 with
  | Some (pest, typed) => typed = map (prune tx_g) pest
  | None => False
  end.
Proof. exact tok_example. Qed.
Print Assumptions C02_example.

(* [tok_ok] is needed: WHITESPACE = { inner } passes every other premise and the conclusion fails (known finding F8) *)
Theorem C02_tok_ok_needed :
  ws_ok wg2 = true /\ eoi_fresh 0 wg2 = true /\ callable 0 wg2 3 = true /\ tok_ok 0 wg2 = false /\
  tok_pair wg2 w_input2 3 30 = Some ([Tok 3 0 3 [Tok 1 1 2 []]], [Tok 3 0 3 [Tok 1 1 2 [Tok 2 1 2 []]]]) /\
  map (prune wg2) [Tok 3 0 3 [Tok 1 1 2 []]] <> [Tok 3 0 3 [Tok 1 1 2 [Tok 2 1 2 []]]].
Proof. exact tok_ok_needed. Qed.
Print Assumptions C02_tok_ok_needed.

Theorem C02_lookahead_no_tokens : forall E t, tokens E (NPos t) = [] /\ tokens E NNeg = [].
Proof. exact lookahead_no_tokens. Qed.
Print Assumptions C02_lookahead_no_tokens.

Theorem C02_silent_transparent : forall E r c,
  r_emis (e_rules E r) = EmExpr -> tokens E (NRule r (Some c) None) = tokens E c.
Proof. exact silent_transparent. Qed.
Print Assumptions C02_silent_transparent.

(* the documented pruning: atomic and compound-atomic rules report no children *)
Theorem C02_atomic_pruned : forall E r c s e,
  r_emis (e_rules E r) <> EmExpr -> r_atom (e_rules E r) = Some true ->
  tokens E (NRule r c (Some (s, e))) = [Tok r s e []].
Proof. exact atomic_rules_have_no_children. Qed.
Print Assumptions C02_atomic_pruned.

Theorem C02_rule_token : forall E r c s e,
  r_emis (e_rules E r) <> EmExpr -> r_atom (e_rules E r) <> Some true ->
  tokens E (NRule r (Some c) (Some (s, e))) = [Tok r s e (tokens E c)].
Proof. exact rule_token. Qed.
Print Assumptions C02_rule_token.

Theorem C02_skipped_before_matched : forall E sk m rest,
  tokens E (NSeq ((sk, m) :: rest)) = flat_map (tokens E) sk ++ tokens E m ++ tokens E (NSeq rest).
Proof. exact skipped_before_matched. Qed.
Print Assumptions C02_skipped_before_matched.

(* known finding (class WsNonAtomic, F8): a non-silent WHITESPACE keeps the tokens of the rules it uses *)
Theorem C02_refuted_ws :
  (match tparse (env_of 0 wg2 (inp_of_str w_input2) no_pred) 30 true (TRule 3 SkOn) 0 st0 with
   | Ok (_, t) _ => tokens (env_of 0 wg2 (inp_of_str w_input2) no_pred) t =
                    [Tok 3 0 3 [Tok 1 1 2 [Tok 2 1 2 []]]]
   | _ => False end) /\
  peg_entry (penv_of 0 wg2 (inp_of_str w_input2) no_pred) 30 3 = POk 3 [] [Tok 3 0 3 [Tok 1 1 2 []]].
Proof. exact ws_inner_tokens_kept. Qed.
Print Assumptions C02_refuted_ws.
