(* Representation invariant of pest::Stack under properly nested snapshot ... restore pairs,
   relative to the ghost list of the cache contents saved by the open snapshots. *)
From Coq Require Import List Arith Bool Lia.
From PT Require Import Model.Base Model.Stack.
Import ListNotations.

(* [gs]: for every open snapshot (innermost first) the cache content at the time it was taken *)
Fixpoint SInvL (c p : list span) (ls : list (nat * nat)) (gs : list (list span)) : Prop :=
  match ls, gs with
  | [], [] => True
  | (l, r) :: ls', g :: gs' =>
      l = length g /\ r <= l /\ r <= length c /\
      keep_bottom r c = keep_bottom r g /\
      exists p', p = rev (firstn (l - r) g) ++ p' /\ SInvL g p' ls' gs'
  | _, _ => False
  end.

Definition SInv (s : stack) (gs : list (list span)) : Prop :=
  SInvL (cache s) (popped s) (lengths s) gs.

Lemma sinv_new : SInv stack_new [].
Proof. exact I. Qed.

Lemma keep_bottom_cons {A} r (x : A) c : r <= length c -> keep_bottom r (x :: c) = keep_bottom r c.
Proof.
  intros H. unfold keep_bottom. cbn [length].
  replace (S (length c) - r) with (S (length c - r)) by lia. reflexivity.
Qed.

Lemma keep_bottom_all {A} (c : list A) : keep_bottom (length c) c = c.
Proof. unfold keep_bottom. rewrite Nat.sub_diag. reflexivity. Qed.

Lemma keep_bottom_length {A} r (c : list A) : r <= length c -> length (keep_bottom r c) = r.
Proof. intros H. unfold keep_bottom. rewrite skipn_length. lia. Qed.

Lemma sinv_push x s gs : SInv s gs -> SInv (s_push x s) gs.
Proof.
  unfold SInv, s_push. cbn [cache popped lengths].
  destruct (lengths s) as [|[l r] ls]; destruct gs as [|g gs]; cbn [SInvL]; try tauto.
  intros (Hl & Hrl & Hrc & Hk & p' & Hp & Hi).
  repeat split; try assumption.
  - cbn [length]. lia.
  - rewrite keep_bottom_cons by assumption. assumption.
  - exists p'. split; assumption.
Qed.

(* the element a pop removes when it reaches into the snapshot's content *)
Lemma firstn_S_rev {A} (g : list A) k x rest :
  skipn k g = x :: rest -> rev (firstn (S k) g) = x :: rev (firstn k g).
Proof.
  revert g. induction k as [|k IH]; intros g H.
  - destruct g as [|y g]; cbn in H; [discriminate|]. inversion H; subst. reflexivity.
  - destruct g as [|y g]; cbn [skipn] in H; [discriminate|].
    change (firstn (S (S k)) (y :: g)) with (y :: firstn (S k) g).
    change (firstn (S k) (y :: g)) with (y :: firstn k g).
    cbn [rev]. rewrite (IH g H). reflexivity.
Qed.

Lemma skipn_tail {A} k (g : list A) x rest : skipn k g = x :: rest -> skipn (S k) g = rest.
Proof.
  revert g. induction k as [|k IH]; intros g H.
  - destruct g; cbn in *; [discriminate|]. inversion H; reflexivity.
  - destruct g as [|y g]; cbn [skipn] in *; [discriminate|]. apply IH. assumption.
Qed.

Lemma sinv_pop s gs :
  SInv s gs ->
  match cache s with
  | [] => s_pop s = (None, s)
  | x :: c' => exists s', s_pop s = (Some x, s') /\ cache s' = c' /\ SInv s' gs
  end.
Proof.
  unfold SInv, s_pop. destruct s as [c p ls]. cbn [cache popped lengths].
  destruct c as [|x c']; [reflexivity|].
  destruct ls as [|[l r] ls]; destruct gs as [|g gs]; cbn [SInvL]; try tauto.
  - intros _. eexists. split; [reflexivity|]. cbn. tauto.
  - intros (Hl & Hrl & Hrc & Hk & p' & Hp & Hi).
    destruct (Nat.eqb_spec (length (x :: c')) r) as [He|Hne].
    + (* the pop reaches into the content saved by the innermost snapshot *)
      eexists. split; [reflexivity|]. cbn [cache popped lengths SInvL]. split; [reflexivity|].
      cbn [length] in He.
      assert (Hsk : skipn (l - r) g = x :: c').
      { unfold keep_bottom in Hk. cbn [length] in Hk. rewrite <- Hl in Hk.
        replace (S (length c') - r) with 0 in Hk by lia. cbn [skipn] in Hk. symmetry. exact Hk. }
      repeat split; try lia.
      * unfold keep_bottom. rewrite <- Hl.
        replace (length c' - (r - 1)) with 0 by lia. cbn [skipn].
        replace (l - (r - 1)) with (S (l - r)) by lia.
        symmetry. eapply skipn_tail. eassumption.
      * exists p'. split; [|assumption].
        replace (l - (r - 1)) with (S (l - r)) by lia.
        rewrite (firstn_S_rev g (l - r) x c' Hsk). rewrite Hp. reflexivity.
    + eexists. split; [reflexivity|]. cbn [cache popped lengths SInvL]. split; [reflexivity|].
      cbn [length] in *.
      repeat split; try lia.
      * rewrite keep_bottom_cons in Hk by lia. assumption.
      * exists p'. split; assumption.
Qed.

Lemma sinv_snapshot s gs : SInv s gs -> SInv (s_snapshot s) (cache s :: gs).
Proof.
  unfold SInv, s_snapshot, s_len. cbn [cache popped lengths SInvL]. intros H.
  repeat split; try lia.
  exists (popped s). rewrite Nat.sub_diag. cbn. split; [reflexivity|assumption].
Qed.

Lemma cache_snapshot s : cache (s_snapshot s) = cache s.
Proof. reflexivity. Qed.

Lemma sinv_restore s g gs :
  SInv s (g :: gs) -> exists s', s_restore s = MOk s' /\ cache s' = g /\ SInv s' gs.
Proof.
  unfold SInv, s_restore. destruct s as [c p ls]. cbn [cache popped lengths].
  destruct ls as [|[l r] ls]; cbn [SInvL]; [tauto|].
  intros (Hl & Hrl & Hrc & Hk & p' & Hp & Hi).
  set (c1 := if r <? length c then keep_bottom r c else c).
  assert (Hc1 : c1 = keep_bottom r g).
  { unfold c1. destruct (Nat.ltb_spec r (length c)) as [Hlt|Hge]; [assumption|].
    assert (r = length c) by lia. subst r. rewrite keep_bottom_all in Hk. assumption. }
  assert (Hfl : length (firstn (l - r) g) = l - r) by (rewrite firstn_length; lia).
  destruct (Nat.ltb_spec r l) as [Hlt|Hge].
  - assert (Hle : (l - r <=? length p) = true).
    { apply Nat.leb_le. rewrite Hp, app_length, rev_length, Hfl. lia. }
    rewrite Hle. eexists. split; [reflexivity|]. cbn [cache popped lengths].
    rewrite Hp.
    rewrite firstn_app, rev_length, Hfl, Nat.sub_diag. cbn [firstn]. rewrite app_nil_r.
    rewrite firstn_all2 by (rewrite rev_length; lia). rewrite rev_involutive.
    rewrite skipn_app, rev_length, Hfl, Nat.sub_diag. cbn [skipn].
    rewrite skipn_all2 by (rewrite rev_length; lia). cbn [app].
    assert (Hg : firstn (l - r) g ++ c1 = g).
    { rewrite Hc1. unfold keep_bottom. rewrite <- Hl. apply firstn_skipn. }
    unfold SInv. cbn [cache popped lengths]. rewrite Hg. split; [reflexivity|assumption].
  - assert (r = l) by lia. subst r.
    eexists. split; [reflexivity|]. cbn [cache popped lengths].
    rewrite Nat.sub_diag in Hp. cbn in Hp. subst p.
    assert (Hg : c1 = g) by (rewrite Hc1, Hl; apply keep_bottom_all).
    unfold SInv. cbn [cache popped lengths]. rewrite Hg. split; [reflexivity|assumption].
Qed.

(* `while stack.pop().is_some() {}` empties the cache and keeps the invariant *)
Lemma sinv_pop_all_fuel n : forall s gs,
  SInv s gs -> length (cache s) <= n ->
  SInv (s_pop_all_fuel n s) gs /\ cache (s_pop_all_fuel n s) = [].
Proof.
  induction n as [|n IH]; intros s gs Hi Hn.
  - cbn. split; [assumption|]. destruct (cache s); [reflexivity|cbn in Hn; lia].
  - cbn [s_pop_all_fuel]. pose proof (sinv_pop s gs Hi) as Hp.
    destruct (cache s) as [|x c'] eqn:Hc.
    + rewrite Hp. split; assumption.
    + destruct Hp as (s' & Hs & Hc' & Hi'). rewrite Hs.
      apply IH; [assumption|]. rewrite Hc'. cbn in Hn. lia.
Qed.

Lemma sinv_pop_all s gs : SInv s gs -> SInv (s_pop_all s) gs /\ cache (s_pop_all s) = [].
Proof. intros H. apply sinv_pop_all_fuel; [assumption|]. unfold s_len. lia. Qed.

Lemma sinv_push_list l : forall s gs,
  SInv s gs ->
  SInv (fold_left (fun acc x => s_push x acc) l s) gs /\
  cache (fold_left (fun acc x => s_push x acc) l s) = rev l ++ cache s.
Proof.
  induction l as [|x l IH]; intros s gs Hi; cbn [fold_left].
  - split; [assumption|reflexivity].
  - destruct (IH (s_push x s) gs (sinv_push x s gs Hi)) as [H1 H2]. split; [assumption|].
    rewrite H2. cbn [s_push cache rev]. rewrite <- app_assoc. reflexivity.
Qed.

Lemma sinv_push_all saved s gs :
  SInv s gs -> SInv (s_push_all saved s) gs /\ cache (s_push_all saved s) = saved ++ cache s.
Proof.
  intros Hi. unfold s_push_all. destruct (sinv_push_list (rev saved) s gs Hi) as [H1 H2].
  split; [assumption|]. rewrite H2, rev_involutive. reflexivity.
Qed.

(* what the repaired restore_on_none does on failure: the saved content is back *)
Lemma sinv_reinstall saved s gs :
  SInv s gs ->
  SInv (s_push_all saved (s_pop_all s)) gs /\ cache (s_push_all saved (s_pop_all s)) = saved.
Proof.
  intros Hi. destruct (sinv_pop_all s gs Hi) as [H1 H2].
  destruct (sinv_push_all saved _ gs H1) as [H3 H4]. split; [assumption|].
  rewrite H4, H2, app_nil_r. reflexivity.
Qed.
