(* C03, last clause: "on failure produce the identical error report".  The check entry points leave exactly the state the parse
   entry points leave (CheckParse.v), hence the same tracker and the same rendered report (Model/Report.v). *)
From Coq Require Import List NArith.
From PT Require Import Model.Base Model.Stack Model.Texpr Model.Sem Model.Tracker Model.Report Proofs.CheckParse.
Import ListNotations.

Theorem full_same_report E fuel r st :
  try_parse E fuel r = Fail st ->
  try_check E fuel r = Fail st /\
  forall st', try_check E fuel r = Fail st' ->
    run_tracker (i_start (e_inp E)) (tr st') = run_tracker (i_start (e_inp E)) (tr st) /\
    report (run_tracker (i_start (e_inp E)) (tr st')) = report (run_tracker (i_start (e_inp E)) (tr st)).
Proof.
  intros Hp.
  assert (Hc : try_check E fuel r = Fail st).
  { rewrite (try_check_is_parse E fuel r) by (rewrite Hp; discriminate). rewrite Hp. reflexivity. }
  split; [exact Hc|]. intros st' Hc'. rewrite Hc in Hc'. inversion Hc'; subst. split; reflexivity.
Qed.

Theorem partial_same_report E fuel r st :
  try_parse_partial E fuel r = Fail st ->
  try_check_partial E fuel r = Fail st.
Proof.
  intros Hp. rewrite (try_check_partial_is_parse E fuel r) by (rewrite Hp; discriminate). rewrite Hp. reflexivity.
Qed.

(* and the converse: a failing check means a failing parse with the same state (when the parse does not panic) *)
Theorem full_check_fail_parse_fail E fuel r st :
  try_parse E fuel r <> Panic -> try_check E fuel r = Fail st -> try_parse E fuel r = Fail st.
Proof.
  intros Hn Hc. rewrite (try_check_is_parse E fuel r Hn) in Hc.
  destruct (try_parse E fuel r) as [t st1|st1| |]; cbn [erase_all] in Hc; try discriminate. inversion Hc; reflexivity.
Qed.
