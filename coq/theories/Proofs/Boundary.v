(* C09: no panic and only good offsets, lifted from the cursor operations (Proofs/BoundaryOps.v)
   through the interpreters [tparse] / [tcheck] and the four entry points.

   Nothing is excluded: every constructor of [texpr] is covered.  The hypotheses on the grammar
   are weaker than "all literals are valid UTF-8": only the needles of [TStr] matter ([lits_ok]);
   the needles of [TInsens] and [TSkipUntil] may be arbitrary byte strings, because the code itself
   checks the cut (`get(..len)` / `get(from..end)`). *)
From Coq Require Import List NArith ZArith Arith Bool Lia ZifyNat ZifyN ZifyBool.
From PT Require Import Model.Base Model.Stack Model.Texpr Model.SliceSpec Model.Sem Model.Tracker.
From PT Require Import Model.Lines Model.LinesSpec.
From PT Require Import Proofs.LinesUtf8 Proofs.StackInv Proofs.CheckParse Proofs.Refine Proofs.StackOps.
From PT Require Import Proofs.BoundaryOps.
Import ListNotations.

(* ---- what "every offset it reports" ranges over ------------------------------------------- *)

(* every (start, end) pair stored in a tree *)
Fixpoint node_spans (t : tnode) : list (nat * nat) :=
  match t with
  | NInsens s e => [(s, e)]
  | NSpanned _ s e => [(s, e)]
  | NSeq items => flat_map (fun p => let '(sk, x) := p in flat_map node_spans sk ++ node_spans x) items
  | NRep _ items => flat_map (fun p => let '(sk, x) := p in flat_map node_spans sk ++ node_spans x) items
  | NChoice _ _ t1 => node_spans t1
  | NOpt (Some t1) => node_spans t1
  | NAtomicRep l => flat_map node_spans l
  | NArr l => flat_map node_spans l
  | NPos t1 => node_spans t1
  | NPush t1 => node_spans t1
  | NPair a b => node_spans a ++ node_spans b
  | NRule _ c sp =>
      match c with Some t1 => node_spans t1 | None => [] end ++ match sp with Some s => [s] | None => [] end
  | _ => []
  end.

Definition good_node (I : inp) (t : tnode) : Prop := Forall (good_span I) (node_spans t).

(* the position an event hands to the tracker *)
Definition ev_pos (e : event) : option nat :=
  match e with
  | EEnter _ p => Some p
  | EExit _ p _ => Some p
  | EEmptyStack p => Some p
  | EOutOfBound p _ _ => Some p
  | EPol _ => None
  | EPolEnd => None
  end.

Definition good_ev (I : inp) (e : event) : Prop :=
  match ev_pos e with Some p => good_cur I p | None => True end.

Definition good_stk (I : inp) (s : stack) : Prop :=
  Forall (good_span I) (cache s) /\ Forall (good_span I) (popped s).

Definition good_state (I : inp) (st : state) : Prop :=
  good_stk I (stk st) /\ Forall (good_ev I) (tr st).

(* the needles of the plain string matchers *)
Fixpoint str_lits (e : texpr) : list (list byte) :=
  match e with
  | TStr s => [s]
  | TSeq _ es => flat_map str_lits es
  | TChoice es => flat_map str_lits es
  | TOpt e1 => str_lits e1
  | TRep _ _ _ e1 => str_lits e1
  | TAtomicRep e1 => str_lits e1
  | TPos e1 => str_lits e1
  | TNeg e1 => str_lits e1
  | TPush e1 => str_lits e1
  | TArr _ e1 => str_lits e1
  | TPair a b => str_lits a ++ str_lits b
  | _ => []
  end.

Definition lits_ok (e : texpr) : Prop := Forall valid_utf8 (str_lits e).

(* the environment: a good input, the repaired skip_until and restore_on_none, string literals of all
   rule bodies and of the skip definition are valid UTF-8 *)
Definition env_ok (E : env) : Prop :=
  good_inp (e_inp E) /\ e_su_cut E = true /\ e_ron_fixed E = true /\
  (forall r, lits_ok (r_body (e_rules E r))) /\
  match e_skip E with SkipEmpty => True | SkipRep e => lits_ok e end.

Definition pre (I : inp) (c : nat) (st : state) (gs : list (list span)) : Prop :=
  good_cur I c /\ good_state I st /\ SInv (stk st) gs.

(* what a run started at the good cursor [c] may return *)
Definition post {A} (I : inp) (G : A -> Prop) (gs : list (list span)) (c : nat) (r : res (nat * A)) : Prop :=
  match r with
  | Ok (c', a) st' => c <= c' /\ good_cur I c' /\ G a /\ good_state I st' /\ SInv (stk st') gs
  | Fail st' => good_state I st' /\ SInv (stk st') gs
  | Panic => False
  | Fuel => True
  end.

Definition postc (I : inp) (gs : list (list span)) (c : nat) (r : res nat) : Prop :=
  match r with
  | Ok c' st' => c <= c' /\ good_cur I c' /\ good_state I st' /\ SInv (stk st') gs
  | Fail st' => good_state I st' /\ SInv (stk st') gs
  | Panic => False
  | Fuel => True
  end.

(* what a full-parse entry point may return *)
Definition post_entry {A} (I : inp) (G : A -> Prop) (r : res A) : Prop :=
  match r with
  | Ok a st' => G a /\ good_state I st'
  | Fail st' => good_state I st'
  | Panic => False
  | Fuel => True
  end.

(* ---- small facts --------------------------------------------------------------------------- *)

Lemma Forall_firstn' {A} (Q : A -> Prop) n l : Forall Q l -> Forall Q (firstn n l).
Proof. intros H. rewrite <- (firstn_skipn n l) in H. apply Forall_app in H. tauto. Qed.

Lemma Forall_skipn' {A} (Q : A -> Prop) n l : Forall Q l -> Forall Q (skipn n l).
Proof. intros H. rewrite <- (firstn_skipn n l) in H. apply Forall_app in H. tauto. Qed.

Lemma good_nodes_spans I l : Forall (good_node I) l -> Forall (good_span I) (flat_map node_spans l).
Proof. intros H. apply Forall_flat_map. exact H. Qed.

Definition good_item (I : inp) (p : list tnode * tnode) : Prop :=
  Forall (good_node I) (fst p) /\ good_node I (snd p).

Lemma good_items_spans I items : Forall (good_item I) items ->
  Forall (good_span I)
    (flat_map (fun p : list tnode * tnode => let '(sk, x) := p in flat_map node_spans sk ++ node_spans x) items).
Proof.
  intros H. apply Forall_flat_map. eapply Forall_impl; [|exact H].
  intros [sk x] [H1 H2]. cbn [fst snd] in *. apply Forall_app. split; [apply good_nodes_spans; exact H1|exact H2].
Qed.

Lemma good_node_leaf I t : node_spans t = [] -> good_node I t.
Proof. intros H. unfold good_node. rewrite H. constructor. Qed.

Lemma good_node_span I t sp : node_spans t = [sp] -> good_span I sp -> good_node I t.
Proof. intros H Hs. unfold good_node. rewrite H. constructor; [exact Hs|constructor]. Qed.

Lemma mk_good_span I x y : good_cur I x -> good_cur I y -> x <= y -> good_span I (x, y).
Proof. intros Hx Hy Hxy. unfold good_span. cbn [fst snd]. tauto. Qed.

Lemma lits_ok_list es : Forall valid_utf8 (flat_map str_lits es) -> Forall lits_ok es.
Proof. intros H. apply Forall_flat_map in H. exact H. Qed.

Lemma good_state_ev I e st : good_ev I e -> good_state I st -> good_state I (ev e st).
Proof. intros He [Hs Ht]. split; [exact Hs|]. cbn [ev tr]. constructor; assumption. Qed.

Lemma good_state_with_stk I s st : good_stk I s -> good_state I st -> good_state I (with_stk s st).
Proof. intros Hs [_ Ht]. split; assumption. Qed.

Lemma good_state_with_tr I st0 st : good_state I st0 -> good_state I st -> good_state I (with_tr (tr st0) st).
Proof. intros [_ Ht] [Hs _]. split; assumption. Qed.

Lemma good_state_st0 I : good_state I st0.
Proof. repeat split; constructor. Qed.

Lemma mk_pre I c st gs : good_cur I c -> good_state I st -> SInv (stk st) gs -> pre I c st gs.
Proof. intros H1 H2 H3. unfold pre. tauto. Qed.

Lemma post_mono {A} I (G : A -> Prop) gs c c1 r : c <= c1 -> post I G gs c1 r -> post I G gs c r.
Proof.
  intros Hc. destruct r as [[p a] st'|st'| |]; cbn [post]; try tauto.
  intros (H1 & H2). split; [lia|exact H2].
Qed.

Lemma post_ok {A} I (G : A -> Prop) gs c p (a : A) st :
  c <= p -> good_cur I p -> G a -> good_state I st -> SInv (stk st) gs -> post I G gs c (Ok (p, a) st).
Proof. intros H1 H2 H3 H4 H5. cbn [post]. tauto. Qed.

Lemma post_fail {A} I (G : A -> Prop) gs c st :
  good_state I st -> SInv (stk st) gs -> post I G gs c (@Fail (nat * A) st).
Proof. intros H4 H5. cbn [post]. tauto. Qed.

Lemma postc_erase {A} I (G : A -> Prop) gs c r : post I G gs c r -> postc I gs c (erase r).
Proof. destruct r as [[p a] st'|st'| |]; cbn [post postc erase]; tauto. Qed.

(* ---- the stack operations keep the stored spans good --------------------------------------- *)

Lemma good_push I x s : good_span I x -> good_stk I s -> good_stk I (s_push x s).
Proof. intros Hx [Hc Hp]. split; cbn [s_push cache popped]; [constructor; assumption|exact Hp]. Qed.

Lemma good_snapshot I s : good_stk I s -> good_stk I (s_snapshot s).
Proof. intros H. exact H. Qed.

Lemma good_pop I s : good_stk I s ->
  good_stk I (snd (s_pop s)) /\ forall x, fst (s_pop s) = Some x -> good_span I x.
Proof.
  intros [Hc Hp]. unfold s_pop.
  destruct (cache s) as [|x c'] eqn:Hcache.
  - cbn [fst snd]. split; [split; [rewrite Hcache; constructor|exact Hp]|discriminate].
  - inversion Hc as [|? ? Hx Hc']; subst.
    destruct (lengths s) as [|[l r] ls].
    + cbn [fst snd]. split; [split; assumption|]. intros y Hy. inversion Hy; subst; exact Hx.
    + destruct (length (x :: c') =? r); cbn [fst snd].
      * split; [split; cbn [cache popped]; [exact Hc'|constructor; assumption]|].
        intros y Hy. inversion Hy; subst; exact Hx.
      * split; [split; assumption|]. intros y Hy. inversion Hy; subst; exact Hx.
Qed.

Lemma good_pop_all_fuel I n : forall s, good_stk I s -> good_stk I (s_pop_all_fuel n s).
Proof.
  induction n as [|n IH]; intros s Hs; cbn [s_pop_all_fuel]; [exact Hs|].
  pose proof (good_pop I s Hs) as [Hg _].
  destruct (s_pop s) as [[x|] s']; cbn [snd] in Hg; [apply IH; exact Hg|exact Hg].
Qed.

Lemma good_pop_all I s : good_stk I s -> good_stk I (s_pop_all s).
Proof. apply good_pop_all_fuel. Qed.

Lemma good_push_list I l : forall s, Forall (good_span I) l -> good_stk I s ->
  good_stk I (fold_left (fun acc x => s_push x acc) l s).
Proof.
  induction l as [|x l IH]; intros s Hl Hs; cbn [fold_left]; [exact Hs|].
  inversion Hl; subst. apply IH; [assumption|]. apply good_push; assumption.
Qed.

Lemma good_reinstall I saved s : Forall (good_span I) saved -> good_stk I s ->
  good_stk I (s_push_all saved (s_pop_all s)).
Proof.
  intros Hsv Hs. unfold s_push_all. apply good_push_list; [apply Forall_rev; exact Hsv|].
  apply good_pop_all. exact Hs.
Qed.

Lemma good_restore I s s' : good_stk I s -> s_restore s = MOk s' -> good_stk I s'.
Proof.
  intros [Hc Hp]. unfold s_restore.
  destruct (lengths s) as [|[l r] ls].
  - intros H. inversion H; subst. split; [constructor|exact Hp].
  - set (c1 := if r <? length (cache s) then keep_bottom r (cache s) else cache s).
    assert (Hc1 : Forall (good_span I) c1).
    { unfold c1. destruct (r <? length (cache s)); [apply Forall_skipn'|]; exact Hc. }
    destruct (r <? l).
    + destruct (l - r <=? length (popped s)); [|discriminate].
      intros H. inversion H; subst. split; cbn [cache popped].
      * apply Forall_app. split; [apply Forall_rev, Forall_firstn'; exact Hp|exact Hc1].
      * apply Forall_skipn'. exact Hp.
    + intros H. inversion H; subst. split; assumption.
Qed.

(* ---- the tracker position is the initial cursor or an event position ----------------------- *)

Lemma prepare_pos (Q : nat -> Prop) t pos : Q (t_position t) -> Q pos -> Q (t_position (snd (prepare t pos))).
Proof.
  intros Ht Hp. unfold prepare.
  destruct (pos <? t_position t); [exact Ht|]. destruct (pos =? t_position t); [exact Ht|exact Hp].
Qed.

Lemma record_pos (Q : nat -> Prop) t r pos ok : Q (t_position t) -> Q pos -> Q (t_position (record t r pos ok)).
Proof.
  intros Ht Hp. unfold record. pose proof (prepare_pos Q t pos Ht Hp) as H.
  destruct (prepare t pos) as [go t1]. cbn [snd] in H.
  destruct (go && negb (Bool.eqb ok (t_positive t1))); [|exact H].
  destruct (t_positive t1); exact H.
Qed.

Lemma add_special_pos (Q : nat -> Prop) t pos s : Q (t_position t) -> Q pos -> Q (t_position (add_special t pos s)).
Proof.
  intros Ht Hp. unfold add_special. pose proof (prepare_pos Q t pos Ht Hp) as H.
  destruct (prepare t pos) as [go t1]. cbn [snd] in H. destruct go; exact H.
Qed.

Lemma tstep_pos (Q : nat -> Prop) t e :
  Q (t_position t) -> (forall p, ev_pos e = Some p -> Q p) -> Q (t_position (tstep t e)).
Proof.
  intros Ht He. destruct e; cbn [tstep ev_pos] in *; try exact Ht.
  - destruct (t_stack t) as [|[[r0 p0] hc] rest]; [exact Ht|].
    destruct hc; [exact Ht|]. apply record_pos; [exact Ht|apply He; reflexivity].
  - destruct (t_saved t); exact Ht.
  - apply add_special_pos; [exact Ht|apply He; reflexivity].
  - apply add_special_pos; [exact Ht|apply He; reflexivity].
Qed.

Lemma fold_tstep_pos (Q : nat -> Prop) l : forall t,
  Q (t_position t) -> Forall (fun e => forall p, ev_pos e = Some p -> Q p) l ->
  Q (t_position (fold_left tstep l t)).
Proof.
  induction l as [|e l IH]; intros t Ht Hl; cbn [fold_left]; [exact Ht|].
  inversion Hl; subst. apply IH; [|assumption]. apply tstep_pos; assumption.
Qed.

Lemma tracker_position_good I st : good_inp I -> good_state I st ->
  good_cur I (t_position (run_tracker (i_start I) (tr st))).
Proof.
  intros HI [_ Ht]. unfold run_tracker. apply fold_tstep_pos.
  - cbn [tracker_new t_position]. apply good_cur_start. exact HI.
  - apply Forall_rev. eapply Forall_impl; [|exact Ht].
    intros e He p Hp. unfold good_ev in He. rewrite Hp in He. exact He.
Qed.

(* ---- one step of the parse path ------------------------------------------------------------ *)

Lemma newline_needle_ok bs k : In (bs, k) newline_bytes -> valid_utf8 bs.
Proof.
  intros H. cbn in H. destruct H as [H|[H|[H|[]]]]; inversion H; subst.
  - exists [13; 10]%N. split; [repeat constructor|reflexivity].
  - exists [10]%N. split; [repeat constructor|reflexivity].
  - exists [13]%N. split; [repeat constructor|reflexivity].
Qed.

Section Bound.
  Variable E : env.
  Hypothesis HE : env_ok E.
  Variable P : bool -> texpr -> nat -> state -> res (nat * tnode).
  Variable C : bool -> texpr -> nat -> state -> res nat.
  Local Notation I := (e_inp E).
  Hypothesis HP : forall inh e pos st gs,
    lits_ok e -> pre I pos st gs -> post I (good_node I) gs pos (P inh e pos st).
  Hypothesis HC : forall inh e pos st gs,
    lits_ok e -> pre I pos st gs -> postc I gs pos (C inh e pos st).

  Lemma HI : good_inp I.
  Proof. apply HE. Qed.

  (* restore_on_none (repaired) *)
  Lemma ron_post {A} (G : A -> Prop) gs c (f : state -> res (nat * A)) st :
    good_state I st -> post I G gs c (f st) -> post I G gs c (ron E f st).
  Proof.
    intros Hst Hp. unfold ron. destruct HE as (_ & _ & Hron & _). rewrite Hron.
    destruct (f st) as [[p a] st'|st'| |]; cbn [post] in *; try exact Hp.
    destruct Hp as [[Hstk Htr] Hi].
    destruct (sinv_reinstall (cache (stk st)) (stk st') gs Hi) as [Hi2 _].
    split; [|exact Hi2]. split; [|exact Htr]. cbn [with_stk stk].
    apply good_reinstall; [apply Hst|exact Hstk].
  Qed.

  Lemma notrack_post {A} (G : A -> Prop) gs c (f : state -> res (nat * A)) st :
    good_state I st -> post I G gs c (f st) -> post I G gs c (notrack f st).
  Proof.
    intros Hst Hp. unfold notrack.
    destruct (f st) as [[p a] st'|st'| |]; cbn [post] in *; try exact Hp.
    - destruct Hp as (H1 & H2 & H3 & H4 & H5).
      pose proof (good_state_with_tr I st st' Hst H4) as H6. tauto.
    - destruct Hp as (H4 & H5).
      pose proof (good_state_with_tr I st st' Hst H4) as H6. tauto.
  Qed.

  (* AtomicRepeat *)
  Lemma arep_post n : forall inh e pos st acc gs,
    lits_ok e -> pre I pos st gs -> Forall (good_node I) acc ->
    post I (good_node I) gs pos (arep_p E P n inh e pos st acc).
  Proof.
    induction n as [|n IH]; intros inh e pos st acc gs Hl Hpre Hacc; cbn [arep_p]; [exact Logic.I|].
    pose proof Hpre as (Hc & Hst & Hi).
    pose proof (ron_post (good_node I) gs pos (notrack (P inh e pos)) st Hst
                  (notrack_post _ gs pos _ st Hst (HP inh e pos st gs Hl Hpre))) as Hr.
    destruct (ron E (notrack (P inh e pos)) st) as [[p t] st'|st'| |]; cbn [post postc] in Hr; [ | |exact Hr|exact Hr].
    - destruct Hr as (Hle & Hp & Ht & Hst' & Hi').
      apply (post_mono I _ gs pos p); [exact Hle|].
      apply IH; [exact Hl|exact (mk_pre I p st' gs Hp Hst' Hi')|constructor; assumption].
    - destruct Hr as (Hst' & Hi'). apply post_ok; try assumption; try lia.
      unfold good_node. cbn [node_spans]. apply good_nodes_spans. apply Forall_rev. exact Hacc.
  Qed.

  Variable lf : nat.

  Lemma skip_post pos st gs : pre I pos st gs -> post I (good_node I) gs pos (skip_p E P lf pos st).
  Proof.
    intros Hpre. unfold skip_p. destruct HE as (_ & _ & _ & _ & Hsk).
    destruct (e_skip E) as [|e].
    - destruct Hpre as (Hc & Hst & Hi). apply post_ok; try assumption; try lia.
      apply good_node_leaf. reflexivity.
    - apply arep_post; [exact Hsk|exact Hpre|constructor].
  Qed.

  Lemma skip_default_good : good_node I (skip_default E).
  Proof. unfold skip_default. destruct (e_skip E); apply good_node_leaf; reflexivity. Qed.

  Lemma pre_skip_post b doit pos st gs : pre I pos st gs ->
    post I (Forall (good_node I)) gs pos (pre_skip_p E P lf b doit pos st).
  Proof.
    intros Hpre. unfold pre_skip_p.
    assert (Hsame : forall l, Forall (good_node I) l -> post I (Forall (good_node I)) gs pos (Ok (pos, l) st)).
    { intros l Hl. destruct Hpre as (Hc & Hst & Hi). apply post_ok; try assumption; lia. }
    destruct b; [destruct doit|].
    - pose proof (skip_post pos st gs Hpre) as Hr.
      destruct (skip_p E P lf pos st) as [[p t] st'|st'| |]; cbn [post postc] in Hr; [ | |exact Hr|exact Hr].
      + destruct Hr as (H1 & H2 & H3 & H4 & H5). apply post_ok; try assumption.
        constructor; [exact H3|constructor].
      + apply post_fail; apply Hr.
    - apply Hsame. constructor; [apply skip_default_good|constructor].
    - apply Hsame. constructor.
  Qed.

  (* sequence *)
  Lemma seq_post b inh : forall es first pos st acc gs,
    Forall lits_ok es -> pre I pos st gs -> Forall (good_item I) acc ->
    post I (good_node I) gs pos (seq_p E P lf b inh es first pos st acc).
  Proof.
    induction es as [|e es IH]; intros first pos st acc gs Hl Hpre Hacc; cbn [seq_p].
    - destruct Hpre as (Hc & Hst & Hi). apply post_ok; try assumption; try lia.
      unfold good_node. cbn [node_spans]. apply good_items_spans. apply Forall_rev. exact Hacc.
    - inversion Hl as [|? ? Hle Hles]; subst.
      pose proof (pre_skip_post b (negb first) pos st gs Hpre) as Hr.
      destruct (pre_skip_p E P lf b (negb first) pos st) as [[p1 sk] st1|st1| |]; cbn [post postc] in Hr; [ | |exact Hr|exact Hr].
      + destruct Hr as (Hle1 & Hp1 & Hsk & Hst1 & Hi1).
        pose proof (HP inh e p1 st1 gs Hle (mk_pre I p1 st1 gs Hp1 Hst1 Hi1)) as Hr2.
        destruct (P inh e p1 st1) as [[p2 t] st2|st2| |]; cbn [post postc] in Hr2; [ | |exact Hr2|exact Hr2].
        * destruct Hr2 as (Hle2 & Hp2 & Ht & Hst2 & Hi2).
          apply (post_mono I _ gs pos p2); [lia|].
          apply IH; [exact Hles|exact (mk_pre I p2 st2 gs Hp2 Hst2 Hi2)|].
          constructor; [split; assumption|exact Hacc].
        * apply post_fail; apply Hr2.
      + apply post_fail; apply Hr.
  Qed.

  (* choice *)
  Lemma choice_post inh n : forall es i pos st gs,
    Forall lits_ok es -> pre I pos st gs ->
    post I (good_node I) gs pos (choice_p E P inh n es i pos st).
  Proof.
    induction es as [|e es IH]; intros i pos st gs Hl Hpre; cbn [choice_p]; pose proof Hpre as (Hc & Hst & Hi).
    - apply post_fail; assumption.
    - inversion Hl as [|? ? Hle Hles]; subst.
      pose proof (ron_post (good_node I) gs pos (P inh e pos) st Hst (HP inh e pos st gs Hle Hpre)) as Hr.
      destruct (ron E (P inh e pos) st) as [[p t] st'|st'| |]; cbn [post postc] in Hr; [ | |exact Hr|exact Hr].
      + destruct Hr as (H1 & H2 & H3 & H4 & H5). apply post_ok; assumption.
      + destruct Hr as (H4 & H5). apply IH; [exact Hles|exact (mk_pre I pos st' gs Hc H4 H5)].
  Qed.

  (* repetition *)
  Lemma unit_post b inh e i pos st gs :
    lits_ok e -> pre I pos st gs -> post I (good_item I) gs pos (unit_p E P lf b inh e i pos st).
  Proof.
    intros Hl Hpre. unfold unit_p.
    pose proof (pre_skip_post b (negb (i =? 0)) pos st gs Hpre) as Hr.
    destruct (pre_skip_p E P lf b (negb (i =? 0)) pos st) as [[p1 sk] st1|st1| |]; cbn [post postc] in Hr; [ | |exact Hr|exact Hr].
    - destruct Hr as (Hle1 & Hp1 & Hsk & Hst1 & Hi1).
      pose proof (HP inh e p1 st1 gs Hl (mk_pre I p1 st1 gs Hp1 Hst1 Hi1)) as Hr2.
      destruct (P inh e p1 st1) as [[p2 t] st2|st2| |]; cbn [post postc] in Hr2; [ | |exact Hr2|exact Hr2].
      + destruct Hr2 as (Hle2 & Hp2 & Ht & Hst2 & Hi2).
        apply post_ok; try assumption; try lia. split; assumption.
      + apply post_fail; apply Hr2.
    - apply post_fail; apply Hr.
  Qed.

  Lemma rep_post b inh mn mx e : forall n i pos st acc gs,
    lits_ok e -> pre I pos st gs -> Forall (good_item I) acc ->
    post I (good_node I) gs pos (rep_p E P lf n b inh mn mx e i pos st acc).
  Proof.
    assert (Hdone : forall pos st acc gs, pre I pos st gs -> Forall (good_item I) acc ->
              post I (good_node I) gs pos (Ok (pos, NRep (bounded mx) (rev acc)) st)).
    { intros pos st acc gs (Hc & Hst & Hi) Hacc. apply post_ok; try assumption; try lia.
      unfold good_node. cbn [node_spans]. apply good_items_spans. apply Forall_rev. exact Hacc. }
    assert (Hfail : forall pos st gs, pre I pos st gs -> post I (good_node I) gs pos (Fail st)).
    { intros pos st gs (Hc & Hst & Hi). apply post_fail; assumption. }
    induction n as [|n IH]; intros i pos st acc gs Hl Hpre Hacc; cbn [rep_p].
    - destruct (below i mx); [exact Logic.I|].
      destruct (e_rep_min_after E && (i <? mn)); [apply Hfail|apply Hdone]; assumption.
    - destruct (below i mx).
      + pose proof Hpre as (Hc & Hst & Hi).
        pose proof (ron_post (good_item I) gs pos (unit_p E P lf b inh e i pos) st Hst
                      (unit_post b inh e i pos st gs Hl Hpre)) as Hr.
        destruct (ron E (unit_p E P lf b inh e i pos) st) as [[p it] st'|st'| |]; cbn [post postc] in Hr; [ | |exact Hr|exact Hr].
        * destruct Hr as (H1 & H2 & H3 & H4 & H5).
          apply (post_mono I _ gs pos p); [exact H1|].
          apply IH; [exact Hl|exact (mk_pre I p st' gs H2 H4 H5)|constructor; assumption].
        * destruct Hr as (H4 & H5). pose proof (mk_pre I pos st' gs Hc H4 H5) as Hpre'.
          destruct (i <? mn); [apply Hfail|apply Hdone]; assumption.
      + destruct (e_rep_min_after E && (i <? mn)); [apply Hfail|apply Hdone]; assumption.
  Qed.

  (* [T; N] *)
  Lemma arr_post inh e : forall n pos st acc gs,
    lits_ok e -> pre I pos st gs -> Forall (good_node I) acc ->
    post I (good_node I) gs pos (arr_p P n inh e pos st acc).
  Proof.
    induction n as [|n IH]; intros pos st acc gs Hl Hpre Hacc; cbn [arr_p].
    - destruct Hpre as (Hc & Hst & Hi). apply post_ok; try assumption; try lia.
      unfold good_node. cbn [node_spans]. apply good_nodes_spans. apply Forall_rev. exact Hacc.
    - pose proof (HP inh e pos st gs Hl Hpre) as Hr.
      destruct (P inh e pos st) as [[p t] st'|st'| |]; cbn [post postc] in Hr; [ | |exact Hr|exact Hr].
      + destruct Hr as (H1 & H2 & H3 & H4 & H5).
        apply (post_mono I _ gs pos p); [exact H1|].
        apply IH; [exact Hl|exact (mk_pre I p st' gs H2 H4 H5)|constructor; assumption].
      + apply post_fail; apply Hr.
  Qed.

  (* NEWLINE *)
  Lemma newline_post : forall alts pos st gs,
    (forall bs k, In (bs, k) alts -> valid_utf8 bs) -> pre I pos st gs ->
    post I (good_node I) gs pos (newline_p E alts pos st).
  Proof.
    induction alts as [|[bs k] alts IH]; intros pos st gs Hal Hpre; cbn [newline_p];
      pose proof Hpre as (Hc & Hst & Hi).
    - apply post_fail; assumption.
    - destruct (match_string_good I bs pos HI Hc (Hal bs k (or_introl eq_refl))) as (o & Ho & Hgood).
      rewrite Ho. cbn [lift]. destruct o as [p'|].
      + destruct (Hgood p' eq_refl) as [Hle Hp']. apply post_ok; try assumption.
        apply good_node_leaf. reflexivity.
      + apply IH; [|exact Hpre].
        intros bs' k' Hin. apply (Hal bs' k'). right. exact Hin.
  Qed.

  (* leaves that leave the state alone *)
  Lemma leaf_post gs c (m : mres (option nat)) st (k : nat -> res (nat * tnode)) :
    ret_good I c m -> good_state I st -> SInv (stk st) gs ->
    (forall c', c <= c' -> good_cur I c' -> post I (good_node I) gs c (k c')) ->
    post I (good_node I) gs c (leaf_match m st k).
  Proof.
    intros (o & -> & Hgood) Hst Hi Hk. unfold leaf_match. cbn [lift].
    destruct o as [c'|]; [|apply post_fail; assumption].
    destruct (Hgood c' eq_refl) as [Hle Hc']. apply Hk; assumption.
  Qed.

  (* `peek_spans` over good spans *)
  Lemma peek_spans_good : forall sps pos,
    Forall (good_span I) sps -> good_cur I pos -> ret_good I pos (peek_spans E sps pos).
  Proof.
    induction sps as [|sp sps IH]; intros pos Hs Hc; cbn [peek_spans].
    - eexists. split; [reflexivity|]. intros c' H. inversion H; subst. split; [lia|exact Hc].
    - inversion Hs as [|? ? Hsp Hsps]; subst.
      destruct (span_str_good I sp HI Hsp) as (txt & Ht & Hv). rewrite Ht. cbn [mbind].
      destruct (match_string_good I txt pos HI Hc Hv) as (o & Ho & Hgood). rewrite Ho. cbn [mbind].
      destruct o as [pos'|].
      + destruct (Hgood pos' eq_refl) as [Hle Hc'].
        destruct (IH pos' Hsps Hc') as (o2 & Ho2 & Hgood2). exists o2. split; [exact Ho2|].
        intros c' Hc2. destruct (Hgood2 c' Hc2) as [Hle2 Hg2]. split; [lia|exact Hg2].
      + eexists. split; [reflexivity|]. discriminate.
  Qed.

  (* the common tail `start.span(end)` then return a node carrying (pos, pos') *)
  Lemma span_tail gs pos pos' (t : tnode) st' :
    good_cur I pos -> good_cur I pos' -> pos <= pos' ->
    good_node I t -> good_state I st' -> SInv (stk st') gs ->
    post I (good_node I) gs pos (lift (i_span I pos pos') (fun _ => Ok (pos', t) st')).
  Proof.
    intros Hc Hc' Hle Ht Hst Hi. rewrite (i_span_good I pos pos' HI Hc Hc' Hle). cbn [lift].
    apply post_ok; assumption.
  Qed.

  Lemma step_post inh e pos st gs :
    lits_ok e -> pre I pos st gs -> post I (good_node I) gs pos (step_p E P C lf inh e pos st).
  Proof.
    intros Hl Hpre. pose proof Hpre as (Hc & Hst & Hi).
    pose proof HE as (_ & Hcut & _ & Hrules & _).
    assert (Hfail : forall st1, good_state I st1 -> SInv (stk st1) gs -> post I (good_node I) gs pos (Fail st1)).
    { intros st1 H1 H2. apply post_fail; assumption. }
    assert (Hok : forall p t st1, pos <= p -> good_cur I p -> good_node I t -> good_state I st1 ->
                    SInv (stk st1) gs -> post I (good_node I) gs pos (Ok (p, t) st1)).
    { intros p t st1 H1 H2 H3 H4 H5. apply post_ok; assumption. }
    destruct e; cbn [step_p].
    - (* TStr *)
      apply leaf_post; try assumption.
      + apply match_string_good; try assumption; try apply HI.
        unfold lits_ok in Hl. cbn [str_lits] in Hl. inversion Hl; assumption.
      + intros c' Hle Hc'. apply Hok; try assumption. apply good_node_leaf. reflexivity.
    - (* TInsens *)
      apply leaf_post; try assumption.
      + apply match_insens_good; [apply HI|assumption].
      + intros c' Hle Hc'. rewrite (i_span_good I pos c' HI Hc Hc' Hle). cbn [lift].
        destruct (span_str_good I (pos, c') HI (mk_good_span I pos c' Hc Hc' Hle)) as (txt & Ht & _).
        rewrite Ht. cbn [lift]. apply Hok; try assumption.
        eapply good_node_span; [reflexivity|]. apply mk_good_span; assumption.
    - (* TRange *)
      destruct (match_char_good I (fun c => (lo <=? c)%N && (c <=? hi)%N) pos HI Hc) as (o & Ho & Hgood).
      rewrite Ho. cbn [lift]. destruct o as [[p' ch]|]; [|apply Hfail; assumption].
      destruct (Hgood p' ch eq_refl) as (Hlt & Hp' & Hc' & Hv & Hsp & Hstr).
      rewrite Hsp. cbn [lift]. rewrite Hstr. cbn [lift].
      rewrite <- (app_nil_r (enc ch)). rewrite (dec1_enc ch [] Hv).
      apply Hok; try assumption; try lia. apply good_node_leaf. reflexivity.
    - (* TAny *)
      destruct (match_char_good I (fun _ => true) pos HI Hc) as (o & Ho & Hgood).
      rewrite Ho. cbn [lift]. destruct o as [[p' ch]|]; [|apply Hfail; assumption].
      destruct (Hgood p' ch eq_refl) as (Hlt & Hp' & Hc' & _).
      apply Hok; try assumption; try lia. apply good_node_leaf. reflexivity.
    - (* TSoi *)
      destruct (i_at_start I pos); [|apply Hfail; assumption].
      apply Hok; try assumption; try lia. apply good_node_leaf. reflexivity.
    - (* TEoi *)
      destruct (i_at_end I pos); [|apply Hfail; assumption].
      apply Hok; try assumption; try lia. apply good_node_leaf. reflexivity.
    - (* TNewline *)
      apply newline_post; [exact newline_needle_ok|exact Hpre].
    - (* TCharBy *)
      destruct (match_char_good I (e_pred E p) pos HI Hc) as (o & Ho & Hgood).
      rewrite Ho. cbn [lift]. destruct o as [[p' ch]|]; [|apply Hfail; assumption].
      destruct (Hgood p' ch eq_refl) as (Hlt & Hp' & Hc' & _).
      apply Hok; try assumption; try lia. apply good_node_leaf. reflexivity.
    - (* TSkipUntil *)
      rewrite Hcut. pose proof (skip_until_good I ss pos HI Hc) as [Hle Hc'].
      destruct (i_skip_until I true ss pos) as [f p']. cbn [snd] in *.
      apply span_tail; try assumption.
      eapply good_node_span; [reflexivity|]. apply mk_good_span; assumption.
    - (* TSkipChars *)
      apply leaf_post; try assumption.
      + apply skip_good; [apply HI|assumption].
      + intros c' Hle Hc'. apply span_tail; try assumption.
        eapply good_node_span; [reflexivity|]. apply mk_good_span; assumption.
    - (* TSeq *)
      apply seq_post; [apply lits_ok_list; exact Hl|exact Hpre|constructor].
    - (* TChoice *)
      apply choice_post; [apply lits_ok_list; exact Hl|exact Hpre].
    - (* TOpt *)
      pose proof (ron_post (good_node I) gs pos (P inh e pos) st Hst (HP inh e pos st gs Hl Hpre)) as Hr.
      destruct (ron E (P inh e pos) st) as [[p t] st'|st'| |]; cbn [post postc] in Hr; [ | |exact Hr|exact Hr].
      + destruct Hr as (H1 & H2 & H3 & H4 & H5). apply Hok; assumption.
      + destruct Hr as (H4 & H5). apply Hok; try assumption; try lia. apply good_node_leaf. reflexivity.
    - (* TRep *)
      apply rep_post; [exact Hl|exact Hpre|constructor].
    - (* TAtomicRep *)
      apply arep_post; [exact Hl|exact Hpre|constructor].
    - (* TPos *)
      set (st1 := with_stk (s_snapshot (stk st)) (ev (EPol true) st)).
      assert (Hpre1 : pre I pos st1 (cache (stk st) :: gs)).
      { split; [exact Hc|]. split; [|apply sinv_snapshot; exact Hi].
        split; [apply Hst|]. cbn [st1 with_stk ev tr]. constructor; [exact Logic.I|apply Hst]. }
      pose proof (HP inh e pos st1 _ Hl Hpre1) as Hr.
      destruct (P inh e pos st1) as [[p t] st'|st'| |]; cbn [post postc] in Hr; [ | |exact Hr|exact Hr].
      + destruct Hr as (H1 & H2 & H3 & H4 & H5).
        destruct (sinv_restore _ _ _ H5) as (s' & Hrs & _ & His). rewrite Hrs. cbn [lift].
        apply Hok; try assumption; try lia.
        apply good_state_ev; [exact Logic.I|]. apply good_state_with_stk; [|exact H4].
        eapply good_restore; [apply H4|exact Hrs].
      + destruct Hr as (H4 & H5).
        destruct (sinv_restore _ _ _ H5) as (s' & Hrs & _ & His). rewrite Hrs. cbn [lift].
        apply Hfail; [|exact His].
        apply good_state_ev; [exact Logic.I|]. apply good_state_with_stk; [|exact H4].
        eapply good_restore; [apply H4|exact Hrs].
    - (* TNeg *)
      set (st1 := with_stk (s_snapshot (stk st)) (ev (EPol false) st)).
      assert (Hpre1 : pre I pos st1 (cache (stk st) :: gs)).
      { split; [exact Hc|]. split; [|apply sinv_snapshot; exact Hi].
        split; [apply Hst|]. cbn [st1 with_stk ev tr]. constructor; [exact Logic.I|apply Hst]. }
      pose proof (HC inh e pos st1 _ Hl Hpre1) as Hr.
      destruct (C inh e pos st1) as [p st'|st'| |]; cbn [post postc] in Hr; [ | |exact Hr|exact Hr].
      + destruct Hr as (H1 & H2 & H4 & H5).
        destruct (sinv_restore _ _ _ H5) as (s' & Hrs & _ & His). rewrite Hrs. cbn [lift].
        apply Hfail; [|exact His].
        apply good_state_ev; [exact Logic.I|]. apply good_state_with_stk; [|exact H4].
        eapply good_restore; [apply H4|exact Hrs].
      + destruct Hr as (H4 & H5).
        destruct (sinv_restore _ _ _ H5) as (s' & Hrs & _ & His). rewrite Hrs. cbn [lift].
        apply Hok; try assumption; try lia; [apply good_node_leaf; reflexivity|].
        apply good_state_ev; [exact Logic.I|]. apply good_state_with_stk; [|exact H4].
        eapply good_restore; [apply H4|exact Hrs].
    - (* TPush *)
      pose proof (HP inh e pos st gs Hl Hpre) as Hr.
      destruct (P inh e pos st) as [[p t] st'|st'| |]; cbn [post postc] in Hr; [ | |exact Hr|exact Hr].
      + destruct Hr as (H1 & H2 & H3 & H4 & H5).
        rewrite (i_span_good I pos p HI Hc H2 H1). cbn [lift].
        apply Hok; try assumption.
        * apply good_state_with_stk; [|exact H4]. apply good_push; [apply mk_good_span; assumption|apply H4].
        * cbn [with_stk stk]. apply sinv_push. exact H5.
      + apply Hfail; apply Hr.
    - (* TPeek *)
      unfold s_peek. destruct (cache (stk st)) as [|sp c'] eqn:Hcache; cbn [hd_error].
      + apply Hfail; [|exact Hi]. apply good_state_ev; [exact Hc|exact Hst].
      + assert (Hsp : good_span I sp).
        { destruct Hst as [[Hca _] _]. rewrite Hcache in Hca. inversion Hca; assumption. }
        destruct (span_str_good I sp HI Hsp) as (txt & Ht & Hv). rewrite Ht. cbn [lift].
        apply leaf_post; try assumption.
        * apply match_string_good; [apply HI|assumption|assumption].
        * intros c2 Hle Hc2. apply span_tail; try assumption.
          eapply good_node_span; [reflexivity|]. apply mk_good_span; assumption.
    - (* TPop *)
      pose proof (sinv_pop (stk st) gs Hi) as Hpop.
      pose proof (good_pop I (stk st) (proj1 Hst)) as [Hgs Hgx].
      destruct (cache (stk st)) as [|sp c'] eqn:Hcache.
      + rewrite Hpop. apply Hfail; [|exact Hi]. apply good_state_ev; [exact Hc|exact Hst].
      + destruct Hpop as (s' & Hs & _ & Hi'). rewrite Hs in *. cbn [fst snd] in *.
        pose proof (Hgx sp eq_refl) as Hsp.
        destruct (span_str_good I sp HI Hsp) as (txt & Ht & Hv). rewrite Ht. cbn [lift].
        apply leaf_post; try assumption.
        * apply match_string_good; [apply HI|assumption|assumption].
        * apply good_state_with_stk; assumption.
        * intros c2 Hle Hc2. apply Hok; try assumption.
          -- eapply good_node_span; [reflexivity|]. destruct sp; exact Hsp.
          -- apply good_state_with_stk; assumption.
    - (* TDrop *)
      pose proof (sinv_pop (stk st) gs Hi) as Hpop.
      pose proof (good_pop I (stk st) (proj1 Hst)) as [Hgs _].
      destruct (cache (stk st)) as [|sp c'] eqn:Hcache.
      + rewrite Hpop. apply Hfail; [|exact Hi]. apply good_state_ev; [exact Hc|exact Hst].
      + destruct Hpop as (s' & Hs & _ & Hi'). rewrite Hs in *. cbn [fst snd] in *.
        apply Hok; try assumption; try lia; [apply good_node_leaf; reflexivity|].
        apply good_state_with_stk; assumption.
    - (* TPeekAll *)
      rewrite s_index_all. cbn [lift]. rewrite rev_involutive.
      apply leaf_post; try assumption.
      + apply peek_spans_good; [apply Hst|exact Hc].
      + intros c2 Hle Hc2. apply span_tail; try assumption.
        eapply good_node_span; [reflexivity|]. apply mk_good_span; assumption.
    - (* TPopAll *)
      rewrite s_index_all. cbn [lift]. rewrite rev_involutive.
      apply leaf_post; try assumption.
      + apply peek_spans_good; [apply Hst|exact Hc].
      + intros c2 Hle Hc2. apply span_tail; try assumption.
        * eapply good_node_span; [reflexivity|]. apply mk_good_span; assumption.
        * apply good_state_with_stk; [|exact Hst]. apply good_pop_all. apply Hst.
        * cbn [with_stk stk]. apply sinv_pop_all. exact Hi.
    - (* TPeekSlice *)
      destruct (slice_spec a b (Z.of_nat (length (cache (stk st))))) as [[s e]|] eqn:Hs.
      + destruct (slice_index_safe st a b s e Hs) as (sps & Hsl & Hsps). rewrite Hsl. cbn [lift].
        assert (Hgood : Forall (good_span I) sps).
        { subst sps. destruct (e <=? s)%Z; [constructor|].
          apply Forall_firstn', Forall_skipn', Forall_rev. apply Hst. }
        apply leaf_post; try assumption.
        * apply peek_spans_good; assumption.
        * intros c2 Hle Hc2. apply span_tail; try assumption. apply good_node_leaf. reflexivity.
      + unfold stack_slice, s_len. rewrite Hs.
        apply Hfail; [|exact Hi]. apply good_state_ev; [exact Hc|exact Hst].
    - (* TArr *)
      apply arr_post; [exact Hl|exact Hpre|constructor].
    - (* TPair *)
      unfold lits_ok in Hl. cbn [str_lits] in Hl. apply Forall_app in Hl. destruct Hl as [Hl1 Hl2].
      pose proof (HP inh e1 pos st gs Hl1 Hpre) as Hr.
      destruct (P inh e1 pos st) as [[p1 t1] st1|st1| |]; cbn [post postc] in Hr; [ | |exact Hr|exact Hr].
      + destruct Hr as (H1 & H2 & H3 & H4 & H5).
        pose proof (HP inh e2 p1 st1 gs Hl2 (mk_pre I p1 st1 gs H2 H4 H5)) as Hr2.
        destruct (P inh e2 p1 st1) as [[p2 t2] st2|st2| |]; cbn [post postc] in Hr2; [ | |exact Hr2|exact Hr2].
        * destruct Hr2 as (G1 & G2 & G3 & G4 & G5). apply Hok; try assumption; try lia.
          unfold good_node. cbn [node_spans]. apply Forall_app. split; assumption.
        * apply Hfail; apply Hr2.
      + apply Hfail; apply Hr.
    - (* TEmpty *)
      apply Hok; try assumption; try lia. apply good_node_leaf. reflexivity.
    - (* TFail *)
      apply Hfail; assumption.
    - (* TRule *)
      specialize (Hrules r).
      assert (Hpre1 : pre I pos (ev (EEnter r pos) st) gs).
      { split; [exact Hc|]. split; [apply good_state_ev; [exact Hc|exact Hst]|exact Hi]. }
      destruct (r_emis (e_rules E r)).
      + (* span-only *)
        pose proof (HC (resolve arg inh) (r_body (e_rules E r)) pos _ gs Hrules Hpre1) as Hr.
        destruct (C (resolve arg inh) (r_body (e_rules E r)) pos (ev (EEnter r pos) st)) as [p st'|st'| |]; cbn [post postc] in Hr; [ | |exact Hr|exact Hr].
        * destruct Hr as (H1 & H2 & H4 & H5).
          rewrite (i_span_good I pos p HI Hc H2 H1). cbn [lift].
          apply Hok; try assumption.
          -- unfold good_node. cbn [node_spans app]. constructor; [apply mk_good_span; assumption|constructor].
          -- apply good_state_ev; [exact Hc|exact H4].
        * destruct Hr as (H4 & H5). apply Hfail; [|exact H5]. apply good_state_ev; [exact Hc|exact H4].
      + (* expression only *)
        pose proof (HP (resolve arg inh) (r_body (e_rules E r)) pos st gs Hrules Hpre) as Hr.
        destruct (P (resolve arg inh) (r_body (e_rules E r)) pos st) as [[p t] st'|st'| |]; cbn [post postc] in Hr; [ | |exact Hr|exact Hr].
        * destruct Hr as (H1 & H2 & H3 & H4 & H5). apply Hok; try assumption.
          unfold good_node. cbn [node_spans]. rewrite app_nil_r. exact H3.
        * apply Hfail; apply Hr.
      + (* both *)
        pose proof (HP (resolve arg inh) (r_body (e_rules E r)) pos _ gs Hrules Hpre1) as Hr.
        destruct (P (resolve arg inh) (r_body (e_rules E r)) pos (ev (EEnter r pos) st)) as [[p t] st'|st'| |]; cbn [post postc] in Hr; [ | |exact Hr|exact Hr].
        * destruct Hr as (H1 & H2 & H3 & H4 & H5).
          rewrite (i_span_good I pos p HI Hc H2 H1). cbn [lift].
          apply Hok; try assumption.
          -- unfold good_node. cbn [node_spans]. apply Forall_app. split; [exact H3|].
             constructor; [apply mk_good_span; assumption|constructor].
          -- apply good_state_ev; [exact Hc|exact H4].
        * destruct Hr as (H4 & H5). apply Hfail; [|exact H5]. apply good_state_ev; [exact Hc|exact H4].
  Qed.
End Bound.

(* ---- induction on fuel ---------------------------------------------------------------------- *)

Theorem boundaries_both E : env_ok E -> forall fuel inh e pos st gs,
  lits_ok e -> pre (e_inp E) pos st gs ->
  post (e_inp E) (good_node (e_inp E)) gs pos (tparse E fuel inh e pos st) /\
  postc (e_inp E) gs pos (tcheck E fuel inh e pos st).
Proof.
  intros HE. induction fuel as [|n IH]; intros inh e pos st gs Hl Hpre.
  - cbn [tparse tcheck post postc]. split; exact I.
  - assert (Hp : post (e_inp E) (good_node (e_inp E)) gs pos (tparse E (S n) inh e pos st)).
    { cbn [tparse]. apply (step_post E HE (tparse E n) (tcheck E n)); try assumption.
      - intros inh' e' pos' st' gs' Hl' Hpre'. apply IH; assumption.
      - intros inh' e' pos' st' gs' Hl' Hpre'. apply IH; assumption. }
    split; [exact Hp|].
    rewrite check_is_parse.
    + eapply postc_erase. exact Hp.
    + intros Hx. rewrite Hx in Hp. exact Hp.
Qed.

Theorem tparse_boundaries E : env_ok E -> forall fuel inh e pos st gs,
  lits_ok e -> pre (e_inp E) pos st gs ->
  post (e_inp E) (good_node (e_inp E)) gs pos (tparse E fuel inh e pos st).
Proof. intros HE fuel inh e pos st gs Hl Hpre. apply boundaries_both; assumption. Qed.

Theorem tcheck_boundaries E : env_ok E -> forall fuel inh e pos st gs,
  lits_ok e -> pre (e_inp E) pos st gs ->
  postc (e_inp E) gs pos (tcheck E fuel inh e pos st).
Proof. intros HE fuel inh e pos st gs Hl Hpre. apply boundaries_both; assumption. Qed.

(* ---- entry points --------------------------------------------------------------------------- *)

Lemma pre_start E : env_ok E -> pre (e_inp E) (i_start (e_inp E)) st0 [].
Proof.
  intros HE. split; [apply good_cur_start; apply HE|]. split; [apply good_state_st0|exact sinv_new].
Qed.

Lemma lits_ok_rule r k : lits_ok (TRule r k).
Proof. constructor. Qed.

Theorem try_parse_partial_good E fuel r : env_ok E ->
  post (e_inp E) (good_node (e_inp E)) [] (i_start (e_inp E)) (try_parse_partial E fuel r).
Proof.
  intros HE. unfold try_parse_partial. apply tparse_boundaries; [exact HE|apply lits_ok_rule|apply pre_start; exact HE].
Qed.

Theorem try_check_partial_good E fuel r : env_ok E ->
  postc (e_inp E) [] (i_start (e_inp E)) (try_check_partial E fuel r).
Proof.
  intros HE. unfold try_check_partial. apply tcheck_boundaries; [exact HE|apply lits_ok_rule|apply pre_start; exact HE].
Qed.

Lemma eoi_attempt_good E pos st : good_cur (e_inp E) pos -> good_state (e_inp E) st ->
  post_entry (e_inp E) (fun _ : unit => True) (eoi_attempt E pos st).
Proof.
  intros Hc Hst. unfold eoi_attempt.
  assert (H1 : good_state (e_inp E) (ev (EEnter (e_eoi E) pos) st)) by (apply good_state_ev; assumption).
  destruct (i_at_end (e_inp E) pos); cbn [post_entry]; [split; [exact I|]|]; apply good_state_ev; assumption.
Qed.

Lemma top_skip_p_good E fuel pos st gs : env_ok E -> pre (e_inp E) pos st gs ->
  post (e_inp E) (good_node (e_inp E)) gs pos (top_skip_p E fuel pos st).
Proof.
  intros HE Hpre. unfold top_skip_p. apply (skip_post E HE (tparse E fuel) (tcheck E fuel)); [| |exact Hpre].
  - intros inh e p s g Hl Hp. apply tparse_boundaries; assumption.
  - intros inh e p s g Hl Hp. apply tcheck_boundaries; assumption.
Qed.

Theorem try_parse_good E fuel r : env_ok E ->
  post_entry (e_inp E) (good_node (e_inp E)) (try_parse E fuel r).
Proof.
  intros HE. unfold try_parse. pose proof (try_parse_partial_good E fuel r HE) as Hp.
  destruct (try_parse_partial E fuel r) as [[pos t] st|st| |]; cbn [post post_entry] in *; try tauto.
  destruct Hp as (H1 & H2 & H3 & H4 & H5).
  destruct (no_ignore E r).
  - pose proof (eoi_attempt_good E pos st H2 H4) as He.
    destruct (eoi_attempt E pos st) as [[] st'|st'| |]; cbn [post_entry] in *; tauto.
  - pose proof (top_skip_p_good E fuel pos st [] HE (conj H2 (conj H4 H5))) as Hs.
    destruct (top_skip_p E fuel pos st) as [[pos' t'] st'|st'| |]; cbn [post post_entry] in *; try tauto.
    destruct Hs as (G1 & G2 & G3 & G4 & G5).
    pose proof (eoi_attempt_good E pos' st' G2 G4) as He.
    destruct (eoi_attempt E pos' st') as [[] st''|st''| |]; cbn [post_entry] in *; tauto.
Qed.

Theorem try_check_good E fuel r : env_ok E ->
  post_entry (e_inp E) (fun _ : unit => True) (try_check E fuel r).
Proof.
  intros HE. pose proof (try_parse_good E fuel r HE) as Hp.
  rewrite try_check_is_parse.
  - destruct (try_parse E fuel r); cbn [post_entry erase_all] in *; tauto.
  - intros Hx. rewrite Hx in Hp. exact Hp.
Qed.

(* the error location reported by the tracker *)
Theorem error_location_good E : env_ok E -> forall st,
  good_state (e_inp E) st ->
  good_cur (e_inp E) (t_position (run_tracker (i_start (e_inp E)) (tr st))).
Proof. intros HE st Hst. apply tracker_position_good; [apply HE|exact Hst]. Qed.

Definition final_state {A} (r : res A) : option state :=
  match r with Ok _ st => Some st | Fail st => Some st | _ => None end.

Theorem entry_error_location E fuel r : env_ok E ->
  forall st,
    (final_state (try_parse_partial E fuel r) = Some st \/ final_state (try_check_partial E fuel r) = Some st \/
     final_state (try_parse E fuel r) = Some st \/ final_state (try_check E fuel r) = Some st) ->
    good_cur (e_inp E) (t_position (run_tracker (i_start (e_inp E)) (tr st))).
Proof.
  intros HE st H. apply error_location_good; [exact HE|].
  destruct H as [H|[H|[H|H]]].
  - pose proof (try_parse_partial_good E fuel r HE) as Hp.
    destruct (try_parse_partial E fuel r) as [[p t] s|s| |]; cbn [final_state post] in *; inversion H; subst; tauto.
  - pose proof (try_check_partial_good E fuel r HE) as Hp.
    destruct (try_check_partial E fuel r) as [p s|s| |]; cbn [final_state postc] in *; inversion H; subst; tauto.
  - pose proof (try_parse_good E fuel r HE) as Hp.
    destruct (try_parse E fuel r) as [t s|s| |]; cbn [final_state post_entry] in *; inversion H; subst; tauto.
  - pose proof (try_check_good E fuel r HE) as Hp.
    destruct (try_check E fuel r) as [t s|s| |]; cbn [final_state post_entry] in *; inversion H; subst; tauto.
Qed.

(* the text of every span of a good tree can be taken, and is valid UTF-8 *)
Theorem good_node_span_text I t : good_inp I -> good_node I t ->
  forall sp, In sp (node_spans t) -> exists txt, span_str I sp = MOk txt /\ valid_utf8 txt.
Proof.
  intros HI Ht sp Hin. unfold good_node in Ht. rewrite Forall_forall in Ht.
  apply span_str_good; [exact HI|apply Ht; exact Hin].
Qed.

(* ---- the statements of Properties/C09.v, with [pre] / [post] spelled out -------------------- *)

Lemma c09_tparse : forall E, env_ok E -> forall fuel inh e pos st gs,
  lits_ok e -> good_cur (e_inp E) pos -> good_state (e_inp E) st -> SInv (stk st) gs ->
  match tparse E fuel inh e pos st with
  | Ok (pos', t) st' =>
      pos <= pos' /\ good_cur (e_inp E) pos' /\ good_node (e_inp E) t /\
      good_state (e_inp E) st' /\ SInv (stk st') gs
  | Fail st' => good_state (e_inp E) st' /\ SInv (stk st') gs
  | Panic => False
  | Fuel => True
  end.
Proof.
  intros E HE fuel inh e pos st gs Hl Hc Hst Hi.
  exact (tparse_boundaries E HE fuel inh e pos st gs Hl (mk_pre _ pos st gs Hc Hst Hi)).
Qed.

Lemma c09_tcheck : forall E, env_ok E -> forall fuel inh e pos st gs,
  lits_ok e -> good_cur (e_inp E) pos -> good_state (e_inp E) st -> SInv (stk st) gs ->
  match tcheck E fuel inh e pos st with
  | Ok pos' st' => pos <= pos' /\ good_cur (e_inp E) pos' /\ good_state (e_inp E) st' /\ SInv (stk st') gs
  | Fail st' => good_state (e_inp E) st' /\ SInv (stk st') gs
  | Panic => False
  | Fuel => True
  end.
Proof.
  intros E HE fuel inh e pos st gs Hl Hc Hst Hi.
  exact (tcheck_boundaries E HE fuel inh e pos st gs Hl (mk_pre _ pos st gs Hc Hst Hi)).
Qed.

Lemma c09_entry_points : forall E fuel r, env_ok E ->
  match try_parse_partial E fuel r with
  | Ok (pos', t) st' =>
      i_start (e_inp E) <= pos' /\ good_cur (e_inp E) pos' /\ good_node (e_inp E) t /\ good_state (e_inp E) st'
  | Fail st' => good_state (e_inp E) st'
  | Panic => False
  | Fuel => True
  end /\
  match try_check_partial E fuel r with
  | Ok pos' st' => i_start (e_inp E) <= pos' /\ good_cur (e_inp E) pos' /\ good_state (e_inp E) st'
  | Fail st' => good_state (e_inp E) st'
  | Panic => False
  | Fuel => True
  end /\
  match try_parse E fuel r with
  | Ok t st' => good_node (e_inp E) t /\ good_state (e_inp E) st'
  | Fail st' => good_state (e_inp E) st'
  | Panic => False
  | Fuel => True
  end /\
  match try_check E fuel r with
  | Ok _ st' => good_state (e_inp E) st'
  | Fail st' => good_state (e_inp E) st'
  | Panic => False
  | Fuel => True
  end.
Proof.
  intros E fuel r HE.
  pose proof (try_parse_partial_good E fuel r HE) as H1.
  pose proof (try_check_partial_good E fuel r HE) as H2.
  pose proof (try_parse_good E fuel r HE) as H3.
  pose proof (try_check_good E fuel r HE) as H4.
  repeat split.
  - destruct (try_parse_partial E fuel r) as [[p t] s|s| |]; cbn [post] in H1; tauto.
  - destruct (try_check_partial E fuel r) as [p s|s| |]; cbn [postc] in H2; tauto.
  - destruct (try_parse E fuel r) as [t s|s| |]; cbn [post_entry] in H3; tauto.
  - destruct (try_check E fuel r) as [t s|s| |]; cbn [post_entry] in H4; tauto.
Qed.

(* ---- non-vacuity ---------------------------------------------------------------------------- *)

(* "aé€é😀" : 1-, 2-, 3-, 2- and 4-byte characters; the rule matches
   "a" ~ PUSH(ANY) ~ '\u{1f40}'..'\u{2328}' ~ PEEK ~ skip 1 char ~ EOI *)
Definition ex_cs : list char := [97; 233; 8364; 233; 128512]%N.
Definition ex_body : texpr :=
  TSeq SkOff [TStr (encode [97%N]); TPush TAny; TRange 8000%N 9000%N; TPeek; TSkipChars 1; TEoi].
Definition ex_body2 : texpr := TSeq SkOff [TPush TAny; TRange 8000%N 9000%N; TPeek; TEoi].
Definition ex_env (I : inp) (body : texpr) : env :=
  mk_env I (fun _ => mk_rdef (Some false) EmBoth body) SkipEmpty (fun _ _ => false) 99%N true true true.

Lemma ex_cs_valid : valid_str ex_cs.
Proof. repeat constructor. Qed.

Example ex_env_ok : env_ok (ex_env (inp_of_str (encode ex_cs)) ex_body).
Proof.
  split; [apply good_inp_str; exact ex_cs_valid|]. repeat split.
  intros r. cbn. constructor; [|constructor]. exists [97%N]. split; [repeat constructor|reflexivity].
Qed.

Example ex_runs :
  exists t st, try_parse (ex_env (inp_of_str (encode ex_cs)) ex_body) 20 0%N = Ok t st /\
               node_spans t = [(6, 8); (8, 12); (0, 12)] /\ cache (stk st) = [(1, 3)].
Proof. vm_compute. eexists _, _. repeat split. Qed.

(* the same characters seen through a SubInput2 that starts after "a" and ends before the emoji *)
Example ex_sub_ok : env_ok (ex_env (inp_of_span (encode ex_cs) 1 8) ex_body2).
Proof.
  split.
  - split; [exists ex_cs; split; [exact ex_cs_valid|reflexivity]|]. vm_compute. repeat split; lia.
  - repeat split. intros r. constructor.
Qed.

Example ex_sub_runs :
  exists t st, try_parse (ex_env (inp_of_span (encode ex_cs) 1 8) ex_body2) 20 0%N = Ok t st /\
               node_spans t = [(6, 8); (1, 8)].
Proof. vm_compute. eexists _, _. repeat split. Qed.

(* the hypotheses are needed: an input cut inside a character, or a string needle that is not valid
   UTF-8, do make the model panic *)
Example ex_bad_input_panics :
  tparse (ex_env (inp_of_span (encode [8364%N]) 0 1) TAny) 5 true TAny 0 st0 = Panic.
Proof. reflexivity. Qed.

Example ex_bad_needle_panics :
  tparse (ex_env (inp_of_str (encode [233%N])) TAny) 5 true (TSeq SkOff [TStr [195%N]; TAny]) 0 st0 = Panic.
Proof. reflexivity. Qed.
