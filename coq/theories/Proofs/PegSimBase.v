(* C01: what the two simulation directions (PegSimFwd.v, PegSimRev.v) share -- the side conditions on the
   grammar, the relations between results, how a rule call decomposes, and the agreement of all leaves
   (terminals, built-ins, stack reads) of the optimized AST with their translations. *)
From Coq Require Import List NArith ZArith Arith Bool Lia.
From PT Require Import Model.Base Model.Stack Model.Texpr Model.SliceSpec Model.Sem Model.Aparse Model.Tok Model.Tokens.
From PT Require Import Model.Ast Model.Translate Model.PegSpec Model.GenEnv.
From PT Require Import Proofs.PegMono.
Import ListNotations.

(* ---- the right-spine flattening of the translation, as top-level functions ---- *)
Fixpoint seq_spine (eoi : N) (k : sk) (x : oexpr) : list texpr :=
  match x with
  | OSeq a b => tr eoi k a :: seq_spine eoi k b
  | _ => [tr eoi k x]
  end.

Fixpoint choice_spine (eoi : N) (k : sk) (x : oexpr) : list texpr :=
  match x with
  | OChoice a b => tr eoi k a :: choice_spine eoi k b
  | _ => [tr eoi k x]
  end.

Lemma tr_seq eoi k a b : tr eoi k (OSeq a b) = TSeq k (tr eoi k a :: seq_spine eoi k b).
Proof.
  cbn [tr]. do 2 f_equal. induction b; try reflexivity. cbn [seq_spine]. f_equal. exact IHb2.
Qed.

Lemma tr_choice eoi k a b : tr eoi k (OChoice a b) = TChoice (tr eoi k a :: choice_spine eoi k b).
Proof.
  cbn [tr]. do 2 f_equal. induction b; try reflexivity. cbn [choice_spine]. f_equal. exact IHb2.
Qed.

(* ---- decidable side conditions ---- *)
Definition kind_atomic (k : rkind) : bool :=
  match k with KAtomic | KCompound => true | _ => false end.

(* rule x may be referred to explicitly (from a rule body, or as the entry rule): it is not the EOI
   index, and if it is WHITESPACE / COMMENT then it is declared atomic or is atomicity-insensitive *)
Definition callable (eoi : N) (g : ogrammar) (x : N) : bool :=
  negb (x =? eoi)%N &&
  (negb (is_skip_name g x) ||
   match lookup_rule (g_rules g) x with
   | None => true
   | Some d => kind_atomic (o_kind d) || flat (o_expr d)
   end).

Fixpoint refs_ok (eoi : N) (g : ogrammar) (e : oexpr) : bool :=
  match e with
  | OIdent (IdRule x) => callable eoi g x
  | OPosPred e1 | ONegPred e1 | OOpt e1 | ORep e1 | OPush e1 | ORestore e1 => refs_ok eoi g e1
  | OSeq a b | OChoice a b => refs_ok eoi g a && refs_ok eoi g b
  | _ => true
  end.

(* the index the generator gives the EOI rule is not a rule of the grammar, is not mentioned as one, and
   is not WHITESPACE / COMMENT *)
Definition eoi_fresh (eoi : N) (g : ogrammar) : bool :=
  negb (existsb (fun d => (o_name d =? eoi)%N || mentions eoi (o_expr d)) (g_rules g)) &&
  negb (is_skip_name g eoi).

(* ---- relations between results ---- *)

(* forward: what the typed side may answer when the spec answers p (tokens and trees are ignored; the typed
   side has more debug assertions, hence may panic where the spec does not) *)
Definition fsim {T} (p : pres) (a : ares (nat * T)) : Prop :=
  match p with
  | POk pos stk _ => a = APanic \/ exists t, a = AOk (pos, t) stk
  | PFail => a = APanic \/ a = AFail
  | PPanic => a = APanic
  | PFuel => True
  end.

(* backward: what the spec answers when the typed side answers a *)
Definition rsim {T} (a : ares (nat * T)) (p : pres) : Prop :=
  match a with
  | AOk (pos, _) stk => exists toks, p = POk pos stk toks
  | AFail => p = PFail
  | _ => True
  end.

(* both, for constructs that need no recursion *)
Definition lagree {T} (p : pres) (a : ares (nat * T)) : Prop :=
  match p with
  | POk pos stk _ => a = APanic \/ exists t, a = AOk (pos, t) stk
  | PFail => a = APanic \/ a = AFail
  | PPanic => a = APanic
  | PFuel => False
  end.

Lemma lagree_fsim {T} p (a : ares (nat * T)) : lagree p a -> fsim p a.
Proof. destruct p; cbn; tauto. Qed.

Lemma lagree_rsim {T} p (a : ares (nat * T)) : lagree p a -> rsim a p.
Proof.
  destruct p as [pos stk toks| | |]; cbn [lagree]; intros H.
  - destruct H as [->|[t ->]]; cbn; eauto.
  - destruct H as [->| ->]; cbn; eauto.
  - subst a. exact I.
  - destruct H.
Qed.

Lemma lagree_nofuel {T} p (a : ares (nat * T)) : lagree p a -> a <> AFuel.
Proof.
  destruct p as [pos stk toks| | |]; cbn [lagree]; intros H Hx; subst a.
  - destruct H as [H|[t H]]; discriminate.
  - destruct H as [H|H]; discriminate.
  - discriminate.
  - exact H.
Qed.

Lemma fsim_toks {T} pos stk toks toks' (a : ares (nat * T)) :
  fsim (POk pos stk toks) a -> fsim (POk pos stk toks') a.
Proof. exact (fun H => H). Qed.

(* the context relation: the typed skip flag is on exactly when the spec is non-atomic -- or the expression
   cannot tell (flat) *)
Definition ctx (e : oexpr) (k : sk) (inh : bool) (at_ : atomicity) : Prop :=
  flat e = true \/ (resolve k inh = true <-> at_ = ANon).

(* the atomicity a rule body runs in (p_call) *)
Definition inner_at (g : ogrammar) (at_ : atomicity) (r : N) (k : rkind) : atomicity :=
  match k with
  | KAtomic => AAtomic
  | KCompound => ACompound
  | KNonAtomic => if is_skip_name g r then AAtomic else ANon
  | KNormal | KSilent => if is_skip_name g r then AAtomic else at_
  end.

(* when may rule r be called with typed flag inh' against spec atomicity at_ *)
Definition call_pre (g : ogrammar) (r : N) (inh' : bool) (at_ : atomicity) : Prop :=
  if is_skip_name g r then
    match lookup_rule (g_rules g) r with
    | None => True
    | Some d =>
        kind_atomic (o_kind d) = true \/ flat (o_expr d) = true \/ (inh' = false /\ o_kind d <> KNonAtomic)
    end
  else (inh' = true <-> at_ = ANon).

Lemma call_ctx g r inh' at_ d :
  call_pre g r inh' at_ -> lookup_rule (g_rules g) r = Some d ->
  ctx (o_expr d) (skip_of_kind (o_kind d)) inh' (inner_at g at_ r (o_kind d)).
Proof.
  unfold call_pre, ctx, inner_at. intros H Hl. rewrite Hl in H.
  destruct (is_skip_name g r).
  - destruct H as [H|[H|[H1 H2]]]; [|left; exact H|].
    + right. destruct (o_kind d); cbn in *; try discriminate; split; discriminate.
    + right. subst inh'. destruct (o_kind d); cbn; try congruence; split; discriminate.
  - right. destruct (o_kind d); cbn; try exact H; split; try discriminate; reflexivity.
Qed.

(* ---- lookups ---- *)
Lemma lookup_in rs r d : lookup_rule rs r = Some d -> In d rs.
Proof. unfold lookup_rule. intros H. apply find_some in H. tauto. Qed.

Lemma find_none_all {A} (f : A -> bool) l : (forall x, In x l -> f x = false) -> find f l = None.
Proof.
  induction l as [|x l IH]; intros H; cbn; [reflexivity|].
  rewrite (H x (or_introl eq_refl)). apply IH. intros y Hy. apply H. right. exact Hy.
Qed.

Lemma aparse_S E n inh e pos stk : aparse E (S n) inh e pos stk = a_step E (aparse E n) n inh e pos stk.
Proof. reflexivity. Qed.

Section Base.
  Variables (g : ogrammar) (eoi : N) (I : inp) (pred : N -> char -> bool).
  Local Notation E := (env_of eoi g I pred).
  Local Notation G := (penv_of eoi g I pred).

  Hypothesis Hws : ws_ok g = true.
  Hypothesis Heoi : eoi_fresh eoi g = true.

  Lemma eoi_undefined : lookup_rule (g_rules g) eoi = None.
  Proof.
    unfold eoi_fresh in Heoi. apply andb_true_iff in Heoi. destruct Heoi as [H _].
    apply negb_true_iff in H. unfold lookup_rule. apply find_none_all. intros d Hd.
    destruct (o_name d =? eoi)%N eqn:Hn; [|reflexivity].
    exfalso. rewrite <- not_true_iff_false in H. apply H. apply existsb_exists. exists d.
    split; [exact Hd|]. rewrite Hn. reflexivity.
  Qed.

  Lemma eoi_not_skip : is_skip_name g eoi = false.
  Proof.
    unfold eoi_fresh in Heoi. apply andb_true_iff in Heoi. destruct Heoi as [_ H].
    apply negb_true_iff in H. exact H.
  Qed.

  Lemma eoi_not_mentioned d : In d (g_rules g) -> mentions eoi (o_expr d) = false.
  Proof.
    intros Hd. unfold eoi_fresh in Heoi. apply andb_true_iff in Heoi. destruct Heoi as [H _].
    apply negb_true_iff in H. destruct (mentions eoi (o_expr d)) eqn:Hm; [|reflexivity].
    exfalso. rewrite <- not_true_iff_false in H. apply H. apply existsb_exists. exists d.
    split; [exact Hd|]. rewrite Hm. apply orb_true_r.
  Qed.

  Lemma skip_name_ok x : is_skip_name g x = true -> skip_rule_ok g (Some x) = true.
  Proof.
    unfold is_skip_name, ws_ok in *. apply andb_true_iff in Hws. destruct Hws as [H1 H2].
    intros H. apply orb_true_iff in H. destruct H as [H|H].
    - destruct (g_ws g) as [w|]; [|discriminate]. apply N.eqb_eq in H. subst w. exact H1.
    - destruct (g_comment g) as [c|]; [|discriminate]. apply N.eqb_eq in H. subst c. exact H2.
  Qed.

  (* every reference in a rule body of the grammar is callable *)
  Lemma mentioned_callable d x :
    In d (g_rules g) -> mentions x (o_expr d) = true -> callable eoi g x = true.
  Proof.
    intros Hd Hm. unfold callable. apply andb_true_iff. split.
    - apply negb_true_iff. apply N.eqb_neq. intros ->. rewrite (eoi_not_mentioned d Hd) in Hm. discriminate.
    - destruct (is_skip_name g x) eqn:Hs; [|reflexivity]. cbn [negb orb].
      pose proof (skip_name_ok x Hs) as Hok. unfold skip_rule_ok in Hok.
      destruct (lookup_rule (g_rules g) x) as [dx|]; [|reflexivity].
      destruct (o_kind dx); cbn [kind_atomic orb]; try reflexivity; try exact Hok.
      + apply orb_true_iff in Hok. destruct Hok as [Hok|Hok]; [exact Hok|].
        apply negb_true_iff in Hok. rewrite <- not_true_iff_false in Hok. exfalso. apply Hok.
        apply existsb_exists. exists d. split; assumption.
      + apply orb_true_iff in Hok. destruct Hok as [Hok|Hok]; [exact Hok|].
        apply negb_true_iff in Hok. rewrite <- not_true_iff_false in Hok. exfalso. apply Hok.
        apply existsb_exists. exists d. split; assumption.
  Qed.

  Lemma refs_ok_of_mentions e :
    (forall x, mentions x e = true -> callable eoi g x = true) -> refs_ok eoi g e = true.
  Proof.
    induction e; cbn [refs_ok mentions]; intros H; try reflexivity; try (apply IHe; exact H).
    - destruct i; try reflexivity. apply H. apply N.eqb_refl.
    - rewrite IHe1, IHe2; [reflexivity| |]; intros x Hx; apply H; rewrite Hx; [apply orb_true_r|reflexivity].
    - rewrite IHe1, IHe2; [reflexivity| |]; intros x Hx; apply H; rewrite Hx; [apply orb_true_r|reflexivity].
  Qed.

  Lemma bodies_refs_ok r d : lookup_rule (g_rules g) r = Some d -> refs_ok eoi g (o_expr d) = true.
  Proof.
    intros Hl. apply refs_ok_of_mentions. intros x Hx.
    apply (mentioned_callable d x); [apply (lookup_in _ r); exact Hl|exact Hx].
  Qed.

  (* an explicit reference: the context relation of the caller gives the call precondition *)
  Lemma callable_call_pre x inh' at_ :
    callable eoi g x = true -> (inh' = true <-> at_ = ANon) -> x <> eoi /\ call_pre g x inh' at_.
  Proof.
    unfold callable, call_pre. intros H Hc. apply andb_true_iff in H. destruct H as [H1 H2].
    split; [apply N.eqb_neq; apply negb_true_iff; exact H1|].
    destruct (is_skip_name g x); [|exact Hc]. cbn [negb orb] in H2.
    destruct (lookup_rule (g_rules g) x) as [d|]; [|exact Logic.I].
    apply orb_true_iff in H2. destruct H2 as [H2|H2]; [left|right; left]; exact H2.
  Qed.

  (* a call through the implicit skip: flag off *)
  Lemma skip_call_pre x at_ :
    is_skip_name g x = true -> x <> eoi /\ call_pre g x false at_.
  Proof.
    intros Hs. split.
    - intros ->. rewrite eoi_not_skip in Hs. discriminate.
    - unfold call_pre. rewrite Hs. pose proof (skip_name_ok x Hs) as Hok. unfold skip_rule_ok in Hok.
      destruct (lookup_rule (g_rules g) x) as [d|]; [|exact Logic.I].
      destruct (o_kind d); cbn [kind_atomic]; try (left; reflexivity).
      + right. right. split; [reflexivity|discriminate].
      + right. right. split; [reflexivity|discriminate].
      + right. left. exact Hok.
  Qed.

  (* ---- how a rule call decomposes ---- *)
  Lemma p_call_none R at_ la r pos stk :
    lookup_rule (g_rules g) r = None -> p_call G R at_ la r pos stk = PFail.
  Proof. intros Hl. unfold p_call. cbn [p_rules penv_of]. rewrite Hl. reflexivity. Qed.

  Lemma p_call_ok R at_ la r pos stk d pos' stk' toks :
    lookup_rule (g_rules g) r = Some d ->
    R (inner_at g at_ r (o_kind d)) la (o_expr d) pos stk = POk pos' stk' toks ->
    exists toks', p_call G R at_ la r pos stk = POk pos' stk' toks'.
  Proof.
    intros Hl Hr. unfold p_call. cbn [p_rules penv_of]. rewrite Hl.
    change (is_skip_rule G r) with (is_skip_name g r).
    unfold inner_at in Hr.
    destruct (o_kind d); rewrite Hr;
      try (destruct (negb la && _); eexists; reflexivity); eexists; reflexivity.
  Qed.

  Lemma p_call_other R at_ la r pos stk d :
    lookup_rule (g_rules g) r = Some d ->
    (forall pos' stk' toks, R (inner_at g at_ r (o_kind d)) la (o_expr d) pos stk <> POk pos' stk' toks) ->
    p_call G R at_ la r pos stk = R (inner_at g at_ r (o_kind d)) la (o_expr d) pos stk.
  Proof.
    intros Hl Hr. unfold p_call. cbn [p_rules penv_of]. rewrite Hl.
    change (is_skip_rule G r) with (is_skip_name g r).
    unfold inner_at in *.
    destruct (o_kind d);
      match goal with
      | |- context [match ?x with _ => _ end] =>
          destruct x as [p1 s1 t1| | |] eqn:Hx; try reflexivity; exfalso; apply (Hr p1 s1 t1); reflexivity
      end.
  Qed.

  (* the typed side of a call to a rule of the grammar *)
  Lemma a_call_some m inhX arg r pos stk d : r <> eoi ->
    lookup_rule (g_rules g) r = Some d ->
    aparse E (S m) inhX (TRule r arg) pos stk =
    match aparse E m (resolve arg inhX) (tr eoi (skip_of_kind (o_kind d)) (o_expr d)) pos stk with
    | AOk (pos', t) stk' =>
        match emis_of_kind (o_kind d) with
        | EmExpr => AOk (pos', NRule r (Some t) None) stk'
        | EmSpan => alift (i_span I pos pos') (fun sp => AOk (pos', NRule r None (Some sp)) stk')
        | EmBoth => alift (i_span I pos pos') (fun sp => AOk (pos', NRule r (Some t) (Some sp)) stk')
        end
    | AFail => AFail
    | APanic => APanic
    | AFuel => AFuel
    end.
  Proof.
    intros Hne Hl. cbn [aparse a_step e_rules env_of]. apply N.eqb_neq in Hne. rewrite Hne, Hl. reflexivity.
  Qed.

  Lemma a_call_none m inhX arg r pos stk : r <> eoi ->
    lookup_rule (g_rules g) r = None ->
    aparse E (S (S m)) inhX (TRule r arg) pos stk = AFail.
  Proof.
    intros Hne Hl. cbn [aparse a_step e_rules env_of]. apply N.eqb_neq in Hne. rewrite Hne, Hl. reflexivity.
  Qed.

  (* ---- leaves ---- *)
  Lemma peek_spans_eq sps : forall pos, p_peek_spans I sps pos = peek_spans E sps pos.
  Proof.
    induction sps as [|sp sps IH]; intros pos; cbn [p_peek_spans peek_spans e_inp env_of]; [reflexivity|].
    destruct (span_str I sp) as [txt|]; cbn [mbind]; [|reflexivity].
    destruct (i_match_string I txt pos) as [[p|]|]; cbn [mbind]; try reflexivity. apply IH.
  Qed.

  Lemma imc_or f f1 f2 pos : (forall c, f c = f1 c || f2 c) ->
    i_match_char I f pos =
    match i_match_char I f1 pos with
    | MOk None => i_match_char I f2 pos
    | r => r
    end.
  Proof.
    intros Hf. unfold i_match_char. destruct (i_get I pos) as [rest|]; cbn [mbind]; [|reflexivity].
    destruct (dec1 rest) as [[c l]|]; [|reflexivity]. rewrite Hf.
    destruct (f1 c), (f2 c); reflexivity.
  Qed.

  Lemma imc_ext f f' pos : (forall c, f c = f' c) -> i_match_char I f pos = i_match_char I f' pos.
  Proof.
    intros Hf. unfold i_match_char. destruct (i_get I pos) as [rest|]; cbn [mbind]; [|reflexivity].
    destruct (dec1 rest) as [[c l]|]; [|reflexivity]. rewrite Hf. reflexivity.
  Qed.

  Lemma range_agree f lo hi m inh pos stk :
    (forall c, f c = (lo <=? c)%N && (c <=? hi)%N) ->
    lagree (pchar (i_match_char I f pos) stk) (aparse E (S m) inh (TRange lo hi) pos stk).
  Proof.
    intros Hf. cbn [aparse a_step e_inp env_of].
    match goal with |- context [alift (i_match_char I ?h pos) _] => rewrite (imc_ext f h pos Hf); set (hh := h) end.
    destruct (i_match_char I hh pos) as [[[p c]|]|]; cbn [pchar plift alift lagree].
    - destruct (i_span I pos p) as [sp|]; cbn [alift]; [|left; reflexivity].
      destruct (span_str I sp) as [txt|]; cbn [alift]; [|left; reflexivity].
      destruct (dec1 txt) as [[c' l]|]; [right; eexists; reflexivity|left; reflexivity].
    - right. reflexivity.
    - reflexivity.
  Qed.

  Lemma choice_single f e1 m inh n i pos stk :
    lagree (pchar (i_match_char I f pos) stk) (aparse E m inh e1 pos stk) ->
    lagree (pchar (i_match_char I f pos) stk) (a_choice (aparse E m) inh n [e1] i pos stk).
  Proof.
    cbn [a_choice]. destruct (i_match_char I f pos) as [[[p c]|]|]; cbn [pchar plift lagree].
    - intros [->|[t ->]]; [left; reflexivity|right; eexists; reflexivity].
    - intros [->| ->]; [left; reflexivity|right; reflexivity].
    - intros ->. reflexivity.
  Qed.

  Lemma choice_cons f f1 f2 e1 rest m inh n i pos stk :
    (forall c, f c = f1 c || f2 c) ->
    lagree (pchar (i_match_char I f1 pos) stk) (aparse E m inh e1 pos stk) ->
    lagree (pchar (i_match_char I f2 pos) stk) (a_choice (aparse E m) inh n rest (S i) pos stk) ->
    lagree (pchar (i_match_char I f pos) stk) (a_choice (aparse E m) inh n (e1 :: rest) i pos stk).
  Proof.
    intros Hf. rewrite (imc_or f f1 f2 pos Hf). cbn [a_choice].
    destruct (i_match_char I f1 pos) as [[[p c]|]|]; cbn [pchar plift lagree].
    - intros [->|[t ->]] _; [left; reflexivity|right; eexists; reflexivity].
    - intros [->| ->] H2; [|exact H2].
      destruct (i_match_char I f2 pos) as [[[p c]|]|]; cbn [pchar plift lagree]; try (left; reflexivity); reflexivity.
    - intros -> _. reflexivity.
  Qed.

  Lemma newline_agree pos stk :
    lagree (p_newline G pos stk) (a_newline E newline_bytes pos stk).
  Proof.
    unfold p_newline, newline_bytes. cbn [a_newline p_inp penv_of e_inp env_of].
    unfold i_match_string, pleaf. destruct (i_get I pos) as [rest|]; cbn [mbind plift alift]; [|reflexivity].
    destruct rest as [|b rest]; cbn [is_prefix plift alift lagree]; [right; reflexivity|].
    destruct (10 =? b)%N eqn:E10; destruct (13 =? b)%N eqn:E13; cbn [andb plift alift lagree].
    - apply N.eqb_eq in E10, E13. congruence.
    - right. eexists. reflexivity.
    - destruct rest as [|b2 rest]; cbn [is_prefix andb plift alift lagree].
      + right. eexists. reflexivity.
      + destruct (10 =? b2)%N; cbn [andb plift alift lagree]; right; eexists; reflexivity.
    - right. reflexivity.
  Qed.

  (* which expressions are leaves *)
  Definition leaf (e : oexpr) : bool :=
    match e with
    | OStr _ | OInsens _ | ORange _ _ | OPeekSlice _ _ | OSkip _ => true
    | OIdent (IdBuiltin _) | OIdent (IdUnicode _) => true
    | _ => false
    end.

  Ltac fin :=
    cbn [lagree plift alift pleaf pchar aleaf];
    first [reflexivity | left; reflexivity | right; reflexivity | right; eexists; reflexivity].

  Ltac stepA := rewrite aparse_S; cbn [a_step e_inp env_of p_inp penv_of length].

  Lemma builtin_agree at_ la b pos stk inh m :
    lagree (p_builtin G at_ la b pos stk) (aparse E (3 + m) inh (builtin_texpr eoi b) pos stk).
  Proof.
    change (3 + m) with (S (S (S m))).
    destruct b; cbn [builtin_texpr p_builtin p_inp penv_of];
      try (apply range_agree; intros c; reflexivity).
    - (* ANY *) stepA.
      destruct (i_match_char I (fun _ => true) pos) as [[[p c]|]|]; fin.
    - (* SOI *) stepA. destruct (i_at_start I pos); fin.
    - (* EOI *) stepA. cbn [e_rules env_of]. rewrite N.eqb_refl. cbn [r_body r_emis resolve]. stepA.
      destruct (i_at_end I pos); [|fin].
      destruct (i_span I pos pos); fin.
    - (* PEEK *) stepA.
      destruct stk as [|sp stk']; [fin|].
      destruct (span_str I sp) as [txt|]; [|fin]. cbn [plift alift].
      destruct (i_match_string I txt pos) as [[p|]|]; try fin.
      cbn [pleaf plift aleaf alift]. destruct (i_span I pos p); fin.
    - (* PEEK_ALL *) stepA. rewrite peek_spans_eq.
      destruct (peek_spans E stk pos) as [[p|]|]; try fin.
      cbn [pleaf plift aleaf alift]. destruct (i_span I pos p); fin.
    - (* POP *) stepA.
      destruct stk as [|sp stk']; [fin|].
      destruct (span_str I sp) as [txt|]; [|fin]. cbn [plift alift].
      destruct (i_match_string I txt pos) as [[p|]|]; fin.
    - (* POP_ALL *) stepA. rewrite peek_spans_eq.
      destruct (peek_spans E stk pos) as [[p|]|]; try fin.
      cbn [pleaf plift aleaf alift]. destruct (i_span I pos p); fin.
    - (* DROP *) stepA. destruct stk as [|sp stk']; fin.
    - (* NEWLINE *) stepA. apply newline_agree.
    - (* ASCII_HEX_DIGIT *) stepA.
      apply (choice_cons _ (in_range 48 57) (fun c => in_range 97 102 c || in_range 65 70 c)).
      + intros c. rewrite orb_assoc. reflexivity.
      + apply range_agree. intros c. reflexivity.
      + apply (choice_cons _ (in_range 97 102) (in_range 65 70)).
        * intros c. reflexivity.
        * apply range_agree. intros c. reflexivity.
        * apply choice_single. apply range_agree. intros c. reflexivity.
    - (* ASCII_ALPHA *) stepA.
      apply (choice_cons _ (in_range 97 122) (in_range 65 90)).
      + intros c. reflexivity.
      + apply range_agree. intros c. reflexivity.
      + apply choice_single. apply range_agree. intros c. reflexivity.
    - (* ASCII_ALPHANUMERIC *) stepA.
      apply (choice_cons _ (fun c => in_range 97 122 c || in_range 65 90 c) (in_range 48 57)).
      + intros c. reflexivity.
      + stepA.
        apply (choice_cons _ (in_range 97 122) (in_range 65 90)).
        * intros c. reflexivity.
        * apply range_agree. intros c. reflexivity.
        * apply choice_single. apply range_agree. intros c. reflexivity.
      + apply choice_single. apply range_agree. intros c. reflexivity.
    - (* undefined WHITESPACE / COMMENT *) stepA. fin.
  Qed.

  Lemma leaf_agree R CALL lf at_ la e pos stk k inh m :
    leaf e = true ->
    lagree (p_step G R CALL lf at_ la e pos stk) (aparse E (3 + m) inh (tr eoi k e) pos stk).
  Proof.
    destruct e; cbn [leaf]; try discriminate; intros Hl; change (3 + m) with (S (S (S m))).
    - (* OStr *) cbn [tr p_step]. stepA.
      destruct (i_match_string I s pos) as [[p|]|]; fin.
    - (* OInsens *) cbn [tr p_step]. stepA.
      destruct (i_match_insens I s pos) as [[p|]|]; try fin.
      cbn [pleaf plift aleaf alift]. destruct (i_span I pos p) as [sp|]; [|fin]. cbn [alift].
      destruct (span_str I sp); fin.
    - (* ORange *) cbn [tr p_step p_inp penv_of]. apply range_agree. intros c. reflexivity.
    - (* OIdent *) destruct i; try discriminate Hl.
      + cbn [tr tr_ident p_step]. apply (builtin_agree at_ la b pos stk inh m).
      + cbn [tr tr_ident p_step]. stepA. cbn [e_pred p_pred env_of penv_of].
        destruct (i_match_char I (pred p) pos) as [[[p' c]|]|]; fin.
    - (* OPeekSlice *) cbn [tr p_step]. stepA.
      change (a_slice stk a b) with (p_slice stk a b).
      destruct (p_slice stk a b) as [sps|]; [|fin]. rewrite peek_spans_eq.
      destruct (peek_spans E sps pos) as [[p|]|]; try fin.
      cbn [pleaf plift aleaf alift]. destruct (i_span I pos p); fin.
    - (* OSkip *) cbn [tr p_step]. stepA.
      destruct (i_skip_until I true ss pos) as [f p]. destruct (i_span I pos p); fin.
  Qed.

  (* not a leaf: the recursive constructs *)
  Lemma flat_not_rule x : flat (OIdent (IdRule x)) = false.
  Proof. reflexivity. Qed.
End Base.
