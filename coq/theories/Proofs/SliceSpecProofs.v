(* Facts about the slice specification alone (no generated code involved). *)
From Coq Require Import ZArith Bool Lia.
From PT Require Import Model.SliceSpec.
Local Open Scope Z_scope.

Lemma norm_spec_bounds i len r : 0 <= len -> norm_spec i len = Some r -> 0 <= r <= len.
Proof.
  unfold norm_spec. intros Hl.
  destruct (Z.leb_spec 0 i); [destruct (Z.leb_spec i len)|destruct (Z.leb_spec 0 (len + i))];
    intros Hr; inversion Hr; subst; lia.
Qed.

(* whatever the slice function accepts lies inside the stack: `stack[range]` cannot panic *)
Theorem slice_spec_in_bounds a b len s e :
  0 <= len -> slice_spec a b len = Some (s, e) -> 0 <= s <= len /\ 0 <= e <= len.
Proof.
  unfold slice_spec. intros Hl.
  destruct (norm_spec a len) as [s'|] eqn:Hs; [|discriminate].
  destruct b as [b'|].
  - destruct (norm_spec b' len) as [e'|] eqn:He; [|discriminate].
    intros H; inversion H; subst.
    split; eapply norm_spec_bounds; eauto.
  - intros H; inversion H; subst. split; [eapply norm_spec_bounds; eauto|lia].
Qed.

