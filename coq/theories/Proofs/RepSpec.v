(* C19: counted repetition, arrays, pairs, optionals on the reference interpreter, and their
   transfer to the real parse path through the refinement theorem. *)
From Coq Require Import List NArith ZArith Arith Bool Lia.
From PT Require Import Model.Base Model.Stack Model.Texpr Model.SliceSpec Model.Sem Model.Aparse.
From PT Require Import Proofs.StackInv Proofs.CheckParse Proofs.Refine.
Import ListNotations.

Section Rep.
  Variable E : env.
  Variable A : bool -> texpr -> nat -> list span -> ares (nat * tnode).
  Variable lf : nat.
  Variables (b inh : bool) (e : texpr).

  (* consecutive successful units i, i+1, ...: unit 0 is the element alone, every later unit is
     "skip (if skipping is on), then the element"; each starts where the previous one stopped *)
  Inductive units : nat -> nat -> list span -> list (list tnode * tnode) -> nat -> list span -> Prop :=
  | units_nil i pos stk : units i pos stk [] pos stk
  | units_cons i pos stk it pos1 stk1 its pos2 stk2 :
      a_unit E A lf b inh e i pos stk = AOk (pos1, it) stk1 ->
      units (S i) pos1 stk1 its pos2 stk2 ->
      units i pos stk (it :: its) pos2 stk2.

  Lemma units_app i pos stk its1 pos1 stk1 its2 pos2 stk2 :
    units i pos stk its1 pos1 stk1 ->
    units (i + length its1) pos1 stk1 its2 pos2 stk2 ->
    units i pos stk (its1 ++ its2) pos2 stk2.
  Proof.
    intros H. induction H as [i pos stk | i pos stk it p1 s1 its p2 s2 Hu Hr IH]; intros H2.
    - cbn in H2. rewrite Nat.add_0_r in H2. exact H2.
    - cbn [app]. econstructor; [eassumption|]. apply IH.
      cbn [length] in H2. replace (S i + length its) with (i + S (length its)) by lia. exact H2.
  Qed.

  (* why the loop stopped at index [i] in state (pos, stk) *)
  Definition stopped (mx : option nat) (i pos : nat) (stk : list span) : Prop :=
    below i mx = false \/ a_unit E A lf b inh e i pos stk = AFail.

  Lemma a_rep_spec mn mx : forall n i pos stk acc,
    match a_rep E A lf n b inh mn mx e i pos stk acc with
    | AOk (pos', t) stk' =>
        exists its, t = NRep (bounded mx) (rev acc ++ its) /\
                    units i pos stk its pos' stk' /\
                    stopped mx (i + length its) pos' stk' /\
                    mn <= i + length its /\
                    (forall j, j < length its -> below (i + j) mx = true)
    | AFail =>
        exists its pos' stk', units i pos stk its pos' stk' /\
                    stopped mx (i + length its) pos' stk' /\
                    i + length its < mn /\
                    (forall j, j < length its -> below (i + j) mx = true)
    | _ => True
    end.
  Proof.
    induction n as [|n IH]; intros i pos stk acc; cbn [a_rep].
    - destruct (below i mx) eqn:Hb; [exact I|].
      destruct (Nat.ltb_spec i mn) as [Hlt|Hge].
      + exists [], pos, stk. cbn [length]. rewrite Nat.add_0_r.
        repeat split; [constructor|left; assumption|assumption|intros j Hj; lia].
      + exists []. cbn [length]. rewrite Nat.add_0_r, app_nil_r.
        repeat split; [constructor|left; assumption|assumption|intros j Hj; lia].
    - destruct (below i mx) eqn:Hb.
      + destruct (a_unit E A lf b inh e i pos stk) as [[p1 it] s1| | |] eqn:Hu; try exact I.
        * specialize (IH (S i) p1 s1 (it :: acc)).
          destruct (a_rep E A lf n b inh mn mx e (S i) p1 s1 (it :: acc)) as [[p' t] s'| | |]; try exact I.
          -- destruct IH as (its & -> & Hun & Hst & Hmn & Hbl).
             exists (it :: its). cbn [length rev]. rewrite <- app_assoc. cbn [app].
             replace (i + S (length its)) with (S i + length its) by lia.
             repeat split; try assumption.
             ++ econstructor; eassumption.
             ++ intros j Hj. destruct j as [|j]; [rewrite Nat.add_0_r; assumption|].
                replace (i + S j) with (S i + j) by lia. apply Hbl. lia.
          -- destruct IH as (its & p' & s' & Hun & Hst & Hmn & Hbl).
             exists (it :: its), p', s'. cbn [length].
             replace (i + S (length its)) with (S i + length its) by lia.
             repeat split; try assumption.
             ++ econstructor; eassumption.
             ++ intros j Hj. destruct j as [|j]; [rewrite Nat.add_0_r; assumption|].
                replace (i + S j) with (S i + j) by lia. apply Hbl. lia.
        * destruct (Nat.ltb_spec i mn) as [Hlt|Hge].
          -- exists [], pos, stk. cbn [length]. rewrite Nat.add_0_r.
             repeat split; [constructor|right; assumption|assumption|intros j Hj; lia].
          -- exists []. cbn [length]. rewrite Nat.add_0_r, app_nil_r.
             repeat split; [constructor|right; assumption|assumption|intros j Hj; lia].
      + destruct (Nat.ltb_spec i mn) as [Hlt|Hge].
        * exists [], pos, stk. cbn [length]. rewrite Nat.add_0_r.
          repeat split; [constructor|left; assumption|assumption|intros j Hj; lia].
        * exists []. cbn [length]. rewrite Nat.add_0_r, app_nil_r.
          repeat split; [constructor|left; assumption|assumption|intros j Hj; lia].
  Qed.

  (* [T; n]: exactly n consecutive matches of the element, nothing skipped in between *)
  Inductive chain : nat -> nat -> list span -> list tnode -> nat -> list span -> Prop :=
  | chain_nil pos stk : chain 0 pos stk [] pos stk
  | chain_cons n pos stk t pos1 stk1 ts pos2 stk2 :
      A inh e pos stk = AOk (pos1, t) stk1 ->
      chain n pos1 stk1 ts pos2 stk2 ->
      chain (S n) pos stk (t :: ts) pos2 stk2.

  Lemma a_arr_spec : forall n pos stk acc,
    match a_arr A n inh e pos stk acc with
    | AOk (pos', t) stk' => exists ts, t = NArr (rev acc ++ ts) /\ chain n pos stk ts pos' stk'
    | AFail => exists k ts pos' stk', k < n /\ chain k pos stk ts pos' stk' /\ A inh e pos' stk' = AFail
    | _ => True
    end.
  Proof.
    induction n as [|n IH]; intros pos stk acc; cbn [a_arr].
    - exists []. rewrite app_nil_r. split; [reflexivity|constructor].
    - destruct (A inh e pos stk) as [[p1 t] s1| | |] eqn:Ha; try exact I.
      + specialize (IH p1 s1 (t :: acc)).
        destruct (a_arr A n inh e p1 s1 (t :: acc)) as [[p' t'] s'| | |]; try exact I.
        * destruct IH as (ts & -> & Hc). exists (t :: ts). cbn [rev]. rewrite <- app_assoc. cbn [app].
          split; [reflexivity|]. econstructor; eassumption.
        * destruct IH as (k & ts & p' & s' & Hk & Hc & Hf).
          exists (S k), (t :: ts), p', s'. repeat split; [lia| |assumption]. econstructor; eassumption.
      + exists 0, [], pos, stk. repeat split; [lia|constructor|assumption].
  Qed.
End Rep.

(* ---- the statement at the level of the reference interpreter ---- *)

Theorem aparse_rep_bounds E fuel inh k mn mx e pos stk :
  let b := resolve k inh in
  match aparse E (S fuel) inh (TRep k mn mx e) pos stk with
  | AOk (pos', t) stk' =>
      exists its, t = NRep (bounded mx) its /\
                  units E (aparse E fuel) fuel b inh e 0 pos stk its pos' stk' /\
                  mn <= length its /\
                  (forall m, mx = Some m -> length its <= m) /\
                  stopped E (aparse E fuel) fuel b inh e mx (length its) pos' stk'
  | AFail =>
      exists its pos' stk', units E (aparse E fuel) fuel b inh e 0 pos stk its pos' stk' /\
                  length its < mn /\
                  stopped E (aparse E fuel) fuel b inh e mx (length its) pos' stk'
  | _ => True
  end.
Proof.
  intros b. cbn [aparse a_step]. fold b.
  pose proof (a_rep_spec E (aparse E fuel) fuel b inh e mn mx fuel 0 pos stk []) as H.
  destruct (a_rep E (aparse E fuel) fuel fuel b inh mn mx e 0 pos stk []) as [[p' t] s'| | |]; try exact I.
  - destruct H as (its & -> & Hu & Hst & Hmn & Hbl). exists its. cbn [rev app] in *.
    repeat split; try assumption.
    intros m ->. destruct its as [|it its'] eqn:Hits; [cbn; lia|].
    specialize (Hbl (length its - 1)). rewrite Hits in Hbl. cbn [length] in *.
    assert (Hlt : S (length its') - 1 < S (length its')) by lia.
    specialize (Hbl Hlt). cbn [below] in Hbl. apply Nat.ltb_lt in Hbl. lia.
  - destruct H as (its & p' & s' & Hu & Hst & Hmn & Hbl). exists its, p', s'. repeat split; assumption.
Qed.

Theorem aparse_arr E fuel inh n e pos stk :
  match aparse E (S fuel) inh (TArr n e) pos stk with
  | AOk (pos', t) stk' => exists ts, t = NArr ts /\ length ts = n /\ chain (aparse E fuel) inh e n pos stk ts pos' stk'
  | AFail => exists k ts pos' stk', k < n /\ chain (aparse E fuel) inh e k pos stk ts pos' stk' /\
                                    aparse E fuel inh e pos' stk' = AFail
  | _ => True
  end.
Proof.
  cbn [aparse a_step].
  pose proof (a_arr_spec (aparse E fuel) inh e n pos stk []) as H.
  destruct (a_arr (aparse E fuel) n inh e pos stk []) as [[p' t] s'| | |]; try exact I.
  - destruct H as (ts & -> & Hc). exists ts. cbn [rev app]. repeat split; [|assumption].
    clear -Hc. induction Hc; cbn [length]; congruence.
  - exact H.
Qed.

Theorem aparse_pair E fuel inh a b pos stk :
  aparse E (S fuel) inh (TPair a b) pos stk =
  match aparse E fuel inh a pos stk with
  | AOk (p1, t1) s1 =>
      match aparse E fuel inh b p1 s1 with
      | AOk (p2, t2) s2 => AOk (p2, NPair t1 t2) s2
      | AFail => AFail | APanic => APanic | AFuel => AFuel
      end
  | AFail => AFail | APanic => APanic | AFuel => AFuel
  end.
Proof. reflexivity. Qed.

Theorem aparse_opt E fuel inh e pos stk :
  aparse E (S fuel) inh (TOpt e) pos stk =
  match aparse E fuel inh e pos stk with
  | AOk (p, t) s => AOk (p, NOpt (Some t)) s
  | AFail => AOk (pos, NOpt None) stk
  | APanic => APanic | AFuel => AFuel
  end.
Proof. reflexivity. Qed.

(* ---- transfer to the real parse path: what a successful bounded repetition returned ---- *)

Theorem tparse_rep_bounds E : fixed E -> forall fuel inh k mn mx e pos st gs p t st',
  SInv (stk st) gs ->
  aparse E (S fuel) inh (TRep k mn mx e) pos (cache (stk st)) <> APanic ->
  tparse E (S fuel) inh (TRep k mn mx e) pos st = Ok (p, t) st' ->
  exists its, t = NRep (bounded mx) its /\ mn <= length its /\ (forall m, mx = Some m -> length its <= m) /\
    units E (aparse E fuel) fuel (resolve k inh) inh e 0 pos (cache (stk st)) its p (cache (stk st')) /\
    stopped E (aparse E fuel) fuel (resolve k inh) inh e mx (length its) p (cache (stk st')).
Proof.
  intros HF fuel inh k mn mx e pos st gs p t st' Hi Hn Ht.
  pose proof (tparse_refines_aparse E HF (S fuel) inh (TRep k mn mx e) pos st gs Hi Hn) as Hr.
  rewrite Ht in Hr. unfold rel in Hr.
  pose proof (aparse_rep_bounds E fuel inh k mn mx e pos (cache (stk st))) as Hs. cbv zeta in Hs.
  destruct (aparse E (S fuel) inh (TRep k mn mx e) pos (cache (stk st))) as [[p' t'] s'| | |]; try tauto.
  destruct Hr as (-> & -> & Hc & _). rewrite Hc.
  destruct Hs as (its & -> & Hu & Hmn & Hmx & Hst). exists its. repeat split; assumption.
Qed.

(* a repetition of the real parse path fails only if fewer than MIN units match *)
Theorem tparse_rep_fails E : fixed E -> forall fuel inh k mn mx e pos st gs st',
  SInv (stk st) gs ->
  aparse E (S fuel) inh (TRep k mn mx e) pos (cache (stk st)) <> APanic ->
  tparse E (S fuel) inh (TRep k mn mx e) pos st = Fail st' ->
  exists its p' s', units E (aparse E fuel) fuel (resolve k inh) inh e 0 pos (cache (stk st)) its p' s' /\
    length its < mn /\ stopped E (aparse E fuel) fuel (resolve k inh) inh e mx (length its) p' s'.
Proof.
  intros HF fuel inh k mn mx e pos st gs st' Hi Hn Ht.
  pose proof (tparse_refines_aparse E HF (S fuel) inh (TRep k mn mx e) pos st gs Hi Hn) as Hr.
  rewrite Ht in Hr. unfold rel in Hr.
  pose proof (aparse_rep_bounds E fuel inh k mn mx e pos (cache (stk st))) as Hs. cbv zeta in Hs.
  destruct (aparse E (S fuel) inh (TRep k mn mx e) pos (cache (stk st))) as [[p' t'] s'| | |]; try tauto.
Qed.

(* ---- the finding repaired by "fix: RepeatMinMax enforces MIN when the loop ends by reaching MAX" ---- *)
Definition w19_env (rep_min_after : bool) : env :=
  mk_env (inp_of_str []) (fun _ => mk_rdef None EmBoth TFail) SkipEmpty (fun _ _ => false) 0%N
         true true rep_min_after.

Lemma unrepaired_ignores_min :
  match tparse (w19_env false) 10 true (TRep SkOff 1 (Some 0) (TStr [120%N])) 0 st0 with
  | Ok (_, NRep _ its) _ => length its = 0
  | _ => False
  end.
Proof. vm_compute. reflexivity. Qed.

Example repaired_enforces_min :
  match tparse (w19_env true) 10 true (TRep SkOff 1 (Some 0) (TStr [120%N])) 0 st0 with
  | Fail _ => True
  | _ => False
  end.
Proof. vm_compute. exact I. Qed.
