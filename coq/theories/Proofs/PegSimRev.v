(* C01, completeness direction: whatever the typed parser (reference interpreter [aparse] on the translated
   grammar) answers -- a value or a failure --, the PEG spec answers too, given enough fuel: same verdict, same
   offset, same stack.  In particular the spec cannot run for ever where the typed side ends.  Induction on the
   typed side's fuel; the spec's fuel is chosen existentially ("for all large enough n'"). *)
From Coq Require Import List NArith ZArith Arith Bool Lia.
From PT Require Import Model.Base Model.Stack Model.Texpr Model.SliceSpec Model.Sem Model.Aparse Model.Tok Model.Tokens.
From PT Require Import Model.Ast Model.Translate Model.PegSpec Model.GenEnv.
From PT Require Import Proofs.PegMono Proofs.PegSimBase Proofs.PegSimFwd.
Import ListNotations.

Lemma rsim_fuel {T} p : @rsim T AFuel p.
Proof. exact I. Qed.

Lemma rsim_panic {T} p : @rsim T APanic p.
Proof. exact I. Qed.

(* the atomic repetition never fails *)
Lemma a_arep_nofail A : forall n inh e pos stk acc, a_arep A n inh e pos stk acc <> AFail.
Proof.
  induction n as [|n IH]; intros inh e pos stk acc; cbn [a_arep]; [discriminate|].
  destruct (A inh e pos stk) as [[p t] s| | |]; try discriminate. apply IH.
Qed.

Lemma a_pre_skip_false' E A lf b pos stk :
  a_pre_skip E A lf b false pos stk = AOk (pos, if b then [skip_default E] else []) stk.
Proof. unfold a_pre_skip. destruct b; reflexivity. Qed.

Lemma choice_spine_cons eoi k e : exists x xs, choice_spine eoi k e = x :: xs.
Proof. destruct e; cbn [choice_spine]; eauto. Qed.

Lemma peg_S G n at_ la e pos stk :
  peg G (S n) at_ la e pos stk = p_step G (peg G n) (p_call G (peg G n)) n at_ la e pos stk.
Proof. reflexivity. Qed.

Section Rev.
  Variables (g : ogrammar) (eoi : N) (I : inp) (pred : N -> char -> bool).
  Local Notation E := (env_of eoi g I pred).
  Local Notation G := (penv_of eoi g I pred).

  Hypothesis Hws : ws_ok g = true.
  Hypothesis Heoi : eoi_fresh eoi g = true.

  (* what is known of the typed interpreter with fuel m (fuel-out and panic relate to everything) *)
  Definition rs_main (m : nat) : Prop :=
    forall at_ la e pos stk k inh,
      ctx e k inh at_ -> refs_ok eoi g e = true ->
      exists n, forall n', n <= n' -> rsim (aparse E m inh (tr eoi k e) pos stk) (peg G n' at_ la e pos stk).

  (* less typed fuel: the same answer, or none *)
  Lemma rsim_lower m0 m1 inh te pos stk p : m0 <= m1 ->
    rsim (aparse E m1 inh te pos stk) p -> rsim (aparse E m0 inh te pos stk) p.
  Proof.
    intros Hle H. destruct (aparse E m0 inh te pos stk) as [[p0 t0] s0| | |] eqn:Ha; try exact Logic.I.
    - rewrite (aparse_fuel_mono E m0 inh te pos stk _ Ha ltac:(discriminate) m1 Hle) in H. exact H.
    - rewrite (aparse_fuel_mono E m0 inh te pos stk _ Ha ltac:(discriminate) m1 Hle) in H. exact H.
  Qed.

  Lemma rs_main_le m m0 : m0 <= m -> rs_main m -> rs_main m0.
  Proof.
    intros Hle H at_ la e pos stk k inh Hc Hr. destruct (H at_ la e pos stk k inh Hc Hr) as [n Hn].
    exists n. intros n' Hle'. apply (rsim_lower m0 m); [exact Hle|]. apply Hn. exact Hle'.
  Qed.

  Section Level.
    Variable m : nat.
    Hypothesis HA : rs_main m.

    Lemma sub_rev m1 : m1 <= m -> rs_main m1.
    Proof. intros Hle. exact (rs_main_le m m1 Hle HA). Qed.

    (* ---- rule calls ---- *)
    Lemma call_rev at_ la r pos stk inh' :
      r <> eoi -> call_pre g r inh' at_ ->
      forall m0 inhX arg, m0 <= S m -> resolve arg inhX = inh' ->
      exists n, forall n', n <= n' ->
        rsim (aparse E m0 inhX (TRule r arg) pos stk) (p_call G (peg G n') at_ la r pos stk).
    Proof.
      intros Hne Hpre m0 inhX arg Hle Hres.
      destruct m0 as [|m0]; [exists 0; intros; exact Logic.I|].
      destruct (lookup_rule (g_rules g) r) as [d|] eqn:Hl.
      - rewrite (a_call_some g eoi I pred m0 inhX arg r pos stk d Hne Hl). rewrite Hres.
        destruct (sub_rev m0 ltac:(lia) (inner_at g at_ r (o_kind d)) la (o_expr d) pos stk
                          (skip_of_kind (o_kind d)) inh'
                          (call_ctx g r inh' at_ d Hpre Hl) (bodies_refs_ok g eoi Hws Heoi r d Hl)) as [n Hn].
        exists n. intros n' Hle'. specialize (Hn n' Hle').
        destruct (aparse E m0 inh' (tr eoi (skip_of_kind (o_kind d)) (o_expr d)) pos stk)
          as [[pos' t] stk'| | |]; cbn [rsim] in Hn; try exact Logic.I.
        + destruct Hn as [toks Hn].
          destruct (p_call_ok g eoi I pred (peg G n') at_ la r pos stk d pos' stk' toks Hl Hn) as [toks' ->].
          destruct (emis_of_kind (o_kind d)).
          * destruct (i_span I pos pos'); cbn [alift rsim]; [eexists; reflexivity|exact Logic.I].
          * cbn [rsim]. eexists; reflexivity.
          * destruct (i_span I pos pos'); cbn [alift rsim]; [eexists; reflexivity|exact Logic.I].
        + rewrite (p_call_other g eoi I pred (peg G n') at_ la r pos stk d Hl) by (rewrite Hn; discriminate).
          cbn [rsim]. exact Hn.
      - exists 0. intros n' _. rewrite (p_call_none g eoi I pred (peg G n') at_ la r pos stk Hl).
        cbn [aparse a_step e_rules env_of]. apply N.eqb_neq in Hne. rewrite Hne, Hl. cbn [r_body r_emis].
        destruct m0 as [|m0]; cbn [aparse a_step]; [exact Logic.I|reflexivity].
    Qed.

    (* ---- the implicit skip ---- *)
    Lemma skip_call_rev la w pos stk m0 : is_skip_name g w = true -> m0 <= S m ->
      exists n, forall n', n <= n' ->
        rsim (aparse E m0 false (TRule w SkOff) pos stk) (p_call G (peg G n') ANon la w pos stk).
    Proof.
      intros Hs Hle. destruct (skip_call_pre g eoi Hws Heoi w ANon Hs) as [Hne Hpre].
      apply (call_rev ANon la w pos stk false Hne Hpre m0 false SkOff Hle). reflexivity.
    Qed.

    (* only one of WHITESPACE / COMMENT is defined *)
    Lemma rr_single_rev la w : is_skip_name g w = true -> forall m1, m1 <= m -> forall m2 pos stk acc,
      exists n, forall n' l, n <= n' -> n <= l -> forall pacc,
        rsim (a_arep (aparse E m1) m2 false (TRule w SkOff) pos stk acc)
             (p_repeat_rule (p_call G (peg G n')) l ANon la w pos stk pacc).
    Proof.
      intros Hs m1 Hm1. induction m2 as [|m2 IH]; intros pos stk acc; cbn [a_arep].
      - exists 0. intros. exact Logic.I.
      - destruct (skip_call_rev la w pos stk m1 Hs ltac:(lia)) as [n0 H0].
        destruct (aparse E m1 false (TRule w SkOff) pos stk) as [[p t] s| | |].
        + destruct (IH p s (t :: acc)) as [n1 H1]. exists (S (n0 + n1)).
          intros n' l Hn Hl pacc. destruct l as [|l]; [lia|]. cbn [p_repeat_rule].
          specialize (H0 n' ltac:(lia)). cbn [rsim] in H0. destruct H0 as [toks ->].
          apply H1; lia.
        + exists (S n0). intros n' l Hn Hl pacc. destruct l as [|l]; [lia|]. cbn [p_repeat_rule].
          specialize (H0 n' ltac:(lia)). cbn [rsim] in H0. rewrite H0. cbn [rsim]. eexists; reflexivity.
        + exists 0. intros. exact Logic.I.
        + exists 0. intros. exact Logic.I.
    Qed.

    (* both are defined: the typed parser runs (w | c)-star, pest w-star (c w-star)-star.  Where the typed loop
       ends at pos', the leading w-star of the spec ends somewhere, and the (c w-star)-star from there ends at pos' *)
    Definition skip2_ends (n' l1 l2 lf : nat) (la : bool) (w c : N) (pos : nat) (stk : list span)
               (a : ares (nat * tnode)) : Prop :=
      match a with
      | AOk (pos', _) stk' =>
          forall acc0, exists p1 s1 t1,
            p_repeat_rule (p_call G (peg G n')) l1 ANon la w pos stk acc0 = POk p1 s1 t1 /\
            forall acc1, exists toks,
              p_repeat_cw (p_call G (peg G n')) lf l2 ANon la w c p1 s1 acc1 = POk pos' stk' toks
      | _ => True
      end.

    Lemma rr2_rev la w c : is_skip_name g w = true -> is_skip_name g c = true ->
      forall m1, m1 <= m -> forall m2 pos stk acc,
      exists n, forall n' l1 l2 lf, n <= n' -> n <= l1 -> n <= l2 -> n <= lf ->
        skip2_ends n' l1 l2 lf la w c pos stk (a_arep (aparse E m1) m2 false (se2 w c) pos stk acc).
    Proof.
      intros Hsw Hsc m1 Hm1. induction m2 as [|m2 IH]; intros pos stk acc.
      - exists 0. intros. exact Logic.I.
      - destruct m1 as [|m1]; [exists 0; intros; exact Logic.I|].
        rewrite (arep2_S g eoi I pred m1 m2 w c pos stk acc).
        destruct (skip_call_rev la w pos stk m1 Hsw ltac:(lia)) as [nw Hw].
        destruct (skip_call_rev la c pos stk m1 Hsc ltac:(lia)) as [nc Hc].
        destruct (aparse E m1 false (TRule w SkOff) pos stk) as [[p t] s| | |].
        + (* WHITESPACE matched *)
          destruct (IH p s (NChoice 2 0 t :: acc)) as [n1 H1]. exists (S (nw + n1)).
          intros n' l1 l2 lf Hn Hl1 Hl2 Hlf. destruct l1 as [|l1]; [lia|].
          specialize (H1 n' l1 l2 lf ltac:(lia) ltac:(lia) ltac:(lia) ltac:(lia)).
          unfold skip2_ends in *.
          destruct (a_arep (aparse E (S m1)) m2 false (se2 w c) p s (NChoice 2 0 t :: acc))
            as [[pos' t'] stk'| | |]; try exact Logic.I.
          intros acc0. cbn [p_repeat_rule].
          specialize (Hw n' ltac:(lia)). cbn [rsim] in Hw. destruct Hw as [toks ->].
          apply H1.
        + destruct (aparse E m1 false (TRule c SkOff) pos stk) as [[p t] s| | |].
          * (* COMMENT matched *)
            destruct (IH p s (NChoice 2 1 t :: acc)) as [n1 H1]. exists (S (nw + nc + n1)).
            intros n' l1 l2 lf Hn Hl1 Hl2 Hlf. destruct l1 as [|l1]; [lia|]. destruct l2 as [|l2]; [lia|].
            specialize (H1 n' lf l2 lf ltac:(lia) ltac:(lia) ltac:(lia) ltac:(lia)).
            unfold skip2_ends in *.
            destruct (a_arep (aparse E (S m1)) m2 false (se2 w c) p s (NChoice 2 1 t :: acc))
              as [[pos' t'] stk'| | |]; try exact Logic.I.
            intros acc0. cbn [p_repeat_rule].
            specialize (Hw n' ltac:(lia)). cbn [rsim] in Hw. rewrite Hw.
            exists pos, stk, acc0. split; [reflexivity|]. intros acc1. cbn [p_repeat_cw].
            specialize (Hc n' ltac:(lia)). cbn [rsim] in Hc. destruct Hc as [toks ->].
            destruct (H1 []) as (p1 & s1 & t1 & Hr & Hcw). rewrite Hr. apply Hcw.
          * (* neither: the end *)
            exists (S (nw + nc)). intros n' l1 l2 lf Hn Hl1 Hl2 Hlf.
            destruct l1 as [|l1]; [lia|]. destruct l2 as [|l2]; [lia|].
            unfold skip2_ends. intros acc0. cbn [p_repeat_rule].
            specialize (Hw n' ltac:(lia)). cbn [rsim] in Hw. rewrite Hw.
            exists pos, stk, acc0. split; [reflexivity|]. intros acc1. cbn [p_repeat_cw].
            specialize (Hc n' ltac:(lia)). cbn [rsim] in Hc. rewrite Hc. eexists; reflexivity.
          * exists 0. intros. exact Logic.I.
          * exists 0. intros. exact Logic.I.
        + exists 0. intros. exact Logic.I.
        + exists 0. intros. exact Logic.I.
    Qed.

    Lemma skip_rev la pos stk flag at_ m1 m2 : (flag = true <-> at_ = ANon) -> m1 <= m ->
      exists n, forall n' l, n <= n' -> n <= l ->
        rsim (a_pre_skip E (aparse E m1) m2 flag true pos stk) (p_skip G (p_call G (peg G n')) l at_ la pos stk).
    Proof.
      intros Hc Hm1. destruct at_.
      - (* non-atomic *)
        assert (flag = true) by (apply Hc; reflexivity). subst flag.
        unfold p_skip, a_pre_skip, a_skip. cbn [p_ws p_comment penv_of e_skip env_of].
        destruct (g_ws g) as [w|] eqn:Hw, (g_comment g) as [c|] eqn:Hcm; cbn [skip_of].
        + destruct (rr2_rev la w c (ws_is_skip g w Hw) (comment_is_skip g c Hcm) m1 Hm1 m2 pos stk []) as [n Hn].
          exists n. intros n' l H1 H2. specialize (Hn n' l l l H1 H2 H2 H2). unfold skip2_ends in Hn.
          change (TChoice [TRule w SkOff; TRule c SkOff]) with (se2 w c).
          pose proof (a_arep_nofail (aparse E m1) m2 false (se2 w c) pos stk []) as Hnf.
          destruct (a_arep (aparse E m1) m2 false (se2 w c) pos stk []) as [[pos' t'] stk'| | |];
            try exact Logic.I; [|congruence].
          destruct (Hn []) as (p1 & s1 & t1 & Hr & Hcw). rewrite Hr.
          destruct (Hcw t1) as [toks Ht]. cbn [rsim]. exists toks. exact Ht.
        + destruct (rr_single_rev la w (ws_is_skip g w Hw) m1 Hm1 m2 pos stk []) as [n Hn].
          exists n. intros n' l H1 H2. specialize (Hn n' l H1 H2 []).
          pose proof (a_arep_nofail (aparse E m1) m2 false (TRule w SkOff) pos stk []) as Hnf.
          destruct (a_arep (aparse E m1) m2 false (TRule w SkOff) pos stk []) as [[pos' t'] stk'| | |];
            try exact Logic.I; [exact Hn|congruence].
        + destruct (rr_single_rev la c (comment_is_skip g c Hcm) m1 Hm1 m2 pos stk []) as [n Hn].
          exists n. intros n' l H1 H2. specialize (Hn n' l H1 H2 []).
          pose proof (a_arep_nofail (aparse E m1) m2 false (TRule c SkOff) pos stk []) as Hnf.
          destruct (a_arep (aparse E m1) m2 false (TRule c SkOff) pos stk []) as [[pos' t'] stk'| | |];
            try exact Logic.I; [exact Hn|congruence].
        + exists 0. intros n' l _ _. cbn [rsim]. eexists; reflexivity.
      - assert (flag = false).
        { destruct flag; [|reflexivity]. assert (AAtomic = ANon) by (apply Hc; reflexivity). discriminate. }
        subst flag. exists 0. intros n' l _ _. cbn. eexists; reflexivity.
      - assert (flag = false).
        { destruct flag; [|reflexivity]. assert (ACompound = ANon) by (apply Hc; reflexivity). discriminate. }
        subst flag. exists 0. intros n' l _ _. cbn. eexists; reflexivity.
    Qed.

    (* ---- repetition ---- *)
    Lemma rep_more_rev at_ la e k inh : (resolve k inh = true <-> at_ = ANon) -> refs_ok eoi g e = true ->
      forall m1 m2, m1 <= m -> forall m3 i pos stk tacc,
      exists n, forall n' lf l, n <= n' -> n <= lf -> n <= l -> forall acc,
        rsim (a_rep E (aparse E m1) m2 m3 (resolve k inh) inh 0 None (tr eoi k e) (S i) pos stk tacc)
             (p_rep_more G (peg G n') (p_call G (peg G n')) lf l at_ la e pos stk acc).
    Proof.
      intros Hc Hr m1 m2 Hm1. induction m3 as [|m3 IH]; intros i pos stk tacc.
      - exists 0. intros. cbn [a_rep below]. exact Logic.I.
      - cbn [a_rep below]. unfold a_unit. cbn [Nat.eqb negb].
        destruct (skip_rev la pos stk (resolve k inh) at_ m1 m2 Hc Hm1) as [ns Hs].
        destruct (a_pre_skip E (aparse E m1) m2 (resolve k inh) true pos stk) as [[p1 sk] s1| | |].
        + destruct (sub_rev m1 Hm1 at_ la e p1 s1 k inh (or_intror Hc) Hr) as [ne He].
          destruct (aparse E m1 inh (tr eoi k e) p1 s1) as [[p2 t] s2| | |].
          * destruct (IH (S i) p2 s2 ((sk, t) :: tacc)) as [ni Hi].
            exists (S (ns + ne + ni)). intros n' lf l H1 H2 H3 acc.
            destruct l as [|l]; [lia|]. cbn [p_rep_more].
            specialize (Hs n' lf ltac:(lia) ltac:(lia)). cbn [rsim] in Hs. destruct Hs as [t1 ->].
            specialize (He n' ltac:(lia)). cbn [rsim] in He. destruct He as [t2 ->].
            apply Hi; lia.
          * exists (S (ns + ne)). intros n' lf l H1 H2 H3 acc.
            destruct l as [|l]; [lia|]. cbn [p_rep_more].
            specialize (Hs n' lf ltac:(lia) ltac:(lia)). cbn [rsim] in Hs. destruct Hs as [t1 ->].
            specialize (He n' ltac:(lia)). cbn [rsim] in He. rewrite He.
            cbn [Nat.ltb Nat.leb rsim]. eexists; reflexivity.
          * exists 0. intros. exact Logic.I.
          * exists 0. intros. exact Logic.I.
        + exists (S ns). intros n' lf l H1 H2 H3 acc.
          destruct l as [|l]; [lia|]. cbn [p_rep_more].
          specialize (Hs n' lf ltac:(lia) ltac:(lia)). cbn [rsim] in Hs. rewrite Hs.
          cbn [Nat.ltb Nat.leb rsim]. eexists; reflexivity.
        + exists 0. intros. exact Logic.I.
        + exists 0. intros. exact Logic.I.
    Qed.

    Lemma rep_rev at_ la e k inh pos stk : (resolve k inh = true <-> at_ = ANon) -> refs_ok eoi g e = true ->
      forall m3,
      exists n, forall n', n <= n' ->
        rsim (a_rep E (aparse E m) m m3 (resolve k inh) inh 0 None (tr eoi k e) 0 pos stk [])
             (p_step G (peg G n') (p_call G (peg G n')) n' at_ la (ORep e) pos stk).
    Proof.
      intros Hc Hrefs m3. destruct m3 as [|m3]; [exists 0; intros; exact Logic.I|].
      cbn [a_rep below]. unfold a_unit. cbn [Nat.eqb negb]. rewrite a_pre_skip_false'.
      destruct (HA at_ la e pos stk k inh (or_intror Hc) Hrefs) as [n Hn].
      destruct (aparse E m inh (tr eoi k e) pos stk) as [[p1 t1] s1| | |].
      + destruct (rep_more_rev at_ la e k inh Hc Hrefs m m (le_n _) m3 0 p1 s1
                    [(if resolve k inh then [skip_default E] else [], t1)]) as [nr Hr].
        exists (n + nr). intros n' Hle. cbn [p_step].
        specialize (Hn n' ltac:(lia)). cbn [rsim] in Hn. destruct Hn as [toks ->].
        apply Hr; lia.
      + exists n. intros n' Hle. cbn [p_step].
        specialize (Hn n' ltac:(lia)). cbn [rsim] in Hn. rewrite Hn.
        cbn [Nat.ltb Nat.leb rsim]. eexists; reflexivity.
      + exists 0. intros. exact Logic.I.
      + exists 0. intros. exact Logic.I.
    Qed.

    (* ---- one step of the typed side against the spec ---- *)
    (* neither flattened (Seq / Choice) nor transparent (Restore) *)
    Definition plain (e : oexpr) : Prop :=
      match e with OSeq _ _ | OChoice _ _ | ORestore _ => False | _ => True end.

    Lemma step_plain_rev at_ la e pos stk k inh :
      plain e -> ctx e k inh at_ -> refs_ok eoi g e = true ->
      exists n, forall n', n <= n' ->
        rsim (aparse E (S m) inh (tr eoi k e) pos stk) (peg G n' at_ la e pos stk).
    Proof.
      intros Hns Hctx Hrefs.
      assert (Hleaf : leaf e = true ->
                exists n, forall n', n <= n' ->
                  rsim (aparse E (S m) inh (tr eoi k e) pos stk) (peg G n' at_ la e pos stk)).
      { intros Hl. exists 1. intros n' Hle. destruct n' as [|n']; [lia|]. rewrite peg_S.
        apply (rsim_lower (S m) (3 + m)); [lia|]. apply lagree_rsim. apply leaf_agree. exact Hl. }
      destruct e; try (apply Hleaf; reflexivity); try (destruct Hns; fail).
      - (* OIdent *)
        destruct i; try (apply Hleaf; reflexivity).
        cbn [tr tr_ident]. cbn [refs_ok] in Hrefs.
        destruct Hctx as [Hf|Hc]; [discriminate Hf|].
        destruct (callable_call_pre g eoi r (resolve k inh) at_ Hrefs Hc) as [Hne Hpre].
        destruct (call_rev at_ la r pos stk (resolve k inh) Hne Hpre (S m) inh k (le_n _) eq_refl) as [n Hn].
        exists (S n). intros n' Hle. destruct n' as [|n']; [lia|]. rewrite peg_S. cbn [p_step].
        apply Hn. lia.
      - (* OPosPred *)
        cbn [tr]. cbn [refs_ok] in Hrefs.
        destruct (HA at_ true e pos stk k inh (ctx_sub _ e k inh at_ (fun H => H) Hctx) Hrefs) as [n Hn].
        exists (S n). intros n' Hle. destruct n' as [|n']; [lia|]. rewrite peg_S, aparse_S. cbn [p_step a_step].
        specialize (Hn n' ltac:(lia)).
        destruct (aparse E m inh (tr eoi k e) pos stk) as [[p1 t1] s1| | |]; cbn [rsim] in Hn |- *; try exact Logic.I.
        + destruct Hn as [toks ->]. eexists; reflexivity.
        + rewrite Hn. reflexivity.
      - (* ONegPred *)
        cbn [tr]. cbn [refs_ok] in Hrefs.
        destruct (HA at_ true e pos stk k inh (ctx_sub _ e k inh at_ (fun H => H) Hctx) Hrefs) as [n Hn].
        exists (S n). intros n' Hle. destruct n' as [|n']; [lia|]. rewrite peg_S, aparse_S. cbn [p_step a_step].
        specialize (Hn n' ltac:(lia)).
        destruct (aparse E m inh (tr eoi k e) pos stk) as [[p1 t1] s1| | |]; cbn [rsim] in Hn |- *; try exact Logic.I.
        + destruct Hn as [toks ->]. reflexivity.
        + rewrite Hn. eexists; reflexivity.
      - (* OOpt *)
        cbn [tr]. cbn [refs_ok] in Hrefs.
        destruct (HA at_ la e pos stk k inh (ctx_sub _ e k inh at_ (fun H => H) Hctx) Hrefs) as [n Hn].
        exists (S n). intros n' Hle. destruct n' as [|n']; [lia|]. rewrite peg_S, aparse_S. cbn [p_step a_step].
        specialize (Hn n' ltac:(lia)).
        destruct (aparse E m inh (tr eoi k e) pos stk) as [[p1 t1] s1| | |]; cbn [rsim] in Hn |- *; try exact Logic.I.
        + destruct Hn as [toks ->]. eexists; reflexivity.
        + rewrite Hn. eexists; reflexivity.
      - (* ORep *)
        cbn [tr]. cbn [refs_ok] in Hrefs.
        destruct Hctx as [Hf|Hc]; [discriminate Hf|].
        destruct (rep_rev at_ la e k inh pos stk Hc Hrefs m) as [n Hn].
        exists (S n). intros n' Hle. destruct n' as [|n']; [lia|]. rewrite peg_S, aparse_S. cbn [a_step].
        apply Hn. lia.
      - (* OPush *)
        cbn [tr]. cbn [refs_ok] in Hrefs.
        destruct (HA at_ la e pos stk k inh (ctx_sub _ e k inh at_ (fun H => H) Hctx) Hrefs) as [n Hn].
        exists (S n). intros n' Hle. destruct n' as [|n']; [lia|]. rewrite peg_S, aparse_S. cbn [p_step a_step].
        specialize (Hn n' ltac:(lia)).
        destruct (aparse E m inh (tr eoi k e) pos stk) as [[p1 t1] s1| | |]; cbn [rsim] in Hn |- *; try exact Logic.I.
        + destruct Hn as [toks ->]. cbn [e_inp env_of]. unfold i_span.
          destruct (slice_opt (parent I) pos p1); cbn [alift rsim]; [eexists; reflexivity|exact Logic.I].
        + rewrite Hn. reflexivity.
    Qed.

    (* ---- the flattened right spines: all elements run on the same typed fuel, the spec descends ---- *)
    Lemma seq_rev : forall e m1 m2, m1 <= m -> forall at_ la pos stk k inh skipped acc,
      (resolve k inh = true <-> at_ = ANon) -> refs_ok eoi g e = true ->
      exists n, forall n', n <= n' ->
        rsim (a_seq_mid E (aparse E m1) m2 (resolve k inh) inh (seq_spine eoi k e) pos stk skipped acc)
             (peg G n' at_ la e pos stk).
    Proof.
      intros e m1 m2 Hm1.
      assert (Hother : forall e at_ la pos stk k inh skipped acc,
        seq_spine eoi k e = [tr eoi k e] ->
        (resolve k inh = true <-> at_ = ANon) -> refs_ok eoi g e = true ->
        exists n, forall n', n <= n' ->
          rsim (a_seq_mid E (aparse E m1) m2 (resolve k inh) inh (seq_spine eoi k e) pos stk skipped acc)
               (peg G n' at_ la e pos stk)).
      { intros e0 at_ la pos stk k inh skipped acc Hsp Hc Hrefs. rewrite Hsp.
        destruct (sub_rev m1 Hm1 at_ la e0 pos stk k inh (or_intror Hc) Hrefs) as [n Hn].
        exists n. intros n' Hle. specialize (Hn n' Hle). cbn [a_seq_mid a_seq].
        destruct (aparse E m1 inh (tr eoi k e0) pos stk) as [[p1 t1] s1| | |]; cbn [rsim] in Hn |- *;
          try exact Logic.I; exact Hn. }
      induction e as [s|s|lo hi|i|a b|e IH|e IH|a IHa b IHb|a IHa b IHb|e IH|e IH|ss|e IH|e IH];
        intros at_ la pos stk k inh skipped acc Hc Hrefs;
        try (apply Hother; [reflexivity|exact Hc|exact Hrefs]).
      cbn [refs_ok] in Hrefs. apply andb_true_iff in Hrefs. destruct Hrefs as [Hra Hrb].
      cbn [seq_spine a_seq_mid].
      destruct (sub_rev m1 Hm1 at_ la a pos stk k inh (or_intror Hc) Hra) as [na Ha].
      destruct (aparse E m1 inh (tr eoi k a) pos stk) as [[p1 t1] s1| | |].
      - destruct (seq_spine_cons eoi k b) as (x & xs & Hx). rewrite Hx, a_seq_cons. cbn [negb].
        destruct (skip_rev la p1 s1 (resolve k inh) at_ m1 m2 Hc Hm1) as [ns Hs].
        destruct (a_pre_skip E (aparse E m1) m2 (resolve k inh) true p1 s1) as [[p2 sk] s2| | |].
        + rewrite <- Hx.
          destruct (IHb at_ la p2 s2 k inh sk ((skipped, t1) :: acc) Hc Hrb) as [nb Hb].
          exists (S (na + ns + nb)). intros n' Hle. destruct n' as [|n']; [lia|]. rewrite peg_S. cbn [p_step].
          specialize (Ha n' ltac:(lia)). cbn [rsim] in Ha. destruct Ha as [toks1 ->].
          specialize (Hs n' n' ltac:(lia) ltac:(lia)). cbn [rsim] in Hs. destruct Hs as [toks2 ->].
          specialize (Hb n' ltac:(lia)).
          destruct (a_seq_mid E (aparse E m1) m2 (resolve k inh) inh (seq_spine eoi k b) p2 s2 sk ((skipped, t1) :: acc))
            as [[p3 t3] s3| | |]; cbn [rsim] in Hb |- *; try exact Logic.I.
          * destruct Hb as [toks3 ->]. eexists; reflexivity.
          * rewrite Hb. reflexivity.
        + exists (S (na + ns)). intros n' Hle. destruct n' as [|n']; [lia|]. rewrite peg_S. cbn [p_step].
          specialize (Ha n' ltac:(lia)). cbn [rsim] in Ha. destruct Ha as [toks1 ->].
          specialize (Hs n' n' ltac:(lia) ltac:(lia)). cbn [rsim] in Hs. rewrite Hs. reflexivity.
        + exists 0. intros. exact Logic.I.
        + exists 0. intros. exact Logic.I.
      - exists (S na). intros n' Hle. destruct n' as [|n']; [lia|]. rewrite peg_S. cbn [p_step].
        specialize (Ha n' ltac:(lia)). cbn [rsim] in Ha. rewrite Ha. reflexivity.
      - exists 0. intros. exact Logic.I.
      - exists 0. intros. exact Logic.I.
    Qed.

    Lemma choice_rev : forall e m1, m1 <= m -> forall at_ la pos stk k inh n i,
      ctx e k inh at_ -> refs_ok eoi g e = true ->
      exists N, forall n', N <= n' ->
        rsim (a_choice (aparse E m1) inh n (choice_spine eoi k e) i pos stk) (peg G n' at_ la e pos stk).
    Proof.
      intros e m1 Hm1.
      assert (Hother : forall e at_ la pos stk k inh n i,
        choice_spine eoi k e = [tr eoi k e] ->
        ctx e k inh at_ -> refs_ok eoi g e = true ->
        exists N, forall n', N <= n' ->
          rsim (a_choice (aparse E m1) inh n (choice_spine eoi k e) i pos stk) (peg G n' at_ la e pos stk)).
      { intros e0 at_ la pos stk k inh n i Hsp Hctx Hrefs. rewrite Hsp.
        destruct (sub_rev m1 Hm1 at_ la e0 pos stk k inh Hctx Hrefs) as [N HN].
        exists N. intros n' Hle. specialize (HN n' Hle). cbn [a_choice].
        destruct (aparse E m1 inh (tr eoi k e0) pos stk) as [[p1 t1] s1| | |]; cbn [rsim] in HN |- *;
          try exact Logic.I; exact HN. }
      induction e as [s|s|lo hi|i|a b|e IH|e IH|a IHa b IHb|a IHa b IHb|e IH|e IH|ss|e IH|e IH];
        intros at_ la pos stk k inh n i0 Hctx Hrefs;
        try (apply Hother; [reflexivity|exact Hctx|exact Hrefs]).
      cbn [refs_ok] in Hrefs. apply andb_true_iff in Hrefs. destruct Hrefs as [Hra Hrb].
      assert (Hca : ctx a k inh at_).
      { apply (ctx_sub (OChoice a b)); [|exact Hctx]. cbn [flat]. intros H. apply andb_true_iff in H. tauto. }
      assert (Hcb : ctx b k inh at_).
      { apply (ctx_sub (OChoice a b)); [|exact Hctx]. cbn [flat]. intros H. apply andb_true_iff in H. tauto. }
      cbn [choice_spine a_choice].
      destruct (sub_rev m1 Hm1 at_ la a pos stk k inh Hca Hra) as [na Ha].
      destruct (aparse E m1 inh (tr eoi k a) pos stk) as [[p1 t1] s1| | |].
      - exists (S na). intros n' Hle. destruct n' as [|n']; [lia|]. rewrite peg_S. cbn [p_step].
        specialize (Ha n' ltac:(lia)). cbn [rsim] in Ha |- *. destruct Ha as [toks ->]. eexists; reflexivity.
      - destruct (IHb at_ la pos stk k inh n (S i0) Hcb Hrb) as [nb Hb].
        exists (S (na + nb)). intros n' Hle. destruct n' as [|n']; [lia|]. rewrite peg_S. cbn [p_step].
        specialize (Ha n' ltac:(lia)). cbn [rsim] in Ha. rewrite Ha. apply Hb. lia.
      - exists 0. intros. exact Logic.I.
      - exists 0. intros. exact Logic.I.
    Qed.

    Lemma main_step_rev : rs_main (S m).
    Proof.
      intros at_ la e. revert at_ la.
      induction e as [s|s|lo hi|i|a b|e IH|e IH|a IHa b IHb|a IHa b IHb|e IH|e IH|ss|e IH|e IH];
        intros at_ la pos stk k inh Hctx Hrefs;
        try (apply step_plain_rev; [exact Logic.I|exact Hctx|exact Hrefs]).
      - (* OSeq *)
        destruct Hctx as [Hf|Hc]; [discriminate Hf|].
        destruct (seq_rev (OSeq a b) m m (le_n _) at_ la pos stk k inh
                          (if resolve k inh then [skip_default E] else []) [] Hc Hrefs) as [n Hn].
        exists n. intros n' Hle.
        rewrite tr_seq, aparse_S. cbn [a_step]. rewrite a_seq_cons. cbn [negb]. rewrite a_pre_skip_false'.
        apply Hn. exact Hle.
      - (* OChoice *)
        destruct (choice_rev (OChoice a b) m (le_n _) at_ la pos stk k inh
                             (length (tr eoi k a :: choice_spine eoi k b)) 0 Hctx Hrefs) as [n Hn].
        exists n. intros n' Hle. rewrite tr_choice, aparse_S. cbn [a_step]. apply Hn. exact Hle.
      - (* ORestore: transparent on the typed side, one level in the spec *)
        cbn [tr]. cbn [refs_ok] in Hrefs.
        destruct (IH at_ la pos stk k inh (ctx_sub _ e k inh at_ (fun H => H) Hctx) Hrefs) as [n Hn].
        exists (S n). intros n' Hle. destruct n' as [|n']; [lia|]. rewrite peg_S. cbn [p_step].
        apply Hn. lia.
    Qed.
  End Level.

  (* ---- induction on the typed side's fuel ---- *)
  Theorem peg_rev_all : forall m, rs_main m.
  Proof.
    induction m as [|m IH].
    - intros at_ la e pos stk k inh _ _. exists 0. intros. exact Logic.I.
    - exact (main_step_rev m IH).
  Qed.

  (* the statement with its (superfluous) premises: the typed run ends *)
  Theorem peg_rev : forall m at_ la e pos stk k inh,
    ctx e k inh at_ -> refs_ok eoi g e = true ->
    aparse E m inh (tr eoi k e) pos stk <> AFuel -> aparse E m inh (tr eoi k e) pos stk <> APanic ->
    exists n, forall n', n <= n' -> rsim (aparse E m inh (tr eoi k e) pos stk) (peg G n' at_ la e pos stk).
  Proof. intros m at_ la e pos stk k inh Hc Hr _ _. exact (peg_rev_all m at_ la e pos stk k inh Hc Hr). Qed.

  (* the entry point: rule r called in non-atomic context, outside lookahead, with an empty stack *)
  Theorem peg_entry_rev' r : callable eoi g r = true -> forall m,
    exists n, forall n', n <= n' -> rsim (aparse E m true (TRule r SkOn) (i_start I) []) (peg_entry G n' r).
  Proof.
    intros Hcall m.
    destruct (callable_call_pre g eoi r true ANon Hcall) as [Hne Hpre]; [tauto|].
    destruct (call_rev m (peg_rev_all m) ANon false r (i_start I) [] true Hne Hpre m true SkOn
                       ltac:(lia) eq_refl) as [n Hn].
    exists (S n). intros n' Hle. destruct n' as [|n']; [lia|]. cbn [peg_entry p_inp penv_of].
    apply Hn. lia.
  Qed.

  Theorem peg_entry_rev r : callable eoi g r = true -> forall m,
    aparse E m true (TRule r SkOn) (i_start I) [] <> AFuel -> aparse E m true (TRule r SkOn) (i_start I) [] <> APanic ->
    exists n, forall n', n <= n' -> rsim (aparse E m true (TRule r SkOn) (i_start I) []) (peg_entry G n' r).
  Proof. intros Hcall m _ _. exact (peg_entry_rev' r Hcall m). Qed.

  (* what the premises buy: the spec run ENDS, with a value or a failure *)
  Corollary peg_entry_ends r : callable eoi g r = true -> forall m,
    aparse E m true (TRule r SkOn) (i_start I) [] <> AFuel -> aparse E m true (TRule r SkOn) (i_start I) [] <> APanic ->
    exists n, forall n', n <= n' -> peg_entry G n' r <> PFuel /\ peg_entry G n' r <> PPanic.
  Proof.
    intros Hcall m Hf Hp. destruct (peg_entry_rev' r Hcall m) as [n Hn]. exists n. intros n' Hle.
    specialize (Hn n' Hle).
    destruct (aparse E m true (TRule r SkOn) (i_start I) []) as [[p t] s| | |]; cbn [rsim] in Hn; try congruence.
    - destruct Hn as [toks ->]. split; discriminate.
    - rewrite Hn. split; discriminate.
  Qed.
End Rev.
