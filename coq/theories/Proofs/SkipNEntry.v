(* C19 / C07: the never-failing entry points (`NeverFailedTypedNode::parse_with` / `check_with`) of the repetitions with MIN = 0,
   for ANY skip count and ANY skip node: they are the fallible entry points (same offset, same value), which therefore never fail;
   in particular the skip is matched between the iterations and not before the first one on these entry points as well. *)
From Coq Require Import List Arith Bool.
From PT Require Import Model.Base Model.SkipN Proofs.SkipNProofs.
Import ListNotations.

Theorem nf_entry_points : forall f s n pos, skip_shape n = true ->
  sparse_nf f s n pos = sparse f s n pos /\ scheck_nf f s n pos = scheck f s n pos /\
  sparse_nf f s n pos <> SFailed /\ scheck_nf f s n pos <> SFailed /\
  scheck_nf f s n pos = pos_of (sparse_nf f s n pos).
Proof.
  intros f s n pos H. repeat split.
  - apply sparse_nf_is_sparse; exact H.
  - apply scheck_nf_is_scheck; exact H.
  - apply sparse_nf_never_fails; exact H.
  - apply scheck_nf_never_fails; exact H.
  - apply check_is_parse_nf.
Qed.
