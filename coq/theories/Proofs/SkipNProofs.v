(* Explicit skip counts (property C19): proofs about Model/SkipN.v.
   Parse and check agree for every SKIP count; cursor monotone; repetition bounds; the chain-of-units
   characterisation (greedy, skips of a failing unit given back, fails exactly below MIN); sequences; examples. *)
From Coq Require Import List NArith Arith Bool Lia.
From PT Require Import Model.Base Model.SkipN.
Import ListNotations.

(* ------------------------------------------------------------------------------------------------ *)
(* one-step unfoldings                                                                              *)
(* ------------------------------------------------------------------------------------------------ *)

Lemma sparse_S f s n pos : sparse (S f) s n pos = sp_step s (sparse f s) (sparse_nf f s) f n pos.
Proof. reflexivity. Qed.
Lemma sparse_nf_S f s n pos : sparse_nf (S f) s n pos = spnf_step (sparse f s) (sparse_nf f s) f n pos.
Proof. reflexivity. Qed.
Lemma scheck_S f s n pos : scheck (S f) s n pos = sc_step s (scheck f s) (scheck_nf f s) f n pos.
Proof. reflexivity. Qed.
Lemma scheck_nf_S f s n pos : scheck_nf (S f) s n pos = scnf_step (scheck f s) (scheck_nf f s) f n pos.
Proof. reflexivity. Qed.

(* ------------------------------------------------------------------------------------------------ *)
(* (a) parse and check agree                                                                        *)
(* ------------------------------------------------------------------------------------------------ *)

(* the position component of a parse result *)
Definition pos_of {A} (r : sres (nat * A)) : sres nat :=
  match r with
  | SOk (p, _) => SOk p
  | SFailed => SFailed
  | SFuel => SFuel
  end.

Section Agree.
  Variable s : list byte.
  Variables (P PN : snode -> nat -> sres (nat * sval)) (C CN : snode -> nat -> sres nat).
  Variable lf : nat.
  Hypothesis HC : forall n pos, C n pos = pos_of (P n pos).
  Hypothesis HCN : forall n pos, CN n pos = pos_of (PN n pos).

  Lemma cskips_seq_agree k skip : forall pos, cskips_seq CN k skip pos = pos_of (pskips PN k skip pos).
  Proof.
    induction k as [|k IH]; intro pos; cbn [cskips_seq pskips pos_of]; [reflexivity|].
    rewrite HCN. destruct (PN skip pos) as [[p v]| |]; cbn [pos_of]; try reflexivity.
    rewrite IH. destruct (pskips PN k skip p) as [[p' vs]| |]; reflexivity.
  Qed.

  Lemma cskips_zero k skip : forall pos, cskips CN k skip 0 pos = SOk pos.
  Proof.
    induction k as [|k IH]; intro pos; cbn [cskips]; [reflexivity|].
    rewrite Nat.ltb_irrefl. apply IH.
  Qed.

  Lemma cskips_succ k skip i : forall pos, cskips CN k skip (S i) pos = cskips_seq CN k skip pos.
  Proof.
    induction k as [|k IH]; intro pos; cbn [cskips cskips_seq]; [reflexivity|].
    replace (0 <? S i) with true by (symmetry; apply Nat.ltb_lt; lia).
    destruct (CN skip pos) as [p| |]; try reflexivity. apply IH.
  Qed.

  Lemma cunit_agree el skip k i pos : cunit C CN el skip k i pos = pos_of (punit P PN el skip k i pos).
  Proof.
    unfold cunit, punit. destruct i as [|i]; cbn [Nat.eqb].
    - rewrite cskips_zero, HC. destruct (P el pos) as [[p v]| |]; reflexivity.
    - rewrite cskips_succ, cskips_seq_agree.
      destruct (pskips PN k skip pos) as [[p1 sk]| |]; cbn [pos_of]; try reflexivity.
      rewrite HC. destruct (P el p1) as [[p v]| |]; reflexivity.
  Qed.

  Lemma cfin_agree mn mx pos acc : cfin mn mx pos (length acc) = pos_of (pfin mn mx pos acc).
  Proof. unfold cfin, pfin. destruct mx; [destruct (length acc <? mn)|]; reflexivity. Qed.

  Lemma crep_agree n el skip k mn mx : forall i pos acc,
    crep C CN n el skip k mn mx i pos (length acc) = pos_of (prep P PN n el skip k mn mx i pos acc).
  Proof.
    induction n as [|n IH]; intros i pos acc; cbn [crep prep].
    - destruct (below i mx); [reflexivity|apply cfin_agree].
    - destruct (below i mx); [|apply cfin_agree].
      rewrite cunit_agree. destruct (punit P PN el skip k i pos) as [[p it]| |]; cbn [pos_of].
      + apply (IH (S i) p (it :: acc)).
      + destruct (i <? mn); [reflexivity|apply cfin_agree].
      + reflexivity.
  Qed.

  Lemma crep_nf_agree n el skip k mx : forall i pos acc,
    crep_nf C CN n el skip k mx i pos = pos_of (prep_nf P PN n el skip k mx i pos acc).
  Proof.
    induction n as [|n IH]; intros i pos acc; cbn [crep_nf prep_nf].
    - destruct (below i mx); reflexivity.
    - destruct (below i mx); [|reflexivity].
      rewrite cunit_agree. destruct (punit P PN el skip k i pos) as [[p it]| |]; cbn [pos_of]; try reflexivity.
      apply IH.
  Qed.

  Lemma cseq_agree els skip k : forall first pos acc,
    cseq C CN els skip k first pos = pos_of (pseq P PN els skip k first pos acc).
  Proof.
    induction els as [|e rest IH]; intros first pos acc; cbn [cseq pseq]; [reflexivity|].
    assert (Hpre : (if first then SOk pos else cskips_seq CN k skip pos)
                   = pos_of (if first then SOk (pos, repeat (default_val skip) k) else pskips PN k skip pos)).
    { destruct first; [reflexivity|apply cskips_seq_agree]. }
    rewrite Hpre.
    destruct (if first then SOk (pos, repeat (default_val skip) k) else pskips PN k skip pos) as [[p1 sk]| |];
      cbn [pos_of]; try reflexivity.
    rewrite HC. destruct (P e p1) as [[p2 v]| |]; cbn [pos_of]; try reflexivity.
    apply IH.
  Qed.

  Lemma sc_step_agree n pos : sc_step s C CN lf n pos = pos_of (sp_step s P PN lf n pos).
  Proof.
    destruct n as [str| |a b|els skip k|el skip k mn mx]; cbn [sc_step sp_step].
    - destruct (str_at s str pos); reflexivity.
    - reflexivity.
    - rewrite HC. destruct (P a pos) as [[p v]| |]; cbn [pos_of]; try reflexivity.
      rewrite HC. destruct (P b pos) as [[p v]| |]; reflexivity.
    - apply cseq_agree.
    - apply (crep_agree lf el skip k mn mx 0 pos []).
  Qed.

  Lemma scnf_step_agree n pos : scnf_step C CN lf n pos = pos_of (spnf_step P PN lf n pos).
  Proof.
    destruct n as [str| |a b|els skip k|el skip k mn mx]; cbn [scnf_step spnf_step]; try reflexivity.
    destruct mn; [apply crep_nf_agree|reflexivity].
  Qed.
End Agree.

Lemma check_is_parse_both f s :
  (forall n pos, scheck f s n pos = pos_of (sparse f s n pos)) /\
  (forall n pos, scheck_nf f s n pos = pos_of (sparse_nf f s n pos)).
Proof.
  induction f as [|f [IH1 IH2]]; [split; reflexivity|].
  split; intros n pos.
  - rewrite scheck_S, sparse_S. apply sc_step_agree; assumption.
  - rewrite scheck_nf_S, sparse_nf_S. apply scnf_step_agree; assumption.
Qed.

(* FINAL (a): for every node (well formed or not), every SKIP count, input, cursor and fuel *)
Theorem check_is_parse : forall f s n pos, scheck f s n pos = pos_of (sparse f s n pos).
Proof. intros f s. apply (check_is_parse_both f s). Qed.

Theorem check_is_parse_nf : forall f s n pos, scheck_nf f s n pos = pos_of (sparse_nf f s n pos).
Proof. intros f s. apply (check_is_parse_both f s). Qed.

Corollary check_ok_iff f s n pos p : scheck f s n pos = SOk p <-> exists v, sparse f s n pos = SOk (p, v).
Proof.
  rewrite check_is_parse. destruct (sparse f s n pos) as [[p' v]| |]; cbn [pos_of]; split.
  - intro H; injection H as ->; eauto.
  - intros [v' H]; injection H as -> _; reflexivity.
  - discriminate.
  - intros [v H]; discriminate.
  - discriminate.
  - intros [v H]; discriminate.
Qed.

Corollary check_failed_iff f s n pos : scheck f s n pos = SFailed <-> sparse f s n pos = SFailed.
Proof. rewrite check_is_parse. destruct (sparse f s n pos) as [[p' v]| |]; cbn [pos_of]; split; congruence. Qed.

Corollary check_fuel_iff f s n pos : scheck f s n pos = SFuel <-> sparse f s n pos = SFuel.
Proof. rewrite check_is_parse. destruct (sparse f s n pos) as [[p' v]| |]; cbn [pos_of]; split; congruence. Qed.

(* ------------------------------------------------------------------------------------------------ *)
(* the never-failing variants never fail, and coincide with the ordinary path on skip-shaped nodes  *)
(* ------------------------------------------------------------------------------------------------ *)

Lemma prep_nf_not_failed P PN n el skip k mx : forall i pos acc,
  prep_nf P PN n el skip k mx i pos acc <> SFailed.
Proof.
  induction n as [|n IH]; intros i pos acc; cbn [prep_nf].
  - destruct (below i mx); discriminate.
  - destruct (below i mx); [|discriminate].
    destruct (punit P PN el skip k i pos) as [[p it]| |]; try discriminate. apply IH.
Qed.

Lemma prep_nf_is_prep P PN n el skip k mx : forall i pos acc,
  prep_nf P PN n el skip k mx i pos acc = prep P PN n el skip k 0 mx i pos acc.
Proof.
  assert (Hfin : forall pos acc, pfin 0 mx pos acc = SOk (pos, VRep (rev acc))).
  { intros pos acc. unfold pfin. destruct mx; reflexivity. }
  induction n as [|n IH]; intros i pos acc; cbn [prep_nf prep].
  - destruct (below i mx); [reflexivity|]. symmetry; apply Hfin.
  - destruct (below i mx); [|symmetry; apply Hfin].
    destruct (punit P PN el skip k i pos) as [[p it]| |]; try reflexivity.
    + apply IH.
    + cbn [Nat.ltb Nat.leb]. symmetry; apply Hfin.
Qed.

Theorem sparse_nf_never_fails : forall f s n pos, skip_shape n = true -> sparse_nf f s n pos <> SFailed.
Proof.
  intros [|f] s n pos Hs; [discriminate|]. rewrite sparse_nf_S.
  destruct n as [str| |a b|els skip k|el skip k mn mx]; cbn [skip_shape] in Hs; try discriminate Hs;
    cbn [spnf_step]; [discriminate|].
  destruct mn; [|discriminate Hs]. apply prep_nf_not_failed.
Qed.

Theorem scheck_nf_never_fails : forall f s n pos, skip_shape n = true -> scheck_nf f s n pos <> SFailed.
Proof.
  intros f s n pos Hs H. rewrite check_is_parse_nf in H.
  pose proof (sparse_nf_never_fails f s n pos Hs) as Hn.
  destruct (sparse_nf f s n pos) as [[p v]| |]; cbn [pos_of] in H; congruence.
Qed.

(* on the nodes accepted as Skip, `parse_with` is `try_parse_partial_with` (which therefore never fails either) *)
Theorem sparse_nf_is_sparse : forall f s n pos, skip_shape n = true -> sparse_nf f s n pos = sparse f s n pos.
Proof.
  intros [|f] s n pos Hs; [reflexivity|]. rewrite sparse_nf_S, sparse_S.
  destruct n as [str| |a b|els skip k|el skip k mn mx]; cbn [skip_shape] in Hs; try discriminate Hs;
    cbn [spnf_step sp_step]; [reflexivity|].
  destruct mn; [|discriminate Hs]. apply prep_nf_is_prep.
Qed.

Theorem scheck_nf_is_scheck : forall f s n pos, skip_shape n = true -> scheck_nf f s n pos = scheck f s n pos.
Proof. intros. rewrite check_is_parse_nf, check_is_parse, sparse_nf_is_sparse by assumption. reflexivity. Qed.

Lemma skip_ok_shape n : skip_ok n = true -> skip_shape n = true.
Proof. unfold skip_ok. intro H. apply andb_prop in H. tauto. Qed.

(* FINAL (a), second half *)
Theorem nf_never_fails : forall f s n pos, skip_ok n = true ->
  sparse_nf f s n pos <> SFailed /\ scheck_nf f s n pos <> SFailed.
Proof.
  intros f s n pos H. apply skip_ok_shape in H.
  split; [apply sparse_nf_never_fails|apply scheck_nf_never_fails]; assumption.
Qed.

(* the unfolding of skip_ok / wf_snode announced in the Model file *)
Lemma skip_ok_SRep el skip k mn mx :
  skip_ok (SRep el skip k mn mx) = true <-> mn = 0 /\ wf_snode el = true /\ skip_ok skip = true.
Proof.
  unfold skip_ok. cbn [skip_shape wf_snode]. destruct mn; split.
  - intro H. cbn [andb] in H. apply andb_prop in H. tauto.
  - intros (_ & H1 & H2). cbn [andb]. rewrite H1, H2. reflexivity.
  - cbn [andb]. discriminate.
  - intros (H & _). discriminate.
Qed.

Lemma wf_SRep el skip k mn mx :
  wf_snode (SRep el skip k mn mx) = true <-> wf_snode el = true /\ skip_ok skip = true.
Proof.
  unfold skip_ok. cbn [wf_snode]. split.
  - intro H. apply andb_prop in H. tauto.
  - intros [H1 H2]. rewrite H1, H2. reflexivity.
Qed.

Lemma wf_SSeq els skip k :
  wf_snode (SSeq els skip k) = true <-> Forall (fun e => wf_snode e = true) els /\ skip_ok skip = true.
Proof.
  unfold skip_ok. cbn [wf_snode]. rewrite andb_true_iff, forallb_forall, Forall_forall. tauto.
Qed.

(* ------------------------------------------------------------------------------------------------ *)
(* (b) the cursor only moves forward and stays inside the input                                     *)
(* ------------------------------------------------------------------------------------------------ *)

Lemma is_prefix_len : forall p l, is_prefix p l = true -> length p <= length l.
Proof.
  induction p as [|x p IH]; intros [|y l] H; cbn [is_prefix length] in *; try lia; try discriminate.
  apply andb_prop in H. destruct H as [_ H]. apply IH in H. lia.
Qed.

Lemma str_at_bound s str pos : pos <= length s -> str_at s str pos = true -> pos + length str <= length s.
Proof.
  unfold str_at. intros Hp H. apply is_prefix_len in H. rewrite skipn_length in H. lia.
Qed.

Section Mono.
  Variable s : list byte.
  Variables (P PN : snode -> nat -> sres (nat * sval)).
  Variable lf : nat.
  Hypothesis HP : forall n pos p v, pos <= length s -> P n pos = SOk (p, v) -> pos <= p <= length s.
  Hypothesis HPN : forall n pos p v, pos <= length s -> PN n pos = SOk (p, v) -> pos <= p <= length s.

  Lemma pskips_bound k skip : forall pos p vs, pos <= length s ->
    pskips PN k skip pos = SOk (p, vs) -> pos <= p <= length s.
  Proof.
    induction k as [|k IH]; intros pos p vs Hp H; cbn [pskips] in H.
    - injection H as <- _. lia.
    - destruct (PN skip pos) as [[p1 v]| |] eqn:E1; try discriminate H.
      destruct (pskips PN k skip p1) as [[p2 vs2]| |] eqn:E2; try discriminate H.
      injection H as <- _. apply HPN in E1; [|exact Hp]. apply IH in E2; lia.
  Qed.

  Lemma punit_bound el skip k i pos p it : pos <= length s ->
    punit P PN el skip k i pos = SOk (p, it) -> pos <= p <= length s.
  Proof.
    intros Hp H. unfold punit in H.
    destruct (if i =? 0 then SOk (pos, repeat (default_val skip) k) else pskips PN k skip pos)
      as [[p1 sk]| |] eqn:E1; try discriminate H.
    destruct (P el p1) as [[p2 v]| |] eqn:E2; try discriminate H. injection H as <- _.
    assert (pos <= p1 <= length s) as Hb.
    { destruct (i =? 0); [injection E1 as <- _; lia|]. eapply pskips_bound; eassumption. }
    apply HP in E2; lia.
  Qed.

  Lemma pfin_bound mn mx pos acc p v : pfin mn mx pos acc = SOk (p, v) -> p = pos.
  Proof.
    unfold pfin. destruct mx; [destruct (length acc <? mn)|]; intro H; try discriminate H;
      injection H as <- _; reflexivity.
  Qed.

  Lemma prep_bound n el skip k mn mx : forall i pos acc p v, pos <= length s ->
    prep P PN n el skip k mn mx i pos acc = SOk (p, v) -> pos <= p <= length s.
  Proof.
    induction n as [|n IH]; intros i pos acc p v Hp H; cbn [prep] in H.
    - destruct (below i mx); [discriminate H|]. apply pfin_bound in H. lia.
    - destruct (below i mx); [|apply pfin_bound in H; lia].
      destruct (punit P PN el skip k i pos) as [[p1 it]| |] eqn:E; try discriminate H.
      + apply punit_bound in E; [|exact Hp]. apply IH in H; lia.
      + destruct (i <? mn); [discriminate H|]. apply pfin_bound in H. lia.
  Qed.

  Lemma prep_nf_bound n el skip k mx i pos acc p v : pos <= length s ->
    prep_nf P PN n el skip k mx i pos acc = SOk (p, v) -> pos <= p <= length s.
  Proof. rewrite prep_nf_is_prep. apply prep_bound. Qed.

  Lemma pseq_bound els skip k : forall first pos acc p v, pos <= length s ->
    pseq P PN els skip k first pos acc = SOk (p, v) -> pos <= p <= length s.
  Proof.
    induction els as [|e rest IH]; intros first pos acc p v Hp H; cbn [pseq] in H.
    - injection H as <- _. lia.
    - destruct (if first then SOk (pos, repeat (default_val skip) k) else pskips PN k skip pos)
        as [[p1 sk]| |] eqn:E1; try discriminate H.
      destruct (P e p1) as [[p2 v2]| |] eqn:E2; try discriminate H.
      assert (pos <= p1 <= length s) as Hb.
      { destruct first; [injection E1 as <- _; lia|]. eapply pskips_bound; eassumption. }
      apply HP in E2; [|lia]. apply IH in H; lia.
  Qed.

  Lemma sp_step_bound n pos p v : pos <= length s ->
    sp_step s P PN lf n pos = SOk (p, v) -> pos <= p <= length s.
  Proof.
    intros Hp H. destruct n as [str| |a b|els skip k|el skip k mn mx]; cbn [sp_step] in H.
    - destruct (str_at s str pos) eqn:E; [|discriminate H]. injection H as <- _.
      apply str_at_bound in E; lia.
    - injection H as <- _. lia.
    - destruct (P a pos) as [[p1 v1]| |] eqn:E1; try discriminate H.
      + injection H as <- _. eapply HP; eassumption.
      + destruct (P b pos) as [[p1 v1]| |] eqn:E2; try discriminate H.
        injection H as <- _. eapply HP; eassumption.
    - eapply pseq_bound; eassumption.
    - eapply prep_bound; eassumption.
  Qed.

  Lemma spnf_step_bound n pos p v : pos <= length s ->
    spnf_step P PN lf n pos = SOk (p, v) -> pos <= p <= length s.
  Proof.
    intros Hp H. destruct n as [str| |a b|els skip k|el skip k mn mx]; cbn [spnf_step] in H;
      try discriminate H.
    - injection H as <- _. lia.
    - destruct mn; [|discriminate H]. eapply prep_nf_bound; eassumption.
  Qed.
End Mono.

Lemma cursor_monotone_both f s :
  (forall n pos p v, pos <= length s -> sparse f s n pos = SOk (p, v) -> pos <= p <= length s) /\
  (forall n pos p v, pos <= length s -> sparse_nf f s n pos = SOk (p, v) -> pos <= p <= length s).
Proof.
  induction f as [|f [IH1 IH2]]; [split; intros n pos p v _ H; cbn in H; discriminate H|].
  split; intros n pos p v Hp H.
  - rewrite sparse_S in H. exact (sp_step_bound s (sparse f s) (sparse_nf f s) f IH1 IH2 n pos p v Hp H).
  - rewrite sparse_nf_S in H. exact (spnf_step_bound s (sparse f s) (sparse_nf f s) f IH1 IH2 n pos p v Hp H).
Qed.

(* FINAL (b) *)
Theorem cursor_monotone : forall f s n pos p v,
  pos <= length s -> sparse f s n pos = SOk (p, v) -> pos <= p <= length s.
Proof. intros f s. apply (cursor_monotone_both f s). Qed.

Theorem cursor_monotone_nf : forall f s n pos p v,
  pos <= length s -> sparse_nf f s n pos = SOk (p, v) -> pos <= p <= length s.
Proof. intros f s. apply (cursor_monotone_both f s). Qed.

Corollary cursor_monotone_check : forall f s n pos p,
  pos <= length s -> scheck f s n pos = SOk p -> pos <= p <= length s.
Proof. intros f s n pos p Hp H. apply check_ok_iff in H. destruct H as [v H]. eapply cursor_monotone; eassumption. Qed.

(* ------------------------------------------------------------------------------------------------ *)
(* the specification: chains of units                                                               *)
(* ------------------------------------------------------------------------------------------------ *)

(* The relations are indexed by what "matches" / "fails" means for the element and for the skip:
     M n pos p v  : node n matches at pos, ends at p, value v      (try_parse_partial_with)
     MN n pos p v : the never-failing parse of n at pos ends at p   (parse_with)
     F n pos      : node n fails at pos
   They are instantiated below with the runs of [sparse] / [sparse_nf] at a given fuel ([okrel], [failrel])
   and with the fuel-free relations [smatch], [smatch_nf], [sfails]. *)
Section Chain.
  Variables (M MN : snode -> nat -> nat -> sval -> Prop) (F : snode -> nat -> Prop).
  Variables (skip : snode) (k : nat).

  (* j consecutive never-failing skip matches from pos, values vs, ending at p *)
  Inductive skips_run : nat -> nat -> list sval -> nat -> Prop :=
  | skips_nil pos : skips_run 0 pos [] pos
  | skips_cons j pos p1 v vs p2 :
      MN skip pos p1 v -> skips_run j p1 vs p2 -> skips_run (S j) pos (v :: vs) p2.

  (* unit number i of element el, starting at pos (where the previous unit ended), ending at p:
     unit 0 is the element at pos, its array holds k defaults;
     unit i > 0 is k consecutive skip matches and then the element right after them *)
  Inductive unit_at (el : snode) : nat -> nat -> list sval * sval -> nat -> Prop :=
  | unit_first pos p v :
      M el pos p v -> unit_at el 0 pos (repeat (default_val skip) k, v) p
  | unit_next i pos sk p1 v p :
      skips_run k pos sk p1 -> M el p1 p v -> unit_at el (S i) pos (sk, v) p.

  (* unit number i from pos fails AT THE ELEMENT (the skips, which never fail, are matched first) *)
  Inductive unit_fails (el : snode) : nat -> nat -> Prop :=
  | fails_first pos : F el pos -> unit_fails el 0 pos
  | fails_next i pos sk p1 : skips_run k pos sk p1 -> F el p1 -> unit_fails el (S i) pos.

  (* the chain of units number i, i+1, ... of a repetition, from pos; p = end of the last unit *)
  Inductive units_from (el : snode) : nat -> nat -> list (list sval * sval) -> nat -> Prop :=
  | units_nil i pos : units_from el i pos [] pos
  | units_cons i pos it p1 its p :
      unit_at el i pos it p1 -> units_from el (S i) p1 its p -> units_from el i pos (it :: its) p.

  (* the chain of the elements number i, i+1, ... of a sequence *)
  Inductive seq_from : nat -> list snode -> nat -> list (list sval * sval) -> nat -> Prop :=
  | seq_nil i pos : seq_from i [] pos [] pos
  | seq_cons i e els pos it p1 its p :
      unit_at e i pos it p1 -> seq_from (S i) els p1 its p -> seq_from i (e :: els) pos (it :: its) p.

  (* some element fails after its skips, all the elements before it having matched *)
  Definition seq_fails (i : nat) (els : list snode) (pos : nat) : Prop :=
    exists els1 e els2 its p1,
      els = els1 ++ e :: els2 /\ seq_from i els1 pos its p1 /\ unit_fails e (i + length els1) p1.

  (* ---- facts that hold of every chain ---- *)

  Lemma skips_run_length j pos vs p : skips_run j pos vs p -> length vs = j.
  Proof. induction 1 as [|j pos p1 v vs p2 _ _ IH]; cbn [length]; congruence. Qed.

  Lemma unit_at_length el i pos it p : unit_at el i pos it p -> length (fst it) = k.
  Proof.
    destruct 1 as [pos p v _|i pos sk p1 v p Hs _]; cbn [fst].
    - apply repeat_length.
    - eapply skips_run_length; eassumption.
  Qed.

  Lemma units_from_lengths el i pos its p :
    units_from el i pos its p -> Forall (fun it => length (fst it) = k) its.
  Proof.
    induction 1 as [|i pos it p1 its p Hu _ IH]; constructor; [|exact IH].
    eapply unit_at_length; eassumption.
  Qed.

  Lemma units_from_first el pos it its p :
    units_from el 0 pos (it :: its) p -> fst it = repeat (default_val skip) k.
  Proof.
    intro H. inversion H as [|i' pos' it' p1 its' p' Hu _]; subst. inversion Hu; subst. reflexivity.
  Qed.

  Lemma seq_from_length i els pos its p : seq_from i els pos its p -> length its = length els.
  Proof. induction 1 as [|i e els pos it p1 its p _ _ IH]; cbn [length]; congruence. Qed.

  Lemma seq_from_lengths i els pos its p :
    seq_from i els pos its p -> Forall (fun it => length (fst it) = k) its.
  Proof.
    induction 1 as [|i e els pos it p1 its p Hu _ IH]; constructor; [|exact IH].
    eapply unit_at_length; eassumption.
  Qed.

  Lemma seq_from_first els pos it its p :
    seq_from 0 els pos (it :: its) p -> fst it = repeat (default_val skip) k.
  Proof.
    intro H. inversion H as [|i' e els' pos' it' p1 its' p' Hu _]; subst. inversion Hu; subst. reflexivity.
  Qed.
End Chain.

(* the chains are monotone in the three relations *)
Section ChainImpl.
  Variables (M MN M' MN' : snode -> nat -> nat -> sval -> Prop) (F F' : snode -> nat -> Prop).
  Variables (skip : snode) (k : nat).
  Hypothesis HM : forall n pos p v, M n pos p v -> M' n pos p v.
  Hypothesis HMN : forall n pos p v, MN n pos p v -> MN' n pos p v.
  Hypothesis HF : forall n pos, F n pos -> F' n pos.

  Lemma skips_run_impl j pos vs p : skips_run MN skip j pos vs p -> skips_run MN' skip j pos vs p.
  Proof. induction 1; econstructor; eauto. Qed.

  Lemma unit_at_impl el i pos it p : unit_at M MN skip k el i pos it p -> unit_at M' MN' skip k el i pos it p.
  Proof. destruct 1; econstructor; eauto using skips_run_impl. Qed.

  Lemma unit_fails_impl el i pos : unit_fails MN F skip k el i pos -> unit_fails MN' F' skip k el i pos.
  Proof. destruct 1; econstructor; eauto using skips_run_impl. Qed.

  Lemma units_from_impl el i pos its p :
    units_from M MN skip k el i pos its p -> units_from M' MN' skip k el i pos its p.
  Proof. induction 1; econstructor; eauto using unit_at_impl. Qed.

  Lemma seq_from_impl i els pos its p :
    seq_from M MN skip k i els pos its p -> seq_from M' MN' skip k i els pos its p.
  Proof. induction 1; econstructor; eauto using unit_at_impl. Qed.

  Lemma seq_fails_impl i els pos : seq_fails M MN F skip k i els pos -> seq_fails M' MN' F' skip k i els pos.
  Proof.
    intros (els1 & e & els2 & its & p1 & H1 & H2 & H3).
    exists els1, e, els2, its, p1. split; [exact H1|]. split; [apply seq_from_impl|apply unit_fails_impl]; assumption.
  Qed.
End ChainImpl.

(* "matches" / "fails" of a function (a run at a given fuel) *)
Definition okrel (P : snode -> nat -> sres (nat * sval)) : snode -> nat -> nat -> sval -> Prop :=
  fun n pos p v => P n pos = SOk (p, v).
Definition failrel (P : snode -> nat -> sres (nat * sval)) : snode -> nat -> Prop :=
  fun n pos => P n pos = SFailed.

(* ------------------------------------------------------------------------------------------------ *)
(* the loops compute exactly the chains                                                             *)
(* ------------------------------------------------------------------------------------------------ *)

Section Charact.
  Variables (P PN : snode -> nat -> sres (nat * sval)).
  Variables (skip : snode) (k : nat).
  Local Notation M := (okrel P).
  Local Notation MN := (okrel PN).
  Local Notation F := (failrel P).

  Lemma pskips_run j : forall pos p vs,
    pskips PN j skip pos = SOk (p, vs) <-> skips_run MN skip j pos vs p.
  Proof.
    induction j as [|j IH]; intros pos p vs; cbn [pskips]; split; intro H.
    - injection H as <- <-. constructor.
    - inversion H; subst. reflexivity.
    - destruct (PN skip pos) as [[p1 v]| |] eqn:E1; try discriminate H.
      destruct (pskips PN j skip p1) as [[p2 vs2]| |] eqn:E2; try discriminate H.
      injection H as <- <-. econstructor; [exact E1|]. apply IH. exact E2.
    - inversion H as [|j' pos' p1 v vs' p2 H1 H2]; subst. unfold okrel in H1. rewrite H1.
      apply IH in H2. rewrite H2. reflexivity.
  Qed.

  Lemma punit_ok el i pos p it :
    punit P PN el skip k i pos = SOk (p, it) <-> unit_at M MN skip k el i pos it p.
  Proof.
    unfold punit. destruct i as [|i]; cbn [Nat.eqb]; split; intro H.
    - destruct (P el pos) as [[p2 v]| |] eqn:E; try discriminate H. injection H as <- <-.
      constructor. exact E.
    - inversion H as [pos' p' v HM|]; subst. unfold okrel in HM. rewrite HM. reflexivity.
    - destruct (pskips PN k skip pos) as [[p1 sk]| |] eqn:E1; try discriminate H.
      destruct (P el p1) as [[p2 v]| |] eqn:E2; try discriminate H. injection H as <- <-.
      econstructor; [apply pskips_run; exact E1|exact E2].
    - inversion H as [|i' pos' sk p1 v p' Hs HM]; subst. apply pskips_run in Hs. rewrite Hs.
      unfold okrel in HM. rewrite HM. reflexivity.
  Qed.

  Lemma unit_fails_punit el i pos : unit_fails MN F skip k el i pos -> punit P PN el skip k i pos = SFailed.
  Proof.
    unfold punit. intro H. inversion H as [pos' HF|i' pos' sk p1 Hs HF]; subst; cbn [Nat.eqb].
    - unfold failrel in HF. rewrite HF. reflexivity.
    - apply pskips_run in Hs. rewrite Hs. unfold failrel in HF. rewrite HF. reflexivity.
  Qed.

  (* from here on the skip node never fails (it is skip_ok) *)
  Hypothesis PN_nf : forall pos, PN skip pos <> SFailed.

  Lemma pskips_not_failed j : forall pos, pskips PN j skip pos <> SFailed.
  Proof.
    induction j as [|j IH]; intro pos; cbn [pskips]; [discriminate|].
    destruct (PN skip pos) as [[p1 v]| |] eqn:E1; try discriminate.
    - specialize (IH p1). destruct (pskips PN j skip p1) as [[p2 vs2]| |]; congruence.
    - exfalso. eapply PN_nf; eassumption.
  Qed.

  Lemma punit_failed el i pos :
    punit P PN el skip k i pos = SFailed <-> unit_fails MN F skip k el i pos.
  Proof.
    split; [|apply unit_fails_punit].
    unfold punit. destruct i as [|i]; cbn [Nat.eqb]; intro H.
    - destruct (P el pos) as [[p2 v]| |] eqn:E; try discriminate H. constructor. exact E.
    - destruct (pskips PN k skip pos) as [[p1 sk]| |] eqn:E1; try discriminate H.
      + destruct (P el p1) as [[p2 v]| |] eqn:E2; try discriminate H.
        econstructor; [apply pskips_run; exact E1|exact E2].
      + exfalso. eapply pskips_not_failed; eassumption.
  Qed.

  (* ---- repetitions ---- *)
  Variables (el : snode) (mn : nat) (mx : option nat).

  Lemma pfin_ok pos acc p v : pfin mn mx pos acc = SOk (p, v) ->
    p = pos /\ v = VRep (rev acc) /\ (forall m, mx = Some m -> mn <= length acc).
  Proof.
    unfold pfin. destruct mx as [m|].
    - destruct (length acc <? mn) eqn:E; intro H; [discriminate H|]. injection H as <- <-.
      apply Nat.ltb_ge in E. auto.
    - intro H. injection H as <- <-. repeat split. intros m Hm; discriminate Hm.
  Qed.

  Lemma below_false i : below i mx = false -> exists m, mx = Some m /\ m <= i.
  Proof.
    unfold below. destruct mx as [m|]; [|discriminate]. intro H. apply Nat.ltb_ge in H. eauto.
  Qed.

  Lemma below_true i : below i mx = true -> forall m, mx = Some m -> i < m.
  Proof.
    unfold below. intros H m ->. apply Nat.ltb_lt in H. exact H.
  Qed.

  (* a successful run: the chain, the bounds, and why it stopped *)
  Lemma prep_ok n : forall i pos acc p v,
    length acc = i -> (forall m, mx = Some m -> i <= m) ->
    prep P PN n el skip k mn mx i pos acc = SOk (p, v) ->
    exists its, v = VRep (rev acc ++ its) /\
      units_from M MN skip k el i pos its p /\
      mn <= i + length its /\
      (forall m, mx = Some m -> i + length its <= m) /\
      (mx = Some (i + length its) \/ unit_fails MN F skip k el (i + length its) p).
  Proof.
    induction n as [|n IH]; intros i pos acc p v Hl Hle H; cbn [prep] in H.
    - destruct (below i mx) eqn:Hb; [discriminate H|].
      apply pfin_ok in H. destruct H as (-> & -> & Hmn).
      apply below_false in Hb. destruct Hb as (m & Hm & Hmi). specialize (Hle m Hm). specialize (Hmn m Hm).
      exists []. rewrite app_nil_r. cbn [length]. rewrite Nat.add_0_r.
      split; [reflexivity|]. split; [constructor|]. split; [lia|].
      split; [intros m' Hm'; rewrite Hm in Hm'; injection Hm' as <-; lia|].
      left. rewrite Hm. f_equal. lia.
    - destruct (below i mx) eqn:Hb.
      + destruct (punit P PN el skip k i pos) as [[p1 it]| |] eqn:E; try discriminate H.
        * apply IH in H; [|cbn [length]; lia|intros m Hm; apply (below_true i Hb) in Hm; lia].
          destruct H as (its & -> & Hu & Hmn & Hmx & Hstop).
          exists (it :: its). cbn [rev length]. rewrite <- app_assoc. cbn [app].
          replace (i + S (length its)) with (S i + length its) by lia.
          split; [reflexivity|]. split; [|auto].
          econstructor; [apply punit_ok; exact E|exact Hu].
        * destruct (i <? mn) eqn:Ei; [discriminate H|]. apply Nat.ltb_ge in Ei.
          apply pfin_ok in H. destruct H as (-> & -> & _).
          exists []. rewrite app_nil_r. cbn [length]. rewrite Nat.add_0_r.
          split; [reflexivity|]. split; [constructor|]. split; [lia|]. split; [exact Hle|].
          right. apply punit_failed. exact E.
      + apply pfin_ok in H. destruct H as (-> & -> & Hmn).
        apply below_false in Hb. destruct Hb as (m & Hm & Hmi). specialize (Hle m Hm). specialize (Hmn m Hm).
        exists []. rewrite app_nil_r. cbn [length]. rewrite Nat.add_0_r.
        split; [reflexivity|]. split; [constructor|]. split; [lia|].
        split; [intros m' Hm'; rewrite Hm in Hm'; injection Hm' as <-; lia|].
        left. rewrite Hm. f_equal. lia.
  Qed.

  Lemma pfin_failed pos acc : pfin mn mx pos acc = SFailed -> exists m, mx = Some m /\ length acc < mn.
  Proof.
    unfold pfin. destruct mx as [m|]; [|discriminate].
    destruct (length acc <? mn) eqn:E; [|discriminate]. apply Nat.ltb_lt in E. eauto.
  Qed.

  (* a failing run: a chain of fewer than mn units, then the next unit fails (or MAX < MIN was reached) *)
  Lemma prep_failed n : forall i pos acc,
    length acc = i -> (forall m, mx = Some m -> i <= m) ->
    prep P PN n el skip k mn mx i pos acc = SFailed ->
    exists its p,
      units_from M MN skip k el i pos its p /\
      i + length its < mn /\
      (forall m, mx = Some m -> i + length its <= m) /\
      (mx = Some (i + length its) \/ unit_fails MN F skip k el (i + length its) p).
  Proof.
    induction n as [|n IH]; intros i pos acc Hl Hle H; cbn [prep] in H.
    - destruct (below i mx) eqn:Hb; [discriminate H|].
      apply pfin_failed in H. destruct H as (m0 & _ & Hlt).
      apply below_false in Hb. destruct Hb as (m & Hm & Hmi). specialize (Hle m Hm).
      exists [], pos. cbn [length]. rewrite Nat.add_0_r.
      split; [constructor|]. split; [lia|].
      split; [intros m' Hm'; rewrite Hm in Hm'; injection Hm' as <-; lia|].
      left. rewrite Hm. f_equal. lia.
    - destruct (below i mx) eqn:Hb.
      + destruct (punit P PN el skip k i pos) as [[p1 it]| |] eqn:E; try discriminate H.
        * apply IH in H; [|cbn [length]; lia|intros m Hm; apply (below_true i Hb) in Hm; lia].
          destruct H as (its & p & Hu & Hmn & Hmx & Hstop).
          exists (it :: its), p. cbn [length].
          replace (i + S (length its)) with (S i + length its) by lia.
          split; [|auto]. econstructor; [apply punit_ok; exact E|exact Hu].
        * exists [], pos. cbn [length]. rewrite Nat.add_0_r.
          destruct (i <? mn) eqn:Ei.
          -- apply Nat.ltb_lt in Ei. split; [constructor|]. split; [lia|]. split; [exact Hle|].
             right. apply punit_failed. exact E.
          -- apply Nat.ltb_ge in Ei. apply pfin_failed in H. destruct H as (m0 & _ & Hlt). lia.
      + apply pfin_failed in H. destruct H as (m0 & _ & Hlt).
        apply below_false in Hb. destruct Hb as (m & Hm & Hmi). specialize (Hle m Hm).
        exists [], pos. cbn [length]. rewrite Nat.add_0_r.
        split; [constructor|]. split; [lia|].
        split; [intros m' Hm'; rewrite Hm in Hm'; injection Hm' as <-; lia|].
        left. rewrite Hm. f_equal. lia.
  Qed.

  (* conversely: the chain determines what the loop returns, provided the loop fuel lasts *)
  Definition rep_result (j p : nat) (items : list (list sval * sval)) : sres (nat * sval) :=
    if j <? mn then SFailed else SOk (p, VRep items).

  Lemma prep_stop n j p acc :
    length acc = j -> (forall m, mx = Some m -> j <= m) ->
    (mx = Some j \/ unit_fails MN F skip k el j p) ->
    prep P PN n el skip k mn mx j p acc = SFuel \/
    prep P PN n el skip k mn mx j p acc = rep_result j p (rev acc).
  Proof.
    intros Hl Hle Hstop. destruct (below j mx) eqn:Hb.
    - assert (Hf : unit_fails MN F skip k el j p).
      { destruct Hstop as [Hs|Hs]; [|exact Hs]. apply (below_true j Hb) in Hs. lia. }
      destruct n as [|n]; cbn [prep]; rewrite Hb; [left; reflexivity|right].
      rewrite (unit_fails_punit _ _ _ Hf). unfold rep_result.
      destruct (j <? mn) eqn:E; [reflexivity|].
      unfold pfin. destruct mx; [rewrite Hl, E|]; reflexivity.
    - right. assert (Hp : prep P PN n el skip k mn mx j p acc = pfin mn mx p acc).
      { destruct n; cbn [prep]; rewrite Hb; reflexivity. }
      rewrite Hp. apply below_false in Hb. destruct Hb as (m & Hm & _).
      unfold pfin, rep_result. rewrite Hm, Hl. reflexivity.
  Qed.

  Lemma prep_run its : forall i pos p,
    units_from M MN skip k el i pos its p -> (forall m, mx = Some m -> i + length its <= m) ->
    forall n acc,
      prep P PN n el skip k mn mx i pos acc = SFuel \/
      exists n', prep P PN n el skip k mn mx i pos acc
                 = prep P PN n' el skip k mn mx (i + length its) p (rev its ++ acc).
  Proof.
    induction its as [|it its IH]; intros i pos p Hu Hle n acc.
    - inversion Hu; subst. right. exists n. cbn [length rev app]. rewrite Nat.add_0_r. reflexivity.
    - inversion Hu as [|i' pos' it' p1 its' p' Hu1 Hu2]; subst.
      assert (Hb : below i mx = true).
      { unfold below. destruct mx as [m|]; [|reflexivity]. apply Nat.ltb_lt.
        specialize (Hle m eq_refl). cbn [length] in Hle. lia. }
      destruct n as [|n]; cbn [prep]; rewrite Hb; [left; reflexivity|].
      apply punit_ok in Hu1. rewrite Hu1.
      destruct (IH (S i) p1 p Hu2) with (n := n) (acc := it :: acc) as [Hf|[n' Hn']].
      { intros m Hm. specialize (Hle m Hm). cbn [length] in Hle. lia. }
      + left. exact Hf.
      + right. exists n'. rewrite Hn'. cbn [length rev]. rewrite <- app_assoc. cbn [app].
        replace (i + S (length its)) with (S i + length its) by lia. reflexivity.
  Qed.

  Lemma prep_complete n pos items p :
    units_from M MN skip k el 0 pos items p ->
    (forall m, mx = Some m -> length items <= m) ->
    (mx = Some (length items) \/ unit_fails MN F skip k el (length items) p) ->
    prep P PN n el skip k mn mx 0 pos [] = SFuel \/
    prep P PN n el skip k mn mx 0 pos [] = rep_result (length items) p items.
  Proof.
    intros Hu Hle Hstop.
    destruct (prep_run items 0 pos p Hu Hle n []) as [Hf|[n' Hn']]; [left; exact Hf|].
    rewrite Hn'. cbn [Nat.add]. rewrite app_nil_r.
    pose proof (prep_stop n' (length items) p (rev items)) as Hs. rewrite rev_involutive in Hs.
    apply Hs; [apply rev_length|exact Hle|exact Hstop].
  Qed.

  (* ---- sequences ---- *)

  Lemma pseq_cons e rest i pos acc :
    pseq P PN (e :: rest) skip k (i =? 0) pos acc =
    match punit P PN e skip k i pos with
    | SOk (p2, it) => pseq P PN rest skip k false p2 (it :: acc)
    | SFailed => SFailed
    | SFuel => SFuel
    end.
  Proof.
    cbn [pseq]. unfold punit.
    destruct (if i =? 0 then SOk (pos, repeat (default_val skip) k) else pskips PN k skip pos)
      as [[p1 sk]| |]; try reflexivity.
    destruct (P e p1) as [[p2 v]| |]; reflexivity.
  Qed.

  Lemma pseq_ok els : forall i pos acc p v,
    pseq P PN els skip k (i =? 0) pos acc = SOk (p, v) <->
    exists its, v = VSeq (rev acc ++ its) /\ seq_from M MN skip k i els pos its p.
  Proof.
    induction els as [|e rest IH]; intros i pos acc p v.
    - cbn [pseq]. split.
      + intro H. injection H as <- <-. exists []. rewrite app_nil_r. split; [reflexivity|constructor].
      + intros (its & -> & Hs). inversion Hs; subst. rewrite app_nil_r. reflexivity.
    - rewrite pseq_cons. split.
      + intro H. destruct (punit P PN e skip k i pos) as [[p2 it]| |] eqn:E; try discriminate H.
        apply (IH (S i)) in H. destruct H as (its & -> & Hs).
        exists (it :: its). cbn [rev]. rewrite <- app_assoc. split; [reflexivity|].
        econstructor; [apply punit_ok; exact E|exact Hs].
      + intros (its & -> & Hs). inversion Hs as [|i' e' els' pos' it p1 its' p' Hu Hs']; subst.
        apply punit_ok in Hu. rewrite Hu. apply (IH (S i)). exists its'.
        cbn [rev]. rewrite <- app_assoc. split; [reflexivity|exact Hs'].
  Qed.

  Lemma pseq_failed els : forall i pos acc,
    pseq P PN els skip k (i =? 0) pos acc = SFailed <-> seq_fails M MN F skip k i els pos.
  Proof.
    induction els as [|e rest IH]; intros i pos acc.
    - cbn [pseq]. split; [discriminate|].
      intros (els1 & e & els2 & its & p1 & H1 & _). destruct els1; discriminate H1.
    - rewrite pseq_cons. split.
      + intro H. destruct (punit P PN e skip k i pos) as [[p2 it]| |] eqn:E; try discriminate H.
        * apply (IH (S i)) in H. destruct H as (els1 & e' & els2 & its & p1 & -> & Hs & Hf).
          exists (e :: els1), e', els2, (it :: its), p1. split; [reflexivity|]. split.
          -- econstructor; [apply punit_ok; exact E|exact Hs].
          -- cbn [length]. replace (i + S (length els1)) with (S i + length els1) by lia. exact Hf.
        * exists [], e, rest, [], pos. split; [reflexivity|]. split; [constructor|].
          cbn [length]. rewrite Nat.add_0_r. apply punit_failed. exact E.
      + intros (els1 & e' & els2 & its & p1 & H1 & Hs & Hf). destruct els1 as [|e1 els1].
        * cbn [app] in H1. injection H1 as <- <-. inversion Hs; subst.
          cbn [length] in Hf. rewrite Nat.add_0_r in Hf. rewrite (unit_fails_punit _ _ _ Hf). reflexivity.
        * cbn [app] in H1. injection H1 as <- ->.
          inversion Hs as [|i' e'' els' pos' it p2 its' p' Hu Hs']; subst.
          apply punit_ok in Hu. rewrite Hu. apply (IH (S i)).
          exists els1, e', els2, its', p1. split; [reflexivity|]. split; [exact Hs'|].
          cbn [length] in Hf. replace (S i + length els1) with (i + S (length els1)) by lia. exact Hf.
  Qed.
End Charact.

(* ------------------------------------------------------------------------------------------------ *)
(* (c), (d), (e) for the runs of sparse at a given fuel: the inner calls run with fuel f             *)
(* ------------------------------------------------------------------------------------------------ *)

Definition Mf (f : nat) (s : list byte) := okrel (sparse f s).
Definition MNf (f : nat) (s : list byte) := okrel (sparse_nf f s).
Definition Ff (f : nat) (s : list byte) := failrel (sparse f s).

Lemma wf_rep_skip_nf el skip k mn mx :
  wf_snode (SRep el skip k mn mx) = true -> forall f s pos, sparse_nf f s skip pos <> SFailed.
Proof.
  intros H f s pos. apply wf_SRep in H. destruct H as [_ H]. apply skip_ok_shape in H.
  apply sparse_nf_never_fails. exact H.
Qed.

Lemma wf_seq_skip_nf els skip k :
  wf_snode (SSeq els skip k) = true -> forall f s pos, sparse_nf f s skip pos <> SFailed.
Proof.
  intros H f s pos. apply wf_SSeq in H. destruct H as [_ H]. apply skip_ok_shape in H.
  apply sparse_nf_never_fails. exact H.
Qed.

(* (d), success: the chain of units, the bounds, and greediness: the loop stopped at MAX or because the
   next unit (skips, then the element) fails at the element -- and the cursor is the end of the last
   matched element, the skips tried for the failing unit are given back *)
Theorem rep_units_fuel : forall f s el skip k mn mx pos p v,
  wf_snode (SRep el skip k mn mx) = true ->
  sparse (S f) s (SRep el skip k mn mx) pos = SOk (p, v) ->
  exists items, v = VRep items /\
    units_from (Mf f s) (MNf f s) skip k el 0 pos items p /\
    mn <= length items /\
    (forall m, mx = Some m -> length items <= m) /\
    (mx = Some (length items) \/ unit_fails (MNf f s) (Ff f s) skip k el (length items) p).
Proof.
  intros f s el skip k mn mx pos p v Hwf H. rewrite sparse_S in H. cbn [sp_step] in H.
  apply prep_ok in H; [exact H|apply (wf_rep_skip_nf _ _ _ _ _ Hwf)|reflexivity|intros; lia].
Qed.

(* (d), failure: a chain of fewer than MIN units whose next unit fails (or MAX < MIN units were matched) *)
Theorem rep_fails_fuel : forall f s el skip k mn mx pos,
  wf_snode (SRep el skip k mn mx) = true ->
  sparse (S f) s (SRep el skip k mn mx) pos = SFailed ->
  exists items p,
    units_from (Mf f s) (MNf f s) skip k el 0 pos items p /\
    length items < mn /\
    (forall m, mx = Some m -> length items <= m) /\
    (mx = Some (length items) \/ unit_fails (MNf f s) (Ff f s) skip k el (length items) p).
Proof.
  intros f s el skip k mn mx pos Hwf H. rewrite sparse_S in H. cbn [sp_step] in H.
  apply prep_failed in H; [exact H|apply (wf_rep_skip_nf _ _ _ _ _ Hwf)|reflexivity|intros; lia].
Qed.

(* conversely, a maximal chain determines the result of every run that does not run out of fuel *)
Theorem rep_complete_fuel : forall f s el skip k mn mx pos items p,
  units_from (Mf f s) (MNf f s) skip k el 0 pos items p ->
  (forall m, mx = Some m -> length items <= m) ->
  (mx = Some (length items) \/ unit_fails (MNf f s) (Ff f s) skip k el (length items) p) ->
  sparse (S f) s (SRep el skip k mn mx) pos = SFuel \/
  sparse (S f) s (SRep el skip k mn mx) pos
    = (if length items <? mn then SFailed else SOk (p, VRep items)).
Proof.
  intros f s el skip k mn mx pos items p Hu Hle Hstop. rewrite sparse_S. cbn [sp_step].
  apply (prep_complete (sparse f s) (sparse_nf f s) skip k el mn mx f pos items p Hu Hle Hstop).
Qed.

(* "fails exactly when fewer than MIN iterations match" *)
Theorem rep_failed_iff_fuel : forall f s el skip k mn mx pos,
  wf_snode (SRep el skip k mn mx) = true ->
  sparse (S f) s (SRep el skip k mn mx) pos <> SFuel ->
  (sparse (S f) s (SRep el skip k mn mx) pos = SFailed <->
   exists items p,
     units_from (Mf f s) (MNf f s) skip k el 0 pos items p /\
     length items < mn /\
     (forall m, mx = Some m -> length items <= m) /\
     (mx = Some (length items) \/ unit_fails (MNf f s) (Ff f s) skip k el (length items) p)).
Proof.
  intros f s el skip k mn mx pos Hwf Hnf. split; [apply rep_fails_fuel; exact Hwf|].
  intros (items & p & Hu & Hlt & Hle & Hstop).
  destruct (rep_complete_fuel f s el skip k mn mx pos items p Hu Hle Hstop) as [H|H]; [contradiction|].
  rewrite H. apply Nat.ltb_lt in Hlt. rewrite Hlt. reflexivity.
Qed.

Theorem rep_ok_iff_fuel : forall f s el skip k mn mx pos p items,
  wf_snode (SRep el skip k mn mx) = true ->
  sparse (S f) s (SRep el skip k mn mx) pos <> SFuel ->
  (sparse (S f) s (SRep el skip k mn mx) pos = SOk (p, VRep items) <->
   units_from (Mf f s) (MNf f s) skip k el 0 pos items p /\
   mn <= length items /\
   (forall m, mx = Some m -> length items <= m) /\
   (mx = Some (length items) \/ unit_fails (MNf f s) (Ff f s) skip k el (length items) p)).
Proof.
  intros f s el skip k mn mx pos p items Hwf Hnf. split.
  - intro H. apply rep_units_fuel in H; [|exact Hwf]. destruct H as (items' & Hv & H).
    injection Hv as ->. exact H.
  - intros (Hu & Hge & Hle & Hstop).
    destruct (rep_complete_fuel f s el skip k mn mx pos items p Hu Hle Hstop) as [H|H]; [contradiction|].
    rewrite H. apply Nat.ltb_ge in Hge. rewrite Hge. reflexivity.
Qed.

(* MIN > MAX: the loop stops at MAX and then `vec.len() < MIN` returns None: never a success *)
Theorem rep_min_above_max : forall f s el skip k mn m pos,
  wf_snode (SRep el skip k mn (Some m)) = true -> m < mn ->
  sparse f s (SRep el skip k mn (Some m)) pos = SFailed \/
  sparse f s (SRep el skip k mn (Some m)) pos = SFuel.
Proof.
  intros [|f] s el skip k mn m pos Hwf Hlt; [right; reflexivity|].
  destruct (sparse (S f) s (SRep el skip k mn (Some m)) pos) as [[p v]| |] eqn:E; auto.
  apply rep_units_fuel in E; [|exact Hwf]. destruct E as (items & _ & _ & Hge & Hle & _).
  specialize (Hle m eq_refl). lia.
Qed.

(* (e) sequences *)
Theorem seq_ok_iff_fuel : forall f s els skip k pos p v,
  sparse (S f) s (SSeq els skip k) pos = SOk (p, v) <->
  exists items, v = VSeq items /\ seq_from (Mf f s) (MNf f s) skip k 0 els pos items p.
Proof.
  intros f s els skip k pos p v. rewrite sparse_S. cbn [sp_step].
  apply (pseq_ok (sparse f s) (sparse_nf f s) skip k els 0 pos [] p v).
Qed.

Theorem seq_failed_iff_fuel : forall f s els skip k pos,
  wf_snode (SSeq els skip k) = true ->
  (sparse (S f) s (SSeq els skip k) pos = SFailed <->
   seq_fails (Mf f s) (MNf f s) (Ff f s) skip k 0 els pos).
Proof.
  intros f s els skip k pos Hwf. rewrite sparse_S. cbn [sp_step].
  apply (pseq_failed (sparse f s) (sparse_nf f s) skip k (wf_seq_skip_nf _ _ _ Hwf f s) els 0 pos []).
Qed.

(* ------------------------------------------------------------------------------------------------ *)
(* the fuel-free reading: "matches" = some run returns SOk, "fails" = some run returns SFailed       *)
(* ------------------------------------------------------------------------------------------------ *)

Definition smatch (s : list byte) : snode -> nat -> nat -> sval -> Prop :=
  fun n pos p v => exists f, sparse f s n pos = SOk (p, v).
Definition smatch_nf (s : list byte) : snode -> nat -> nat -> sval -> Prop :=
  fun n pos p v => exists f, sparse_nf f s n pos = SOk (p, v).
Definition sfails (s : list byte) : snode -> nat -> Prop :=
  fun n pos => exists f, sparse f s n pos = SFailed.

Lemma Mf_smatch f s n pos p v : Mf f s n pos p v -> smatch s n pos p v.
Proof. intro H. exists f. exact H. Qed.
Lemma MNf_smatch f s n pos p v : MNf f s n pos p v -> smatch_nf s n pos p v.
Proof. intro H. exists f. exact H. Qed.
Lemma Ff_sfails f s n pos : Ff f s n pos -> sfails s n pos.
Proof. intro H. exists f. exact H. Qed.

(* FINAL (d), success *)
Theorem rep_units : forall f s el skip k mn mx pos p items,
  wf_snode (SRep el skip k mn mx) = true ->
  sparse f s (SRep el skip k mn mx) pos = SOk (p, VRep items) ->
  units_from (smatch s) (smatch_nf s) skip k el 0 pos items p /\
  (mx = Some (length items) \/ unit_fails (smatch_nf s) (sfails s) skip k el (length items) p).
Proof.
  intros [|f] s el skip k mn mx pos p items Hwf H; [discriminate H|].
  apply rep_units_fuel in H; [|exact Hwf]. destruct H as (items' & Hv & Hu & _ & _ & Hstop).
  injection Hv as <-. split.
  - exact (units_from_impl _ _ _ _ skip k (Mf_smatch f s) (MNf_smatch f s) el 0 pos items p Hu).
  - destruct Hstop as [Hs|Hs]; [left; exact Hs|right].
    exact (unit_fails_impl _ _ _ _ skip k (MNf_smatch f s) (Ff_sfails f s) el _ p Hs).
Qed.

(* the value of a repetition is always a VRep *)
Lemma prep_value P PN n el skip k mn mx : forall i pos acc p v,
  prep P PN n el skip k mn mx i pos acc = SOk (p, v) -> exists items, v = VRep items.
Proof.
  induction n as [|n IH]; intros i pos acc p v H; cbn [prep] in H.
  - destruct (below i mx); [discriminate H|]. apply pfin_ok in H. destruct H as (_ & -> & _). eauto.
  - destruct (below i mx); [|apply pfin_ok in H; destruct H as (_ & -> & _); eauto].
    destruct (punit P PN el skip k i pos) as [[p1 it]| |]; try discriminate H.
    + eapply IH; eassumption.
    + destruct (i <? mn); [discriminate H|]. apply pfin_ok in H. destruct H as (_ & -> & _). eauto.
Qed.

Theorem rep_value : forall f s el skip k mn mx pos p v,
  sparse f s (SRep el skip k mn mx) pos = SOk (p, v) -> exists items, v = VRep items.
Proof.
  intros [|f] s el skip k mn mx pos p v H; [discriminate H|].
  rewrite sparse_S in H. cbn [sp_step] in H. eapply prep_value; exact H.
Qed.

(* FINAL (c) *)
Theorem rep_bounds : forall f s el skip k mn mx pos p items,
  wf_snode (SRep el skip k mn mx) = true ->
  sparse f s (SRep el skip k mn mx) pos = SOk (p, VRep items) ->
  mn <= length items /\
  (forall m, mx = Some m -> length items <= m) /\
  Forall (fun it => length (fst it) = k) items /\
  (forall it its, items = it :: its -> fst it = repeat (default_val skip) k).
Proof.
  intros [|f] s el skip k mn mx pos p items Hwf H; [discriminate H|].
  apply rep_units_fuel in H; [|exact Hwf]. destruct H as (items' & Hv & Hu & Hge & Hle & _).
  injection Hv as <-. split; [exact Hge|]. split; [exact Hle|]. split.
  - eapply units_from_lengths; exact Hu.
  - intros it its ->. eapply units_from_first; exact Hu.
Qed.

(* FINAL (d), failure *)
Theorem rep_fails : forall f s el skip k mn mx pos,
  wf_snode (SRep el skip k mn mx) = true ->
  sparse f s (SRep el skip k mn mx) pos = SFailed ->
  exists items p,
    units_from (smatch s) (smatch_nf s) skip k el 0 pos items p /\
    length items < mn /\
    (forall m, mx = Some m -> length items <= m) /\
    (mx = Some (length items) \/ unit_fails (smatch_nf s) (sfails s) skip k el (length items) p).
Proof.
  intros [|f] s el skip k mn mx pos Hwf H; [discriminate H|].
  apply rep_fails_fuel in H; [|exact Hwf]. destruct H as (items & p & Hu & Hlt & Hle & Hstop).
  exists items, p. split; [|split; [exact Hlt|split; [exact Hle|]]].
  - exact (units_from_impl _ _ _ _ skip k (Mf_smatch f s) (MNf_smatch f s) el 0 pos items p Hu).
  - destruct Hstop as [Hs|Hs]; [left; exact Hs|right].
    exact (unit_fails_impl _ _ _ _ skip k (MNf_smatch f s) (Ff_sfails f s) el _ p Hs).
Qed.

(* FINAL (e) *)
Theorem seq_units : forall f s els skip k pos p v,
  sparse f s (SSeq els skip k) pos = SOk (p, v) ->
  exists items, v = VSeq items /\
    seq_from (smatch s) (smatch_nf s) skip k 0 els pos items p /\
    length items = length els /\
    Forall (fun it => length (fst it) = k) items /\
    (forall it its, items = it :: its -> fst it = repeat (default_val skip) k).
Proof.
  intros [|f] s els skip k pos p v H; [discriminate H|].
  apply seq_ok_iff_fuel in H. destruct H as (items & -> & Hs). exists items.
  split; [reflexivity|]. split; [|split; [|split]].
  - exact (seq_from_impl _ _ _ _ skip k (Mf_smatch f s) (MNf_smatch f s) 0 els pos items p Hs).
  - eapply seq_from_length; exact Hs.
  - eapply seq_from_lengths; exact Hs.
  - intros it its ->. eapply seq_from_first; exact Hs.
Qed.

Theorem seq_fails_spec : forall f s els skip k pos,
  wf_snode (SSeq els skip k) = true ->
  sparse f s (SSeq els skip k) pos = SFailed ->
  seq_fails (smatch s) (smatch_nf s) (sfails s) skip k 0 els pos.
Proof.
  intros [|f] s els skip k pos Hwf H; [discriminate H|].
  apply seq_failed_iff_fuel in H; [|exact Hwf].
  exact (seq_fails_impl _ _ _ _ _ _ skip k (Mf_smatch f s) (MNf_smatch f s) (Ff_sfails f s) 0 els pos H).
Qed.

(* ------------------------------------------------------------------------------------------------ *)
(* fuel monotonicity: a run that does not run out of fuel returns the same with any larger fuel,    *)
(* so [smatch] / [smatch_nf] are functional and exclude [sfails]                                    *)
(* ------------------------------------------------------------------------------------------------ *)

Section FuelMono.
  Variable s : list byte.
  Variables (P PN P' PN' : snode -> nat -> sres (nat * sval)).
  Variables (lf lf' : nat).
  Hypothesis HP : forall n pos, P n pos <> SFuel -> P' n pos = P n pos.
  Hypothesis HPN : forall n pos, PN n pos <> SFuel -> PN' n pos = PN n pos.
  Hypothesis Hlf : lf <= lf'.

  Lemma pskips_mono k skip : forall pos,
    pskips PN k skip pos <> SFuel -> pskips PN' k skip pos = pskips PN k skip pos.
  Proof.
    induction k as [|k IH]; intros pos H; cbn [pskips] in *; [reflexivity|].
    destruct (PN skip pos) as [[p v]| |] eqn:E.
    - rewrite HPN by (rewrite E; discriminate). rewrite E.
      destruct (pskips PN k skip p) as [[p' vs]| |] eqn:E2.
      + rewrite IH by (rewrite E2; discriminate). rewrite E2. reflexivity.
      + rewrite IH by (rewrite E2; discriminate). rewrite E2. reflexivity.
      + exfalso. apply H. reflexivity.
    - rewrite HPN by (rewrite E; discriminate). rewrite E. reflexivity.
    - exfalso. apply H. reflexivity.
  Qed.

  Lemma punit_mono el skip k i pos :
    punit P PN el skip k i pos <> SFuel -> punit P' PN' el skip k i pos = punit P PN el skip k i pos.
  Proof.
    unfold punit. intro H. destruct (i =? 0).
    - destruct (P el pos) as [[p v]| |] eqn:E.
      + rewrite HP by (rewrite E; discriminate). rewrite E. reflexivity.
      + rewrite HP by (rewrite E; discriminate). rewrite E. reflexivity.
      + exfalso. apply H. reflexivity.
    - destruct (pskips PN k skip pos) as [[p1 sk]| |] eqn:E1.
      + rewrite pskips_mono by (rewrite E1; discriminate). rewrite E1.
        destruct (P el p1) as [[p v]| |] eqn:E.
        * rewrite HP by (rewrite E; discriminate). rewrite E. reflexivity.
        * rewrite HP by (rewrite E; discriminate). rewrite E. reflexivity.
        * exfalso. apply H. reflexivity.
      + rewrite pskips_mono by (rewrite E1; discriminate). rewrite E1. reflexivity.
      + exfalso. apply H. reflexivity.
  Qed.

  Lemma prep_mono el skip k mn mx n : forall n' i pos acc, n <= n' ->
    prep P PN n el skip k mn mx i pos acc <> SFuel ->
    prep P' PN' n' el skip k mn mx i pos acc = prep P PN n el skip k mn mx i pos acc.
  Proof.
    induction n as [|n IH]; intros n' i pos acc Hn H.
    - cbn [prep] in *. destruct (below i mx) eqn:Hb; [exfalso; apply H; reflexivity|].
      destruct n'; cbn [prep]; rewrite Hb; reflexivity.
    - destruct n' as [|n']; [lia|]. cbn [prep] in *. destruct (below i mx); [|reflexivity].
      destruct (punit P PN el skip k i pos) as [[p it]| |] eqn:E.
      + rewrite punit_mono by (rewrite E; discriminate). rewrite E. apply IH; [lia|exact H].
      + rewrite punit_mono by (rewrite E; discriminate). rewrite E. reflexivity.
      + exfalso. apply H. reflexivity.
  Qed.

  Lemma pseq_mono els skip k : forall first pos acc,
    pseq P PN els skip k first pos acc <> SFuel ->
    pseq P' PN' els skip k first pos acc = pseq P PN els skip k first pos acc.
  Proof.
    induction els as [|e rest IH]; intros first pos acc H; cbn [pseq] in *; [reflexivity|].
    assert (Hpre : (if first then SOk (pos, repeat (default_val skip) k) else pskips PN k skip pos) <> SFuel ->
                   (if first then SOk (pos, repeat (default_val skip) k) else pskips PN' k skip pos)
                   = (if first then SOk (pos, repeat (default_val skip) k) else pskips PN k skip pos)).
    { destruct first; [reflexivity|apply pskips_mono]. }
    destruct (if first then SOk (pos, repeat (default_val skip) k) else pskips PN k skip pos)
      as [[p1 sk]| |] eqn:E1.
    - rewrite Hpre by discriminate.
      destruct (P e p1) as [[p2 v]| |] eqn:E.
      + rewrite HP by (rewrite E; discriminate). rewrite E. apply IH. exact H.
      + rewrite HP by (rewrite E; discriminate). rewrite E. reflexivity.
      + exfalso. apply H. reflexivity.
    - rewrite Hpre by discriminate. reflexivity.
    - exfalso. apply H. reflexivity.
  Qed.

  Lemma sp_step_mono n pos :
    sp_step s P PN lf n pos <> SFuel -> sp_step s P' PN' lf' n pos = sp_step s P PN lf n pos.
  Proof.
    destruct n as [str| |a b|els skip k|el skip k mn mx]; cbn [sp_step]; intro H; try reflexivity.
    - destruct (P a pos) as [[p v]| |] eqn:E.
      + rewrite HP by (rewrite E; discriminate). rewrite E. reflexivity.
      + rewrite HP by (rewrite E; discriminate). rewrite E.
        destruct (P b pos) as [[p v]| |] eqn:E2.
        * rewrite HP by (rewrite E2; discriminate). rewrite E2. reflexivity.
        * rewrite HP by (rewrite E2; discriminate). rewrite E2. reflexivity.
        * exfalso. apply H. reflexivity.
      + exfalso. apply H. reflexivity.
    - apply pseq_mono. exact H.
    - apply prep_mono; [exact Hlf|exact H].
  Qed.

  Lemma spnf_step_mono n pos :
    spnf_step P PN lf n pos <> SFuel -> spnf_step P' PN' lf' n pos = spnf_step P PN lf n pos.
  Proof.
    destruct n as [str| |a b|els skip k|el skip k mn mx]; cbn [spnf_step]; intro H; try reflexivity.
    destruct mn; [|reflexivity]. rewrite !prep_nf_is_prep in *. apply prep_mono; [exact Hlf|exact H].
  Qed.
End FuelMono.

Lemma sparse_mono_both s f :
  (forall f' n pos, f <= f' -> sparse f s n pos <> SFuel -> sparse f' s n pos = sparse f s n pos) /\
  (forall f' n pos, f <= f' -> sparse_nf f s n pos <> SFuel -> sparse_nf f' s n pos = sparse_nf f s n pos).
Proof.
  induction f as [|f [IH1 IH2]].
  - split; intros f' n pos _ H; exfalso; apply H; reflexivity.
  - split; intros [|f'] n pos Hle H; try lia.
    + rewrite !sparse_S in *.
      apply sp_step_mono; [intros; apply IH1; [lia|assumption]|intros; apply IH2; [lia|assumption]|lia|exact H].
    + rewrite !sparse_nf_S in *.
      apply spnf_step_mono; [intros; apply IH1; [lia|assumption]|intros; apply IH2; [lia|assumption]|lia|exact H].
Qed.

Theorem sparse_mono : forall f f' s n pos,
  f <= f' -> sparse f s n pos <> SFuel -> sparse f' s n pos = sparse f s n pos.
Proof. intros f f' s n pos. apply (sparse_mono_both s f). Qed.

Theorem sparse_nf_mono : forall f f' s n pos,
  f <= f' -> sparse_nf f s n pos <> SFuel -> sparse_nf f' s n pos = sparse_nf f s n pos.
Proof. intros f f' s n pos. apply (sparse_mono_both s f). Qed.

Theorem scheck_mono : forall f f' s n pos,
  f <= f' -> scheck f s n pos <> SFuel -> scheck f' s n pos = scheck f s n pos.
Proof.
  intros f f' s n pos Hle H. rewrite !check_is_parse in *. f_equal. apply sparse_mono; [exact Hle|].
  intro E. apply H. rewrite E. reflexivity.
Qed.

(* two runs that both terminate agree *)
Lemma sparse_agree f1 f2 s n pos :
  sparse f1 s n pos <> SFuel -> sparse f2 s n pos <> SFuel -> sparse f1 s n pos = sparse f2 s n pos.
Proof.
  intros H1 H2. rewrite <- (sparse_mono f1 (Nat.max f1 f2)) by (try lia; exact H1).
  rewrite <- (sparse_mono f2 (Nat.max f1 f2)) by (try lia; exact H2). reflexivity.
Qed.

Lemma sparse_nf_agree f1 f2 s n pos :
  sparse_nf f1 s n pos <> SFuel -> sparse_nf f2 s n pos <> SFuel -> sparse_nf f1 s n pos = sparse_nf f2 s n pos.
Proof.
  intros H1 H2. rewrite <- (sparse_nf_mono f1 (Nat.max f1 f2)) by (try lia; exact H1).
  rewrite <- (sparse_nf_mono f2 (Nat.max f1 f2)) by (try lia; exact H2). reflexivity.
Qed.

Theorem smatch_fun : forall s n pos p v p' v',
  smatch s n pos p v -> smatch s n pos p' v' -> p = p' /\ v = v'.
Proof.
  intros s n pos p v p' v' [f1 H1] [f2 H2].
  assert (E : sparse f1 s n pos = sparse f2 s n pos) by (apply sparse_agree; congruence).
  rewrite H1, H2 in E. injection E as -> ->. auto.
Qed.

Theorem smatch_nf_fun : forall s n pos p v p' v',
  smatch_nf s n pos p v -> smatch_nf s n pos p' v' -> p = p' /\ v = v'.
Proof.
  intros s n pos p v p' v' [f1 H1] [f2 H2].
  assert (E : sparse_nf f1 s n pos = sparse_nf f2 s n pos) by (apply sparse_nf_agree; congruence).
  rewrite H1, H2 in E. injection E as -> ->. auto.
Qed.

Theorem smatch_not_sfails : forall s n pos p v, smatch s n pos p v -> sfails s n pos -> False.
Proof.
  intros s n pos p v [f1 H1] [f2 H2].
  assert (E : sparse f1 s n pos = sparse f2 s n pos) by (apply sparse_agree; congruence).
  rewrite H1, H2 in E. discriminate E.
Qed.

(* ------------------------------------------------------------------------------------------------ *)
(* completeness of the fuel-free specification: enough fuel realises every chain                    *)
(* ------------------------------------------------------------------------------------------------ *)

Section Exact.
  Variables (P PN : snode -> nat -> sres (nat * sval)).
  Variables (skip : snode) (k : nat) (el : snode) (mn : nat) (mx : option nat).

  Lemma prep_run_exact its : forall i pos p,
    units_from (okrel P) (okrel PN) skip k el i pos its p ->
    (forall m, mx = Some m -> i + length its <= m) ->
    forall n acc,
      prep P PN (length its + n) el skip k mn mx i pos acc
      = prep P PN n el skip k mn mx (i + length its) p (rev its ++ acc).
  Proof.
    induction its as [|it its IH]; intros i pos p Hu Hle n acc.
    - inversion Hu; subst. cbn [length rev app Nat.add]. rewrite Nat.add_0_r. reflexivity.
    - inversion Hu as [|i' pos' it' p1 its' p' Hu1 Hu2]; subst.
      assert (Hb : below i mx = true).
      { unfold below. destruct mx as [m|]; [|reflexivity]. apply Nat.ltb_lt.
        specialize (Hle m eq_refl). cbn [length] in Hle. lia. }
      change (length (it :: its) + n) with (S (length its + n)). cbn [prep]. rewrite Hb.
      apply punit_ok in Hu1. rewrite Hu1.
      rewrite (IH (S i) p1 p Hu2).
      + cbn [length rev]. rewrite <- app_assoc. cbn [app].
        replace (i + S (length its)) with (S i + length its) by lia. reflexivity.
      + intros m Hm. specialize (Hle m Hm). cbn [length] in Hle. lia.
  Qed.

  Lemma prep_stop_exact n j p acc :
    length acc = j -> (forall m, mx = Some m -> j <= m) ->
    (mx = Some j \/ unit_fails (okrel PN) (failrel P) skip k el j p) ->
    prep P PN (S n) el skip k mn mx j p acc = rep_result mn j p (rev acc).
  Proof.
    intros Hl Hle Hstop. cbn [prep]. destruct (below j mx) eqn:Hb.
    - assert (Hf : unit_fails (okrel PN) (failrel P) skip k el j p).
      { destruct Hstop as [Hs|Hs]; [|exact Hs]. apply (below_true mx j Hb) in Hs. lia. }
      rewrite (unit_fails_punit _ _ _ _ _ _ _ Hf). unfold rep_result.
      destruct (j <? mn) eqn:E; [reflexivity|].
      unfold pfin. destruct mx; [rewrite Hl, E|]; reflexivity.
    - apply below_false in Hb. destruct Hb as (m & Hm & _).
      unfold pfin, rep_result. rewrite Hm, Hl. reflexivity.
  Qed.

  Lemma prep_complete_exact pos items p n :
    units_from (okrel P) (okrel PN) skip k el 0 pos items p ->
    (forall m, mx = Some m -> length items <= m) ->
    (mx = Some (length items) \/ unit_fails (okrel PN) (failrel P) skip k el (length items) p) ->
    prep P PN (length items + S n) el skip k mn mx 0 pos [] = rep_result mn (length items) p items.
  Proof.
    intros Hu Hle Hstop. rewrite (prep_run_exact items 0 pos p Hu Hle). cbn [Nat.add]. rewrite app_nil_r.
    pose proof (prep_stop_exact n (length items) p (rev items)) as Hs. rewrite rev_involutive in Hs.
    apply Hs; [apply rev_length|exact Hle|exact Hstop].
  Qed.
End Exact.

(* a fuel-free chain holds at every large enough fuel *)
Lemma smatch_at s n pos p v : smatch s n pos p v -> exists f0, forall f, f0 <= f -> Mf f s n pos p v.
Proof.
  intros [f0 H]. exists f0. intros f Hle. unfold Mf, okrel.
  rewrite (sparse_mono f0 f) by (try exact Hle; congruence). exact H.
Qed.

Lemma smatch_nf_at s n pos p v : smatch_nf s n pos p v -> exists f0, forall f, f0 <= f -> MNf f s n pos p v.
Proof.
  intros [f0 H]. exists f0. intros f Hle. unfold MNf, okrel.
  rewrite (sparse_nf_mono f0 f) by (try exact Hle; congruence). exact H.
Qed.

Lemma sfails_at s n pos : sfails s n pos -> exists f0, forall f, f0 <= f -> Ff f s n pos.
Proof.
  intros [f0 H]. exists f0. intros f Hle. unfold Ff, failrel.
  rewrite (sparse_mono f0 f) by (try exact Hle; congruence). exact H.
Qed.

Lemma skips_run_at s skip j pos vs p :
  skips_run (smatch_nf s) skip j pos vs p ->
  exists f0, forall f, f0 <= f -> skips_run (MNf f s) skip j pos vs p.
Proof.
  induction 1 as [pos|j pos p1 v vs p2 H1 _ [f2 IH]].
  - exists 0. intros. constructor.
  - apply smatch_nf_at in H1. destruct H1 as [f1 H1]. exists (Nat.max f1 f2). intros f Hle.
    econstructor; [apply H1; lia|apply IH; lia].
Qed.

Lemma unit_at_at s skip k el i pos it p :
  unit_at (smatch s) (smatch_nf s) skip k el i pos it p ->
  exists f0, forall f, f0 <= f -> unit_at (Mf f s) (MNf f s) skip k el i pos it p.
Proof.
  destruct 1 as [pos p v H|i pos sk p1 v p Hs H].
  - apply smatch_at in H. destruct H as [f0 H]. exists f0. intros f Hle. constructor. apply H. exact Hle.
  - apply smatch_at in H. destruct H as [f1 H]. apply skips_run_at in Hs. destruct Hs as [f2 Hs].
    exists (Nat.max f1 f2). intros f Hle. econstructor; [apply Hs; lia|apply H; lia].
Qed.

Lemma unit_fails_at s skip k el i pos :
  unit_fails (smatch_nf s) (sfails s) skip k el i pos ->
  exists f0, forall f, f0 <= f -> unit_fails (MNf f s) (Ff f s) skip k el i pos.
Proof.
  destruct 1 as [pos H|i pos sk p1 Hs H].
  - apply sfails_at in H. destruct H as [f0 H]. exists f0. intros f Hle. constructor. apply H. exact Hle.
  - apply sfails_at in H. destruct H as [f1 H]. apply skips_run_at in Hs. destruct Hs as [f2 Hs].
    exists (Nat.max f1 f2). intros f Hle. econstructor; [apply Hs; lia|apply H; lia].
Qed.

Lemma units_from_at s skip k el i pos its p :
  units_from (smatch s) (smatch_nf s) skip k el i pos its p ->
  exists f0, forall f, f0 <= f -> units_from (Mf f s) (MNf f s) skip k el i pos its p.
Proof.
  induction 1 as [i pos|i pos it p1 its p Hu _ [f2 IH]].
  - exists 0. intros. constructor.
  - apply unit_at_at in Hu. destruct Hu as [f1 Hu]. exists (Nat.max f1 f2). intros f Hle.
    econstructor; [apply Hu; lia|apply IH; lia].
Qed.

Lemma seq_from_at s skip k i els pos its p :
  seq_from (smatch s) (smatch_nf s) skip k i els pos its p ->
  exists f0, forall f, f0 <= f -> seq_from (Mf f s) (MNf f s) skip k i els pos its p.
Proof.
  induction 1 as [i pos|i e els pos it p1 its p Hu _ [f2 IH]].
  - exists 0. intros. constructor.
  - apply unit_at_at in Hu. destruct Hu as [f1 Hu]. exists (Nat.max f1 f2). intros f Hle.
    econstructor; [apply Hu; lia|apply IH; lia].
Qed.

Theorem rep_spec_complete : forall s el skip k mn mx pos items p,
  units_from (smatch s) (smatch_nf s) skip k el 0 pos items p ->
  (forall m, mx = Some m -> length items <= m) ->
  (mx = Some (length items) \/ unit_fails (smatch_nf s) (sfails s) skip k el (length items) p) ->
  exists f, sparse f s (SRep el skip k mn mx) pos
            = (if length items <? mn then SFailed else SOk (p, VRep items)).
Proof.
  intros s el skip k mn mx pos items p Hu Hle Hstop.
  apply units_from_at in Hu. destruct Hu as [f1 Hu].
  assert (Hs : exists f2, forall f, f2 <= f ->
             mx = Some (length items) \/ unit_fails (MNf f s) (Ff f s) skip k el (length items) p).
  { destruct Hstop as [Hs|Hs]; [exists 0; intros; left; exact Hs|].
    apply unit_fails_at in Hs. destruct Hs as [f2 Hs]. exists f2. intros f Hf. right. apply Hs. exact Hf. }
  destruct Hs as [f2 Hs].
  exists (S (length items + S (Nat.max f1 f2))). rewrite sparse_S. cbn [sp_step].
  apply (prep_complete_exact (sparse _ s) (sparse_nf _ s) skip k el mn mx pos items p (Nat.max f1 f2)).
  - apply Hu. lia.
  - exact Hle.
  - apply Hs. lia.
Qed.

(* FINAL (d), fuel-free, both directions *)
Theorem rep_match_iff : forall s el skip k mn mx pos p items,
  wf_snode (SRep el skip k mn mx) = true ->
  (smatch s (SRep el skip k mn mx) pos p (VRep items) <->
   units_from (smatch s) (smatch_nf s) skip k el 0 pos items p /\
   mn <= length items /\
   (forall m, mx = Some m -> length items <= m) /\
   (mx = Some (length items) \/ unit_fails (smatch_nf s) (sfails s) skip k el (length items) p)).
Proof.
  intros s el skip k mn mx pos p items Hwf. split.
  - intros [f H]. pose proof (rep_units f s el skip k mn mx pos p items Hwf H) as [Hu Hstop].
    pose proof (rep_bounds f s el skip k mn mx pos p items Hwf H) as (Hge & Hle & _). auto.
  - intros (Hu & Hge & Hle & Hstop).
    destruct (rep_spec_complete s el skip k mn mx pos items p Hu Hle Hstop) as [f H].
    exists f. rewrite H. apply Nat.ltb_ge in Hge. rewrite Hge. reflexivity.
Qed.

Theorem rep_fails_iff : forall s el skip k mn mx pos,
  wf_snode (SRep el skip k mn mx) = true ->
  (sfails s (SRep el skip k mn mx) pos <->
   exists items p,
     units_from (smatch s) (smatch_nf s) skip k el 0 pos items p /\
     length items < mn /\
     (forall m, mx = Some m -> length items <= m) /\
     (mx = Some (length items) \/ unit_fails (smatch_nf s) (sfails s) skip k el (length items) p)).
Proof.
  intros s el skip k mn mx pos Hwf. split.
  - intros [f H]. eapply rep_fails; eassumption.
  - intros (items & p & Hu & Hlt & Hle & Hstop).
    destruct (rep_spec_complete s el skip k mn mx pos items p Hu Hle Hstop) as [f H].
    exists f. rewrite H. apply Nat.ltb_lt in Hlt. rewrite Hlt. reflexivity.
Qed.

(* FINAL (e), fuel-free, both directions *)
Theorem seq_match_iff : forall s els skip k pos p v,
  smatch s (SSeq els skip k) pos p v <->
  exists items, v = VSeq items /\ seq_from (smatch s) (smatch_nf s) skip k 0 els pos items p.
Proof.
  intros s els skip k pos p v. split.
  - intros [f H]. apply seq_units in H. destruct H as (items & Hv & Hs & _). eauto.
  - intros (items & -> & Hs). apply seq_from_at in Hs. destruct Hs as [f0 Hs].
    exists (S f0). apply seq_ok_iff_fuel. exists items. split; [reflexivity|]. apply Hs. lia.
Qed.

Theorem seq_fails_iff : forall s els skip k pos,
  wf_snode (SSeq els skip k) = true ->
  (sfails s (SSeq els skip k) pos <-> seq_fails (smatch s) (smatch_nf s) (sfails s) skip k 0 els pos).
Proof.
  intros s els skip k pos Hwf. split.
  - intros [f H]. eapply seq_fails_spec; eassumption.
  - intros (els1 & e & els2 & its & p1 & Hels & Hs & Hf).
    apply seq_from_at in Hs. destruct Hs as [f1 Hs]. apply unit_fails_at in Hf. destruct Hf as [f2 Hf].
    exists (S (Nat.max f1 f2)). apply seq_failed_iff_fuel; [exact Hwf|].
    exists els1, e, els2, its, p1. split; [exact Hels|]. split; [apply Hs; lia|apply Hf; lia].
Qed.

(* ------------------------------------------------------------------------------------------------ *)
(* (f) examples (the seeded inputs), by computation                                                 *)
(* ------------------------------------------------------------------------------------------------ *)

Definition blank : snode := SRep (SStr [32%N]) SEmpty 0 0 (Some 1).     (* " "? *)
Definition a_ : snode := SStr [97%N].                                    (* "a" *)

Definition sp : byte := 32%N.
Definition ca : byte := 97%N.
Definition in_a__a_a : list byte := [ca; sp; sp; ca; sp; ca].                     (* "a  a a" *)
Definition in_a___a : list byte := [ca; sp; sp; sp; ca].                          (* "a   a" *)
Definition in_a__a : list byte := [ca; sp; sp; ca].                               (* "a  a" *)
Definition in_a_a__aa : list byte := [ca; sp; ca; sp; sp; ca; ca].                (* "a a  aa" *)
Definition in_a__a__a__a : list byte := [ca; sp; sp; ca; sp; sp; ca; sp; sp; ca]. (* "a  a  a  a" *)

(* the values of the skip node: it matched one blank / nothing; the default *)
Definition b1 : sval := VRep [([], VStr)].
Definition b0 : sval := VRep [].

Example ex_wf : wf_snode (SRep a_ blank 2 0 None) = true /\ skip_ok blank = true /\
                wf_snode (SSeq [a_; a_] blank 2) = true.
Proof. vm_compute. auto. Qed.

Example ex_default : default_val blank = b0.
Proof. reflexivity. Qed.

(* "a  a a", SKIP = 2, MIN = 0: three items, offset 6; the third item used one of its two skips *)
Example ex1_parse :
  sparse 50 in_a__a_a (SRep a_ blank 2 0 None) 0
  = SOk (6, VRep [([b0; b0], VStr); ([b1; b1], VStr); ([b1; b0], VStr)]).
Proof. vm_compute. reflexivity. Qed.

Example ex1_check : scheck 50 in_a__a_a (SRep a_ blank 2 0 None) 0 = SOk 6.
Proof. vm_compute. reflexivity. Qed.

(* "a   a": three blanks cannot be skipped by two " "? : one item, offset 1 -- the two blanks matched
   for the failing second unit are given back *)
Example ex2_parse :
  sparse 50 in_a___a (SRep a_ blank 2 0 None) 0 = SOk (1, VRep [([b0; b0], VStr)]).
Proof. vm_compute. reflexivity. Qed.

Example ex2_check : scheck 50 in_a___a (SRep a_ blank 2 0 None) 0 = SOk 1.
Proof. vm_compute. reflexivity. Qed.

(* MIN = 2 on "a  a": offset 4 *)
Example ex3_parse :
  sparse 50 in_a__a (SRep a_ blank 2 2 None) 0
  = SOk (4, VRep [([b0; b0], VStr); ([b1; b1], VStr)]).
Proof. vm_compute. reflexivity. Qed.

Example ex3_check : scheck 50 in_a__a (SRep a_ blank 2 2 None) 0 = SOk 4.
Proof. vm_compute. reflexivity. Qed.

(* MIN = 3 on "a  a" fails: only two units match *)
Example ex3_fail :
  sparse 50 in_a__a (SRep a_ blank 2 3 None) 0 = SFailed /\
  scheck 50 in_a__a (SRep a_ blank 2 3 None) 0 = SFailed.
Proof. vm_compute. auto. Qed.

(* MIN = MAX = 3 on "a a  aa": stops at MAX although a fourth "a" follows: offset 6 *)
Example ex4_parse :
  sparse 50 in_a_a__aa (SRep a_ blank 2 3 (Some 3)) 0
  = SOk (6, VRep [([b0; b0], VStr); ([b1; b0], VStr); ([b1; b1], VStr)]).
Proof. vm_compute. reflexivity. Qed.

Example ex4_check : scheck 50 in_a_a__aa (SRep a_ blank 2 3 (Some 3)) 0 = SOk 6.
Proof. vm_compute. reflexivity. Qed.

(* MIN = 1, MAX = 3 on "a  a  a  a": three items, offset 7 *)
Example ex5_parse :
  sparse 50 in_a__a__a__a (SRep a_ blank 2 1 (Some 3)) 0
  = SOk (7, VRep [([b0; b0], VStr); ([b1; b1], VStr); ([b1; b1], VStr)]).
Proof. vm_compute. reflexivity. Qed.

Example ex5_check : scheck 50 in_a__a__a__a (SRep a_ blank 2 1 (Some 3)) 0 = SOk 7.
Proof. vm_compute. reflexivity. Qed.

(* MIN > MAX always fails *)
Example ex6_min_above_max :
  sparse 50 in_a__a__a__a (SRep a_ blank 2 3 (Some 2)) 0 = SFailed /\
  scheck 50 in_a__a__a__a (SRep a_ blank 2 3 (Some 2)) 0 = SFailed.
Proof. vm_compute. auto. Qed.

(* sequences: `a ~ a` with SKIP = 2 *)
Example ex7_seq :
  sparse 50 in_a__a (SSeq [a_; a_] blank 2) 0 = SOk (4, VSeq [([b0; b0], VStr); ([b1; b1], VStr)]) /\
  scheck 50 in_a__a (SSeq [a_; a_] blank 2) 0 = SOk 4 /\
  sparse 50 in_a___a (SSeq [a_; a_] blank 2) 0 = SFailed /\
  scheck 50 in_a___a (SSeq [a_; a_] blank 2) 0 = SFailed.
Proof. vm_compute. auto. Qed.

(* a skip node that is itself a repetition with a skip count: `(" "?){0,}` can loop on the empty match,
   which is what the fuel is for *)
Example ex8_fuel :
  sparse 50 in_a__a (SRep a_ (SRep blank SEmpty 0 0 None) 1 0 None) 0 = SFuel /\
  scheck 50 in_a__a (SRep a_ (SRep blank SEmpty 0 0 None) 1 0 None) 0 = SFuel.
Proof. vm_compute. auto. Qed.

(* ---- the seeded variant: the check path matches Skip ONCE instead of SKIP times ---- *)

Section COnce.
  Variable s : list byte.
  Variable C : snode -> nat -> sres nat.
  Variable CN : snode -> nat -> sres nat.
  Variable lf : nat.

  (* `if i > 0 { input = Skip::check_with(input); }`  -- no `for _ in 0..SKIP` *)
  Definition cskips_once (skip : snode) (i pos : nat) : sres nat :=
    if (0 <? i)%nat then CN skip pos else SOk pos.

  Definition cunit_once (el skip : snode) (i pos : nat) : sres nat :=
    match cskips_once skip i pos with
    | SOk p1 => C el p1
    | SFailed => SFailed
    | SFuel => SFuel
    end.

  Fixpoint crep_once (n : nat) (el skip : snode) (mn : nat) (mx : option nat) (i pos count : nat) : sres nat :=
    if below i mx then
      match n with
      | O => SFuel
      | S n' =>
          match cunit_once el skip i pos with
          | SOk p => crep_once n' el skip mn mx (S i) p (S count)
          | SFailed => if (i <? mn)%nat then SFailed else cfin mn mx pos count
          | SFuel => SFuel
          end
      end
    else cfin mn mx pos count.

  Fixpoint crep_nf_once (n : nat) (el skip : snode) (mx : option nat) (i pos : nat) : sres nat :=
    if below i mx then
      match n with
      | O => SFuel
      | S n' =>
          match cunit_once el skip i pos with
          | SOk p => crep_nf_once n' el skip mx (S i) p
          | SFailed => SOk pos
          | SFuel => SFuel
          end
      end
    else SOk pos.

  Definition sc_step_once (n : snode) (pos : nat) : sres nat :=
    match n with
    | SRep el skip k mn mx => crep_once lf el skip mn mx 0 pos 0
    | _ => sc_step s C CN lf n pos
    end.

  Definition scnf_step_once (n : snode) (pos : nat) : sres nat :=
    match n with
    | SEmpty => SOk pos
    | SRep el skip k O mx => crep_nf_once lf el skip mx 0 pos
    | _ => SFailed
    end.
End COnce.

Fixpoint scheck_once (fuel : nat) (s : list byte) (n : snode) (pos : nat) {struct fuel} : sres nat :=
  match fuel with
  | O => SFuel
  | S f => sc_step_once s (scheck_once f s) (scheck_nf_once f s) f n pos
  end
with scheck_nf_once (fuel : nat) (s : list byte) (n : snode) (pos : nat) {struct fuel} : sres nat :=
  match fuel with
  | O => SFuel
  | S f => scnf_step_once (scheck_once f s) (scheck_nf_once f s) f n pos
  end.

(* on "a  a a" the variant stops after the first "a": one " "? cannot bridge two blanks *)
Example once_differs :
  scheck_once 50 in_a__a_a (SRep a_ blank 2 0 None) 0 = SOk 1 /\
  scheck 50 in_a__a_a (SRep a_ blank 2 0 None) 0 = SOk 6 /\
  pos_of (sparse 50 in_a__a_a (SRep a_ blank 2 0 None) 0) = SOk 6.
Proof. vm_compute. auto. Qed.

(* so the variant does not satisfy check_is_parse *)
Theorem scheck_once_refuted :
  exists f s n pos, wf_snode n = true /\ scheck_once f s n pos <> pos_of (sparse f s n pos).
Proof.
  exists 50, in_a__a_a, (SRep a_ blank 2 0 None), 0. split; [reflexivity|].
  vm_compute. discriminate.
Qed.

(* with SKIP = 1 the variant is harmless on the same input (why the generated code did not notice) *)
Example once_same_for_one :
  scheck_once 50 in_a__a_a (SRep a_ blank 1 0 None) 0 = scheck 50 in_a__a_a (SRep a_ blank 1 0 None) 0.
Proof. vm_compute. reflexivity. Qed.
