(* C16, third part: the STRUCTURED value of every emitted accessor (which tuple slot / which Option / which Vec element
   holds which stored node) is the declarative `spec_val` of Model/GetterSpec.v -- not only its type (GetterProofs2.v)
   and its flattening (GetterProofs.v).  By the same size induction as `getters_mention` / `getter_type_spec`. *)
From Coq Require Import List NArith ZArith Arith Bool Lia.
From PT Require Import Model.Base Model.Stack Model.Texpr Model.SliceSpec Model.Sem Model.Aparse.
From PT Require Import Model.Ast Model.Translate Model.GenEnv Model.Getter Model.GetterSpec.
From PT Require Import Proofs.GenWitness Proofs.GetterProofs Proofs.GetterProofs2.
Import ListNotations.

(* ================================================================ the forest of a Seq / Choice, without join / merge *)
(* the components the accumulated entry of [x] consists of, and the entry rebuilt from its components *)
Definition oparts (o : option gnode) : list gnode := match o with Some g => parts g | None => [] end.
Definition onice (o : option gnode) : Prop := match o with Some g => nice g | None => True end.
Definition of_parts (l : list gnode) : option gnode :=
  match l with
  | [] => None
  | [g] => Some g
  | _ => Some (GTuple l)
  end.

Lemma of_parts_oparts o : onice o -> o = of_parts (oparts o).
Proof.
  destruct o as [g|]; [|reflexivity]. cbn [onice oparts]. intros Hn.
  destruct g; try reflexivity. cbn [nice parts] in *.
  destruct gs as [|a [|b r]]; cbn [length] in Hn; try lia. reflexivity.
Qed.

(* one wrapped sub-getter per element that has a getter for [x], in order, wrapped by the element's own index *)
Fixpoint collect (mk : nat -> edge) (x : ident) (i : nat) (es : list oexpr) : list gnode :=
  match es with
  | [] => []
  | e :: r =>
      match lookup x (getter_of e) with
      | Some g => wrap g (mk i) :: collect mk x (S i) r
      | None => collect mk x (S i) r
      end
  end.

Lemma gfold_collect mk x : forall es acc i,
  onice (lookup x acc) ->
  onice (lookup x (gfold mk acc i es)) /\
  oparts (lookup x (gfold mk acc i es)) = oparts (lookup x acc) ++ collect mk x i es.
Proof.
  induction es as [|e r IH]; intros acc i Hn; cbn [gfold collect].
  - rewrite app_nil_r. split; [exact Hn|reflexivity].
  - specialize (IH (join acc (prepend (mk i) (getter_of e))) (S i)).
    rewrite lookup_join in IH by (rewrite names_prepend; apply nodup_getter_of).
    rewrite lookup_prepend in IH.
    destruct (lookup x (getter_of e)) as [g|]; cbn [option_map] in IH.
    + destruct (lookup x acc) as [g0|]; cbn [onice oparts] in *.
      * rewrite merge_parts in IH. cbn [nice parts] in IH. rewrite wrap_parts in IH.
        destruct IH as [H1 H2].
        { rewrite app_length. cbn [length]. apply nice_parts_len in Hn. lia. }
        split; [exact H1|]. rewrite H2, <- app_assoc. reflexivity.
      * rewrite wrap_parts in IH. destruct IH as [H1 H2]; [apply wrap_nice|].
        split; [exact H1|exact H2].
    + apply IH. exact Hn.
Qed.

(* the getter of a sequence / a choice, in closed form *)
Lemma getter_seq_collect x a b :
  lookup x (getter_of (OSeq a b)) = of_parts (collect EContentI x 0 (a :: seq_elems b)).
Proof.
  rewrite getter_of_seq.
  destruct (gfold_collect EContentI x (a :: seq_elems b) [] 0 I) as [H1 H2].
  rewrite (of_parts_oparts _ H1), H2. reflexivity.
Qed.

Lemma getter_choice_collect x a b :
  lookup x (getter_of (OChoice a b)) = of_parts (collect EChoiceI x 0 (a :: choice_elems b)).
Proof.
  rewrite getter_of_choice.
  destruct (gfold_collect EChoiceI x (a :: choice_elems b) [] 0 I) as [H1 H2].
  rewrite (of_parts_oparts _ H1), H2. reflexivity.
Qed.

Lemma eval_of_parts t l :
  option_map (fun g => eval_g g t) (of_parts l) = tuple_val (map (fun g => eval_g g t) l).
Proof. destruct l as [|a [|b r]]; reflexivity. Qed.

(* ================================================================ the specification along the spines, as lists *)
Fixpoint vzip (x : ident) (es : list oexpr) (its : list (list tnode * tnode)) : list gval :=
  match es, its with
  | e :: es', it :: its' => opt_consv (spec_val x e (snd it)) (vzip x es' its')
  | _, _ => []
  end.

Lemma spec_val_seq x a b items :
  spec_val x (OSeq a b) (NSeq items) = tuple_val (vzip x (a :: seq_elems b) items).
Proof.
  cbn [spec_val vzip]. destruct items as [|it rest]; [reflexivity|]. f_equal. f_equal.
  revert rest. induction b; intros rest; cbn [seq_elems vzip];
    try (destruct rest as [|it' r]; reflexivity).
  destruct rest as [|it' r]; [reflexivity|]. rewrite <- IHb2. reflexivity.
Qed.

Fixpoint czip (x : ident) (i : nat) (c : tnode) (j : nat) (es : list oexpr) : list gval :=
  match es with
  | [] => []
  | e :: r => opt_consv (slot_val (spec_type x e) (i =? j) (spec_val x e c)) (czip x i c (S j) r)
  end.

Lemma spec_val_choice x a b n i c :
  spec_val x (OChoice a b) (NChoice n i c) = tuple_val (czip x i c 0 (a :: choice_elems b)).
Proof.
  cbn [spec_val czip]. f_equal. f_equal. generalize 1 as j.
  induction b; intros j; cbn [choice_elems czip]; try reflexivity.
  rewrite <- IHb2. reflexivity.
Qed.

(* ================================================================ Option flattening, on values *)
Lemma opt_result_some S g v :
  val_of_type S v (gtype g) -> opt_result (flattenable g) (Some v) = opt_wrap_val (gtype g) v.
Proof.
  intros Hv. rewrite flattenable_char. unfold opt_wrap_val.
  destruct (is_option (gtype g)) eqn:Eo; cbn [opt_result flatten_opt]; [|reflexivity].
  destruct (val_opt_shape S _ _ Hv Eo) as [o ->]. reflexivity.
Qed.

Lemma opt_result_none fl : opt_result fl None = VOpt None.
Proof. destruct fl; reflexivity. Qed.

(* ================================================================ the main induction *)
Section Value.
  Variable eoi : N.
  Variable k : sk.
  Variable x : ident.

  (* the statement for one expression: on every tree of its shape, the declarative value is what the emitted path
     computes -- and there is no declarative value exactly when no accessor is emitted *)
  Definition gv_ok (e : oexpr) : Prop :=
    forall t, has_shape (Translate.tr eoi k e) t ->
              spec_val x e t = option_map (fun g => eval_g g t) (lookup x (getter_of e)).

  Lemma lookup_type e : option_map gtype (lookup x (getter_of e)) = spec_type x e.
  Proof. apply (getter_type_size x (S (osize e))). lia. Qed.

  Lemma lookup_typed e t g :
    has_shape (Translate.tr eoi k e) t -> lookup x (getter_of e) = Some g ->
    val_of_type (ref_ok eoi k) (eval_g g t) (gtype g).
  Proof. intros Hs Hg. apply (getter_val_size eoi k x (S (osize e)) e ltac:(lia) t Hs g Hg). Qed.

  Lemma collect_seq_vals items : forall es i,
    (forall e, In e es -> gv_ok e) ->
    Forall2 (fun e it => has_shape (Translate.tr eoi k e) (snd it)) es (skipn i items) ->
    map (fun g => eval_g g (NSeq items)) (collect EContentI x i es) = vzip x es (skipn i items).
  Proof.
    induction es as [|e r IH]; intros i Hok Hf; [reflexivity|].
    rewrite (skipn_nth items i) in Hf |- *.
    destruct (nth_error items i) as [it|] eqn:En; [|inversion Hf].
    inversion Hf as [|? ? ? ? Hs Hr]; subst. cbn [collect vzip].
    rewrite (Hok e (or_introl eq_refl) _ Hs).
    assert (Hrest : map (fun g => eval_g g (NSeq items)) (collect EContentI x (S i) r) = vzip x r (skipn (S i) items)).
    { apply IH; [|exact Hr]. intros e' He'. apply Hok. right. exact He'. }
    destruct (lookup x (getter_of e)) as [g|]; cbn [option_map opt_consv map]; [|exact Hrest].
    rewrite Hrest. cbn [wrap eval_g]. rewrite En. reflexivity.
  Qed.

  Lemma collect_choice_vals n i c : forall es j,
    (forall e, In e es -> gv_ok e) ->
    j + length es <= n ->
    (forall m e, nth_error es m = Some e -> i = j + m -> has_shape (Translate.tr eoi k e) c) ->
    map (fun g => eval_g g (NChoice n i c)) (collect EChoiceI x j es) = czip x i c j es.
  Proof.
    induction es as [|e r IH]; intros j Hok Hlen Htk; [reflexivity|].
    cbn [length] in Hlen. cbn [collect czip].
    assert (Hrest : map (fun g => eval_g g (NChoice n i c)) (collect EChoiceI x (S j) r) = czip x i c (S j) r).
    { apply IH; [intros e' He'; apply Hok; right; exact He'|lia|].
      intros m e' Hm Hi. apply (Htk (S m) e' Hm). lia. }
    pose proof (lookup_type e) as Hty.
    destruct (lookup x (getter_of e)) as [g|] eqn:El; cbn [option_map] in Hty; rewrite <- Hty; cbn [slot_val].
    - cbn [map wrap eval_g]. rewrite Hrest.
      replace (j <? n) with true by (symmetry; apply Nat.ltb_lt; lia).
      destruct (i =? j) eqn:Eij.
      + apply Nat.eqb_eq in Eij.
        assert (Hs : has_shape (Translate.tr eoi k e) c) by (apply (Htk 0 e eq_refl); lia).
        rewrite (Hok e (or_introl eq_refl) c Hs), El. cbn [option_map opt_consv].
        rewrite (opt_result_some (ref_ok eoi k) g _ (lookup_typed e c g Hs El)). reflexivity.
      + cbn [opt_consv]. rewrite opt_result_none. reflexivity.
    - cbn [opt_consv]. exact Hrest.
  Qed.

  Lemma rep_vals e g (items : list (list tnode * tnode)) :
    gv_ok e -> lookup x (getter_of e) = Some g ->
    Forall (fun it => has_shape (Translate.tr eoi k e) (snd it)) items ->
    all_some (map (fun it => spec_val x e (snd it)) items) = Some (map (fun it => eval_g g (snd it)) items).
  Proof.
    intros Hok El Hf. induction Hf as [|it its Hit _ IHf]; [reflexivity|].
    cbn [map all_some]. rewrite (Hok _ Hit), El. cbn [option_map]. rewrite IHf. reflexivity.
  Qed.

  Lemma getter_value_size : forall n e, osize e < n -> gv_ok e.
  Proof.
    induction n as [|n IH]; intros e Hn; [lia|].
    destruct e; cbn [osize] in Hn; intros t Hs; try reflexivity.
    - (* OIdent *)
      cbn [spec_val getter_of from_rule lookup]. destruct (ident_eqb i x); reflexivity.
    - (* OPosPred *)
      cbn [Translate.tr] in Hs. destruct (shape_pos _ _ Hs) as (c & -> & Hc).
      cbn [spec_val getter_of]. rewrite lookup_prepend, (IH e ltac:(lia) c Hc).
      destruct (lookup x (getter_of e)); reflexivity.
    - (* OSeq *)
      rewrite tr_seq in Hs. destruct (shape_seq _ _ _ Hs) as (items & -> & Hf).
      rewrite getter_seq_collect, eval_of_parts, spec_val_seq. f_equal. symmetry.
      apply (collect_seq_vals items (e1 :: seq_elems e2) 0).
      + intros e He. apply IH. apply seq_all_size in He. cbn [osize] in He. lia.
      + cbn [skipn]. apply forall2_map_l in Hf. exact Hf.
    - (* OChoice *)
      rewrite tr_choice in Hs. destruct (shape_choice _ _ Hs) as (i & c & te & -> & Hnth & Hc).
      rewrite map_length in *. rewrite nth_error_map in Hnth.
      rewrite getter_choice_collect, eval_of_parts, spec_val_choice. f_equal. symmetry.
      apply (collect_choice_vals (length (e1 :: choice_elems e2)) i c (e1 :: choice_elems e2) 0).
      + intros e He. apply IH. apply choice_all_size in He. cbn [osize] in He. lia.
      + lia.
      + intros m e Hm Hi. cbn [Nat.add] in Hi. subst m. rewrite Hm in Hnth. cbn [option_map] in Hnth.
        inversion Hnth; subst te. exact Hc.
    - (* OOpt *)
      cbn [Translate.tr] in Hs. cbn [getter_of]. rewrite lookup_prepend.
      pose proof (lookup_type e) as Hty.
      destruct (shape_opt _ _ Hs) as [->|(c & -> & Hc)]; cbn [spec_val]; rewrite <- Hty.
      + destruct (lookup x (getter_of e)) as [g|]; cbn [option_map slot_val wrap eval_g]; [|reflexivity].
        rewrite opt_result_none. reflexivity.
      + rewrite (IH e ltac:(lia) c Hc).
        destruct (lookup x (getter_of e)) as [g|] eqn:El; cbn [option_map slot_val wrap eval_g]; [|reflexivity].
        rewrite (opt_result_some (ref_ok eoi k) g _ (lookup_typed e c g Hc El)). reflexivity.
    - (* ORep *)
      cbn [Translate.tr] in Hs. destruct (shape_rep _ _ _ _ _ Hs) as (b & items & -> & Hf).
      cbn [spec_val getter_of]. rewrite lookup_prepend.
      pose proof (lookup_type e) as Hty. rewrite <- Hty.
      destruct (lookup x (getter_of e)) as [g|] eqn:El; cbn [option_map wrap eval_g]; [|reflexivity].
      rewrite (rep_vals e g items (IH e ltac:(lia)) El Hf). reflexivity.
    - (* OPush *)
      cbn [Translate.tr] in Hs. destruct (shape_push _ _ Hs) as (c & -> & Hc).
      cbn [spec_val getter_of]. rewrite lookup_prepend, (IH e ltac:(lia) c Hc).
      destruct (lookup x (getter_of e)); reflexivity.
    - (* ORestore *)
      cbn [Translate.tr] in Hs. cbn [spec_val getter_of]. apply (IH e ltac:(lia) t Hs).
  Qed.
End Value.

(* ================================================================ the main statements *)
(* on every stored value of the right shape: the declarative structured value IS what the emitted accessor computes, and
   it is undefined exactly when no accessor is emitted *)
Theorem getter_value_spec_eq eoi k e x t :
  has_shape (Translate.tr eoi k e) t ->
  spec_val x e t = option_map (fun g => eval_g g t) (getter e x).
Proof. intros Hs. unfold getter. apply (getter_value_size eoi k x (S (osize e)) e ltac:(lia) t Hs). Qed.

Theorem getter_value_spec eoi k e x g t :
  has_shape (Translate.tr eoi k e) t -> getter e x = Some g ->
  spec_val x e t = Some (eval_g g t).
Proof. intros Hs Hg. rewrite (getter_value_spec_eq eoi k e x t Hs), Hg. reflexivity. Qed.

Theorem getter_value_spec_none eoi k e x t :
  has_shape (Translate.tr eoi k e) t -> getter e x = None ->
  spec_val x e t = None.
Proof. intros Hs Hg. rewrite (getter_value_spec_eq eoi k e x t Hs), Hg. reflexivity. Qed.

(* the structured value has the declared type (so it is never the rejected expression VErr) *)
Theorem spec_val_typed eoi k e x t v :
  has_shape (Translate.tr eoi k e) t -> spec_val x e t = Some v ->
  exists ty, spec_type x e = Some ty /\ val_of_type (ref_ok eoi k) v ty /\ no_nested_option ty.
Proof.
  intros Hs Hv. rewrite (getter_value_spec_eq eoi k e x t Hs) in Hv.
  destruct (getter e x) as [g|] eqn:Hg; cbn [option_map] in Hv; inversion Hv; subst v.
  exists (gtype g). split; [apply getter_type; exact Hg|]. split.
  - apply (getter_value_typed eoi k e x g t Hs Hg).
  - apply (getter_no_nested_option e x g Hg).
Qed.

(* ================================================================ "None iff x is not mentioned outside a negative predicate" *)
Lemma tuple_of_none ts : tuple_of ts = None <-> ts = [].
Proof. destruct ts as [|a [|b r]]; cbn [tuple_of]; split; intros H; try reflexivity; discriminate H. Qed.

Lemma opt_cons_nil o l : opt_cons o l = [] <-> o = None /\ l = [].
Proof.
  destruct o as [t|]; cbn [opt_cons]; split.
  - intros H. discriminate H.
  - intros [H _]. discriminate H.
  - intros H. split; [reflexivity|exact H].
  - intros [_ H]. exact H.
Qed.

Lemma stys_cons f a r : stys f (a :: r) = opt_cons (f a) (stys f r).
Proof. reflexivity. Qed.

Lemma option_map_none {A B} (f : A -> B) o : option_map f o = None <-> o = None.
Proof. destruct o; cbn [option_map]; split; intros H; try reflexivity; discriminate H. Qed.

Lemma stys_seq_tail x b : stys (spec_type x) (seq_elems b) = [] <-> spec_type x b = None.
Proof.
  destruct b; try (cbn [seq_elems]; rewrite stys_cons, opt_cons_nil; cbn [stys fold_right];
                   split; [intros [H _]; exact H|intros H; split; [exact H|reflexivity]]).
  rewrite spec_type_seq, tuple_of_none. cbn [seq_elems]. tauto.
Qed.

Lemma stys_choice_tail x b :
  stys (fun e => option_map opt_wrap (spec_type x e)) (choice_elems b) = [] <-> spec_type x b = None.
Proof.
  destruct b; try (cbn [choice_elems]; rewrite stys_cons, opt_cons_nil, option_map_none; cbn [stys fold_right];
                   split; [intros [H _]; exact H|intros H; split; [exact H|reflexivity]]).
  rewrite spec_type_choice, tuple_of_none. cbn [choice_elems]. tauto.
Qed.

Lemma spec_type_mentioned x e : spec_type x e = None <-> mentioned x e = false.
Proof.
  induction e; cbn [mentioned]; try (cbn [spec_type]; split; reflexivity); try (cbn [spec_type]; exact IHe).
  - (* OIdent *) cbn [spec_type]. destruct (ident_eqb i x); split; intros H; try reflexivity; discriminate H.
  - (* OSeq *)
    rewrite spec_type_seq, tuple_of_none, stys_cons, opt_cons_nil, stys_seq_tail, IHe1, IHe2, orb_false_iff. tauto.
  - (* OChoice *)
    rewrite spec_type_choice, tuple_of_none, stys_cons, opt_cons_nil, option_map_none, stys_choice_tail,
      IHe1, IHe2, orb_false_iff. tauto.
  - (* OOpt *) cbn [spec_type]. rewrite option_map_none. exact IHe.
  - (* ORep *) cbn [spec_type]. rewrite option_map_none. exact IHe.
Qed.

(* the structured value is undefined exactly when [x] is not mentioned outside a negative predicate *)
Theorem spec_val_none_iff eoi k e x t :
  has_shape (Translate.tr eoi k e) t -> (spec_val x e t = None <-> mentioned x e = false).
Proof.
  intros Hs. rewrite (getter_value_spec_eq eoi k e x t Hs), option_map_none, getter_none_iff.
  apply spec_type_mentioned.
Qed.

(* its flattening is the flat specification (the nodes at the mentions, in order) *)
Theorem spec_val_flatten eoi k e x t v :
  has_shape (Translate.tr eoi k e) t -> spec_val x e t = Some v -> flatten_gval v = mention_refs x e t.
Proof.
  intros Hs Hv. rewrite (getter_value_spec_eq eoi k e x t Hs) in Hv.
  destruct (getter e x) as [g|] eqn:Hg; cbn [option_map] in Hv; inversion Hv; subst v.
  apply (getters_ident eoi k e x g t Hs Hg).
Qed.

(* ================================================================ about what the PARSER returns *)
(* for every rule node the parser builds (entry point or nested): the emitted accessor computes the declarative
   structured value on the node's content *)
Theorem parsed_rule_getter_value eoi g I pred fuel inh arg pos st r0 d x gn p c sp st' :
  r0 <> eoi -> lookup_rule (g_rules g) r0 = Some d ->
  tparse (env_of eoi g I pred) fuel inh (TRule r0 arg) pos st = Ok (p, NRule r0 (Some c) sp) st' ->
  getter (o_expr d) x = Some gn ->
  spec_val x (o_expr d) c = Some (eval_g gn c).
Proof.
  intros Hr Hl H Hg.
  apply (getter_value_spec eoi (skip_of_kind (o_kind d)) (o_expr d) x gn c); [|exact Hg].
  exact (parsed_rule_content_shape eoi g I pred fuel inh arg pos st r0 d p c sp st' Hr Hl H).
Qed.

Theorem parsed_rule_getter_value_none eoi g I pred fuel inh arg pos st r0 d x p c sp st' :
  r0 <> eoi -> lookup_rule (g_rules g) r0 = Some d ->
  tparse (env_of eoi g I pred) fuel inh (TRule r0 arg) pos st = Ok (p, NRule r0 (Some c) sp) st' ->
  getter (o_expr d) x = None ->
  spec_val x (o_expr d) c = None.
Proof.
  intros Hr Hl H Hg.
  apply (getter_value_spec_none eoi (skip_of_kind (o_kind d)) (o_expr d) x c); [|exact Hg].
  exact (parsed_rule_content_shape eoi g I pred fuel inh arg pos st r0 d p c sp st' Hr Hl H).
Qed.

(* at the entry point: a successful parse of a rule for which accessors are emitted returns a rule node WITH content, and
   the emitted accessor `r0.x()` (call_getter; any identifier x) on the returned node is the declarative structured value *)
Theorem try_parse_partial_call_getter_value eoi g I pred fuel r0 d x gn p t st' :
  r0 <> eoi -> lookup_rule (g_rules g) r0 = Some d ->
  try_parse_partial (env_of eoi g I pred) fuel r0 = Ok (p, t) st' ->
  lookup x (rule_getters d) = Some gn ->
  exists c sp, t = NRule r0 (Some c) sp /\
               has_shape (Translate.tr eoi (skip_of_kind (o_kind d)) (o_expr d)) c /\
               spec_val x (o_expr d) c = Some (call_getter gn t).
Proof.
  intros Hr Hl H Hg.
  assert (Hem : emis_of_kind (o_kind d) <> EmSpan /\ getter (o_expr d) x = Some gn).
  { unfold rule_getters in Hg. destruct (emis_of_kind (o_kind d)); [discriminate Hg| |]; (split; [discriminate|exact Hg]). }
  destruct Hem as [Hem Hg'].
  assert (Hc : exists c sp, t = NRule r0 (Some c) sp).
  { unfold try_parse_partial in H. destruct fuel as [|n]; cbn [tparse step_p] in H; [discriminate H|].
    rewrite (env_of_rule eoi g I pred r0 d Hr Hl) in H. cbn [rdef_of_orule r_emis r_body] in H.
    destruct (emis_of_kind (o_kind d)); [congruence| |]; crunch H; inversion H; subst; eauto. }
  destruct Hc as (c & sp & ->). exists c, sp. split; [reflexivity|]. split.
  - exact (parsed_rule_content_shape eoi g I pred fuel true SkOn _ _ r0 d p c sp st' Hr Hl H).
  - cbn [call_getter]. unfold try_parse_partial in H.
    exact (parsed_rule_getter_value eoi g I pred fuel _ _ _ _ r0 d x gn p c sp st' Hr Hl H Hg').
Qed.

(* ================================================================ concrete instances (non-vacuity) *)
(* r = { "a" ~ x | "b" ~ x ~ y }   x = { "x" }   y = { "y" }     (r = 0, x = 1, y = 2)
   fn x(&self) -> (Option<&x>, Option<&x>)      fn y(&self) -> Option<&y>
   "ax" must give (Some(x@1..2), None): the value (None, Some(x@1..2)) has the same type and the same flattening *)
Module SlotExample.
  Definition ex : oexpr := OIdent (IdRule 1).
  Definition ey : oexpr := OIdent (IdRule 2).
  Definition ce : oexpr := OChoice (OSeq (OStr [97%N]) ex) (OSeq (OStr [98%N]) (OSeq ex ey)).
  Definition cg : ogrammar :=
    mk_ogrammar [ mk_orule 0 KNormal ce; mk_orule 1 KNormal (OStr [120%N]); mk_orule 2 KNormal (OStr [121%N]) ] None None.
  Definition cenv (inp : list byte) : env := env_of 99 cg (inp_of_str inp) no_pred.
  Definition rx : ident := IdRule 1.
  Definition ry : ident := IdRule 2.
  Definition nx (s e : nat) : tnode := NRule 1 (Some NStr) (Some (s, e)).
  Definition ny (s e : nat) : tnode := NRule 2 (Some NStr) (Some (s, e)).

  Example slot_types :
    spec_type rx ce = Some (TyTuple [TyOption (TyRef rx); TyOption (TyRef rx)]) /\
    spec_type ry ce = Some (TyOption (TyRef ry)).
  Proof. vm_compute. split; reflexivity. Qed.

  (* input "ax" *)
  Example slot_ax :
    match try_parse_partial (cenv [97; 120]%N) 40 0, getter ce rx, getter ce ry with
    | Ok (p, NRule 0 (Some c) _) _, Some gx, Some gy =>
        p = 2 /\
        spec_val rx ce c = Some (VTuple [VOpt (Some (VRef (nx 1 2))); VOpt None]) /\
        spec_val rx ce c <> Some (VTuple [VOpt None; VOpt (Some (VRef (nx 1 2)))]) /\
        flatten_gval (VTuple [VOpt None; VOpt (Some (VRef (nx 1 2)))]) = mention_refs rx ce c /\
        spec_val rx ce c = Some (eval_g gx c) /\
        spec_val ry ce c = Some (VOpt None) /\
        spec_val ry ce c = Some (eval_g gy c) /\
        spec_val (IdRule 3) ce c = None
    | _, _, _ => False
    end.
  Proof. vm_compute. repeat split. intros H. discriminate H. Qed.

  (* input "bxy" *)
  Example slot_bxy :
    match try_parse_partial (cenv [98; 120; 121]%N) 40 0, getter ce rx, getter ce ry with
    | Ok (p, NRule 0 (Some c) _) _, Some gx, Some gy =>
        p = 3 /\
        spec_val rx ce c = Some (VTuple [VOpt None; VOpt (Some (VRef (nx 1 2)))]) /\
        spec_val rx ce c <> Some (VTuple [VOpt (Some (VRef (nx 1 2))); VOpt None]) /\
        spec_val rx ce c = Some (eval_g gx c) /\
        spec_val ry ce c = Some (VOpt (Some (VRef (ny 2 3)))) /\
        spec_val ry ce c = Some (eval_g gy c)
    | _, _, _ => False
    end.
  Proof. vm_compute. repeat split. intros H. discriminate H. Qed.

  (* the general theorem instantiated on the run on "ax" *)
  Example slot_by_theorem p t st' gx :
    try_parse_partial (cenv [97; 120]%N) 40 0 = Ok (p, t) st' -> lookup rx (rule_getters (mk_orule 0 KNormal ce)) = Some gx ->
    exists c sp, t = NRule 0 (Some c) sp /\ spec_val rx ce c = Some (call_getter gx t).
  Proof.
    intros H Hg.
    destruct (try_parse_partial_call_getter_value 99 cg (inp_of_str [97; 120]%N) no_pred 40 0 (mk_orule 0 KNormal ce) rx gx p t st')
      as (c & sp & Ht & _ & Hv); try assumption; try reflexivity; try discriminate.
    exists c, sp. split; assumption.
  Qed.
End SlotExample.

(* r = { (a ~ b)? ~ (a | b ~ a)* ~ &b ~ PUSH(b)? ~ (b | a)? } on "abababb" (GetterProofs2.Example): the full structured values *)
Module Example3.
  Import Example.

  Example spec_values :
    match try_parse_partial xenv 40 0, getter xe ra, getter xe rb with
    | Ok (p, NRule 0 (Some c) _) _, Some ga, Some gb =>
        p = 7 /\
        spec_val ra xe c =
          Some (VTuple [VOpt (Some (VRef (na 0 1)));
                        VVec [VTuple [VOpt (Some (VRef (na 2 3))); VOpt None];
                              VTuple [VOpt None; VOpt (Some (VRef (na 4 5)))]];
                        VOpt None]) /\
        spec_val rb xe c =
          Some (VTuple [VOpt (Some (VRef (nb 1 2)));
                        VVec [VOpt None; VOpt (Some (VRef (nb 3 4)))];
                        VRef (nb 5 6);
                        VOpt (Some (VRef (nb 5 6)));
                        VOpt (Some (VRef (nb 6 7)))]) /\
        spec_val ra xe c = Some (eval_g ga c) /\
        spec_val rb xe c = Some (eval_g gb c) /\
        spec_val (IdRule 3) xe c = None
    | _, _, _ => False
    end.
  Proof. vm_compute. repeat split. Qed.
End Example3.

Print Assumptions getter_value_spec_eq.
Print Assumptions getter_value_spec.
Print Assumptions getter_value_spec_none.
Print Assumptions spec_val_typed.
Print Assumptions spec_val_none_iff.
Print Assumptions spec_val_flatten.
Print Assumptions parsed_rule_getter_value.
Print Assumptions parsed_rule_getter_value_none.
Print Assumptions try_parse_partial_call_getter_value.
