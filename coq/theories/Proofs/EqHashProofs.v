(* C18: consistency of the modelled `==`, `Hash` and `{:?}` of parse results (Model/EqHash.v).
   Main results (for ALL pairs of tnodes over one input object):
     eq_debug_iff : eq_m i t1 t2 = true <-> debug_m i t1 = debug_m i t2
     eq_hash      : eq_m i t1 t2 = true -> hash_m i t1 = hash_m i t2
     eq_refl / eq_sym / eq_trans
   The direction "equal rendering -> equal" is a unique-decoding argument on the flat token list:
   [decode_all] shows that the rendering of a node is a prefix code. *)
From Coq Require Import List NArith ZArith Arith Bool Lia.
From PT Require Import Model.Base Model.Texpr Model.EqHash.
Import ListNotations.

(* ------------------------------------------------------------------ nested induction on tnode *)
Section TnodeInd.
  Variable P : tnode -> Prop.
  Definition Pitem (it : list tnode * tnode) : Prop := Forall P (fst it) /\ P (snd it).
  Definition Popt (o : option tnode) : Prop := match o with Some u => P u | None => True end.
  Hypothesis HStr : P NStr.
  Hypothesis HInsens : forall s e, P (NInsens s e).
  Hypothesis HChar : forall k c, P (NChar k c).
  Hypothesis HSoi : P NSoi.
  Hypothesis HEoi : P NEoi.
  Hypothesis HNewline : forall k, P (NNewline k).
  Hypothesis HSpanned : forall k s e, P (NSpanned k s e).
  Hypothesis HSeq : forall items, Forall Pitem items -> P (NSeq items).
  Hypothesis HChoice : forall n k u, P u -> P (NChoice n k u).
  Hypothesis HOpt : forall o, Popt o -> P (NOpt o).
  Hypothesis HRep : forall b items, Forall Pitem items -> P (NRep b items).
  Hypothesis HAtomicRep : forall l, Forall P l -> P (NAtomicRep l).
  Hypothesis HPos : forall u, P u -> P (NPos u).
  Hypothesis HNeg : P NNeg.
  Hypothesis HPush : forall u, P u -> P (NPush u).
  Hypothesis HDrop : P NDrop.
  Hypothesis HSlice : forall b, P (NSlice b).
  Hypothesis HArr : forall l, Forall P l -> P (NArr l).
  Hypothesis HPair : forall a b, P a -> P b -> P (NPair a b).
  Hypothesis HEmpty : P NEmpty.
  Hypothesis HRule : forall r c sp, Popt c -> P (NRule r c sp).

  Fixpoint tnode_nested_ind (t : tnode) : P t :=
    let go := fix go (l : list tnode) : Forall P l :=
      match l with
      | [] => Forall_nil P
      | c :: l' => Forall_cons c (tnode_nested_ind c) (go l')
      end in
    let goi := fix goi (l : list (list tnode * tnode)) : Forall Pitem l :=
      match l with
      | [] => Forall_nil Pitem
      | it :: l' => Forall_cons it (conj (go (fst it)) (tnode_nested_ind (snd it))) (goi l')
      end in
    let goo := fun (o : option tnode) =>
      match o return Popt o with
      | Some u => tnode_nested_ind u
      | None => I
      end in
    match t with
    | NStr => HStr
    | NInsens s e => HInsens s e
    | NChar k c => HChar k c
    | NSoi => HSoi
    | NEoi => HEoi
    | NNewline k => HNewline k
    | NSpanned k s e => HSpanned k s e
    | NSeq items => HSeq items (goi items)
    | NChoice n k u => HChoice n k u (tnode_nested_ind u)
    | NOpt o => HOpt o (goo o)
    | NRep b items => HRep b items (goi items)
    | NAtomicRep l => HAtomicRep l (go l)
    | NPos u => HPos u (tnode_nested_ind u)
    | NNeg => HNeg
    | NPush u => HPush u (tnode_nested_ind u)
    | NDrop => HDrop
    | NSlice b => HSlice b
    | NArr l => HArr l (go l)
    | NPair a b => HPair a b (tnode_nested_ind a) (tnode_nested_ind b)
    | NEmpty => HEmpty
    | NRule r c sp => HRule r c sp (goo c)
    end.
End TnodeInd.

(* ------------------------------------------------------------------ the small comparisons *)
Lemma bytes_eqb_iff a b : bytes_eqb a b = true <-> a = b.
Proof.
  revert b; induction a as [|x a IH]; intros [|y b]; cbn [bytes_eqb]; split; intros H;
    try reflexivity; try discriminate H.
  - apply andb_true_iff in H as [Hx Hr]. apply N.eqb_eq in Hx. apply IH in Hr. subst. reflexivity.
  - injection H as -> ->. rewrite N.eqb_refl. cbn [andb]. apply IH. reflexivity.
Qed.

Lemma nlkind_eqb_iff a b : nlkind_eqb a b = true <-> a = b.
Proof. destruct a, b; cbn; split; intros H; try reflexivity; discriminate H. Qed.

Lemma spk_eqb_iff a b : spk_eqb a b = true <-> a = b.
Proof. destruct a, b; cbn; split; intros H; try reflexivity; discriminate H. Qed.

Lemma chk_eqb_iff a b : chk_eqb a b = true <-> a = b.
Proof.
  destruct a, b; cbn [chk_eqb]; split; intros H; try reflexivity; try discriminate H.
  - apply N.eqb_eq in H. subst. reflexivity.
  - injection H as ->. apply N.eqb_refl.
Qed.

Lemma span_eqb_iff a b : span_eqb a b = true <-> a = b.
Proof.
  destruct a as [s1 e1], b as [s2 e2]. unfold span_eqb. cbn [fst snd]. rewrite andb_true_iff, !Nat.eqb_eq.
  split; [intros [-> ->]; reflexivity | intros H; injection H as -> ->; auto].
Qed.

Lemma bool_eqb_iff a b : Bool.eqb a b = true <-> a = b.
Proof. destruct a, b; cbn; split; intros H; try reflexivity; discriminate H. Qed.

Lemma chk_name_inj a b : chk_name a = chk_name b -> a = b.
Proof. destruct a, b; cbn; intros H; try reflexivity; try discriminate H. injection H as ->. reflexivity. Qed.

(* `<[T] as PartialEq>::eq` literally: the length test, then the zip *)
Lemma list_eqb_spec {A} (f : A -> A -> bool) l1 l2 :
  list_eqb f l1 l2 = (length l1 =? length l2)%nat && forallb (fun p => f (fst p) (snd p)) (combine l1 l2).
Proof.
  revert l2; induction l1 as [|x l1 IH]; intros [|y l2]; cbn [list_eqb length combine forallb fst snd Nat.eqb andb];
    try reflexivity.
  rewrite IH. destruct (f x y), (length l1 =? length l2)%nat; reflexivity.
Qed.

(* ------------------------------------------------------------------ equal => same rendering, same hash *)
Lemma list_eqb_map {A B} (f : A -> A -> bool) (g : A -> B) l1 :
  Forall (fun x => forall y, f x y = true -> g x = g y) l1 ->
  forall l2, list_eqb f l1 l2 = true -> map g l1 = map g l2.
Proof.
  induction 1 as [|x l1 Hx _ IH]; intros [|y l2] H; cbn [list_eqb] in H; try discriminate H; [reflexivity|].
  apply andb_true_iff in H as [Hxy Hr]. cbn [map]. rewrite (Hx y Hxy), (IH l2 Hr). reflexivity.
Qed.

(* what the three functions do on one element of a sequence / repetition *)
Definition item_eqb (i : list byte) (a b : list tnode * tnode) : bool :=
  list_eqb (eq_m i) (fst a) (fst b) && eq_m i (snd a) (snd b).

Definition ditem (i : list byte) (it : list tnode * tnode) : list dtoken :=
  match fst it with
  | [] => debug_m i (snd it)
  | _ :: _ => dstruct DnSkipped [(DnSkippedField, dlist (map (debug_m i) (fst it))); (DnMatched, debug_m i (snd it))]
  end.

Definition hitem (i : list byte) (it : list tnode * tnode) : list hword :=
  HUsize (length (fst it)) :: flat_map (hash_m i) (fst it) ++ hash_m i (snd it).

Lemma eq_m_seq i it1 it2 : eq_m i (NSeq it1) (NSeq it2) = list_eqb (item_eqb i) it1 it2.
Proof. reflexivity. Qed.
Lemma eq_m_rep i b1 b2 it1 it2 :
  eq_m i (NRep b1 it1) (NRep b2 it2) = Bool.eqb b1 b2 && list_eqb (item_eqb i) it1 it2.
Proof. reflexivity. Qed.
Lemma debug_m_seq i items : debug_m i (NSeq items) = dtuple (DnSeq (length items)) (map (ditem i) items).
Proof. reflexivity. Qed.
Lemma debug_m_rep i b items :
  debug_m i (NRep b items) =
  dstruct (if b then DnRepeatMinMax else DnRepeatMin) [(DnContent, dlist (map (ditem i) items))].
Proof. reflexivity. Qed.
Lemma hash_m_seq i items : hash_m i (NSeq items) = flat_map (hitem i) items.
Proof. reflexivity. Qed.
Lemma hash_m_rep i b items : hash_m i (NRep b items) = HUsize (length items) :: flat_map (hitem i) items.
Proof. reflexivity. Qed.

Definition fwd (i : list byte) (t1 : tnode) : Prop :=
  forall t2, eq_m i t1 t2 = true -> debug_m i t1 = debug_m i t2 /\ hash_m i t1 = hash_m i t2.

Lemma fwd_list i l1 :
  Forall (fwd i) l1 -> forall l2, list_eqb (eq_m i) l1 l2 = true ->
  map (debug_m i) l1 = map (debug_m i) l2 /\ map (hash_m i) l1 = map (hash_m i) l2.
Proof.
  intros HF l2 H. split.
  - apply (list_eqb_map (eq_m i) (debug_m i) l1); [|exact H].
    eapply Forall_impl; [|exact HF]. intros x Hx y Hxy. apply (Hx y Hxy).
  - apply (list_eqb_map (eq_m i) (hash_m i) l1); [|exact H].
    eapply Forall_impl; [|exact HF]. intros x Hx y Hxy. apply (Hx y Hxy).
Qed.

Lemma map_eq_length {A B} (g : A -> B) l1 l2 : map g l1 = map g l2 -> length l1 = length l2.
Proof. intros H. rewrite <- (map_length g l1), <- (map_length g l2), H. reflexivity. Qed.

Lemma fwd_item i a :
  Pitem (fwd i) a -> forall b, item_eqb i a b = true -> ditem i a = ditem i b /\ hitem i a = hitem i b.
Proof.
  intros [Hsk Hm] b H. unfold item_eqb in H. apply andb_true_iff in H as [H1 H2].
  destruct (fwd_list i _ Hsk _ H1) as [Hd Hh]. destruct (Hm _ H2) as [Hmd Hmh].
  pose proof (map_eq_length _ _ _ Hd) as Hlen.
  split.
  - unfold ditem. rewrite Hd, Hmd.
    destruct (fst a) as [|x xs], (fst b) as [|y ys]; cbn [length] in Hlen; try discriminate Hlen; reflexivity.
  - unfold hitem. rewrite !flat_map_concat_map, Hh, Hmh, Hlen. reflexivity.
Qed.

Lemma fwd_items i it1 :
  Forall (Pitem (fwd i)) it1 -> forall it2, list_eqb (item_eqb i) it1 it2 = true ->
  map (ditem i) it1 = map (ditem i) it2 /\ map (hitem i) it1 = map (hitem i) it2.
Proof.
  intros HF it2 H. split.
  - apply (list_eqb_map (item_eqb i) (ditem i) it1); [|exact H].
    eapply Forall_impl; [|exact HF]. intros x Hx y Hxy. apply (fwd_item i x Hx y Hxy).
  - apply (list_eqb_map (item_eqb i) (hitem i) it1); [|exact H].
    eapply Forall_impl; [|exact HF]. intros x Hx y Hxy. apply (fwd_item i x Hx y Hxy).
Qed.

Lemma fwd_all i t1 : fwd i t1.
Proof.
  induction t1 as [ | s e | k c | | | k | k s e | items IH | n k u IH | o IH | b items IH | l IH | u IH | | u IH | | b | l IH | a b IHa IHb | | r c sp IH ] using tnode_nested_ind;
    intros t2 H;
    destruct t2 as [ | s' e' | k' c' | | | k' | k' s' e' | items' | n' k' u' | o' | b' items' | l' | u' | | u' | | b' | l' | a' b' | | r' c' sp' ];
    try (cbn [eq_m] in H; discriminate H).
  - (* NStr *) split; reflexivity.
  - (* NInsens *) cbn [eq_m] in H. apply bytes_eqb_iff in H. cbn [debug_m hash_m]. rewrite H. split; reflexivity.
  - (* NChar *) cbn [eq_m] in H. apply andb_true_iff in H as [Hk Hc]. apply chk_eqb_iff in Hk. apply N.eqb_eq in Hc.
    subst. split; reflexivity.
  - split; reflexivity.
  - split; reflexivity.
  - (* NNewline *) cbn [eq_m] in H. apply nlkind_eqb_iff in H. subst. split; reflexivity.
  - (* NSpanned *) cbn [eq_m] in H. apply andb_true_iff in H as [Hk Hs]. apply spk_eqb_iff in Hk.
    apply span_eqb_iff in Hs. injection Hs as -> ->. subst. split; reflexivity.
  - (* NSeq *) rewrite eq_m_seq in H. destruct (fwd_items i items IH _ H) as [Hd Hh].
    rewrite !debug_m_seq, !hash_m_seq, !flat_map_concat_map, Hd, Hh, (map_eq_length _ _ _ Hd). split; reflexivity.
  - (* NChoice *) cbn [eq_m] in H. apply andb_true_iff in H as [Hn Hu]. apply andb_true_iff in Hn as [Hn Hk].
    apply Nat.eqb_eq in Hn, Hk. subst. destruct (IH _ Hu) as [Hd Hh]. cbn [debug_m hash_m]. rewrite Hd, Hh.
    split; reflexivity.
  - (* NOpt *) cbn [eq_m] in H. destruct o as [u|], o' as [u'|]; cbn [opt_eqb] in H; try discriminate H.
    + destruct (IH _ H) as [Hd Hh]. cbn [debug_m hash_m]. rewrite Hd, Hh. split; reflexivity.
    + split; reflexivity.
  - (* NRep *) rewrite eq_m_rep in H. apply andb_true_iff in H as [Hb H]. apply eqb_prop in Hb. subst.
    destruct (fwd_items i items IH _ H) as [Hd Hh].
    rewrite !debug_m_rep, !hash_m_rep, !flat_map_concat_map, Hd, Hh, (map_eq_length _ _ _ Hd). split; reflexivity.
  - (* NAtomicRep *) cbn [eq_m] in H. destruct (fwd_list i l IH _ H) as [Hd Hh].
    cbn [debug_m hash_m]. rewrite !flat_map_concat_map, Hd, Hh, (map_eq_length _ _ _ Hd). split; reflexivity.
  - (* NPos *) cbn [eq_m] in H. destruct (IH _ H) as [Hd Hh]. cbn [debug_m hash_m]. rewrite Hd, Hh. split; reflexivity.
  - split; reflexivity.
  - (* NPush *) cbn [eq_m] in H. destruct (IH _ H) as [Hd Hh]. cbn [debug_m hash_m]. rewrite Hd, Hh. split; reflexivity.
  - split; reflexivity.
  - (* NSlice *) cbn [eq_m] in H. apply eqb_prop in H. subst. split; reflexivity.
  - (* NArr *) cbn [eq_m] in H. destruct (fwd_list i l IH _ H) as [Hd Hh].
    cbn [debug_m hash_m]. rewrite !flat_map_concat_map, Hd, Hh, (map_eq_length _ _ _ Hd). split; reflexivity.
  - (* NPair *) cbn [eq_m] in H. apply andb_true_iff in H as [Ha Hb].
    destruct (IHa _ Ha) as [Hd1 Hh1], (IHb _ Hb) as [Hd2 Hh2].
    cbn [debug_m hash_m]. rewrite Hd1, Hh1, Hd2, Hh2. split; reflexivity.
  - split; reflexivity.
  - (* NRule *) cbn [eq_m] in H. apply andb_true_iff in H as [Hrc Hsp]. apply andb_true_iff in Hrc as [Hr Hc].
    apply N.eqb_eq in Hr. subst.
    assert (Hsp' : sp = sp').
    { destruct sp as [p|], sp' as [p'|]; cbn [opt_eqb] in Hsp; try discriminate Hsp; [|reflexivity].
      apply span_eqb_iff in Hsp. subst. reflexivity. }
    subst sp'.
    destruct c as [u|], c' as [u'|]; cbn [opt_eqb] in Hc; try discriminate Hc.
    + destruct (IH _ Hc) as [Hd Hh]. cbn [debug_m hash_m]. rewrite Hd, Hh. split; reflexivity.
    + split; reflexivity.
Qed.

(* ------------------------------------------------------------------ the rendering is a prefix code *)

(* first token of the rendering of a node *)
Definition starts (tk : dtoken) : Prop :=
  match tk with
  | DName DnSkipped => False
  | DName _ | DOpenP | DOpenS => True
  | _ => False
  end.

Lemma debug_head i t : exists tk tl, debug_m i t = tk :: tl /\ starts tk.
Proof.
  destruct t; cbn [debug_m dstruct dtuple dlist]; try (eexists; eexists; split; [reflexivity | exact I]).
  - destruct k; eexists; eexists; (split; [reflexivity | exact I]).
  - destruct o; eexists; eexists; (split; [reflexivity | exact I]).
  - destruct bounded; eexists; eexists; (split; [reflexivity | exact I]).
  - destruct two; eexists; eexists; (split; [reflexivity | exact I]).
Qed.

Lemma ditem_head i it : exists tk tl, ditem i it = tk :: tl /\ tk <> DCloseS /\ tk <> DCloseP.
Proof.
  unfold ditem. destruct (fst it).
  - destruct (debug_head i (snd it)) as (tk & tl & -> & Hs). exists tk, tl. split; [reflexivity|].
    split; intros ->; exact Hs.
  - eexists; eexists; split; [reflexivity|]. split; discriminate.
Qed.

Lemma debug_head_ne i t c : ~ starts c -> exists tk tl, debug_m i t = tk :: tl /\ tk <> c.
Proof.
  intros Hc. destruct (debug_head i t) as (tk & tl & E & Hs). exists tk, tl. split; [exact E|].
  intros ->. exact (Hc Hs).
Qed.

(* renderings with their continuation, right-nested *)
Ltac norm_app := repeat (progress cbn [app map djoin fst snd] || rewrite <- app_assoc || rewrite app_nil_r).

Lemma dstruct_app n fs r :
  dstruct n fs ++ r = DName n :: DOpenB :: djoin (map (fun fv => DName (fst fv) :: DColon :: snd fv) fs) ++ DCloseB :: r.
Proof. unfold dstruct. norm_app. reflexivity. Qed.

Lemma dstruct1_app n f v r : dstruct n [(f, v)] ++ r = DName n :: DOpenB :: DName f :: DColon :: v ++ DCloseB :: r.
Proof. unfold dstruct. norm_app. reflexivity. Qed.

Lemma dstruct2_app n f1 v1 f2 v2 r :
  dstruct n [(f1, v1); (f2, v2)] ++ r =
  DName n :: DOpenB :: DName f1 :: DColon :: v1 ++ DComma :: DName f2 :: DColon :: v2 ++ DCloseB :: r.
Proof. unfold dstruct. norm_app. reflexivity. Qed.

Lemma dtuple_app n fs r : dtuple n fs ++ r = DName n :: DOpenP :: djoin fs ++ DCloseP :: r.
Proof. unfold dtuple. norm_app. reflexivity. Qed.

Lemma dlist_app items r : dlist items ++ r = DOpenS :: djoin items ++ DCloseS :: r.
Proof. unfold dlist. norm_app. reflexivity. Qed.

Lemma debug_span_decode i s1 e1 s2 e2 r1 r2 :
  debug_span i s1 e1 ++ r1 = debug_span i s2 e2 ++ r2 -> s1 = s2 /\ e1 = e2 /\ r1 = r2.
Proof.
  unfold debug_span, dstruct. cbn [map djoin fst snd app]. intros H. injection H as _ -> -> ->. auto.
Qed.

(* unique decoding of `a, b, c` followed by a closing token *)
Lemma djoin_decode {A} (f : A -> A -> bool) (g : A -> list dtoken) (c : dtoken) :
  c <> DComma ->
  (forall x, exists tk tl, g x = tk :: tl /\ tk <> c) ->
  forall l1,
    Forall (fun x => forall y r1 r2, g x ++ r1 = g y ++ r2 -> f x y = true /\ r1 = r2) l1 ->
    forall l2 r1 r2,
      djoin (map g l1) ++ c :: r1 = djoin (map g l2) ++ c :: r2 ->
      list_eqb f l1 l2 = true /\ r1 = r2.
Proof.
  intros Hc Hhead l1 HF. induction HF as [|x l1 Hx _ IH]; intros [|y l2] r1 r2 H.
  - cbn [map djoin app] in H. injection H as ->. split; reflexivity.
  - exfalso. cbn [map djoin app] in H. destruct (Hhead y) as (tk & tl & E & Hne). rewrite E in H.
    cbn [app] in H. injection H as H _. exact (Hne (eq_sym H)).
  - exfalso. cbn [map djoin app] in H. destruct (Hhead x) as (tk & tl & E & Hne). rewrite E in H.
    cbn [app] in H. injection H as H _. exact (Hne H).
  - cbn [map djoin] in H. rewrite <- !app_assoc in H. apply Hx in H as [Hxy H].
    cbn [list_eqb]. rewrite Hxy. cbn [andb].
    destruct l1 as [|x' l1], l2 as [|y' l2].
    + cbn [map app] in H. injection H as ->. split; reflexivity.
    + exfalso. cbn [map app] in H. injection H as H _. exact (Hc H).
    + exfalso. cbn [map app] in H. injection H as H _. exact (Hc (eq_sym H)).
    + change (map g (x' :: l1)) with (g x' :: map g l1) in H. change (map g (y' :: l2)) with (g y' :: map g l2) in H.
      cbn [app] in H. injection H as H. apply (IH (y' :: l2)). exact H.
Qed.

Definition dec (i : list byte) (t1 : tnode) : Prop :=
  forall t2 r1 r2, debug_m i t1 ++ r1 = debug_m i t2 ++ r2 -> eq_m i t1 t2 = true /\ r1 = r2.

Lemma dec_list i c l1 :
  c <> DComma -> ~ starts c -> Forall (dec i) l1 ->
  forall l2 r1 r2,
    djoin (map (debug_m i) l1) ++ c :: r1 = djoin (map (debug_m i) l2) ++ c :: r2 ->
    list_eqb (eq_m i) l1 l2 = true /\ r1 = r2.
Proof.
  intros Hc Hs HF. apply (djoin_decode (eq_m i) (debug_m i) c Hc); [|exact HF].
  intros x. apply debug_head_ne. exact Hs.
Qed.

Lemma ditem_nil i m : ditem i ([], m) = debug_m i m.
Proof. reflexivity. Qed.

Lemma ditem_cons_app i x sk m r :
  ditem i (x :: sk, m) ++ r =
  DName DnSkipped :: DOpenB :: DName DnSkippedField :: DColon :: DOpenS ::
    djoin (map (debug_m i) (x :: sk)) ++ DCloseS :: DComma :: DName DnMatched :: DColon :: debug_m i m ++ DCloseB :: r.
Proof. unfold ditem. cbn [fst snd]. rewrite dstruct2_app, dlist_app. reflexivity. Qed.

Lemma dec_item i a : Pitem (dec i) a ->
  forall b r1 r2, ditem i a ++ r1 = ditem i b ++ r2 -> item_eqb i a b = true /\ r1 = r2.
Proof.
  intros [Hsk Hm] b r1 r2 H. destruct a as [ska ma], b as [skb mb]. unfold item_eqb.
  cbn [fst snd] in *. destruct ska as [|x ska], skb as [|y skb].
  - rewrite !ditem_nil in H. apply Hm in H as [H ->]. cbn [list_eqb andb]. split; [exact H | reflexivity].
  - exfalso. rewrite ditem_nil, ditem_cons_app in H. destruct (debug_head i ma) as (tk & tl & E & Hs). rewrite E in H.
    cbn [app] in H. injection H as H _. subst tk. exact Hs.
  - exfalso. rewrite ditem_nil, ditem_cons_app in H. destruct (debug_head i mb) as (tk & tl & E & Hs). rewrite E in H.
    cbn [app] in H. injection H as H _. subst tk. exact Hs.
  - rewrite !ditem_cons_app in H. injection H as H.
    assert (Hc : DCloseS <> DComma) by discriminate.
    destruct (dec_list i DCloseS (x :: ska) Hc (fun F => F) Hsk (y :: skb) _ _ H) as [Hl H'].
    clear H. rename H' into H. injection H as H. apply Hm in H as [Hmm H]. injection H as ->.
    rewrite Hl, Hmm. split; reflexivity.
Qed.

Lemma dec_items i c it1 :
  c = DCloseS \/ c = DCloseP -> Forall (Pitem (dec i)) it1 ->
  forall it2 r1 r2,
    djoin (map (ditem i) it1) ++ c :: r1 = djoin (map (ditem i) it2) ++ c :: r2 ->
    list_eqb (item_eqb i) it1 it2 = true /\ r1 = r2.
Proof.
  intros Hc HF. apply (djoin_decode (item_eqb i) (ditem i) c).
  - destruct Hc as [-> | ->]; discriminate.
  - intros x. destruct (ditem_head i x) as (tk & tl & E & H1 & H2). exists tk, tl. split; [exact E|].
    destruct Hc as [-> | ->]; assumption.
  - eapply Forall_impl; [|exact HF]. intros a Ha. apply dec_item. exact Ha.
Qed.

Lemma dpair_app da db r :
  (DOpenP :: djoin [da; db] ++ [DCloseP]) ++ r = DOpenP :: da ++ DComma :: db ++ DCloseP :: r.
Proof. norm_app. reflexivity. Qed.

Ltac kill H :=
  try (cbn [debug_m dstruct dtuple dlist app chk_name] in H; discriminate H).

Lemma dec_all i t1 : dec i t1.
Proof.
  induction t1 as [ | s e | ck c | | | nk | sk s e | items IH | n v u IH | o IH | bd items IH | l IH | u IH | | u IH | | two | l IH | pa pb IHa IHb | | r c sp IH ] using tnode_nested_ind;
    intros t2 r1 r2 H;
    try (destruct ck as [| |p]); try (destruct o as [u|]); try (destruct bd); try (destruct two);
    destruct t2 as [ | s' e' | ck' c' | | | nk' | sk' s' e' | items' | n' v' u' | o' | bd' items' | l' | u' | | u' | | two' | l' | pa' pb' | | r' c' sp' ];
    try (destruct ck' as [| |p']); try (destruct o' as [u'|]); try (destruct bd'); try (destruct two');
    kill H.
  - (* NStr *) cbn [debug_m app] in H. injection H as ->. split; reflexivity.
  - (* NInsens *) cbn [debug_m] in H. rewrite !dstruct1_app in H. cbn [app] in H. injection H as Ht ->.
    cbn [eq_m]. rewrite Ht. split; [apply bytes_eqb_iff; reflexivity | reflexivity].
  - (* NChar range *) cbn [debug_m chk_name] in H. rewrite !dstruct1_app in H. cbn [app] in H. injection H as -> ->.
    cbn [eq_m chk_eqb andb]. rewrite N.eqb_refl. split; reflexivity.
  - (* NChar any *) cbn [debug_m chk_name] in H. rewrite !dstruct1_app in H. cbn [app] in H. injection H as -> ->.
    cbn [eq_m chk_eqb andb]. rewrite N.eqb_refl. split; reflexivity.
  - (* NChar prop *) cbn [debug_m chk_name] in H. rewrite !dstruct1_app in H. cbn [app] in H. injection H as -> -> ->.
    cbn [eq_m chk_eqb]. rewrite !N.eqb_refl. split; reflexivity.
  - (* NSoi *) cbn [debug_m app] in H. injection H as ->. split; reflexivity.
  - (* NEoi *) cbn [debug_m app] in H. injection H as ->. split; reflexivity.
  - (* NNewline *) cbn [debug_m] in H. rewrite !dstruct1_app in H. cbn [app] in H. injection H as -> ->.
    cbn [eq_m]. split; [apply nlkind_eqb_iff; reflexivity | reflexivity].
  - (* NSpanned *) cbn [debug_m] in H. rewrite !dstruct1_app in H. injection H as -> _ -> -> ->.
    cbn [eq_m]. split; [|reflexivity]. apply andb_true_iff. split; [apply spk_eqb_iff | apply span_eqb_iff]; reflexivity.
  - (* NSeq *) rewrite !debug_m_seq, !dtuple_app in H. injection H as _ H.
    destruct (dec_items i DCloseP items (or_intror eq_refl) IH items' _ _ H) as [Hl ->].
    rewrite eq_m_seq. split; [exact Hl | reflexivity].
  - (* NChoice *) cbn [debug_m] in H. rewrite !dstruct1_app in H. injection H as -> -> H.
    apply IH in H as [Hu H]. injection H as ->. cbn [eq_m]. rewrite !Nat.eqb_refl, Hu. split; reflexivity.
  - (* NOpt Some *) cbn [Popt] in IH. cbn [debug_m] in H. rewrite !dtuple_app in H. cbn [djoin] in H.
    rewrite !app_nil_r in H. injection H as H. apply IH in H as [Hu H]. injection H as ->.
    cbn [eq_m opt_eqb]. split; [exact Hu | reflexivity].
  - (* NOpt None *) cbn [debug_m app] in H. injection H as ->. split; reflexivity.
  - (* NRep true *) rewrite !debug_m_rep, !dstruct1_app, !dlist_app in H. injection H as H.
    destruct (dec_items i DCloseS items (or_introl eq_refl) IH items' _ _ H) as [Hl H']. injection H' as ->.
    rewrite eq_m_rep. cbn [Bool.eqb andb]. split; [exact Hl | reflexivity].
  - (* NRep false *) rewrite !debug_m_rep, !dstruct1_app, !dlist_app in H. injection H as H.
    destruct (dec_items i DCloseS items (or_introl eq_refl) IH items' _ _ H) as [Hl H']. injection H' as ->.
    rewrite eq_m_rep. cbn [Bool.eqb andb]. split; [exact Hl | reflexivity].
  - (* NAtomicRep *) cbn [debug_m] in H. rewrite !dstruct1_app, !dlist_app in H. injection H as H.
    assert (Hc : DCloseS <> DComma) by discriminate.
    destruct (dec_list i DCloseS l Hc (fun F => F) IH l' _ _ H) as [Hl H']. injection H' as ->.
    cbn [eq_m]. split; [exact Hl | reflexivity].
  - (* NPos *) cbn [debug_m] in H. rewrite !dstruct1_app in H. injection H as H.
    apply IH in H as [Hu H]. injection H as ->. cbn [eq_m]. split; [exact Hu | reflexivity].
  - (* NNeg *) cbn [debug_m app] in H. injection H as ->. split; reflexivity.
  - (* NPush *) cbn [debug_m] in H. rewrite !dstruct1_app in H. injection H as H.
    apply IH in H as [Hu H]. injection H as ->. cbn [eq_m]. split; [exact Hu | reflexivity].
  - (* NDrop *) cbn [debug_m app] in H. injection H as ->. split; reflexivity.
  - (* NSlice true *) cbn [debug_m app] in H. injection H as ->. split; reflexivity.
  - (* NSlice false *) cbn [debug_m app] in H. injection H as ->. split; reflexivity.
  - (* NArr *) cbn [debug_m] in H. rewrite !dlist_app in H. injection H as H.
    assert (Hc : DCloseS <> DComma) by discriminate.
    destruct (dec_list i DCloseS l Hc (fun F => F) IH l' _ _ H) as [Hl ->].
    cbn [eq_m]. split; [exact Hl | reflexivity].
  - (* NPair *) cbn [debug_m] in H. rewrite !dpair_app in H. injection H as H.
    apply IHa in H as [Ha H]. injection H as H. apply IHb in H as [Hb H]. injection H as ->.
    cbn [eq_m]. rewrite Ha, Hb. split; reflexivity.
  - (* NEmpty *) cbn [debug_m app] in H. injection H as ->. split; reflexivity.
  - (* NRule *)
    destruct c as [u|], sp as [[s e]|], c' as [u'|], sp' as [[s' e']|]; cbn [Popt] in IH;
      cbn [debug_m app] in H; rewrite ?dstruct2_app, ?dstruct1_app, ?dstruct_app in H;
      cbn [map djoin app] in H; try discriminate H.
    all: try (injection H as -> H; apply IH in H as [Hu H]; try discriminate H).
    + injection H as _ -> -> ->. cbn [eq_m opt_eqb]. rewrite N.eqb_refl, Hu. cbn [andb].
      split; [apply span_eqb_iff; reflexivity | reflexivity].
    + injection H as ->. cbn [eq_m opt_eqb]. rewrite N.eqb_refl, Hu. split; reflexivity.
    + injection H as -> _ -> -> ->. cbn [eq_m opt_eqb]. rewrite N.eqb_refl. cbn [andb].
      split; [apply span_eqb_iff; reflexivity | reflexivity].
    + injection H as -> ->. cbn [eq_m opt_eqb]. rewrite N.eqb_refl. split; reflexivity.
Qed.

(* ------------------------------------------------------------------ the statements of C18 *)
Theorem eq_debug_iff i t1 t2 : eq_m i t1 t2 = true <-> debug_m i t1 = debug_m i t2.
Proof.
  split.
  - intros H. apply (fwd_all i t1 t2 H).
  - intros H. destruct (dec_all i t1 t2 [] []) as [He _]; [|exact He].
    rewrite !app_nil_r. exact H.
Qed.

Theorem eq_hash i t1 t2 : eq_m i t1 t2 = true -> hash_m i t1 = hash_m i t2.
Proof. intros H. apply (fwd_all i t1 t2 H). Qed.

(* `clone()` is a structural copy: on the model it is the identity, so "a clone equals its original and
   hashes equally" is reflexivity (the hash half is [f_equal]) *)
Theorem eq_refl_m i t : eq_m i t t = true.
Proof. apply eq_debug_iff. reflexivity. Qed.

Theorem eq_sym_m i t1 t2 : eq_m i t1 t2 = eq_m i t2 t1.
Proof.
  destruct (eq_m i t1 t2) eqn:E1, (eq_m i t2 t1) eqn:E2; try reflexivity.
  - apply eq_debug_iff in E1. symmetry in E1. apply eq_debug_iff in E1. congruence.
  - apply eq_debug_iff in E2. symmetry in E2. apply eq_debug_iff in E2. congruence.
Qed.

Theorem eq_trans_m i t1 t2 t3 : eq_m i t1 t2 = true -> eq_m i t2 t3 = true -> eq_m i t1 t3 = true.
Proof.
  intros H1 H2. apply eq_debug_iff in H1, H2. apply eq_debug_iff. congruence.
Qed.

(* `!=` : two values differ iff their renderings differ *)
Theorem ne_debug_iff i t1 t2 : eq_m i t1 t2 = false <-> debug_m i t1 <> debug_m i t2.
Proof.
  split.
  - intros H E. apply eq_debug_iff in E. congruence.
  - intros H. destruct (eq_m i t1 t2) eqn:E; [|reflexivity]. apply eq_debug_iff in E. contradiction.
Qed.

(* the statements instantiated at parse results: two successful parses of one expression on (sub-)inputs of
   one input object -- whatever the sub-ranges, start states and fuel *)
From PT Require Import Model.Stack Model.Sem.

Theorem parse_results_eq (E1 E2 : env) fuel1 fuel2 inh1 inh2 e pos1 pos2 st1 st2 p1 p2 t1 t2 s1 s2 :
  parent (e_inp E1) = parent (e_inp E2) ->
  tparse E1 fuel1 inh1 e pos1 st1 = Ok (p1, t1) s1 ->
  tparse E2 fuel2 inh2 e pos2 st2 = Ok (p2, t2) s2 ->
  (eq_m (parent (e_inp E1)) t1 t2 = true <-> debug_m (parent (e_inp E1)) t1 = debug_m (parent (e_inp E1)) t2) /\
  (eq_m (parent (e_inp E1)) t1 t2 = true -> hash_m (parent (e_inp E1)) t1 = hash_m (parent (e_inp E1)) t2).
Proof. intros _ _ _. split; [apply eq_debug_iff | apply eq_hash]. Qed.
