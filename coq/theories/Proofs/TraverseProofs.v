(* Proofs about Model/Traverse.v (C15, traversal half): for EVERY token tree
   - the stack-of-queues loop of iterate_pre_order calls f exactly on `preorder t 0` (fuel 2*size+2
     suffices, 2*size+1 does not),
   - the two-queue loop of iterate_level_order calls f exactly on the levels of the tree, left to
     right, with the number of tokens still queued on the level,
   - both visit every token exactly once (permutation of all_tokens, length = size),
   - levels are the depth classes of the pre-order,
   - format_as_tree is one line per pre-order entry, 4 spaces per depth, text iff leaf,
   - to_thin keeps rule / start / end / shape. *)
From Coq Require Import List NArith Arith Lia Permutation.
From PT Require Import Model.Tok Model.Traverse.
Import ListNotations.

(* ------------------------------------------------------------------ nested induction on tok *)
Section TokInd.
  Variable P : tok -> Prop.
  Hypothesis Hstep : forall r s e cs, Forall P cs -> P (Tok r s e cs).

  Fixpoint tok_nested_ind (t : tok) : P t :=
    match t with
    | Tok r s e cs =>
        Hstep r s e cs
          ((fix go (l : list tok) : Forall P l :=
              match l with
              | [] => Forall_nil P
              | c :: l' => Forall_cons c (tok_nested_ind c) (go l')
              end) cs)
    end.
End TokInd.

(* ------------------------------------------------------------------ option-of-list helpers *)
Definition oapp {A : Type} (l : list A) (o : option (list A)) : option (list A) :=
  match o with
  | Some l' => Some (l ++ l')
  | None => None
  end.

Lemma oapp_nil {A : Type} (o : option (list A)) : oapp [] o = o.
Proof. destruct o; reflexivity. Qed.

Lemma ocons_oapp {A : Type} (x : A) l (o : option (list A)) : ocons x (oapp l o) = oapp (x :: l) o.
Proof. destruct o; reflexivity. Qed.

Lemma oapp_app {A : Type} (l1 l2 : list A) o : oapp l1 (oapp l2 o) = oapp (l1 ++ l2) o.
Proof. destruct o; cbn [oapp]; [rewrite app_assoc|]; reflexivity. Qed.

Lemma as_token_id t : as_token t = t.
Proof. destruct t; reflexivity. Qed.

Lemma children_of_spec r s e cs : children_of (Tok r s e cs) = cs.
Proof. reflexivity. Qed.

(* ------------------------------------------------------------------ sizes and heights *)
Lemma fsize_nil : fsize [] = 0.
Proof. reflexivity. Qed.

Lemma fsize_cons t f : fsize (t :: f) = size t + fsize f.
Proof. reflexivity. Qed.

Lemma fsize_app f g : fsize (f ++ g) = fsize f + fsize g.
Proof. unfold fsize. rewrite map_app, list_sum_app. reflexivity. Qed.

Lemma size_Tok r s e cs : size (Tok r s e cs) = S (fsize cs).
Proof. reflexivity. Qed.

Lemma height_Tok r s e cs : height (Tok r s e cs) = S (fheight cs).
Proof. reflexivity. Qed.

Lemma fheight_cons t f : fheight (t :: f) = Nat.max (height t) (fheight f).
Proof. reflexivity. Qed.

Lemma fheight_app f g : fheight (f ++ g) = Nat.max (fheight f) (fheight g).
Proof. unfold fheight. rewrite map_app, list_max_app. reflexivity. Qed.

Lemma height_pos t : 1 <= height t.
Proof. destruct t. rewrite height_Tok. lia. Qed.

Lemma size_pos t : 1 <= size t.
Proof. destruct t. rewrite size_Tok. lia. Qed.

Lemma fheight_0 f : fheight f = 0 -> f = [].
Proof.
  destruct f as [|t f]; [reflexivity|].
  rewrite fheight_cons. pose proof (height_pos t). lia.
Qed.

Lemma fsize_children f : fsize f = length f + fsize (flat_map tok_children f).
Proof.
  induction f as [|t f IH]; [reflexivity|].
  destruct t as [r s e cs].
  cbn [flat_map tok_children length]. rewrite fsize_cons, fsize_app, size_Tok. lia.
Qed.

Lemma fheight_children f : fheight (flat_map tok_children f) = pred (fheight f).
Proof.
  induction f as [|t f IH]; [reflexivity|].
  destruct t as [r s e cs].
  cbn [flat_map tok_children]. rewrite fheight_cons, fheight_app, height_Tok, IH. lia.
Qed.

Lemma fheight_le_fsize f : Forall (fun t => height t <= size t) f -> fheight f <= fsize f.
Proof.
  induction 1 as [|t f Ht _ IH]; [apply Nat.le_refl|].
  rewrite fheight_cons, fsize_cons. lia.
Qed.

Lemma height_le_size t : height t <= size t.
Proof.
  induction t as [r s e cs IH] using tok_nested_ind.
  rewrite height_Tok, size_Tok. apply fheight_le_fsize in IH. lia.
Qed.

(* ------------------------------------------------------------------ pre-order *)
Definition pre_tok_ok (t : tok) : Prop :=
  forall q rest fuel,
    pre_order_loop (2 * size t + fuel) ((t :: q) :: rest) =
    oapp (preorder t (length rest)) (pre_order_loop fuel (q :: rest)).

Definition pre_forest_ok (f : list tok) : Prop :=
  forall rest fuel,
    pre_order_loop (2 * fsize f + 1 + fuel) (f :: rest) =
    oapp (flat_map (fun c => preorder c (length rest)) f) (pre_order_loop fuel rest).

Lemma pre_forest_of_toks f : Forall pre_tok_ok f -> pre_forest_ok f.
Proof.
  induction 1 as [|t f Ht _ IH]; intros rest fuel.
  - rewrite fsize_nil.
    replace (2 * 0 + 1 + fuel) with (S fuel) by lia.
    cbn [pre_order_loop flat_map]. rewrite oapp_nil. reflexivity.
  - rewrite fsize_cons.
    replace (2 * (size t + fsize f) + 1 + fuel) with (2 * size t + (2 * fsize f + 1 + fuel)) by lia.
    rewrite (Ht f rest), (IH rest fuel), oapp_app. reflexivity.
Qed.

Lemma pre_tok_all t : pre_tok_ok t.
Proof.
  induction t as [r s e cs IH] using tok_nested_ind.
  intros q rest fuel.
  rewrite size_Tok.
  replace (2 * S (fsize cs) + fuel) with (S (2 * fsize cs + 1 + fuel)) by lia.
  cbn [pre_order_loop tok_children].
  replace (length ((Tok r s e cs :: q) :: rest) - 1) with (length rest) by (cbn [length]; lia).
  rewrite (pre_forest_of_toks cs IH (q :: rest) fuel).
  cbn [length preorder]. rewrite ocons_oapp. reflexivity.
Qed.

Lemma pre_forest_all f : pre_forest_ok f.
Proof. apply pre_forest_of_toks, Forall_forall. intros t _. apply pre_tok_all. Qed.

(* with at least 2*size+2 units of fuel the loop ends (never None) and f is called on preorder t 0 *)
Theorem pre_order_correct t fuel :
  fuel_for t <= fuel -> pre_order fuel t = Some (preorder t 0).
Proof.
  unfold pre_order, fuel_for. intros Hf. rewrite as_token_id.
  replace fuel with (2 * size t + (2 + (fuel - 2 * size t - 2))) by lia.
  rewrite (pre_tok_all t [] []).
  cbn [length pre_order_loop Nat.add oapp]. rewrite app_nil_r. reflexivity.
Qed.

(* the bound is exact: the loop makes exactly 2*size+2 iterations *)
Theorem pre_order_fuel_tight t : pre_order (fuel_for t - 1) t = None.
Proof.
  unfold pre_order, fuel_for. rewrite as_token_id.
  replace (2 * size t + 2 - 1) with (2 * size t + 1) by lia.
  rewrite (pre_tok_all t [] []). reflexivity.
Qed.

(* ------------------------------------------------------------------ pre-order spec: every token once *)
Lemma preorder_fst_forest d f :
  Forall (fun t => forall d, map fst (preorder t d) = all_tokens t) f ->
  map fst (flat_map (fun c => preorder c d) f) = flat_map all_tokens f.
Proof.
  induction 1 as [|t f Ht _ IH]; [reflexivity|].
  cbn [flat_map]. rewrite map_app, Ht, IH. reflexivity.
Qed.

Lemma preorder_fst t : forall d, map fst (preorder t d) = all_tokens t.
Proof.
  induction t as [r s e cs IH] using tok_nested_ind. intros d.
  cbn [preorder all_tokens map fst]. f_equal. apply preorder_fst_forest, IH.
Qed.

Lemma all_tokens_length_forest f :
  Forall (fun t => length (all_tokens t) = size t) f ->
  length (flat_map all_tokens f) = fsize f.
Proof.
  induction 1 as [|t f Ht _ IH]; [reflexivity|].
  cbn [flat_map]. rewrite app_length, Ht, IH, fsize_cons. reflexivity.
Qed.

Lemma all_tokens_length t : length (all_tokens t) = size t.
Proof.
  induction t as [r s e cs IH] using tok_nested_ind.
  cbn [all_tokens length]. rewrite size_Tok. f_equal. apply all_tokens_length_forest, IH.
Qed.

Lemma preorder_length t d : length (preorder t d) = size t.
Proof. rewrite <- (map_length fst), preorder_fst. apply all_tokens_length. Qed.

(* depths: the root has the start depth, everything below is deeper *)
Lemma preorder_depth_ge t : forall d p, In p (preorder t d) -> d <= snd p.
Proof.
  induction t as [r s e cs IH] using tok_nested_ind. intros d p Hin.
  cbn [preorder] in Hin. destruct Hin as [<-|Hin]; [apply Nat.le_refl|].
  apply in_flat_map in Hin. destruct Hin as (c & Hc & Hp).
  rewrite Forall_forall in IH. specialize (IH c Hc (S d) p Hp). lia.
Qed.

(* ------------------------------------------------------------------ level order *)
Lemma level_drain q : forall next fuel,
  level_order_loop (length q + fuel) q next =
  oapp (with_remaining q) (level_order_loop fuel [] (next ++ flat_map tok_children q)).
Proof.
  induction q as [|p q IH]; intros next fuel.
  - cbn [length with_remaining flat_map Nat.add]. rewrite app_nil_r, oapp_nil. reflexivity.
  - cbn [length Nat.add level_order_loop]. rewrite IH.
    cbn [flat_map with_remaining]. rewrite <- app_assoc, ocons_oapp. reflexivity.
Qed.

Lemma flevel_at_0 f : flevel_at 0 f = f.
Proof.
  unfold flevel_at. induction f as [|t f IH]; [reflexivity|].
  cbn [flat_map]. rewrite IH. reflexivity.
Qed.

Lemma flevel_at_S k f : flevel_at (S k) f = flevel_at k (flat_map tok_children f).
Proof.
  unfold flevel_at. induction f as [|t f IH]; [reflexivity|].
  cbn [flat_map]. rewrite flat_map_app, IH. reflexivity.
Qed.

Definition level_spec_f (f : list tok) (h : nat) : list (tok * nat) :=
  concat (map (fun k => with_remaining (flevel_at k f)) (seq 0 h)).

Lemma level_spec_f_S f h :
  level_spec_f f (S h) = with_remaining f ++ level_spec_f (flat_map tok_children f) h.
Proof.
  unfold level_spec_f. cbn [seq map concat]. rewrite flevel_at_0. f_equal.
  rewrite <- seq_shift, map_map. f_equal.
  apply map_ext. intros k. rewrite flevel_at_S. reflexivity.
Qed.

Lemma level_loop_forest h : forall f fuel,
  fheight f = h -> fsize f + h + 1 <= fuel ->
  level_order_loop fuel f [] = Some (level_spec_f f h).
Proof.
  induction h as [|h IH]; intros f fuel Hh Hfuel.
  - apply fheight_0 in Hh. subst f.
    destruct fuel as [|fuel]; [lia|]. reflexivity.
  - pose proof (fsize_children f) as Hsz.
    pose proof (fheight_children f) as Hhc. rewrite Hh in Hhc. cbn [pred] in Hhc.
    replace fuel with (length f + (fuel - length f)) by lia.
    rewrite level_drain, level_spec_f_S. cbn [app].
    remember (flat_map tok_children f) as f' eqn:Hf'.
    destruct (fuel - length f) as [|fuel'] eqn:Hfl; [lia|].
    destruct f' as [|x f''].
    + cbn [level_order_loop oapp].
      cbn in Hhc. subst h. reflexivity.
    + cbn [level_order_loop].
      rewrite (IH (x :: f'') fuel' Hhc) by lia.
      reflexivity.
Qed.

Lemma with_remaining_fst l : map fst (with_remaining l) = l.
Proof. induction l as [|p l IH]; [reflexivity|]. cbn [with_remaining map fst]. rewrite IH. reflexivity. Qed.

Lemma with_remaining_snd l : map snd (with_remaining l) = rev (seq 0 (length l)).
Proof.
  induction l as [|p l IH]; [reflexivity|].
  cbn [with_remaining map snd length]. rewrite IH, seq_S. cbn [Nat.add].
  rewrite rev_app_distr. reflexivity.
Qed.

Lemma level_spec_root t :
  level_spec_f [t] (height t) = concat (map with_remaining (levels t)).
Proof.
  unfold level_spec_f, levels. rewrite map_map. f_equal. apply map_ext. intros k.
  unfold flevel_at. cbn [flat_map]. rewrite app_nil_r. reflexivity.
Qed.

(* with at least size+height+1 (<= 2*size+2) units of fuel the loop ends and f is called on the levels
   of the tree, one after the other, each token with the number of tokens that follow it on its level *)
Theorem level_order_correct_tight t fuel :
  size t + height t + 1 <= fuel ->
  level_order fuel t = Some (concat (map with_remaining (levels t))).
Proof.
  intros Hf. unfold level_order. rewrite as_token_id.
  rewrite (level_loop_forest (height t) [t] fuel).
  - rewrite level_spec_root. reflexivity.
  - rewrite fheight_cons. cbn. lia.
  - rewrite fsize_cons, fsize_nil. lia.
Qed.

Theorem level_order_correct t fuel :
  fuel_for t <= fuel ->
  level_order fuel t = Some (concat (map with_remaining (levels t))).
Proof.
  intros Hf. apply level_order_correct_tight.
  pose proof (height_le_size t). unfold fuel_for in Hf. lia.
Qed.

Lemma level_order_tokens t :
  map fst (concat (map with_remaining (levels t))) = concat (levels t).
Proof.
  rewrite concat_map, map_map. f_equal.
  rewrite <- (map_id (levels t)) at 2. apply map_ext. intros l. apply with_remaining_fst.
Qed.

(* ------------------------------------------------------------------ levels: every token once *)
Lemma all_tokens_forest_split f :
  Permutation (flat_map all_tokens f) (f ++ flat_map all_tokens (flat_map tok_children f)).
Proof.
  induction f as [|t f IH]; [constructor|].
  destruct t as [r s e cs].
  cbn [flat_map all_tokens tok_children app]. constructor.
  rewrite flat_map_app.
  rewrite IH.
  rewrite !app_assoc. apply Permutation_app_tail. apply Permutation_app_comm.
Qed.

Lemma levels_forest_perm h : forall f,
  fheight f = h ->
  Permutation (concat (map (fun k => flevel_at k f) (seq 0 h))) (flat_map all_tokens f).
Proof.
  induction h as [|h IH]; intros f Hh.
  - apply fheight_0 in Hh. subst f. constructor.
  - cbn [seq map concat]. rewrite flevel_at_0.
    rewrite <- seq_shift, map_map.
    rewrite (map_ext _ (fun k => flevel_at k (flat_map tok_children f)))
      by (intros k; apply flevel_at_S).
    rewrite (IH (flat_map tok_children f)) by (rewrite fheight_children, Hh; reflexivity).
    symmetry. apply all_tokens_forest_split.
Qed.

Theorem levels_permutation t : Permutation (concat (levels t)) (all_tokens t).
Proof.
  pose proof (levels_forest_perm (height t) [t]) as H.
  cbn [flat_map] in H. rewrite app_nil_r in H.
  unfold levels.
  rewrite (map_ext _ (fun k => flevel_at k [t])).
  - apply H. rewrite fheight_cons. cbn. lia.
  - intros k. unfold flevel_at. cbn [flat_map]. rewrite app_nil_r. reflexivity.
Qed.

(* ------------------------------------------------------------------ levels = depth classes of the pre-order *)
Lemma filter_none {A : Type} (g : A -> bool) l : (forall x, In x l -> g x = false) -> filter g l = [].
Proof.
  induction l as [|x l IH]; intros H; [reflexivity|].
  cbn [filter]. rewrite (H x (or_introl eq_refl)). apply IH. intros y Hy. apply H. right. exact Hy.
Qed.

Lemma level_at_filter_forest k d cs :
  Forall (fun t => forall k d,
            level_at k t = map fst (filter (fun p => snd p =? d + k) (preorder t d))) cs ->
  flat_map (level_at k) cs =
  map fst (filter (fun p => snd p =? S d + k) (flat_map (fun c => preorder c (S d)) cs)).
Proof.
  induction 1 as [|c cs Hc _ IH]; [reflexivity|].
  cbn [flat_map]. rewrite filter_app, map_app, <- IH, <- (Hc k (S d)). reflexivity.
Qed.

Lemma level_at_filter t : forall k d,
  level_at k t = map fst (filter (fun p => snd p =? d + k) (preorder t d)).
Proof.
  induction t as [r s e cs IH] using tok_nested_ind. intros k d.
  cbn [preorder filter snd].
  destruct k as [|k].
  - rewrite Nat.add_0_r, Nat.eqb_refl. cbn [level_at map fst].
    rewrite filter_none; [reflexivity|].
    intros p Hp. apply in_flat_map in Hp. destruct Hp as (c & _ & Hp).
    apply preorder_depth_ge in Hp. apply Nat.eqb_neq. lia.
  - replace (d =? d + S k) with false by (symmetry; apply Nat.eqb_neq; lia).
    cbn [level_at tok_children].
    rewrite (level_at_filter_forest k d cs IH).
    replace (S d + k) with (d + S k) by lia. reflexivity.
Qed.

Theorem levels_are_depth_classes t k :
  level_at k t = map fst (filter (fun p => snd p =? k) (preorder t 0)).
Proof. apply (level_at_filter t k 0). Qed.

(* ------------------------------------------------------------------ render *)
Lemma render_entry_line_of p : render_entry p = line_of p.
Proof. destruct p as [[r s e cs] d]. destruct cs; reflexivity. Qed.

Theorem render_correct t fuel :
  fuel_for t <= fuel -> render fuel t = Some (map line_of (preorder t 0)).
Proof.
  intros Hf. unfold render. rewrite (pre_order_correct t fuel Hf). cbn [option_map].
  f_equal. apply map_ext. apply render_entry_line_of.
Qed.

(* ------------------------------------------------------------------ thin tokens *)
Lemma to_thin_unfold r s e cs : to_thin (Tok r s e cs) = Thin r s e (map to_thin cs).
Proof. reflexivity. Qed.

Lemma of_thin_to_thin t : of_thin (to_thin t) = t.
Proof.
  induction t as [r s e cs IH] using tok_nested_ind.
  cbn [to_thin of_thin]. f_equal. rewrite map_map.
  induction IH as [|c cs Hc _ IHcs]; [reflexivity|].
  cbn [map]. rewrite Hc, IHcs. reflexivity.
Qed.

Lemma thin_preorder_to_thin t : forall d,
  thin_preorder (to_thin t) d = map tok_quad (preorder t d).
Proof.
  induction t as [r s e cs IH] using tok_nested_ind. intros d.
  cbn [to_thin thin_preorder preorder map]. f_equal.
  induction IH as [|c cs Hc _ IHcs]; [reflexivity|].
  cbn [map flat_map]. rewrite map_app, Hc, IHcs. reflexivity.
Qed.

Lemma as_thin_token_spec t : as_thin_token t = to_thin t.
Proof. unfold as_thin_token. rewrite as_token_id. reflexivity. Qed.

(* ------------------------------------------------------------------ statements used by Properties/C15.v *)
Theorem c15_preorder : forall t fuel,
  fuel_for t <= fuel ->
  pre_order fuel t = Some (preorder t 0)
  /\ pre_order (fuel_for t - 1) t = None
  /\ map fst (preorder t 0) = all_tokens t
  /\ length (preorder t 0) = size t.
Proof.
  intros t fuel Hf. repeat split.
  - apply pre_order_correct, Hf.
  - apply pre_order_fuel_tight.
  - apply preorder_fst.
  - apply preorder_length.
Qed.

Theorem c15_levelorder : forall t fuel,
  fuel_for t <= fuel ->
  level_order fuel t = Some (concat (map with_remaining (levels t)))
  /\ map fst (concat (map with_remaining (levels t))) = concat (levels t)
  /\ Permutation (concat (levels t)) (all_tokens t)
  /\ length (concat (levels t)) = size t
  /\ (NoDup (all_tokens t) -> NoDup (concat (levels t)))
  /\ (forall k, level_at k t = map fst (filter (fun p => snd p =? k) (preorder t 0))).
Proof.
  intros t fuel Hf. repeat split.
  - apply level_order_correct, Hf.
  - apply level_order_tokens.
  - apply levels_permutation.
  - rewrite (Permutation_length (levels_permutation t)). apply all_tokens_length.
  - intros Hnd. apply (Permutation_NoDup (Permutation_sym (levels_permutation t)) Hnd).
  - intros k. apply levels_are_depth_classes.
Qed.

Theorem c15_render : forall t fuel,
  fuel_for t <= fuel ->
  render fuel t = Some (map line_of (preorder t 0)).
Proof. exact render_correct. Qed.

Theorem c15_thin : forall t,
  (forall r s e cs, to_thin (Tok r s e cs) = Thin r s e (map to_thin cs))
  /\ as_thin_token t = to_thin t
  /\ of_thin (to_thin t) = t
  /\ thin_preorder (to_thin t) 0 = map tok_quad (preorder t 0)
  /\ as_token t = t
  /\ children_of t = tok_children t.
Proof.
  intros t. repeat split.
  - apply as_thin_token_spec.
  - apply of_thin_to_thin.
  - apply thin_preorder_to_thin.
  - apply as_token_id.
Qed.
