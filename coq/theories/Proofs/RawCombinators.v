(* C19: the remaining raw combinators -- pairs, optionals, skip-n-chars, the skip repetition (AtomicRepeat)
   and fixed arrays -- match exactly the concatenation they denote.

   Every characterisation is stated on the reference interpreter [aparse] (Model/Aparse.v) as a [match] on the
   result that constrains ALL four outcomes, plus the converse direction (so the characterisations are
   equivalences), and is then transferred to the real parse path [tparse] through the refinement theorems of
   Proofs/Refine.v (no-panic premise) and Proofs/RefinePanic.v ([env_ok] premises).  For [TSkipChars] (a leaf)
   and for the tracker trace of [TAtomicRep] the real path is characterised directly, with no premise at all. *)
From Coq Require Import List NArith ZArith Arith Bool Lia.
From PT Require Import Model.Base Model.Stack Model.Texpr Model.SliceSpec Model.Sem Model.Aparse Model.LinesSpec.
From PT Require Import Proofs.StackInv Proofs.CheckParse Proofs.Refine Proofs.RefinePanic Proofs.RepSpec.
From PT Require Import Proofs.LinesUtf8 Proofs.BoundaryOps Proofs.Boundary Proofs.SubInputOps.
Import ListNotations.

(* ======================================================================================================== *)
(* 0. decoding n characters                                                                                 *)
(* ======================================================================================================== *)

(* `chars()` taken n times: the characters with the number of bytes each one occupies; None = fewer than n
   characters can be decoded *)
Fixpoint dec_n (rest : list byte) (n : nat) : option (list (char * nat)) :=
  match n with
  | O => Some []
  | S n' =>
      match dec1 rest with
      | Some (c, l) =>
          match dec_n (skipn l rest) n' with
          | Some cls => Some ((c, l) :: cls)
          | None => None
          end
      | None => None
      end
  end.

(* the sum of the encoded lengths *)
Definition total (cls : list (char * nat)) : nat := list_sum (map snd cls).

Lemma total_nil : total [] = 0.
Proof. reflexivity. Qed.

Lemma total_cons c l cls : total ((c, l) :: cls) = l + total cls.
Proof. reflexivity. Qed.

Lemma total_app a b : total (a ++ b) = total a + total b.
Proof. unfold total. rewrite map_app, list_sum_app. reflexivity. Qed.

Lemma skipn_add {X} a : forall b (l : list X), skipn a (skipn b l) = skipn (b + a) l.
Proof.
  intros b. induction b as [|b IH]; intros l; [reflexivity|].
  destruct l as [|x l]; cbn [skipn Nat.add]; [destruct a; reflexivity|apply IH].
Qed.

(* `skip(n)` of the input cursors is exactly this decoding *)
Lemma skip_chars_len_dec_n n : forall rest acc,
  skip_chars_len rest n acc =
  match dec_n rest n with Some cls => Some (acc + total cls) | None => None end.
Proof.
  induction n as [|n IH]; intros rest acc; cbn [skip_chars_len dec_n].
  - rewrite total_nil, Nat.add_0_r. reflexivity.
  - destruct (dec1 rest) as [[c l]|]; [|reflexivity].
    rewrite IH. destruct (dec_n (skipn l rest) n) as [cls|]; [|reflexivity].
    rewrite total_cons. f_equal. lia.
Qed.

Lemma dec_n_length n : forall rest cls, dec_n rest n = Some cls -> length cls = n.
Proof.
  induction n as [|n IH]; intros rest cls; cbn [dec_n].
  - intros H. inversion H. reflexivity.
  - destruct (dec1 rest) as [[c l]|]; [|discriminate].
    destruct (dec_n (skipn l rest) n) as [cls'|] eqn:Hd; [|discriminate].
    intros H. inversion H. cbn [length]. f_equal. eapply IH. exact Hd.
Qed.

(* the consumed bytes lie inside the text *)
Lemma dec_n_total_le n : forall rest cls, dec_n rest n = Some cls -> total cls <= length rest.
Proof.
  induction n as [|n IH]; intros rest cls; cbn [dec_n].
  - intros H. inversion H. rewrite total_nil. lia.
  - destruct (dec1 rest) as [[c l]|] eqn:H1; [|discriminate].
    destruct (dec_n (skipn l rest) n) as [cls'|] eqn:Hd; [|discriminate].
    intros H. inversion H. rewrite total_cons.
    apply IH in Hd. rewrite skipn_length in Hd. apply dec1_length in H1. lia.
Qed.

(* every decoded character occupies at least one byte *)
Lemma dec1_pos rest c l : dec1 rest = Some (c, l) -> 1 <= l.
Proof.
  unfold dec1. destruct rest as [|b0 r]; [discriminate|].
  destruct (b0 <? 128)%N; [intros H; inversion H; lia|].
  destruct (b0 <? 224)%N.
  { destruct r as [|b1 r]; [discriminate|]. intros H; inversion H; lia. }
  destruct (b0 <? 240)%N.
  { destruct r as [|b1 [|b2 r]]; try discriminate. intros H; inversion H; lia. }
  destruct r as [|b1 [|b2 [|b3 r]]]; try discriminate. intros H; inversion H; lia.
Qed.

Lemma dec_n_total_ge n : forall rest cls, dec_n rest n = Some cls -> n <= total cls.
Proof.
  induction n as [|n IH]; intros rest cls; cbn [dec_n].
  - intros _. lia.
  - destruct (dec1 rest) as [[c l]|] eqn:H1; [|discriminate].
    destruct (dec_n (skipn l rest) n) as [cls'|] eqn:Hd; [|discriminate].
    intros H. inversion H. rewrite total_cons. apply IH in Hd. apply dec1_pos in H1. lia.
Qed.

(* decoding j + k characters = decoding j, then k more from where the first j stop *)
Lemma dec_n_add j : forall rest k,
  dec_n rest (j + k) =
  match dec_n rest j with
  | Some c1 => match dec_n (skipn (total c1) rest) k with Some c2 => Some (c1 ++ c2) | None => None end
  | None => None
  end.
Proof.
  induction j as [|j IH]; intros rest k; cbn [Nat.add dec_n].
  - rewrite total_nil. cbn [skipn app]. destruct (dec_n rest k); reflexivity.
  - destruct (dec1 rest) as [[c l]|]; [|reflexivity].
    rewrite IH. destruct (dec_n (skipn l rest) j) as [c1|]; [|reflexivity].
    rewrite total_cons, skipn_add.
    destruct (dec_n (skipn (l + total c1) rest) k); reflexivity.
Qed.

(* failure = fewer than n characters: after some k < n decoded characters no further one can be decoded *)
Lemma dec_n_none_iff n : forall rest,
  dec_n rest n = None <->
  exists k cls, k < n /\ dec_n rest k = Some cls /\ dec1 (skipn (total cls) rest) = None.
Proof.
  induction n as [|n IH]; intros rest; cbn [dec_n].
  - split; [discriminate|]. intros (k & cls & Hk & _). lia.
  - destruct (dec1 rest) as [[c l]|] eqn:H1.
    + destruct (dec_n (skipn l rest) n) as [cls'|] eqn:Hd.
      * split; [discriminate|]. intros (k & cls & Hk & Hdk & Hn). exfalso.
        destruct k as [|k]; cbn [dec_n] in Hdk.
        -- inversion Hdk; subst cls. rewrite total_nil in Hn. cbn [skipn] in Hn. congruence.
        -- rewrite H1 in Hdk. destruct (dec_n (skipn l rest) k) as [ck|] eqn:Hk'; [|discriminate].
           inversion Hdk; subst cls. rewrite total_cons, <- skipn_add in Hn.
           assert (Hx : dec_n (skipn l rest) n = None).
           { apply IH. exists k, ck. repeat split; [lia|assumption|assumption]. }
           congruence.
      * split; [|reflexivity]. intros _.
        apply IH in Hd. destruct Hd as (k & cls & Hk & Hdk & Hn).
        exists (S k), ((c, l) :: cls). cbn [dec_n]. rewrite H1, Hdk, total_cons, <- skipn_add.
        repeat split; [lia|assumption].
    + split; [|reflexivity]. intros _. exists 0, []. cbn [dec_n].
      rewrite total_nil. cbn [skipn]. repeat split; [lia|assumption].
Qed.

(* a character is decoded from its own bytes only *)
Lemma dec1_firstn rest c l : dec1 rest = Some (c, l) -> forall k, l <= k -> dec1 (firstn k rest) = Some (c, l).
Proof.
  unfold dec1. destruct rest as [|b0 r]; [discriminate|].
  destruct (b0 <? 128)%N eqn:E1.
  { intros H k Hk. inversion H; subst. destruct k as [|k]; [lia|]. cbn [firstn]. rewrite E1. reflexivity. }
  destruct (b0 <? 224)%N eqn:E2.
  { destruct r as [|b1 r]; [discriminate|]. intros H k Hk. inversion H; subst.
    destruct k as [|[|k]]; try lia. cbn [firstn]. rewrite E1, E2. reflexivity. }
  destruct (b0 <? 240)%N eqn:E3.
  { destruct r as [|b1 [|b2 r]]; try discriminate. intros H k Hk. inversion H; subst.
    destruct k as [|[|[|k]]]; try lia. cbn [firstn]. rewrite E1, E2, E3. reflexivity. }
  destruct r as [|b1 [|b2 [|b3 r]]]; try discriminate. intros H k Hk. inversion H; subst.
  destruct k as [|[|[|[|k]]]]; try lia. cbn [firstn]. rewrite E1, E2, E3. reflexivity.
Qed.

(* the consumed text -- the first [total cls] bytes -- decodes to exactly the same n characters: nothing
   behind it was looked at *)
Lemma dec_n_firstn n : forall rest cls k,
  dec_n rest n = Some cls -> total cls <= k -> dec_n (firstn k rest) n = Some cls.
Proof.
  induction n as [|n IH]; intros rest cls k; cbn [dec_n]; [intros H _; exact H|].
  destruct (dec1 rest) as [[c l]|] eqn:H1; [|discriminate].
  destruct (dec_n (skipn l rest) n) as [cls'|] eqn:Hd; [|discriminate].
  intros H Hk. inversion H; subst cls. rewrite total_cons in Hk.
  rewrite (dec1_firstn rest c l H1 k) by lia.
  rewrite skipn_firstn_comm. rewrite (IH (skipn l rest) cls' (k - l) Hd) by lia. reflexivity.
Qed.

(* ... and on valid UTF-8 these are the first n characters of the text, with their UTF-8 lengths *)
Definition with_len (cs : list char) : list (char * nat) := map (fun c => (c, len_utf8 c)) cs.

Lemma total_with_len cs : total (with_len cs) = length (encode cs).
Proof.
  induction cs as [|c cs IH]; [reflexivity|].
  unfold with_len. cbn [map]. rewrite total_cons. fold (with_len cs). rewrite IH, encode_length_cons. reflexivity.
Qed.

Lemma dec_n_encode n : forall m r, valid_str m -> n <= length m ->
  dec_n (encode m ++ r) n = Some (with_len (firstn n m)).
Proof.
  induction n as [|n IH]; intros m r Hm Hn; cbn [dec_n]; [reflexivity|].
  destruct m as [|x m]; [cbn [length] in Hn; lia|].
  inversion Hm as [|? ? Hx Hm']; subst.
  rewrite encode_cons, <- app_assoc, (dec1_enc x _ Hx), skipn_enc.
  cbn [length] in Hn. rewrite (IH m r Hm') by lia. reflexivity.
Qed.

Lemma dec_n_encode_short : forall m n, valid_str m -> length m < n -> dec_n (encode m) n = None.
Proof.
  induction m as [|x m IH]; intros n Hm Hn.
  - destruct n as [|n]; [cbn [length] in Hn; lia|]. reflexivity.
  - destruct n as [|n]; [lia|]. cbn [dec_n length] in *.
    inversion Hm as [|? ? Hx Hm']; subst.
    rewrite encode_cons, (dec1_enc x _ Hx), skipn_enc. rewrite (IH n Hm') by lia. reflexivity.
Qed.

(* ======================================================================================================== *)
(* 1. pairs (T1, T2)                                                                                        *)
(* ======================================================================================================== *)

(* success = the first component, then -- with nothing skipped in between -- the second one from where the
   first stopped; failure = the first fails, or the first succeeds and the second fails.  All four outcomes
   are constrained, so the conditions are exact. *)
Theorem aparse_pair_spec E fuel inh a b pos stk :
  match aparse E (S fuel) inh (TPair a b) pos stk with
  | AOk (pos', t) stk' =>
      exists p1 ta s1 tb, t = NPair ta tb /\
        aparse E fuel inh a pos stk = AOk (p1, ta) s1 /\
        aparse E fuel inh b p1 s1 = AOk (pos', tb) stk'
  | AFail =>
      aparse E fuel inh a pos stk = AFail \/
      exists p1 ta s1, aparse E fuel inh a pos stk = AOk (p1, ta) s1 /\ aparse E fuel inh b p1 s1 = AFail
  | APanic =>
      aparse E fuel inh a pos stk = APanic \/
      exists p1 ta s1, aparse E fuel inh a pos stk = AOk (p1, ta) s1 /\ aparse E fuel inh b p1 s1 = APanic
  | AFuel =>
      aparse E fuel inh a pos stk = AFuel \/
      exists p1 ta s1, aparse E fuel inh a pos stk = AOk (p1, ta) s1 /\ aparse E fuel inh b p1 s1 = AFuel
  end.
Proof.
  rewrite aparse_pair.
  destruct (aparse E fuel inh a pos stk) as [[p1 ta] s1| | |] eqn:Ha; try (left; reflexivity).
  destruct (aparse E fuel inh b p1 s1) as [[p2 tb] s2| | |] eqn:Hb.
  - exists p1, ta, s1, tb. repeat split; assumption.
  - right. exists p1, ta, s1. split; [reflexivity|assumption].
  - right. exists p1, ta, s1. split; [reflexivity|assumption].
  - right. exists p1, ta, s1. split; [reflexivity|assumption].
Qed.

Theorem aparse_pair_ok_iff E fuel inh a b pos stk pos' t stk' :
  aparse E (S fuel) inh (TPair a b) pos stk = AOk (pos', t) stk' <->
  exists p1 ta s1 tb, t = NPair ta tb /\
    aparse E fuel inh a pos stk = AOk (p1, ta) s1 /\
    aparse E fuel inh b p1 s1 = AOk (pos', tb) stk'.
Proof.
  split.
  - intros H. pose proof (aparse_pair_spec E fuel inh a b pos stk) as Hs. rewrite H in Hs. exact Hs.
  - intros (p1 & ta & s1 & tb & -> & Ha & Hb). rewrite aparse_pair, Ha, Hb. reflexivity.
Qed.

Theorem aparse_pair_fail_iff E fuel inh a b pos stk :
  aparse E (S fuel) inh (TPair a b) pos stk = AFail <->
  aparse E fuel inh a pos stk = AFail \/
  exists p1 ta s1, aparse E fuel inh a pos stk = AOk (p1, ta) s1 /\ aparse E fuel inh b p1 s1 = AFail.
Proof.
  split.
  - intros H. pose proof (aparse_pair_spec E fuel inh a b pos stk) as Hs. rewrite H in Hs. exact Hs.
  - intros [Ha|(p1 & ta & s1 & Ha & Hb)]; rewrite aparse_pair, Ha; [reflexivity|]. rewrite Hb. reflexivity.
Qed.

(* ======================================================================================================== *)
(* 2. optionals Option<T>                                                                                   *)
(* ======================================================================================================== *)

(* never fails; Some = the operand matched (its end position, its stack); None = the operand failed, and then
   position and stack are exactly those before the attempt *)
Theorem aparse_opt_spec E fuel inh e pos stk :
  match aparse E (S fuel) inh (TOpt e) pos stk with
  | AOk (pos', t) stk' =>
      (exists t1, t = NOpt (Some t1) /\ aparse E fuel inh e pos stk = AOk (pos', t1) stk') \/
      (t = NOpt None /\ pos' = pos /\ stk' = stk /\ aparse E fuel inh e pos stk = AFail)
  | AFail => False
  | APanic => aparse E fuel inh e pos stk = APanic
  | AFuel => aparse E fuel inh e pos stk = AFuel
  end.
Proof.
  rewrite aparse_opt.
  destruct (aparse E fuel inh e pos stk) as [[p1 t1] s1| | |] eqn:Ha; try reflexivity.
  - left. exists t1. split; reflexivity.
  - right. repeat split; reflexivity.
Qed.

Theorem aparse_opt_never_fails E fuel inh e pos stk : aparse E fuel inh (TOpt e) pos stk <> AFail.
Proof.
  destruct fuel as [|fuel]; [discriminate|]. intros H.
  pose proof (aparse_opt_spec E fuel inh e pos stk) as Hs. rewrite H in Hs. exact Hs.
Qed.

Theorem aparse_opt_some_iff E fuel inh e pos stk pos' t1 stk' :
  aparse E (S fuel) inh (TOpt e) pos stk = AOk (pos', NOpt (Some t1)) stk' <->
  aparse E fuel inh e pos stk = AOk (pos', t1) stk'.
Proof.
  rewrite aparse_opt. split.
  - destruct (aparse E fuel inh e pos stk) as [[p1 t1'] s1| | |]; try discriminate. intros H. inversion H. reflexivity.
  - intros ->. reflexivity.
Qed.

Theorem aparse_opt_none_iff E fuel inh e pos stk pos' stk' :
  aparse E (S fuel) inh (TOpt e) pos stk = AOk (pos', NOpt None) stk' <->
  aparse E fuel inh e pos stk = AFail /\ pos' = pos /\ stk' = stk.
Proof.
  rewrite aparse_opt. split.
  - destruct (aparse E fuel inh e pos stk) as [[p1 t1'] s1| | |]; try discriminate.
    intros H. inversion H. repeat split; reflexivity.
  - intros (-> & -> & ->). reflexivity.
Qed.

(* ======================================================================================================== *)
(* 3. SkipChar<n>: skip n characters                                                                        *)
(* ======================================================================================================== *)

(* [rest] = the unconsumed text (cursor .. end()).  Success iff n characters can be decoded from it one after
   the other ([dec_n rest n = Some cls]); the cursor advances by the sum of their encoded lengths, stays
   inside the input, the node is the span cursor .. new cursor with the SkipChar tag, the stack is untouched.
   Failure iff fewer than n characters remain (see [dec_n_none_iff]); nothing is consumed.  A panic is a
   cursor or span that is not a character boundary (impossible on valid UTF-8, [aparse_skip_chars_utf8]). *)
Theorem aparse_skip_chars_spec E fuel inh n pos stk :
  match aparse E (S fuel) inh (TSkipChars n) pos stk with
  | AOk (pos', t) stk' =>
      exists rest cls, i_get (e_inp E) pos = MOk rest /\ dec_n rest n = Some cls /\
        pos' = pos + total cls /\ pos' <= i_end (e_inp E) /\
        t = NSpanned KSkipChar pos pos' /\ stk' = stk
  | AFail => exists rest, i_get (e_inp E) pos = MOk rest /\ dec_n rest n = None
  | APanic =>
      i_get (e_inp E) pos = MPanic \/
      exists rest cls, i_get (e_inp E) pos = MOk rest /\ dec_n rest n = Some cls /\
        i_span (e_inp E) pos (pos + total cls) = MPanic
  | AFuel => False
  end.
Proof.
  cbn [aparse a_step]. unfold aleaf, i_skip.
  destruct (i_get (e_inp E) pos) as [rest|] eqn:Hg; cbn [mbind alift]; [|left; reflexivity].
  rewrite skip_chars_len_dec_n. cbn [Nat.add].
  destruct (dec_n rest n) as [cls|] eqn:Hd.
  - destruct (i_span (e_inp E) pos (pos + total cls)) as [sp|] eqn:Hsp; cbn [alift].
    + exists rest, cls. repeat split; try reflexivity; try assumption.
      apply i_get_ok in Hg. apply dec_n_total_le in Hd. lia.
    + right. exists rest, cls. repeat split; assumption.
  - exists rest. split; [reflexivity|assumption].
Qed.

Theorem aparse_skip_chars_ok_iff E fuel inh n pos stk pos' t stk' :
  aparse E (S fuel) inh (TSkipChars n) pos stk = AOk (pos', t) stk' <->
  exists rest cls, i_get (e_inp E) pos = MOk rest /\ dec_n rest n = Some cls /\
    i_span (e_inp E) pos (pos + total cls) <> MPanic /\
    pos' = pos + total cls /\ t = NSpanned KSkipChar pos pos' /\ stk' = stk.
Proof.
  split.
  - intros H. pose proof (aparse_skip_chars_spec E fuel inh n pos stk) as Hs.
    assert (Hnp : aparse E (S fuel) inh (TSkipChars n) pos stk <> APanic) by congruence.
    rewrite H in Hs. destruct Hs as (rest & cls & Hg & Hd & -> & _ & -> & ->).
    exists rest, cls. repeat split; try assumption. intros Hx. apply Hnp.
    cbn [aparse a_step]. unfold aleaf, i_skip. rewrite Hg. cbn [mbind alift].
    rewrite skip_chars_len_dec_n, Hd. cbn [Nat.add]. rewrite Hx. reflexivity.
  - intros (rest & cls & Hg & Hd & Hsp & -> & -> & ->).
    cbn [aparse a_step]. unfold aleaf, i_skip. rewrite Hg. cbn [mbind alift].
    rewrite skip_chars_len_dec_n, Hd. cbn [Nat.add].
    destruct (i_span (e_inp E) pos (pos + total cls)); [reflexivity|congruence].
Qed.

Theorem aparse_skip_chars_fail_iff E fuel inh n pos stk :
  aparse E (S fuel) inh (TSkipChars n) pos stk = AFail <->
  exists rest, i_get (e_inp E) pos = MOk rest /\ dec_n rest n = None.
Proof.
  split.
  - intros H. pose proof (aparse_skip_chars_spec E fuel inh n pos stk) as Hs. rewrite H in Hs. exact Hs.
  - intros (rest & Hg & Hd).
    cbn [aparse a_step]. unfold aleaf, i_skip. rewrite Hg. cbn [mbind alift].
    rewrite skip_chars_len_dec_n, Hd. reflexivity.
Qed.

(* on a valid UTF-8 input at a good cursor: the unconsumed text is the encoding of a character list [m];
   SkipChar<n> succeeds iff n <= |m| and then consumes exactly the encoding of the first n characters of m *)
Theorem aparse_skip_chars_utf8 E fuel inh n pos stk :
  good_inp (e_inp E) -> good_cur (e_inp E) pos ->
  exists m, valid_str m /\ i_get (e_inp E) pos = MOk (encode m) /\
    aparse E (S fuel) inh (TSkipChars n) pos stk =
    if n <=? length m
    then let pos' := pos + length (encode (firstn n m)) in AOk (pos', NSpanned KSkipChar pos pos') stk
    else AFail.
Proof.
  intros HI Hc. destruct (good_cur_view _ _ HI Hc) as (a & m & b & Hview).
  destruct (view_valid _ _ _ _ _ Hview) as (_ & Hm & _).
  pose proof (view_get _ _ _ _ _ Hview) as Hg.
  exists m. repeat split; [assumption|assumption|].
  destruct (Nat.leb_spec n (length m)) as [Hle|Hgt].
  - cbv zeta. apply aparse_skip_chars_ok_iff.
    pose proof (dec_n_encode n m [] Hm Hle) as Hd. rewrite app_nil_r in Hd.
    exists (encode m), (with_len (firstn n m)). rewrite total_with_len.
    repeat split; try assumption; try reflexivity.
    assert (Hgc : good_cur (e_inp E) (pos + length (encode (firstn n m)))).
    { apply (view_advance (e_inp E) pos a (firstn n m) (skipn n m) b); [apply Hc|].
      rewrite firstn_skipn. exact Hview. }
    rewrite (i_span_good _ _ _ HI Hc Hgc) by lia. discriminate.
  - apply aparse_skip_chars_fail_iff. exists (encode m). split; [assumption|].
    apply dec_n_encode_short; assumption.
Qed.

(* ======================================================================================================== *)
(* 4. AtomicRepeat<T> (the skip repetition) and [T; n]                                                       *)
(* ======================================================================================================== *)

Section Loops.
  Variable A : bool -> texpr -> nat -> list span -> ares (nat * tnode).
  Variables (inh : bool) (e : texpr).

  Lemma chain_length k pos stk ts pos' stk' : chain A inh e k pos stk ts pos' stk' -> length ts = k.
  Proof. intros H. induction H; cbn [length]; congruence. Qed.

  Lemma chain_det k pos stk ts1 p1 s1 : chain A inh e k pos stk ts1 p1 s1 ->
    forall ts2 p2 s2, chain A inh e k pos stk ts2 p2 s2 -> ts1 = ts2 /\ p1 = p2 /\ s1 = s2.
  Proof.
    intros H. induction H as [pos stk|k pos stk t pa sa ts pb sb Ha Hc IH]; intros ts2 p2 s2 H2.
    - inversion H2; subst. repeat split; reflexivity.
    - inversion H2 as [|? ? ? t' pa' sa' ts' pb' sb' Ha' Hc']; subst.
      rewrite Ha in Ha'. inversion Ha'; subst.
      destruct (IH _ _ _ Hc') as (-> & -> & ->). repeat split; reflexivity.
  Qed.

  (* the loop of AtomicRepeat with loop fuel n: all four outcomes *)
  Lemma a_arep_spec : forall n pos stk acc,
    match a_arep A n inh e pos stk acc with
    | AOk (pos', t) stk' =>
        exists ts, t = NAtomicRep (rev acc ++ ts) /\ length ts < n /\
          chain A inh e (length ts) pos stk ts pos' stk' /\ A inh e pos' stk' = AFail
    | AFail => False
    | APanic =>
        exists ts p s, length ts < n /\ chain A inh e (length ts) pos stk ts p s /\ A inh e p s = APanic
    | AFuel =>
        exists ts p s, chain A inh e (length ts) pos stk ts p s /\
          (length ts = n \/ (length ts < n /\ A inh e p s = AFuel))
    end.
  Proof.
    induction n as [|n IH]; intros pos stk acc; cbn [a_arep].
    - exists [], pos, stk. split; [constructor|left; reflexivity].
    - destruct (A inh e pos stk) as [[p1 t1] s1| | |] eqn:Ha.
      + specialize (IH p1 s1 (t1 :: acc)).
        destruct (a_arep A n inh e p1 s1 (t1 :: acc)) as [[p' t'] s'| | |].
        * destruct IH as (ts & -> & Hl & Hc & Hf). exists (t1 :: ts).
          cbn [rev length]. rewrite <- app_assoc. cbn [app].
          repeat split; [lia| |assumption]. econstructor; eassumption.
        * exact IH.
        * destruct IH as (ts & p & s & Hl & Hc & Hp). exists (t1 :: ts), p, s. cbn [length].
          repeat split; [lia| |assumption]. econstructor; eassumption.
        * destruct IH as (ts & p & s & Hc & Hl). exists (t1 :: ts), p, s. cbn [length].
          split; [econstructor; eassumption|]. destruct Hl as [Hl|[Hl Hf]]; [left; lia|right; split; [lia|assumption]].
      + exists []. rewrite app_nil_r. cbn [length]. repeat split; [lia|constructor|assumption].
      + exists [], pos, stk. cbn [length]. repeat split; [lia|constructor|assumption].
      + exists [], pos, stk. cbn [length]. split; [constructor|]. right. split; [lia|assumption].
  Qed.

  (* converse: a run of k < n successes followed by a failure is what the loop returns *)
  Lemma a_arep_complete k pos stk ts pos' stk' :
    chain A inh e k pos stk ts pos' stk' -> A inh e pos' stk' = AFail ->
    forall n acc, k < n -> a_arep A n inh e pos stk acc = AOk (pos', NAtomicRep (rev acc ++ ts)) stk'.
  Proof.
    intros H. induction H as [pos stk|k pos stk t pa sa ts pb sb Ha Hc IH]; intros Hf n acc Hk.
    - destruct n as [|n]; [lia|]. cbn [a_arep]. rewrite Hf, app_nil_r. reflexivity.
    - destruct n as [|n]; [lia|]. cbn [a_arep]. rewrite Ha. rewrite (IH Hf n (t :: acc)) by lia.
      cbn [rev]. rewrite <- app_assoc. reflexivity.
  Qed.

  (* converse for [T; n] *)
  Lemma a_arr_complete n pos stk ts pos' stk' :
    chain A inh e n pos stk ts pos' stk' ->
    forall acc, a_arr A n inh e pos stk acc = AOk (pos', NArr (rev acc ++ ts)) stk'.
  Proof.
    intros H. induction H as [pos stk|k pos stk t pa sa ts pb sb Ha Hc IH]; intros acc; cbn [a_arr].
    - rewrite app_nil_r. reflexivity.
    - rewrite Ha, IH. cbn [rev]. rewrite <- app_assoc. reflexivity.
  Qed.

  Lemma a_arr_fail_complete k pos stk ts pos' stk' :
    chain A inh e k pos stk ts pos' stk' -> A inh e pos' stk' = AFail ->
    forall n acc, k < n -> a_arr A n inh e pos stk acc = AFail.
  Proof.
    intros H. induction H as [pos stk|k pos stk t pa sa ts pb sb Ha Hc IH]; intros Hf n acc Hk.
    - destruct n as [|n]; [lia|]. cbn [a_arr]. rewrite Hf. reflexivity.
    - destruct n as [|n]; [lia|]. cbn [a_arr]. rewrite Ha. apply IH; [assumption|lia].
  Qed.
End Loops.

(* AtomicRepeat never fails.  Success returns the greedy run: [ts] are consecutive successes of the element
   (each starting at the position and stack where the previous one stopped, nothing skipped in between), the
   run stopped because the next attempt FAILS, and the cursor and stack returned are those after the last
   success.  (The loop fuel is the interpreter fuel; the other two outcomes say where a panic / the lack of
   fuel arose.) *)
Theorem aparse_atomic_rep_spec E fuel inh e pos stk :
  match aparse E (S fuel) inh (TAtomicRep e) pos stk with
  | AOk (pos', t) stk' =>
      exists ts, t = NAtomicRep ts /\ length ts < fuel /\
        chain (aparse E fuel) inh e (length ts) pos stk ts pos' stk' /\
        aparse E fuel inh e pos' stk' = AFail
  | AFail => False
  | APanic =>
      exists ts p s, length ts < fuel /\ chain (aparse E fuel) inh e (length ts) pos stk ts p s /\
        aparse E fuel inh e p s = APanic
  | AFuel =>
      exists ts p s, chain (aparse E fuel) inh e (length ts) pos stk ts p s /\
        (length ts = fuel \/ (length ts < fuel /\ aparse E fuel inh e p s = AFuel))
  end.
Proof.
  cbn [aparse a_step].
  pose proof (a_arep_spec (aparse E fuel) inh e fuel pos stk []) as H.
  destruct (a_arep (aparse E fuel) fuel inh e pos stk []) as [[p' t] s'| | |]; exact H.
Qed.

Theorem aparse_atomic_rep_never_fails E fuel inh e pos stk : aparse E fuel inh (TAtomicRep e) pos stk <> AFail.
Proof.
  destruct fuel as [|fuel]; [discriminate|]. intros H.
  pose proof (aparse_atomic_rep_spec E fuel inh e pos stk) as Hs. rewrite H in Hs. exact Hs.
Qed.

Theorem aparse_atomic_rep_ok_iff E fuel inh e pos stk pos' t stk' :
  aparse E (S fuel) inh (TAtomicRep e) pos stk = AOk (pos', t) stk' <->
  exists ts, t = NAtomicRep ts /\ length ts < fuel /\
    chain (aparse E fuel) inh e (length ts) pos stk ts pos' stk' /\
    aparse E fuel inh e pos' stk' = AFail.
Proof.
  split.
  - intros H. pose proof (aparse_atomic_rep_spec E fuel inh e pos stk) as Hs. rewrite H in Hs. exact Hs.
  - intros (ts & -> & Hl & Hc & Hf). cbn [aparse a_step].
    apply (a_arep_complete (aparse E fuel) inh e _ _ _ _ _ _ Hc Hf fuel [] Hl).
Qed.

(* fixed arrays: the converse of [aparse_arr] (Proofs/RepSpec.v), so that characterisation is exact too *)
Theorem aparse_arr_ok_iff E fuel inh n e pos stk pos' t stk' :
  aparse E (S fuel) inh (TArr n e) pos stk = AOk (pos', t) stk' <->
  exists ts, t = NArr ts /\ length ts = n /\ chain (aparse E fuel) inh e n pos stk ts pos' stk'.
Proof.
  split.
  - intros H. pose proof (aparse_arr E fuel inh n e pos stk) as Hs. rewrite H in Hs. exact Hs.
  - intros (ts & -> & _ & Hc). cbn [aparse a_step].
    apply (a_arr_complete (aparse E fuel) inh e _ _ _ _ _ _ Hc []).
Qed.

Theorem aparse_arr_fail_iff E fuel inh n e pos stk :
  aparse E (S fuel) inh (TArr n e) pos stk = AFail <->
  exists k ts pos' stk', k < n /\ chain (aparse E fuel) inh e k pos stk ts pos' stk' /\
    aparse E fuel inh e pos' stk' = AFail.
Proof.
  split.
  - intros H. pose proof (aparse_arr E fuel inh n e pos stk) as Hs. rewrite H in Hs. exact Hs.
  - intros (k & ts & p & s & Hk & Hc & Hf). cbn [aparse a_step].
    apply (a_arr_fail_complete (aparse E fuel) inh e _ _ _ _ _ _ Hc Hf n [] Hk).
Qed.

(* ======================================================================================================== *)
(* 5. the real parse path                                                                                   *)
(* ======================================================================================================== *)

(* ---- 5a. SkipChar<n> is a leaf: the real parse and check paths directly, no premise ---------------------- *)

Theorem tparse_skip_chars_spec E fuel inh n pos st :
  match tparse E (S fuel) inh (TSkipChars n) pos st with
  | Ok (pos', t) st' =>
      exists rest cls, i_get (e_inp E) pos = MOk rest /\ dec_n rest n = Some cls /\
        pos' = pos + total cls /\ pos' <= i_end (e_inp E) /\
        t = NSpanned KSkipChar pos pos' /\ st' = st
  | Fail st' => st' = st /\ exists rest, i_get (e_inp E) pos = MOk rest /\ dec_n rest n = None
  | Panic =>
      i_get (e_inp E) pos = MPanic \/
      exists rest cls, i_get (e_inp E) pos = MOk rest /\ dec_n rest n = Some cls /\
        i_span (e_inp E) pos (pos + total cls) = MPanic
  | Fuel => False
  end.
Proof.
  cbn [tparse step_p]. unfold leaf_match, i_skip.
  destruct (i_get (e_inp E) pos) as [rest|] eqn:Hg; cbn [mbind lift]; [|left; reflexivity].
  rewrite skip_chars_len_dec_n. cbn [Nat.add].
  destruct (dec_n rest n) as [cls|] eqn:Hd.
  - destruct (i_span (e_inp E) pos (pos + total cls)) as [sp|] eqn:Hsp; cbn [lift].
    + exists rest, cls. repeat split; try reflexivity; try assumption.
      apply i_get_ok in Hg. apply dec_n_total_le in Hd. lia.
    + right. exists rest, cls. repeat split; assumption.
  - split; [reflexivity|]. exists rest. split; [reflexivity|assumption].
Qed.

(* the check path builds no span, so it cannot panic on the span *)
Theorem tcheck_skip_chars_spec E fuel inh n pos st :
  match tcheck E (S fuel) inh (TSkipChars n) pos st with
  | Ok pos' st' =>
      exists rest cls, i_get (e_inp E) pos = MOk rest /\ dec_n rest n = Some cls /\
        pos' = pos + total cls /\ pos' <= i_end (e_inp E) /\ st' = st
  | Fail st' => st' = st /\ exists rest, i_get (e_inp E) pos = MOk rest /\ dec_n rest n = None
  | Panic => i_get (e_inp E) pos = MPanic
  | Fuel => False
  end.
Proof.
  cbn [tcheck step_c]. unfold leaf_check, i_skip.
  destruct (i_get (e_inp E) pos) as [rest|] eqn:Hg; cbn [mbind lift]; [|reflexivity].
  rewrite skip_chars_len_dec_n. cbn [Nat.add].
  destruct (dec_n rest n) as [cls|] eqn:Hd.
  - exists rest, cls. repeat split; try reflexivity; try assumption.
    apply i_get_ok in Hg. apply dec_n_total_le in Hd. lia.
  - split; [reflexivity|]. exists rest. split; [reflexivity|assumption].
Qed.

(* on valid UTF-8, at a good cursor: both real paths, as a closed form *)
Theorem tparse_skip_chars_utf8 E fuel inh n pos st :
  good_inp (e_inp E) -> good_cur (e_inp E) pos ->
  exists m, valid_str m /\ i_get (e_inp E) pos = MOk (encode m) /\
    tparse E (S fuel) inh (TSkipChars n) pos st =
    (if n <=? length m
     then let pos' := pos + length (encode (firstn n m)) in Ok (pos', NSpanned KSkipChar pos pos') st
     else Fail st) /\
    tcheck E (S fuel) inh (TSkipChars n) pos st =
    (if n <=? length m then Ok (pos + length (encode (firstn n m))) st else Fail st).
Proof.
  intros HI Hc. destruct (good_cur_view _ _ HI Hc) as (a & m & b & Hview).
  destruct (view_valid _ _ _ _ _ Hview) as (_ & Hm & _).
  pose proof (view_get _ _ _ _ _ Hview) as Hg.
  exists m. split; [assumption|]. split; [assumption|].
  cbn [tparse tcheck step_p step_c]. unfold leaf_match, leaf_check, i_skip. rewrite Hg. cbn [mbind lift].
  rewrite skip_chars_len_dec_n. cbn [Nat.add].
  destruct (Nat.leb_spec n (length m)) as [Hle|Hgt].
  - pose proof (dec_n_encode n m [] Hm Hle) as Hd. rewrite app_nil_r in Hd. rewrite Hd, total_with_len.
    assert (Hgc : good_cur (e_inp E) (pos + length (encode (firstn n m)))).
    { apply (view_advance (e_inp E) pos a (firstn n m) (skipn n m) b); [apply Hc|].
      rewrite firstn_skipn. exact Hview. }
    rewrite (i_span_good _ _ _ HI Hc Hgc) by lia. cbn [lift]. split; reflexivity.
  - rewrite (dec_n_encode_short m n Hm Hgt). split; reflexivity.
Qed.

(* ---- 5b. AtomicRepeat records no tracker event: it runs its element with a fresh tracker ----------------- *)

Lemma ron_notrack_tr {X} E (f : state -> res X) st :
  match ron E (notrack f) st with
  | Ok _ st' => tr st' = tr st
  | Fail st' => tr st' = tr st
  | _ => True
  end.
Proof.
  unfold ron, notrack. destruct (e_ron_fixed E).
  - destruct (f st) as [x st'|st'| |]; try exact Logic.I; reflexivity.
  - destruct (f (with_stk (s_snapshot (stk st)) st)) as [x st'|st'| |]; try exact Logic.I.
    + cbn [with_tr stk]. destruct (s_clear_snapshot (stk st')) as [s|]; cbn [lift]; [reflexivity|exact Logic.I].
    + cbn [with_tr stk]. destruct (s_restore (stk st')) as [s|]; cbn [lift]; [reflexivity|exact Logic.I].
Qed.

Lemma arep_p_silent E P n : forall inh e pos st acc,
  match arep_p E P n inh e pos st acc with
  | Ok _ st' => tr st' = tr st
  | Fail _ => False
  | _ => True
  end.
Proof.
  induction n as [|n IH]; intros inh e pos st acc; cbn [arep_p]; [exact Logic.I|].
  pose proof (ron_notrack_tr E (P inh e pos) st) as Hr.
  destruct (ron E (notrack (P inh e pos)) st) as [[p t] st'|st'| |]; try exact Logic.I.
  - specialize (IH inh e p st' (t :: acc)).
    destruct (arep_p E P n inh e p st' (t :: acc)) as [x st''|st''| |]; try exact IH. congruence.
  - exact Hr.
Qed.

Lemma arep_c_silent E C n : forall inh e pos st,
  match arep_c E C n inh e pos st with
  | Ok _ st' => tr st' = tr st
  | Fail _ => False
  | _ => True
  end.
Proof.
  induction n as [|n IH]; intros inh e pos st; cbn [arep_c]; [exact Logic.I|].
  pose proof (ron_notrack_tr E (C inh e pos) st) as Hr.
  destruct (ron E (notrack (C inh e pos)) st) as [p st'|st'| |]; try exact Logic.I.
  - specialize (IH inh e p st').
    destruct (arep_c E C n inh e p st') as [x st''|st''| |]; try exact IH. congruence.
  - exact Hr.
Qed.

(* for EVERY environment (repaired or not), fuel, element, state: the real AtomicRepeat never returns None and
   leaves the tracker trace exactly as it found it *)
Theorem tparse_atomic_rep_silent E fuel inh e pos st :
  match tparse E fuel inh (TAtomicRep e) pos st with
  | Ok _ st' => tr st' = tr st
  | Fail _ => False
  | _ => True
  end.
Proof. destruct fuel as [|fuel]; [exact Logic.I|]. cbn [tparse step_p]. apply arep_p_silent. Qed.

Theorem tcheck_atomic_rep_silent E fuel inh e pos st :
  match tcheck E fuel inh (TAtomicRep e) pos st with
  | Ok _ st' => tr st' = tr st
  | Fail _ => False
  | _ => True
  end.
Proof. destruct fuel as [|fuel]; [exact Logic.I|]. cbn [tcheck step_c]. apply arep_c_silent. Qed.

(* ---- 5c. pairs on the real path, directly: the components run one after the other on the same state;
        a failure hands on the state the failing component left (restoring is the enclosing node's job) -------- *)

Theorem tparse_pair_eq E fuel inh a b pos st :
  tparse E (S fuel) inh (TPair a b) pos st =
  match tparse E fuel inh a pos st with
  | Ok (p1, t1) st1 =>
      match tparse E fuel inh b p1 st1 with
      | Ok (p2, t2) st2 => Ok (p2, NPair t1 t2) st2
      | Fail st2 => Fail st2 | Panic => Panic | Fuel => Fuel
      end
  | Fail st1 => Fail st1 | Panic => Panic | Fuel => Fuel
  end.
Proof. reflexivity. Qed.

(* Option<T> on the real path never returns None -- for every environment, no premise *)
Theorem tparse_opt_never_fails E fuel inh e pos st st' : tparse E fuel inh (TOpt e) pos st <> Fail st'.
Proof.
  destruct fuel as [|fuel]; [discriminate|]. cbn [tparse step_p].
  destruct (ron E (tparse E fuel inh e pos) st) as [[p t] s|s| |]; discriminate.
Qed.

(* ---- 5d. transfer through the refinement theorems ---------------------------------------------------------- *)

Lemma rel_ok {X} gs (tp : res (nat * X)) ap p t st' :
  rel gs tp ap -> tp = Ok (p, t) st' -> ap = AOk (p, t) (cache (stk st')) /\ SInv (stk st') gs.
Proof.
  intros Hr ->. unfold rel in Hr. destruct ap as [[p' t'] s'| | |]; try contradiction.
  destruct Hr as (-> & -> & <- & Hi). split; [reflexivity|assumption].
Qed.

Lemma rel_fail {X} gs (tp : res (nat * X)) ap st' :
  rel gs tp ap -> tp = Fail st' -> ap = AFail /\ SInv (stk st') gs.
Proof.
  intros Hr ->. unfold rel in Hr. destruct ap as [[p' t'] s'| | |]; try contradiction.
  split; [reflexivity|assumption].
Qed.

(* what the two refinement theorems give, in one place: a success / failure of the real path is the same
   success / failure of the reference interpreter on the stack content *)
Theorem tparse_ok_aparse E : fixed E -> forall fuel inh e pos st gs p t st',
  SInv (stk st) gs ->
  aparse E fuel inh e pos (cache (stk st)) <> APanic ->
  tparse E fuel inh e pos st = Ok (p, t) st' ->
  aparse E fuel inh e pos (cache (stk st)) = AOk (p, t) (cache (stk st')) /\ SInv (stk st') gs.
Proof.
  intros HF fuel inh e pos st gs p t st' Hi Hn Ht.
  exact (rel_ok _ _ _ _ _ _ (tparse_refines_aparse E HF fuel inh e pos st gs Hi Hn) Ht).
Qed.

Theorem tparse_fail_aparse E : fixed E -> forall fuel inh e pos st gs st',
  SInv (stk st) gs ->
  aparse E fuel inh e pos (cache (stk st)) <> APanic ->
  tparse E fuel inh e pos st = Fail st' ->
  aparse E fuel inh e pos (cache (stk st)) = AFail /\ SInv (stk st') gs.
Proof.
  intros HF fuel inh e pos st gs st' Hi Hn Ht.
  exact (rel_fail _ _ _ _ (tparse_refines_aparse E HF fuel inh e pos st gs Hi Hn) Ht).
Qed.

Theorem tparse_ok_aparse_good E : fixed E -> env_ok E -> forall fuel inh e pos st gs p t st',
  lits_ok e -> pre (e_inp E) pos st gs ->
  tparse E fuel inh e pos st = Ok (p, t) st' ->
  aparse E fuel inh e pos (cache (stk st)) = AOk (p, t) (cache (stk st')) /\ SInv (stk st') gs.
Proof.
  intros HF HE fuel inh e pos st gs p t st' Hl Hpre Ht.
  exact (rel_ok _ _ _ _ _ _ (tparse_refines_aparse_good E HF HE fuel inh e pos st gs Hl Hpre) Ht).
Qed.

Theorem tparse_fail_aparse_good E : fixed E -> env_ok E -> forall fuel inh e pos st gs st',
  lits_ok e -> pre (e_inp E) pos st gs ->
  tparse E fuel inh e pos st = Fail st' ->
  aparse E fuel inh e pos (cache (stk st)) = AFail /\ SInv (stk st') gs.
Proof.
  intros HF HE fuel inh e pos st gs st' Hl Hpre Ht.
  exact (rel_fail _ _ _ _ (tparse_refines_aparse_good E HF HE fuel inh e pos st gs Hl Hpre) Ht).
Qed.

(* the characterisations as functions of "the reference run from the stack content c0 returned this" *)
Definition pair_ok_spec E fuel inh a b pos (c0 : list span) p t (c1 : list span) : Prop :=
  exists p1 ta s1 tb, t = NPair ta tb /\
    aparse E fuel inh a pos c0 = AOk (p1, ta) s1 /\ aparse E fuel inh b p1 s1 = AOk (p, tb) c1.

Definition pair_fail_spec E fuel inh a b pos (c0 : list span) : Prop :=
  aparse E fuel inh a pos c0 = AFail \/
  exists p1 ta s1, aparse E fuel inh a pos c0 = AOk (p1, ta) s1 /\ aparse E fuel inh b p1 s1 = AFail.

Definition opt_ok_spec E fuel inh e pos (c0 : list span) p t (c1 : list span) : Prop :=
  (exists t1, t = NOpt (Some t1) /\ aparse E fuel inh e pos c0 = AOk (p, t1) c1) \/
  (t = NOpt None /\ p = pos /\ c1 = c0 /\ aparse E fuel inh e pos c0 = AFail).

Definition atomic_rep_ok_spec E fuel inh e pos (c0 : list span) p t (c1 : list span) : Prop :=
  exists ts, t = NAtomicRep ts /\ length ts < fuel /\
    chain (aparse E fuel) inh e (length ts) pos c0 ts p c1 /\ aparse E fuel inh e p c1 = AFail.

Definition arr_ok_spec E fuel inh n e pos (c0 : list span) p t (c1 : list span) : Prop :=
  exists ts, t = NArr ts /\ length ts = n /\ chain (aparse E fuel) inh e n pos c0 ts p c1.

Definition arr_fail_spec E fuel inh n e pos (c0 : list span) : Prop :=
  exists k ts p' s', k < n /\ chain (aparse E fuel) inh e k pos c0 ts p' s' /\ aparse E fuel inh e p' s' = AFail.

Lemma aparse_opt_ok E fuel inh e pos c0 p t c1 :
  aparse E (S fuel) inh (TOpt e) pos c0 = AOk (p, t) c1 -> opt_ok_spec E fuel inh e pos c0 p t c1.
Proof.
  intros H. pose proof (aparse_opt_spec E fuel inh e pos c0) as Hs. rewrite H in Hs. exact Hs.
Qed.

Section Transfer.
  Variable E : env.
  Hypothesis HF : fixed E.

  (* -- under the no-panic premise of [tparse_refines_aparse] -- *)

  Theorem tparse_pair_ok fuel inh a b pos st gs p t st' :
    SInv (stk st) gs ->
    aparse E (S fuel) inh (TPair a b) pos (cache (stk st)) <> APanic ->
    tparse E (S fuel) inh (TPair a b) pos st = Ok (p, t) st' ->
    pair_ok_spec E fuel inh a b pos (cache (stk st)) p t (cache (stk st')).
  Proof.
    intros Hi Hn Ht. destruct (tparse_ok_aparse E HF _ _ _ _ _ _ _ _ _ Hi Hn Ht) as [Ha _].
    apply aparse_pair_ok_iff. exact Ha.
  Qed.

  Theorem tparse_pair_fail fuel inh a b pos st gs st' :
    SInv (stk st) gs ->
    aparse E (S fuel) inh (TPair a b) pos (cache (stk st)) <> APanic ->
    tparse E (S fuel) inh (TPair a b) pos st = Fail st' ->
    pair_fail_spec E fuel inh a b pos (cache (stk st)).
  Proof.
    intros Hi Hn Ht. destruct (tparse_fail_aparse E HF _ _ _ _ _ _ _ Hi Hn Ht) as [Ha _].
    apply aparse_pair_fail_iff. exact Ha.
  Qed.

  Theorem tparse_opt_ok fuel inh e pos st gs p t st' :
    SInv (stk st) gs ->
    aparse E (S fuel) inh (TOpt e) pos (cache (stk st)) <> APanic ->
    tparse E (S fuel) inh (TOpt e) pos st = Ok (p, t) st' ->
    opt_ok_spec E fuel inh e pos (cache (stk st)) p t (cache (stk st')).
  Proof.
    intros Hi Hn Ht. destruct (tparse_ok_aparse E HF _ _ _ _ _ _ _ _ _ Hi Hn Ht) as [Ha _].
    apply aparse_opt_ok. exact Ha.
  Qed.

  Theorem tparse_atomic_rep_ok fuel inh e pos st gs p t st' :
    SInv (stk st) gs ->
    aparse E (S fuel) inh (TAtomicRep e) pos (cache (stk st)) <> APanic ->
    tparse E (S fuel) inh (TAtomicRep e) pos st = Ok (p, t) st' ->
    atomic_rep_ok_spec E fuel inh e pos (cache (stk st)) p t (cache (stk st')) /\ tr st' = tr st.
  Proof.
    intros Hi Hn Ht. destruct (tparse_ok_aparse E HF _ _ _ _ _ _ _ _ _ Hi Hn Ht) as [Ha _]. split.
    - apply aparse_atomic_rep_ok_iff. exact Ha.
    - pose proof (tparse_atomic_rep_silent E (S fuel) inh e pos st) as Hs. rewrite Ht in Hs. exact Hs.
  Qed.

  Theorem tparse_arr_ok fuel inh n e pos st gs p t st' :
    SInv (stk st) gs ->
    aparse E (S fuel) inh (TArr n e) pos (cache (stk st)) <> APanic ->
    tparse E (S fuel) inh (TArr n e) pos st = Ok (p, t) st' ->
    arr_ok_spec E fuel inh n e pos (cache (stk st)) p t (cache (stk st')).
  Proof.
    intros Hi Hn Ht. destruct (tparse_ok_aparse E HF _ _ _ _ _ _ _ _ _ Hi Hn Ht) as [Ha _].
    apply aparse_arr_ok_iff. exact Ha.
  Qed.

  Theorem tparse_arr_fail fuel inh n e pos st gs st' :
    SInv (stk st) gs ->
    aparse E (S fuel) inh (TArr n e) pos (cache (stk st)) <> APanic ->
    tparse E (S fuel) inh (TArr n e) pos st = Fail st' ->
    arr_fail_spec E fuel inh n e pos (cache (stk st)).
  Proof.
    intros Hi Hn Ht. destruct (tparse_fail_aparse E HF _ _ _ _ _ _ _ Hi Hn Ht) as [Ha _].
    apply aparse_arr_fail_iff. exact Ha.
  Qed.

  (* -- under the premises of [tparse_refines_aparse_good]: valid UTF-8 input and literals, good cursor and
        state; no hypothesis about panics -- *)
  Hypothesis HE : env_ok E.

  Theorem tparse_pair_ok_good fuel inh a b pos st gs p t st' :
    lits_ok (TPair a b) -> pre (e_inp E) pos st gs ->
    tparse E (S fuel) inh (TPair a b) pos st = Ok (p, t) st' ->
    pair_ok_spec E fuel inh a b pos (cache (stk st)) p t (cache (stk st')).
  Proof.
    intros Hl Hpre Ht. destruct (tparse_ok_aparse_good E HF HE _ _ _ _ _ _ _ _ _ Hl Hpre Ht) as [Ha _].
    apply aparse_pair_ok_iff. exact Ha.
  Qed.

  Theorem tparse_pair_fail_good fuel inh a b pos st gs st' :
    lits_ok (TPair a b) -> pre (e_inp E) pos st gs ->
    tparse E (S fuel) inh (TPair a b) pos st = Fail st' ->
    pair_fail_spec E fuel inh a b pos (cache (stk st)).
  Proof.
    intros Hl Hpre Ht. destruct (tparse_fail_aparse_good E HF HE _ _ _ _ _ _ _ Hl Hpre Ht) as [Ha _].
    apply aparse_pair_fail_iff. exact Ha.
  Qed.

  Theorem tparse_opt_ok_good fuel inh e pos st gs p t st' :
    lits_ok (TOpt e) -> pre (e_inp E) pos st gs ->
    tparse E (S fuel) inh (TOpt e) pos st = Ok (p, t) st' ->
    opt_ok_spec E fuel inh e pos (cache (stk st)) p t (cache (stk st')).
  Proof.
    intros Hl Hpre Ht. destruct (tparse_ok_aparse_good E HF HE _ _ _ _ _ _ _ _ _ Hl Hpre Ht) as [Ha _].
    apply aparse_opt_ok. exact Ha.
  Qed.

  Theorem tparse_atomic_rep_ok_good fuel inh e pos st gs p t st' :
    lits_ok (TAtomicRep e) -> pre (e_inp E) pos st gs ->
    tparse E (S fuel) inh (TAtomicRep e) pos st = Ok (p, t) st' ->
    atomic_rep_ok_spec E fuel inh e pos (cache (stk st)) p t (cache (stk st')) /\ tr st' = tr st.
  Proof.
    intros Hl Hpre Ht. destruct (tparse_ok_aparse_good E HF HE _ _ _ _ _ _ _ _ _ Hl Hpre Ht) as [Ha _]. split.
    - apply aparse_atomic_rep_ok_iff. exact Ha.
    - pose proof (tparse_atomic_rep_silent E (S fuel) inh e pos st) as Hs. rewrite Ht in Hs. exact Hs.
  Qed.

  Theorem tparse_arr_ok_good fuel inh n e pos st gs p t st' :
    lits_ok (TArr n e) -> pre (e_inp E) pos st gs ->
    tparse E (S fuel) inh (TArr n e) pos st = Ok (p, t) st' ->
    arr_ok_spec E fuel inh n e pos (cache (stk st)) p t (cache (stk st')).
  Proof.
    intros Hl Hpre Ht. destruct (tparse_ok_aparse_good E HF HE _ _ _ _ _ _ _ _ _ Hl Hpre Ht) as [Ha _].
    apply aparse_arr_ok_iff. exact Ha.
  Qed.

  Theorem tparse_arr_fail_good fuel inh n e pos st gs st' :
    lits_ok (TArr n e) -> pre (e_inp E) pos st gs ->
    tparse E (S fuel) inh (TArr n e) pos st = Fail st' ->
    arr_fail_spec E fuel inh n e pos (cache (stk st)).
  Proof.
    intros Hl Hpre Ht. destruct (tparse_fail_aparse_good E HF HE _ _ _ _ _ _ _ Hl Hpre Ht) as [Ha _].
    apply aparse_arr_fail_iff. exact Ha.
  Qed.
End Transfer.

(* ======================================================================================================== *)
(* 6. examples on multi-byte input (U+00E9 = C3 A9, U+4E2D = E4 B8 AD)                                       *)
(* ======================================================================================================== *)

Definition x_e : list byte := [195; 169]%N.          (* "é" *)
Definition x_zh : list byte := [228; 184; 173]%N.    (* "中" *)

(* every rule is a normal rule matching "é" (so that running it records tracker events) *)
Definition x_env (s : list byte) : env :=
  mk_env (inp_of_str s) (fun _ => mk_rdef None EmBoth (TStr x_e)) SkipEmpty (fun _ _ => false) 0%N
         true true true.

(* SkipChar<3> on "éé": two characters only -- fails, both paths, nothing consumed *)
Example ex_skip3_short :
  aparse (x_env (x_e ++ x_e)) 5 true (TSkipChars 3) 0 [] = AFail /\
  tparse (x_env (x_e ++ x_e)) 5 true (TSkipChars 3) 0 st0 = Fail st0 /\
  tcheck (x_env (x_e ++ x_e)) 5 true (TSkipChars 3) 0 st0 = Fail st0.
Proof. vm_compute. repeat split. Qed.

(* SkipChar<3> on "éé中": consumes 2 + 2 + 3 = 7 bytes *)
Example ex_skip3_exact :
  aparse (x_env (x_e ++ x_e ++ x_zh)) 5 true (TSkipChars 3) 0 [] = AOk (7, NSpanned KSkipChar 0 7) [] /\
  tparse (x_env (x_e ++ x_e ++ x_zh)) 5 true (TSkipChars 3) 0 st0 = Ok (7, NSpanned KSkipChar 0 7) st0 /\
  tcheck (x_env (x_e ++ x_e ++ x_zh)) 5 true (TSkipChars 3) 0 st0 = Ok 7 st0 /\
  dec_n (x_e ++ x_e ++ x_zh) 3 = Some [(233%N, 2); (233%N, 2); (20013%N, 3)].
Proof. vm_compute. repeat split. Qed.

(* SkipChar<2> from the second character of "éé中x": bytes 2..7; the trailing "x" is not looked at *)
Example ex_skip2_mid :
  aparse (x_env (x_e ++ x_e ++ x_zh ++ [120%N])) 5 true (TSkipChars 2) 2 [] = AOk (7, NSpanned KSkipChar 2 7) [].
Proof. vm_compute. reflexivity. Qed.

(* SkipChar<0> always succeeds, consuming nothing, even at the end of the input *)
Example ex_skip0_end :
  aparse (x_env x_zh) 5 true (TSkipChars 0) 3 [] = AOk (3, NSpanned KSkipChar 3 3) [].
Proof. vm_compute. reflexivity. Qed.

(* ("é", ANY) on "é中": 2 + 3 bytes, nothing skipped in between *)
Example ex_pair_ok :
  aparse (x_env (x_e ++ x_zh)) 5 true (TPair (TStr x_e) TAny) 0 [] =
    AOk (5, NPair NStr (NChar CkAny 20013%N)) [] /\
  tparse (x_env (x_e ++ x_zh)) 5 true (TPair (TStr x_e) TAny) 0 st0 =
    Ok (5, NPair NStr (NChar CkAny 20013%N)) st0.
Proof. vm_compute. repeat split. Qed.

(* (PUSH("é"), "中") on "éé": the first component matches and pushes, the second fails: the pair fails; the
   real path hands on the state with the pushed span (restoring it is the enclosing node's job) *)
Example ex_pair_fail :
  aparse (x_env (x_e ++ x_e)) 5 true (TPair (TPush (TStr x_e)) (TStr x_zh)) 0 [] = AFail /\
  match tparse (x_env (x_e ++ x_e)) 5 true (TPair (TPush (TStr x_e)) (TStr x_zh)) 0 st0 with
  | Fail st' => cache (stk st') = [(0, 2)]
  | _ => False
  end.
Proof. vm_compute. repeat split. Qed.

(* Option<(PUSH("é"), "中")> on "éé": None, cursor 0, and the stack content is what it was (empty) *)
Example ex_opt_none :
  aparse (x_env (x_e ++ x_e)) 6 true (TOpt (TPair (TPush (TStr x_e)) (TStr x_zh))) 0 [] = AOk (0, NOpt None) [] /\
  match tparse (x_env (x_e ++ x_e)) 6 true (TOpt (TPair (TPush (TStr x_e)) (TStr x_zh))) 0 st0 with
  | Ok (p, t) st' => p = 0 /\ t = NOpt None /\ cache (stk st') = []
  | _ => False
  end.
Proof. vm_compute. repeat split. Qed.

(* Option<(PUSH("é"), "中")> on "é中": Some, 5 bytes, the pushed span stays *)
Example ex_opt_some :
  aparse (x_env (x_e ++ x_zh)) 6 true (TOpt (TPair (TPush (TStr x_e)) (TStr x_zh))) 0 [] =
    AOk (5, NOpt (Some (NPair (NPush NStr) NStr))) [(0, 2)] /\
  match tparse (x_env (x_e ++ x_zh)) 6 true (TOpt (TPair (TPush (TStr x_e)) (TStr x_zh))) 0 st0 with
  | Ok (p, t) st' => p = 5 /\ t = NOpt (Some (NPair (NPush NStr) NStr)) /\ cache (stk st') = [(0, 2)]
  | _ => False
  end.
Proof. vm_compute. repeat split. Qed.

(* AtomicRepeat<rule "é"> on "ééé中": the greedy run of three, 6 bytes; although every iteration runs a normal
   rule (which records enter/exit events), the tracker trace of the real path stays empty *)
Example ex_atomic_rep :
  aparse (x_env (x_e ++ x_e ++ x_e ++ x_zh)) 8 true (TAtomicRep (TRule 1%N SkOn)) 0 [] =
    AOk (6, NAtomicRep [NRule 1%N (Some NStr) (Some (0, 2)); NRule 1%N (Some NStr) (Some (2, 4));
                        NRule 1%N (Some NStr) (Some (4, 6))]) [] /\
  match tparse (x_env (x_e ++ x_e ++ x_e ++ x_zh)) 8 true (TAtomicRep (TRule 1%N SkOn)) 0 st0 with
  | Ok (p, NAtomicRep ts) st' => p = 6 /\ length ts = 3 /\ tr st' = [] /\ cache (stk st') = []
  | _ => False
  end /\
  (* the same rule outside AtomicRepeat does record events *)
  match tparse (x_env (x_e ++ x_e ++ x_e ++ x_zh)) 8 true (TRule 1%N SkOn) 0 st0 with
  | Ok _ st' => tr st' = [EExit 1%N 0 true; EEnter 1%N 0]
  | _ => False
  end.
Proof. vm_compute. repeat split. Qed.

(* AtomicRepeat on no match at all: the empty run, nothing consumed *)
Example ex_atomic_rep_empty :
  aparse (x_env x_zh) 8 true (TAtomicRep (TStr x_e)) 0 [] = AOk (0, NAtomicRep []) [].
Proof. vm_compute. reflexivity. Qed.

(* [ANY; 2] on "é中": 2 + 3 bytes; [ANY; 3] fails *)
Example ex_arr :
  aparse (x_env (x_e ++ x_zh)) 5 true (TArr 2 TAny) 0 [] =
    AOk (5, NArr [NChar CkAny 233%N; NChar CkAny 20013%N]) [] /\
  tparse (x_env (x_e ++ x_zh)) 5 true (TArr 2 TAny) 0 st0 =
    Ok (5, NArr [NChar CkAny 233%N; NChar CkAny 20013%N]) st0 /\
  aparse (x_env (x_e ++ x_zh)) 5 true (TArr 3 TAny) 0 [] = AFail.
Proof. vm_compute. repeat split. Qed.
