(* Proofs about the formatter model (C14). *)
From Coq Require Import List NArith Arith Bool Lia.
From PT Require Import Model.Base Model.Format Model.FormatSpec Proofs.FormatLinesProofs.
Import ListNotations.
Local Open Scope nat_scope.


(* ---- offsets of lines ----------------------------------------------------------------------- *)

(* byte offset at which line i of L begins (the total length from i = length L on) *)
Definition off (L : list (list byte)) (i : nat) : nat := length (concat (firstn i L)).

Lemma off_0 : forall L, off L 0 = 0.
Proof. reflexivity. Qed.

Lemma off_nil : forall i, off [] i = 0.
Proof. intros i. unfold off. rewrite firstn_nil. reflexivity. Qed.

Lemma off_cons : forall l r i, off (l :: r) (S i) = length l + off r i.
Proof. intros l r i. unfold off. cbn [firstn concat]. rewrite app_length. reflexivity. Qed.

Lemma off_all : forall L i, length L <= i -> off L i = length (concat L).
Proof. intros L i H. unfold off. rewrite firstn_all2 by exact H. reflexivity. Qed.

Lemma off_S : forall L i, i < length L -> off L (S i) = off L i + length (nth i L []).
Proof.
  induction L as [|l r IH]; intros i Hi; [cbn in Hi; lia|].
  destruct i as [|i].
  - rewrite off_cons, !off_0. cbn [nth]. lia.
  - rewrite !off_cons. cbn [nth]. cbn [length] in Hi. rewrite IH by lia. lia.
Qed.

Lemma off_mono : forall L i j, i <= j -> off L i <= off L j.
Proof.
  induction L as [|l r IH]; intros i j Hij.
  - rewrite !off_nil. lia.
  - destruct i as [|i]; [rewrite off_0; lia|].
    destruct j as [|j]; [lia|]. rewrite !off_cons. specialize (IH i j). lia.
Qed.

Lemma count_lf_app : forall x y, count_lf (x ++ y) = count_lf x + count_lf y.
Proof. intros x y. unfold count_lf. rewrite filter_app, app_length. reflexivity. Qed.

(* ---- the shape of the lines ------------------------------------------------------------------ *)

Inductive lines_ok : list (list byte) -> Prop :=
| lo_nil : lines_ok []
| lo_cons : forall l r,
    l <> [] ->
    (forall k, k < length l -> count_lf (firstn k l) = 0) ->
    (r <> [] -> count_lf l = 1) ->
    lines_ok r -> lines_ok (l :: r).

Lemma concat_split_incl : forall s, concat (split_incl s) = s.
Proof.
  induction s as [|b r IH]; [reflexivity|].
  cbn [split_incl]. destruct (b =? 10)%N.
  - cbn [concat app]. rewrite IH. reflexivity.
  - destruct (split_incl r) as [|l ls].
    + cbn in IH. subst r. reflexivity.
    + cbn [concat] in *. rewrite <- IH. reflexivity.
Qed.

Lemma split_incl_nonempty : forall s, s <> [] -> split_incl s <> [].
Proof.
  intros [|b r] H; [congruence|]. cbn [split_incl].
  destruct (b =? 10)%N; [discriminate|]. destruct (split_incl r); discriminate.
Qed.

Lemma split_incl_ok : forall s, lines_ok (split_incl s).
Proof.
  induction s as [|b r IH]; [constructor|].
  cbn [split_incl]. destruct (b =? 10)%N eqn:Hb.
  - constructor; [discriminate| | |exact IH].
    + intros k Hk. cbn in Hk. assert (k = 0) by lia. subst k. reflexivity.
    + intros _. unfold count_lf. cbn [filter]. unfold is_lfb. rewrite Hb. reflexivity.
  - destruct (split_incl r) as [|l ls].
    + constructor; [discriminate| |congruence|constructor].
      intros k Hk. cbn in Hk. assert (k = 0) by lia. subst k. reflexivity.
    + inversion IH as [|l' r' Hne Hpre Hcnt Hok]; subst.
      constructor; [discriminate| | |exact Hok].
      * intros k Hk. destruct k as [|k]; [reflexivity|].
        cbn [firstn]. unfold count_lf. cbn [filter]. unfold is_lfb at 1. rewrite Hb.
        apply Hpre. cbn [length] in Hk. lia.
      * intros Hr. unfold count_lf. cbn [filter]. unfold is_lfb at 1. rewrite Hb. apply Hcnt, Hr.
Qed.

(* ---- which line holds an offset -------------------------------------------------------------- *)

Lemma lines_ok_nth : forall L, lines_ok L -> forall i, i < length L -> nth i L [] <> [].
Proof.
  induction 1 as [|l r Hne Hpre Hcnt Hok IH]; intros i Hi; [cbn in Hi; lia|].
  destruct i as [|i]; [exact Hne|]. cbn [nth]. apply IH. cbn [length] in Hi. lia.
Qed.

Lemma off_lt_S : forall L i, lines_ok L -> i < length L -> off L i < off L (S i).
Proof.
  intros L i Hok Hi. rewrite off_S by exact Hi.
  pose proof (lines_ok_nth L Hok i Hi) as Hn. destruct (nth i L []); [congruence|cbn [length]; lia].
Qed.

(* the byte at offset k lies in line i  ->  i LF bytes precede it *)
Lemma count_in_line : forall L, lines_ok L -> forall i k,
  i < length L -> off L i <= k < off L (S i) -> count_lf (firstn k (concat L)) = i.
Proof.
  induction 1 as [|l r Hne Hpre Hcnt Hok IH]; intros i k Hi Hk; [cbn in Hi; lia|].
  cbn [concat]. rewrite firstn_app.
  destruct i as [|i].
  - rewrite off_0, off_cons, off_0 in Hk.
    replace (k - length l) with 0 by lia. cbn [firstn]. rewrite app_nil_r. apply Hpre. lia.
  - rewrite !off_cons in Hk. cbn [length] in Hi.
    rewrite firstn_all2 by lia. rewrite count_lf_app.
    rewrite Hcnt by (destruct r; [cbn in Hi; lia|discriminate]).
    rewrite IH with (i := i) by lia. reflexivity.
Qed.

(* line i is the one the two loops of display_span stop at for the offset x:
   the first line whose end is >= x *)
Definition holds (L : list (list byte)) (i x : nat) : Prop :=
  off L i <= x <= off L (S i) /\ (0 < i -> off L i < x).

Lemma holds_unique : forall L i j x, holds L i x -> holds L j x -> i = j.
Proof.
  intros L i j x [Hi Hi'] [Hj Hj'].
  destruct (Nat.lt_trichotomy i j) as [H|[H|H]]; [|exact H|].
  - pose proof (off_mono L (S i) j). lia.
  - pose proof (off_mono L (S j) i). lia.
Qed.

Lemma holds_count : forall L i x, lines_ok L -> i < length L -> holds L i x -> 0 < x ->
  count_lf (firstn (x - 1) (concat L)) = i.
Proof.
  intros L i x Hok Hi [Hx Hx'] Hpos. apply count_in_line; [exact Hok|exact Hi|].
  destruct i as [|i]; [rewrite off_0 in *; lia|]. specialize (Hx' ltac:(lia)). lia.
Qed.

Lemma holds_impl_line : forall s i x, s <> [] -> i < nlines s -> holds (split_incl s) i x -> i = impl_line s x.
Proof.
  intros s i x Hs Hi Hh. unfold impl_line. destruct (x =? 0) eqn:Hx.
  - apply Nat.eqb_eq in Hx. subst x. destruct Hh as [_ Hh]. destruct i; [reflexivity|]. specialize (Hh ltac:(lia)). lia.
  - apply Nat.eqb_neq in Hx. unfold line_idx. rewrite <- (concat_split_incl s) at 1.
    symmetry. apply holds_count; [apply split_incl_ok|exact Hi|exact Hh|lia].
Qed.

(* ---- the two locating loops ------------------------------------------------------------------ *)

Lemma find_start_char : forall L idx pos a,
  L <> [] -> pos <= a <= pos + length (concat L) ->
  exists i, i < length L /\
    find_start L idx pos a
      = ROk (Some (idx + i, a - (pos + off L i)), (skipn i L, idx + i, pos + off L i)) /\
    pos + off L i <= a <= pos + off L (S i) /\ (0 < i -> pos + off L i < a).
Proof.
  induction L as [|l r IH]; intros idx pos a Hne Ha; [congruence|].
  cbn [find_start]. destruct (a <=? pos + length l) eqn:Hc.
  - apply Nat.leb_le in Hc. exists 0. split; [cbn; lia|].
    rewrite off_0, off_cons, off_0. unfold csub.
    destruct (pos <=? a) eqn:Hp; [|apply Nat.leb_gt in Hp; lia].
    cbn [fbind skipn]. rewrite !Nat.add_0_r. split; [reflexivity|]. split; lia.
  - apply Nat.leb_gt in Hc. cbn [concat] in Ha. rewrite app_length in Ha.
    assert (Hr : r <> []) by (intros ->; cbn in Ha; lia).
    destruct (IH (S idx) (pos + length l) a Hr) as (i & Hi & Hf & Hb & Hlt); [lia|].
    exists (S i). split; [cbn; lia|]. rewrite Hf. rewrite !off_cons. cbn [skipn].
    replace (idx + S i) with (S idx + i) by lia.
    replace (pos + (length l + off r i)) with (pos + length l + off r i) by lia.
    split; [reflexivity|]. split; [lia|]. intros _.
    destruct i as [|i]; [rewrite off_0; lia|]. specialize (Hlt ltac:(lia)). lia.
Qed.

Lemma find_end_as_start : forall L idx pos b,
  find_end L idx pos b = fbind (find_start L idx pos b) (fun r => ROk (fst r)).
Proof.
  induction L as [|l r IH]; intros idx pos b; cbn [find_end find_start]; [reflexivity|].
  destruct (b <=? pos + length l); [|apply IH].
  unfold csub. destruct (pos <=? b); reflexivity.
Qed.

Lemma find_end_skip : forall i L idx pos b,
  i = 0 \/ pos + off L i < b ->
  find_end L idx pos b = find_end (skipn i L) (idx + i) (pos + off L i) b.
Proof.
  induction i as [|i IH]; intros L idx pos b H.
  - cbn [skipn]. rewrite off_0, !Nat.add_0_r. reflexivity.
  - destruct H as [H|H]; [discriminate|]. destruct L as [|l r].
    + cbn [skipn find_end]. reflexivity.
    + rewrite off_cons in H |- *. cbn [skipn find_end].
      destruct (b <=? pos + length l) eqn:Hc; [apply Nat.leb_le in Hc; lia|].
      rewrite (IH r (S idx) (pos + length l) b) by (right; lia).
      replace (idx + S i) with (S idx + i) by lia.
      replace (pos + (length l + off r i)) with (pos + length l + off r i) by lia.
      reflexivity.
Qed.

Lemma locate_span_char : forall L a b, L <> [] -> a <= b <= length (concat L) ->
  exists i j, i <= j /\ j < length L /\ holds L i a /\ holds L j b /\
    locate_span L a b = ROk ((i, a - off L i), (j, b - off L j)).
Proof.
  intros L a b Hne Hab. unfold locate_span.
  destruct (find_start_char L 0 0 a Hne) as (i & Hi & Hf & Hia & Hia'); [lia|].
  destruct (find_start_char L 0 0 b Hne) as (j & Hj & Hg & Hjb & Hjb'); [lia|].
  cbn [Nat.add] in *. rewrite Hf. cbn [fbind].
  assert (Hij : i <= j).
  { destruct (Nat.le_gt_cases i j) as [H|H]; [exact H|]. pose proof (off_mono L (S j) i). lia. }
  exists i, j. split; [exact Hij|]. split; [exact Hj|].
  split; [split; [lia|exact Hia']|]. split; [split; [lia|exact Hjb']|].
  pose proof (find_end_skip i L 0 0 b) as Hs. cbn [Nat.add] in Hs. rewrite <- Hs.
  - rewrite find_end_as_start, Hg. cbn [fbind fst]. reflexivity.
  - destruct i as [|i]; [left; reflexivity|right]. specialize (Hia' ltac:(lia)). lia.
Qed.

(* ---- char boundaries inside a line ------------------------------------------------------------ *)

Lemma is_boundary_inner : forall (pre cur post : list byte) c,
  c <= length cur -> is_boundary (pre ++ cur ++ post) (length pre + c) = true ->
  is_boundary cur c = true.
Proof.
  intros pre cur post c Hc H. unfold is_boundary in *.
  destruct c as [|c]; [reflexivity|].
  replace (length pre + S c =? 0) with false in H by (symmetry; apply Nat.eqb_neq; lia).
  change (S c =? 0) with false. cbn [orb] in *.
  destruct (nth_error cur (S c)) as [x|] eqn:Hn.
  - assert (Hlt : S c < length cur) by (apply nth_error_Some; congruence).
    rewrite nth_error_app2 in H by lia.
    replace (length pre + S c - length pre) with (S c) in H by lia.
    rewrite nth_error_app1 in H by lia. rewrite Hn in H. exact H.
  - apply nth_error_None in Hn. apply Nat.eqb_eq. lia.
Qed.

Lemma split_at_ok : forall (l : list byte) k, is_boundary l k = true -> k <= length l ->
  split_at l k = ROk (firstn k l, skipn k l).
Proof.
  intros l k Hb Hk. unfold split_at. rewrite Hb. apply Nat.leb_le in Hk. rewrite Hk. reflexivity.
Qed.

Lemma skipn_nth : forall (A : Type) (d : A) (L : list A) i, i < length L ->
  skipn i L = nth i L d :: skipn (S i) L.
Proof.
  intros A d. induction L as [|l r IH]; intros i Hi; [cbn in Hi; lia|].
  destruct i as [|i]; [reflexivity|]. cbn [skipn nth]. cbn [length] in Hi.
  rewrite IH by lia. destruct r; reflexivity.
Qed.

Lemma concat_decomp : forall (L : list (list byte)) i, i < length L ->
  concat L = concat (firstn i L) ++ nth i L [] ++ concat (skipn (S i) L).
Proof.
  intros L i Hi. rewrite <- (firstn_skipn i L) at 1. rewrite concat_app.
  rewrite (skipn_nth _ [] L i Hi). reflexivity.
Qed.

Lemma line_boundary : forall L i x, i < length L -> off L i <= x <= off L (S i) ->
  is_boundary (concat L) x = true -> is_boundary (nth i L []) (x - off L i) = true.
Proof.
  intros L i x Hi Hx Hb. rewrite off_S in Hx by exact Hi.
  rewrite (concat_decomp L i Hi) in Hb.
  apply is_boundary_inner with (pre := concat (firstn i L)) (post := concat (skipn (S i) L)); [lia|].
  fold (off L i). replace (off L i + (x - off L i)) with x by lia. exact Hb.
Qed.

(* ---- numbers ---------------------------------------------------------------------------------- *)

Lemma ceil_log10_ndigits : forall n, ceil_log10 n = ROk (ndigits n).
Proof.
  intros n. unfold ndigits. destruct (ceil_log10_ok n) as (d & Hd & _). rewrite Hd. reflexivity.
Qed.

Lemma fmt_num_text : forall d n, fmt_num d n = ROk (num_text d n).
Proof.
  intros d n. unfold num_text, fmt_num. destruct (digits_ok n) as (t & Ht & _). rewrite Ht. reflexivity.
Qed.

Lemma numrow_ok : forall d n, numrow d n = ROk [NumP (num_text d n); Raw SP; NumP [BAR]].
Proof. intros d n. unfold numrow. rewrite fmt_num_text. reflexivity. Qed.

Lemma csub_ok : forall x y, y <= x -> csub x y = ROk (x - y).
Proof. intros x y H. unfold csub. apply Nat.leb_le in H. rewrite H. reflexivity. Qed.

(* ---- list helpers ------------------------------------------------------------------------------ *)

Lemma nth_error_skipn_add : forall (A : Type) (L : list A) i k, nth_error (skipn i L) k = nth_error L (i + k).
Proof.
  intros A. induction L as [|l r IH]; intros i k.
  - rewrite skipn_nil. destruct k, i; reflexivity.
  - destruct i as [|i]; [reflexivity|]. cbn [skipn Nat.add nth_error]. apply IH.
Qed.

Lemma nth_error_firstn_lt : forall (A : Type) (L : list A) n k, k < n -> nth_error (firstn n L) k = nth_error L k.
Proof.
  intros A. induction L as [|l r IH]; intros n k Hk.
  - rewrite firstn_nil. reflexivity.
  - destruct n as [|n]; [lia|]. destruct k as [|k]; [reflexivity|]. cbn [firstn nth_error]. apply IH. lia.
Qed.

Lemma nth_error_nth_lt : forall (A : Type) (d : A) (L : list A) k, k < length L -> nth_error L k = Some (nth k L d).
Proof.
  intros A d. induction L as [|l r IH]; intros k Hk; [cbn in Hk; lia|].
  destruct k as [|k]; [reflexivity|]. cbn [nth_error nth]. apply IH. cbn [length] in Hk. lia.
Qed.

(* `lines[k]` of the selected lines *)
Lemma vidx_sel : forall (L : list (list byte)) i n k, k < n -> i + k < length L ->
  vidx (firstn n (skipn i L)) k = ROk (nth (i + k) L []).
Proof.
  intros L i n k Hk Hl. unfold vidx. rewrite nth_error_firstn_lt by exact Hk.
  rewrite nth_error_skipn_add. rewrite (nth_error_nth_lt _ [] L (i + k) Hl). reflexivity.
Qed.

Lemma last_firstn_S : forall (A : Type) (d : A) m (M : list A), m < length M -> last (firstn (S m) M) d = nth m M d.
Proof.
  intros A d. induction m as [|m IH]; intros M Hm.
  - destruct M as [|x r]; [cbn in Hm; lia|]. reflexivity.
  - destruct M as [|x r]; [cbn in Hm; lia|]. cbn [length] in Hm.
    specialize (IH r ltac:(lia)). cbn [nth]. rewrite <- IH.
    destruct r as [|y r']; [cbn in Hm; lia|]. reflexivity.
Qed.

Lemma nth_skipn_add : forall (A : Type) (d : A) (L : list A) i k, nth k (skipn i L) d = nth (i + k) L d.
Proof.
  intros A d. induction L as [|l r IH]; intros i k.
  - rewrite skipn_nil. destruct k, i; reflexivity.
  - destruct i as [|i]; [reflexivity|]. cbn [skipn Nat.add nth]. apply IH.
Qed.

Lemma vis_nil : vis [] = [].
Proof. reflexivity. Qed.

(* ---- the snippets, as rows and marker lines ---------------------------------------------------- *)

Ltac list_norm := repeat rewrite <- app_assoc; cbn [app].

Section Snippets.
Variable w : list char -> nat.

Lemma snippet_single_line_ok : forall d line f m l,
  snippet_single_line w d line f m l =
  ROk (gutter d ++ nl ++ render_row d (mk_row (S line) f m l)
       ++ marker_line d (w f) (repeat CARET (w m))).
Proof.
  intros d line f m l. unfold snippet_single_line, fapp, ok.
  replace (line + 1) with (S line) by lia. rewrite numrow_ok. cbn [fbind].
  unfold render_row, marker_line. cbn [r_num r_before r_in r_after].
  f_equal. list_norm. reflexivity.
Qed.

Lemma snippet_single_pos_ok : forall d line f l,
  snippet_single_pos w d line f l =
  ROk (gutter d ++ nl ++ render_pos_row d (mk_row (S line) f [] l)
       ++ marker_line d (w f) [CARET]).
Proof.
  intros d line f l. unfold snippet_single_pos, fapp, ok.
  replace (line + 1) with (S line) by lia. rewrite numrow_ok. cbn [fbind].
  unfold render_pos_row, marker_line. cbn [r_num r_before r_in r_after].
  f_equal. list_norm. reflexivity.
Qed.

Lemma full_covered_ok : forall d n c, full_covered d n c = ROk (render_row d (mk_row n [] c [])).
Proof.
  intros d n c. unfold full_covered, fapp, ok. rewrite numrow_ok. cbn [fbind].
  unfold render_row. cbn [r_num r_before r_in r_after raw map]. f_equal.
Qed.

Definition opt_row (d n : nat) (o : option (list char)) : list piece :=
  match o with Some c => render_row d (mk_row n [] c []) | None => [] end.

Lemma snippet_multi_line_ok : forall d sl sf sla el ef ela i0 i1 dots i3,
  snippet_multi_line w d sl sf sla el ef ela i0 i1 dots i3 =
  ROk (marker_line d (w sf) [VEE]
       ++ render_row d (mk_row (S sl) sf sla [])
       ++ opt_row d (sl + 2) i0
       ++ match i1 with
          | Some c => render_row d (mk_row (sl + 3) [] c [])
          | None => if dots then ellipsis_row d else []
          end
       ++ opt_row d el i3
       ++ render_row d (mk_row (S el) [] ef ela)
       ++ marker_line d (w ef - 1) [CARET]).
Proof.
  intros d sl sf sla el ef ela i0 i1 dots i3. unfold snippet_multi_line.
  replace (sl + 1) with (S sl) by lia. replace (el + 1) with (S el) by lia.
  assert (H0 : match i0 with Some l => full_covered d (sl + 2) l | None => ok [] end = ROk (opt_row d (sl + 2) i0))
    by (destruct i0; [apply full_covered_ok|reflexivity]).
  assert (H3 : match i3 with Some l => full_covered d el l | None => ok [] end = ROk (opt_row d el i3))
    by (destruct i3; [apply full_covered_ok|reflexivity]).
  assert (H1 : match i1 with
               | Some l => full_covered d (sl + 3) l
               | None => if dots then ok (gutter d ++ raw [SP; DOT; DOT; DOT] ++ nl) else ok []
               end = ROk (match i1 with
                          | Some c => render_row d (mk_row (sl + 3) [] c [])
                          | None => if dots then ellipsis_row d else []
                          end))
    by (destruct i1; [apply full_covered_ok|destruct dots; reflexivity]).
  rewrite H0, H1, H3, !numrow_ok. unfold fapp, ok. cbn [fbind].
  unfold render_row, marker_line. cbn [r_num r_before r_in r_after raw map].
  f_equal. list_norm. reflexivity.
Qed.

End Snippets.

(* ---- the rows of the specification, line by line --------------------------------------------- *)

Lemma row_single : forall s a b i, i < nlines s ->
  off (split_incl s) i <= a -> a <= b -> b <= off (split_incl s) (S i) ->
  row_of s a b i =
  mk_row (S i) (vis (firstn (a - off (split_incl s) i) (nth_line s i)))
         (vis (firstn ((b - off (split_incl s) i) - (a - off (split_incl s) i))
                      (skipn (a - off (split_incl s) i) (nth_line s i))))
         (vis (skipn (b - off (split_incl s) i) (nth_line s i))).
Proof.
  intros s a b i Hi Ha Hab Hb. unfold row_of. change (line_off s i) with (off (split_incl s) i).
  rewrite off_S in Hb by exact Hi. change (nth i (split_incl s) []) with (nth_line s i) in Hb.
  cbv zeta. rewrite Nat.max_l by lia. rewrite Nat.min_l by lia. reflexivity.
Qed.

Lemma row_first : forall s a b i, i < nlines s ->
  off (split_incl s) i <= a <= off (split_incl s) (S i) -> off (split_incl s) (S i) <= b ->
  row_of s a b i =
  mk_row (S i) (vis (firstn (a - off (split_incl s) i) (nth_line s i)))
         (vis (skipn (a - off (split_incl s) i) (nth_line s i))) [].
Proof.
  intros s a b i Hi Ha Hb. unfold row_of. change (line_off s i) with (off (split_incl s) i).
  rewrite off_S in Ha, Hb by exact Hi. change (nth i (split_incl s) []) with (nth_line s i) in Ha, Hb.
  cbv zeta. rewrite Nat.max_l by lia. rewrite Nat.min_r by lia.
  set (o := off (split_incl s) i) in *. set (l := nth_line s i) in *.
  replace (o + length l - o) with (length l) by lia.
  rewrite skipn_all. rewrite (firstn_all2 (skipn (a - o) l)) by (rewrite skipn_length; lia). reflexivity.
Qed.

Lemma row_mid : forall s a b k, k < nlines s ->
  a <= off (split_incl s) k -> off (split_incl s) (S k) <= b ->
  row_of s a b k = mk_row (S k) [] (vis (nth_line s k)) [].
Proof.
  intros s a b k Hk Ha Hb. unfold row_of. change (line_off s k) with (off (split_incl s) k).
  rewrite off_S in Hb by exact Hk. change (nth k (split_incl s) []) with (nth_line s k) in Hb.
  cbv zeta. rewrite Nat.max_r by lia. rewrite Nat.min_r by lia.
  set (o := off (split_incl s) k) in *. set (l := nth_line s k) in *.
  replace (o + length l - o) with (length l) by lia. rewrite Nat.sub_diag, Nat.sub_0_r.
  cbn [firstn skipn]. rewrite skipn_all, firstn_all. reflexivity.
Qed.

Lemma row_last : forall s a b j, j < nlines s ->
  a <= off (split_incl s) j -> off (split_incl s) j <= b <= off (split_incl s) (S j) ->
  row_of s a b j =
  mk_row (S j) [] (vis (firstn (b - off (split_incl s) j) (nth_line s j)))
         (vis (skipn (b - off (split_incl s) j) (nth_line s j))).
Proof.
  intros s a b j Hj Ha Hb. unfold row_of. change (line_off s j) with (off (split_incl s) j).
  rewrite off_S in Hb by exact Hj. change (nth j (split_incl s) []) with (nth_line s j) in Hb.
  cbv zeta. rewrite Nat.max_r by lia. rewrite Nat.min_l by lia.
  rewrite Nat.sub_diag, Nat.sub_0_r. cbn [firstn skipn]. reflexivity.
Qed.

(* ---- display_span once the two lines are located ------------------------------------------------ *)

Lemma fbind_if_vidx : forall (c : bool) (sel : list (list byte)) k x (K : option (list char) -> fr (list piece)),
  (c = true -> vidx sel k = ROk x) ->
  fbind (if c then fbind (vidx sel k) (fun l => ROk (Some (vis l))) else ROk None) K
  = K (if c then Some (vis x) else None).
Proof. intros c sel k x K H. destruct c; [rewrite H by reflexivity|]; reflexivity. Qed.

Lemma fbind_mid : forall (n : nat) (sel : list (list byte)) x (K : option (list char) * bool -> fr (list piece)),
  ((n =? 5) = true -> vidx sel 2 = ROk x) ->
  fbind (if 6 <=? n then ROk (None, true)
         else if n =? 5 then fbind (vidx sel 2) (fun l => ROk (Some (vis l), false))
         else ROk (None, false)) K
  = K (if 6 <=? n then (None, true) else if n =? 5 then (Some (vis x), false) else (None, false)).
Proof.
  intros n sel x K H. destruct (6 <=? n); [reflexivity|].
  destruct (n =? 5); [rewrite H by reflexivity|]; reflexivity.
Qed.

Lemma fbind_last : forall (c : bool) (n : nat) (sel : list (list byte)) x (K : option (list char) -> fr (list piece)),
  (c = true -> 2 <= n /\ vidx sel (n - 2) = ROk x) ->
  fbind (if c then fbind (csub n 2) (fun k => fbind (vidx sel k) (fun l => ROk (Some (vis l)))) else ROk None) K
  = K (if c then Some (vis x) else None).
Proof.
  intros c n sel x K H. destruct c; [|reflexivity].
  destruct (H eq_refl) as [H2 Hv]. rewrite csub_ok by exact H2. cbn [fbind]. rewrite Hv. reflexivity.
Qed.

Lemma row_mid' : forall s a b i j k, j < nlines s -> i < k < j ->
  a <= off (split_incl s) (S i) -> off (split_incl s) j < b ->
  row_of s a b k = mk_row (S k) [] (vis (nth_line s k)) [].
Proof.
  intros s a b i j k Hj Hk Ha Hb. apply row_mid; [lia| |].
  - pose proof (off_mono (split_incl s) (S i) k). lia.
  - pose proof (off_mono (split_incl s) (S k) j). lia.
Qed.

Lemma render_located_spec : forall w s a b i j,
  i <= j -> j < nlines s -> holds (split_incl s) i a -> holds (split_incl s) j b -> a <= b ->
  is_boundary s a = true -> is_boundary s b = true ->
  render_located w (split_incl s) i (a - off (split_incl s) i) j (b - off (split_incl s) j)
  = ROk (spec_span_at w s a b i j).
Proof.
  intros w s a b i j Hij Hj Hia Hjb Hab Ba Bb.
  assert (HsL : concat (split_incl s) = s) by apply concat_split_incl.
  assert (Hi : i < nlines s) by lia.
  unfold render_located. rewrite csub_ok by exact Hij. cbn [fbind].
  rewrite ceil_log10_ndigits. cbn [fbind]. cbv zeta.
  unfold spec_span_at.
  destruct Hia as [Hia Hia']. destruct Hjb as [Hjb Hjb'].
  destruct (i =? j) eqn:E.
  - apply Nat.eqb_eq in E. subst j. unfold nlines in Hj.
    replace (i - i + 1) with 1 by lia.
    rewrite (skipn_nth _ [] (split_incl s) i Hj). cbn [firstn].
    assert (HS : off (split_incl s) (S i) = off (split_incl s) i + length (nth i (split_incl s) []))
      by (apply off_S; exact Hj).
    rewrite split_at_ok; [|apply line_boundary; [exact Hj|lia|rewrite HsL; exact Bb]|lia].
    cbn [fbind fst snd].
    rewrite split_at_ok.
    + cbn [fbind fst snd]. rewrite snippet_single_line_ok.
      rewrite (row_single s a b i Hj) by lia. cbv zeta. cbn [r_before r_in].
      rewrite firstn_firstn, skipn_firstn_comm. rewrite Nat.min_l by lia. reflexivity.
    + apply is_boundary_inner with (pre := []) (post := skipn (b - off (split_incl s) i) (nth i (split_incl s) [])).
      * rewrite firstn_length. lia.
      * cbn [app length Nat.add]. rewrite firstn_skipn.
        apply line_boundary; [exact Hj|lia|rewrite HsL; exact Ba].
    + rewrite firstn_length. lia.
  - apply Nat.eqb_neq in E. assert (Hlt : i < j) by lia. unfold nlines in Hj, Hi.
    remember (firstn (j - i + 1) (skipn i (split_incl s))) as sel eqn:Esel.
    assert (Hlen : length sel = j - i + 1).
    { subst sel. rewrite firstn_length, skipn_length. lia. }
    assert (Hvidx : forall k, k < j - i + 1 -> vidx sel k = ROk (nth (i + k) (split_incl s) [])).
    { intros k Hk. subst sel. apply vidx_sel; lia. }
    assert (Hlast : forall d, last sel d = nth j (split_incl s) []).
    { intros d. subst sel. replace (j - i + 1) with (S (j - i)) by lia.
      rewrite last_firstn_S by (rewrite skipn_length; lia).
      rewrite nth_skipn_add. replace (i + (j - i)) with j by lia. apply nth_indep. exact Hj. }
    clear Esel.
    destruct sel as [|sline rest]; [cbn in Hlen; lia|].
    assert (Hs0 : sline = nth i (split_incl s) []).
    { specialize (Hvidx 0 ltac:(lia)). unfold vidx in Hvidx. cbn [nth_error] in Hvidx.
      rewrite Nat.add_0_r in Hvidx. congruence. }
    subst sline. rewrite Hlast, Hlen.
    assert (HSi : off (split_incl s) (S i) = off (split_incl s) i + length (nth i (split_incl s) []))
      by (apply off_S; exact Hi).
    assert (HSj : off (split_incl s) (S j) = off (split_incl s) j + length (nth j (split_incl s) []))
      by (apply off_S; exact Hj).
    pose proof (off_mono (split_incl s) (S i) j ltac:(lia)) as Hmono.
    specialize (Hjb' ltac:(lia)).
    rewrite split_at_ok; [|apply line_boundary; [exact Hi|lia|rewrite HsL; exact Ba]|lia].
    cbn [fbind fst snd].
    rewrite split_at_ok; [|apply line_boundary; [exact Hj|lia|rewrite HsL; exact Bb]|lia].
    cbn [fbind fst snd].
    rewrite (fbind_if_vidx _ _ 1 (nth (i + 1) (split_incl s) [])) by (intros _; apply Hvidx; lia).
    rewrite (fbind_mid _ _ (nth (i + 2) (split_incl s) [])) by (intros H5; apply Nat.eqb_eq in H5; apply Hvidx; lia).
    rewrite (fbind_last _ _ _ (nth (i + (j - i + 1 - 2)) (split_incl s) [])).
    2:{ intros H4. apply Nat.leb_le in H4. split; [lia|]. apply Hvidx. lia. }
    rewrite snippet_multi_line_ok. f_equal.
    rewrite (row_first s a b i Hi) by lia.
    rewrite (row_last s a b j Hj) by lia.
    cbn [r_before r_in app]. unfold nth_line.
    set (d := ndigits (j + 1)). clearbody d.
    assert (Hmid : forall k, i < k < j -> row_of s a b k = mk_row (S k) [] (vis (nth k (split_incl s) [])) []).
    { intros k Hk. apply (row_mid' s a b i j k); [exact Hj|exact Hk|lia|lia]. }
    clear Hlast Hvidx Hlen rest.
    destruct (Nat.le_gt_cases (i + 5) j) as [Hbig|Hsmall].
    { (* six lines or more: first two, ellipsis, last two *)
      assert (H3 : (3 <=? j - i + 1) = true) by (apply Nat.leb_le; lia).
      assert (H4 : (4 <=? j - i + 1) = true) by (apply Nat.leb_le; lia).
      assert (H6 : (6 <=? j - i + 1) = true) by (apply Nat.leb_le; lia).
      assert (H5 : (j - i + 1 <=? 5) = false) by (apply Nat.leb_gt; lia).
      unfold shown. rewrite H3, H4, H6, H5. cbn [fst snd flat_map app opt_row].
      rewrite (row_first s a b i Hi) by lia. rewrite (row_last s a b j Hj) by lia.
      rewrite (Hmid (i + 1)) by lia. rewrite (Hmid (j - 1)) by lia. unfold nth_line.
      replace (i + (j - i + 1 - 2)) with (j - 1) by lia.
      replace (S (j - 1)) with j by lia. replace (S (i + 1)) with (i + 2) by lia.
      list_norm. rewrite ?app_nil_r. reflexivity. }
    { assert (Hc : j = i + 1 \/ j = i + 2 \/ j = i + 3 \/ j = i + 4) by lia.
      destruct Hc as [Hc|[Hc|[Hc|Hc]]]; subst j.
      + replace (i + 1 - i + 1) with 2 by lia. unfold shown. replace (i + 1 - i + 1) with 2 by lia.
        cbn [Nat.leb Nat.eqb fst snd flat_map app opt_row seq].
        rewrite (row_first s a b i Hi) by lia. replace (S i) with (i + 1) by lia.
        rewrite (row_last s a b (i + 1) Hj) by lia. unfold nth_line.
        list_norm. rewrite ?app_nil_r. reflexivity.
      + replace (i + 2 - i + 1) with 3 by lia. unfold shown. replace (i + 2 - i + 1) with 3 by lia.
        cbn [Nat.leb Nat.eqb fst snd flat_map app opt_row seq].
        rewrite (row_first s a b i Hi) by lia. replace (S (S i)) with (i + 2) by lia.
        rewrite (row_last s a b (i + 2) Hj) by lia.
        replace (S i) with (i + 1) by lia. rewrite (Hmid (i + 1)) by lia. unfold nth_line.
        replace (S (i + 1)) with (i + 2) by lia.
        list_norm. rewrite ?app_nil_r. reflexivity.
      + replace (i + 3 - i + 1) with 4 by lia. unfold shown. replace (i + 3 - i + 1) with 4 by lia.
        cbn [Nat.leb Nat.eqb fst snd flat_map app opt_row seq].
        rewrite (row_first s a b i Hi) by lia. replace (S (S (S i))) with (i + 3) by lia.
        rewrite (row_last s a b (i + 3) Hj) by lia.
        replace (S (S i)) with (i + 2) by lia. rewrite (Hmid (i + 2)) by lia.
        replace (S i) with (i + 1) by lia. rewrite (Hmid (i + 1)) by lia. unfold nth_line.
        replace (S (i + 1)) with (i + 2) by lia. replace (S (i + 2)) with (i + 3) by lia.
        replace (i + (4 - 2)) with (i + 2) by lia.
        list_norm. rewrite ?app_nil_r. reflexivity.
      + replace (i + 4 - i + 1) with 5 by lia. unfold shown. replace (i + 4 - i + 1) with 5 by lia.
        cbn [Nat.leb Nat.eqb fst snd flat_map app opt_row seq].
        rewrite (row_first s a b i Hi) by lia. replace (S (S (S (S i)))) with (i + 4) by lia.
        rewrite (row_last s a b (i + 4) Hj) by lia.
        replace (S (S (S i))) with (i + 3) by lia. rewrite (Hmid (i + 3)) by lia.
        replace (S (S i)) with (i + 2) by lia. rewrite (Hmid (i + 2)) by lia.
        replace (S i) with (i + 1) by lia. rewrite (Hmid (i + 1)) by lia. unfold nth_line.
        replace (S (i + 1)) with (i + 2) by lia. replace (S (i + 2)) with (i + 3) by lia.
        replace (S (i + 3)) with (i + 4) by lia.
        replace (i + (5 - 2)) with (i + 3) by lia.
        list_norm. rewrite ?app_nil_r. reflexivity. }
Qed.

(* ---- display_span ------------------------------------------------------------------------------ *)

Lemma valid_span_unpack : forall s a b, fmt_valid_span s a b = true ->
  a <= b /\ b <= length s /\ is_boundary s a = true /\ is_boundary s b = true.
Proof.
  intros s a b H. unfold fmt_valid_span in H.
  apply andb_true_iff in H. destruct H as [H Bb].
  apply andb_true_iff in H. destruct H as [H Ba].
  apply andb_true_iff in H. destruct H as [H1 H2].
  apply Nat.leb_le in H1. apply Nat.leb_le in H2. auto.
Qed.

(* the code (as found and as repaired) always renders from the line holding the byte before `start`
   to the line holding the byte before `end` *)
Theorem display_span_spec : forall w fixA s a b,
  lf_cuts s -> s <> [] -> fmt_valid_span s a b = true ->
  display_span w fixA s a b = ROk (spec_span_at w s a b (impl_line s a) (impl_line s b)).
Proof.
  intros w fixA s a b Hcut Hs Hv.
  destruct (valid_span_unpack s a b Hv) as (Hab & Hb & Ba & Bb).
  unfold display_span.
  assert (Hl : (length s =? 0) = false) by (apply Nat.eqb_neq; destruct s; [congruence|cbn; lia]).
  rewrite Hl, andb_false_r. rewrite (lines_full_lf_cuts s Hcut). cbn [fbind].
  assert (Hne : split_incl s <> []) by (apply split_incl_nonempty; exact Hs).
  destruct (locate_span_char (split_incl s) a b Hne) as (i & j & Hij & Hj & Hia & Hjb & Hloc).
  { rewrite concat_split_incl. lia. }
  rewrite Hloc. cbn [fbind fst snd].
  rewrite render_located_spec by assumption.
  rewrite <- (holds_impl_line s i a) by (unfold nlines; assumption || lia).
  rewrite <- (holds_impl_line s j b) by (unfold nlines; assumption).
  reflexivity.
Qed.

Lemma firstn_S_nth : forall (A : Type) (d : A) (l : list A) k, k < length l ->
  firstn (S k) l = firstn k l ++ [nth k l d].
Proof.
  intros A d. induction l as [|x r IH]; intros k Hk; [cbn in Hk; lia|].
  destruct k as [|k]; [reflexivity|]. rewrite !firstn_cons. cbn [nth]. cbn [length] in Hk. rewrite (IH k) by lia. reflexivity.
Qed.

Lemma last_line_count : forall s, s <> [] -> count_lf (firstn (length s - 1) s) = nlines s - 1.
Proof.
  intros s Hs. pose proof (split_incl_nonempty s Hs) as Hne.
  pose proof (split_incl_ok s) as Hok. unfold nlines.
  assert (Hn : 0 < length (split_incl s)) by (destruct (split_incl s); [congruence|cbn; lia]).
  rewrite <- (concat_split_incl s) at 2.
  apply count_in_line; [exact Hok|lia|].
  pose proof (off_lt_S (split_incl s) (length (split_incl s) - 1) Hok ltac:(lia)) as Hlt.
  replace (S (length (split_incl s) - 1)) with (length (split_incl s)) in * by lia.
  rewrite (off_all (split_incl s) (length (split_incl s))) in * by lia.
  rewrite concat_split_incl in *. lia.
Qed.

Lemma impl_line_cursor : forall s a, s <> [] -> a <= length s -> starts_at_line_start s a = false ->
  impl_line s a = cursor_line s a.
Proof.
  intros s a Hs Ha Hx. unfold impl_line, cursor_line.
  assert (Hlen : 0 < length s) by (destruct s; [congruence|cbn; lia]).
  destruct (a =? 0) eqn:E0.
  - apply Nat.eqb_eq in E0. subst a. apply Nat.ltb_lt in Hlen. rewrite Hlen. reflexivity.
  - apply Nat.eqb_neq in E0. destruct (a <? length s) eqn:El.
    + apply Nat.ltb_lt in El. unfold line_idx.
      assert (Hfa : firstn a s = firstn (a - 1) s ++ [nth (a - 1) s 0%N]).
      { rewrite <- firstn_S_nth by lia. f_equal. lia. }
      rewrite Hfa, count_lf_app.
      unfold starts_at_line_start in Hx.
      assert (H1 : (0 <? a) = true) by (apply Nat.ltb_lt; lia).
      assert (H2 : (a <? length s) = true) by (apply Nat.ltb_lt; lia).
      rewrite H1, H2 in Hx. cbn [andb] in Hx.
      assert (H0 : count_lf [nth (a - 1) s 0%N] = 0).
      { unfold count_lf. cbn [filter]. unfold is_lfb. rewrite Hx. reflexivity. }
      rewrite H0. lia.
    + apply Nat.ltb_ge in El. assert (a = length s) by lia. subst a. unfold line_idx.
      apply last_line_count. exact Hs.
Qed.

(* outside the line-start class the rows are the ones the statement asks for *)
Theorem display_span_rows : forall w fixA s a b,
  lf_cuts s -> s <> [] -> fmt_valid_span s a b = true -> starts_at_line_start s a = false ->
  display_span w fixA s a b = ROk (spec_span w s a b).
Proof.
  intros w fixA s a b Hcut Hs Hv Hx.
  destruct (valid_span_unpack s a b Hv) as (Hab & Hb & Ba & Bb).
  rewrite display_span_spec by assumption.
  unfold spec_span. destruct s as [|x r] eqn:Es; [congruence|]. rewrite <- Es in *.
  unfold first_line, last_line.
  rewrite (impl_line_cursor s a) by (assumption || lia).
  destruct (a <? b) eqn:Elt.
  - apply Nat.ltb_lt in Elt. unfold impl_line at 1.
    replace (b =? 0) with false by (symmetry; apply Nat.eqb_neq; lia). reflexivity.
  - apply Nat.ltb_ge in Elt. assert (b = a) by lia. subst b.
    rewrite (impl_line_cursor s a) by (assumption || lia). reflexivity.
Qed.

Theorem display_span_empty_fixed : forall w a b, display_span w true [] a b = ROk (spec_span w [] a b).
Proof. reflexivity. Qed.

(* ---- display_position ---------------------------------------------------------------------------- *)

Lemma lines_ok_concat_pos : forall L, lines_ok L -> L <> [] -> 0 < length (concat L).
Proof.
  intros L Hok Hne. destruct Hok as [|l r Hl _ _ _]; [congruence|].
  cbn [concat]. rewrite app_length. destruct l; [congruence|cbn [length]; lia].
Qed.

Lemma pos_loop_char : forall w L, lines_ok L -> forall idx pos p total fixC,
  L <> [] -> total = pos + length (concat L) -> pos <= p <= total -> (p < total \/ fixC = true) ->
  exists i, i < length L /\ pos + off L i <= p /\
    (p < pos + off L (S i) \/ (p = total /\ S i = length L)) /\
    pos_loop w fixC total L idx pos p =
      fbind (ceil_log10 (idx + i + 1)) (fun d =>
      fbind (split_at (nth i L []) (p - (pos + off L i))) (fun pr =>
      snippet_single_pos w d (idx + i) (vis (fst pr)) (vis (snd pr)))).
Proof.
  intros w L Hok. induction Hok as [|l r Hl Hpre Hcnt Hok IH]; intros idx pos p total fixC Hne Ht Hp Hc; [congruence|].
  cbn [pos_loop]. cbn [concat] in Ht. rewrite app_length in Ht.
  destruct (p <? pos + length l) eqn:E1.
  - apply Nat.ltb_lt in E1. cbn [orb]. exists 0. split; [cbn; lia|].
    rewrite off_0, off_cons, off_0, !Nat.add_0_r. split; [lia|]. split; [left; lia|].
    rewrite csub_ok by lia. reflexivity.
  - apply Nat.ltb_ge in E1. cbn [orb]. destruct r as [|l2 r2].
    + cbn [concat length] in Ht. assert (Hpt : p = total) by lia.
      destruct Hc as [Hc|Hc]; [lia|]. subst fixC.
      replace (pos + length l =? total) with true by (symmetry; apply Nat.eqb_eq; lia). cbn [andb].
      exists 0. split; [cbn; lia|]. rewrite off_0, !Nat.add_0_r. split; [lia|]. split; [right; split; [exact Hpt|reflexivity]|].
      rewrite csub_ok by lia. reflexivity.
    + pose proof (lines_ok_concat_pos (l2 :: r2) Hok ltac:(discriminate)) as Hpos.
      replace (pos + length l =? total) with false by (symmetry; apply Nat.eqb_neq; lia).
      rewrite andb_false_r.
      destruct (IH (S idx) (pos + length l) p total fixC ltac:(discriminate) ltac:(lia) ltac:(lia) Hc)
        as (i & Hi & Hlo & Hhi & Heq).
      exists (S i). split; [cbn [length] in *; lia|].
      rewrite (off_cons l (l2 :: r2) i), (off_cons l (l2 :: r2) (S i)). cbn [nth].
      split; [lia|]. split.
      * destruct Hhi as [Hhi|[Hhi1 Hhi2]]; [left; lia|right; split; [exact Hhi1|cbn [length] in *; lia]].
      * rewrite Heq. replace (S idx + i) with (idx + S i) by lia.
        replace (pos + length l + off (l2 :: r2) i) with (pos + (length l + off (l2 :: r2) i)) by lia.
        reflexivity.
Qed.

Lemma valid_pos_unpack : forall s p, fmt_valid_pos s p = true -> p <= length s /\ is_boundary s p = true.
Proof.
  intros s p H. unfold fmt_valid_pos in H. apply andb_true_iff in H. destruct H as [H1 H2].
  apply Nat.leb_le in H1. auto.
Qed.

(* a Position inside the input (and, with the repair, at its end) shows the row the statement asks for *)
Theorem display_position_rows : forall w fixC s p,
  lf_cuts s -> s <> [] -> fmt_valid_pos s p = true -> (p < length s \/ fixC = true) ->
  display_position w fixC s p = ROk (spec_pos w s p).
Proof.
  intros w fixC s p Hcut Hs Hv Hc. destruct (valid_pos_unpack s p Hv) as [Hp Bp].
  unfold display_position. rewrite (lines_full_lf_cuts s Hcut). cbn [fbind].
  pose proof (split_incl_ok s) as Hok.
  pose proof (split_incl_nonempty s Hs) as Hne.
  assert (HsL : concat (split_incl s) = s) by apply concat_split_incl.
  destruct (pos_loop_char w (split_incl s) Hok 0 0 p (length s) fixC Hne) as (i & Hi & Hlo & Hhi & Heq).
  { rewrite HsL. reflexivity. } { lia. } { exact Hc. }
  cbn [Nat.add] in *. rewrite Heq. clear Heq.
  rewrite ceil_log10_ndigits. cbn [fbind].
  assert (HS : off (split_incl s) (S i) = off (split_incl s) i + length (nth i (split_incl s) []))
    by (apply off_S; exact Hi).
  assert (Hup : p <= off (split_incl s) (S i)).
  { destruct Hhi as [Hhi|[Hhi1 Hhi2]]; [lia|]. rewrite Hhi2, off_all, HsL by lia. lia. }
  rewrite split_at_ok; [|apply line_boundary; [exact Hi|lia|rewrite HsL; exact Bp]|lia].
  cbn [fbind fst snd]. rewrite snippet_single_pos_ok.
  unfold spec_pos. destruct s as [|x r] eqn:Es; [congruence|]. rewrite <- Es in *.
  assert (Hcl : cursor_line s p = i).
  { unfold cursor_line. destruct Hhi as [Hhi|[Hhi1 Hhi2]].
    - assert (Hlt : p < length s).
      { pose proof (off_mono (split_incl s) (S i) (length (split_incl s)) ltac:(lia)) as Hm.
        rewrite (off_all (split_incl s) (length (split_incl s))), HsL in Hm by lia. lia. }
      apply Nat.ltb_lt in Hlt. rewrite Hlt. unfold line_idx. rewrite <- HsL at 1.
      apply count_in_line; [exact Hok|exact Hi|lia].
    - subst p. rewrite Nat.ltb_irrefl. unfold nlines. lia. }
  rewrite Hcl. unfold spec_pos_at.
  rewrite (row_single s p p i) by (unfold nlines; lia || assumption).
  cbn [r_before]. rewrite Nat.sub_diag. cbn [firstn]. rewrite vis_nil. unfold nth_line.
  replace (i + 1) with (S i) by lia. reflexivity.
Qed.

(* the code as found prints nothing at end of input *)
Lemma pos_loop_nothing : forall w L idx pos p total, pos + length (concat L) <= p ->
  pos_loop w false total L idx pos p = ROk [].
Proof.
  intros w. induction L as [|l r IH]; intros idx pos p total Hp; [reflexivity|].
  cbn [pos_loop]. cbn [concat] in Hp. rewrite app_length in Hp.
  replace (p <? pos + length l) with false by (symmetry; apply Nat.ltb_ge; lia).
  cbn [orb andb]. apply IH. lia.
Qed.

Theorem display_position_eof_nothing : forall w s, lf_cuts s -> display_position w false s (length s) = ROk [].
Proof.
  intros w s Hcut. unfold display_position. rewrite (lines_full_lf_cuts s Hcut). cbn [fbind].
  apply pos_loop_nothing. rewrite concat_split_incl. lia.
Qed.

Theorem display_position_empty : forall w fixC p, display_position w fixC [] p = ROk (spec_pos w [] p).
Proof. intros w fixC p. reflexivity. Qed.

(* ---- C14, stated for UTF-8 strings `encode cs` --------------------------------------------------- *)

(* totality, code as found: every valid span of a non-empty input *)
Theorem total_span_as_found : forall (w : list char -> nat) cs a b,
  valid_str cs -> encode cs <> [] -> fmt_valid_span (encode cs) a b = true ->
  exists ps, display_span w false (encode cs) a b = ROk ps.
Proof.
  intros w cs a b _ Hne Hv. eexists. apply display_span_spec; [apply encode_lf_cuts|exact Hne|exact Hv].
Qed.

(* totality, repaired code (proposed_fixes/C14-F4a.diff): every valid span of every input *)
Theorem total_span_repaired : forall (w : list char -> nat) cs a b,
  valid_str cs -> fmt_valid_span (encode cs) a b = true ->
  exists ps, display_span w true (encode cs) a b = ROk ps.
Proof.
  intros w cs a b _ Hv. destruct (encode cs) as [|x r] eqn:E.
  - eexists. reflexivity.
  - rewrite <- E in *. eexists. apply display_span_spec; [apply encode_lf_cuts|congruence|exact Hv].
Qed.

(* totality of display_position, as found and repaired, every input *)
Theorem total_position : forall (w : list char -> nat) fixC cs p,
  valid_str cs -> fmt_valid_pos (encode cs) p = true ->
  exists ps, display_position w fixC (encode cs) p = ROk ps.
Proof.
  intros w fixC cs p _ Hv. destruct (encode cs) as [|x r] eqn:E.
  - eexists. reflexivity.
  - rewrite <- E in *. destruct (valid_pos_unpack _ _ Hv) as [Hp _].
    destruct fixC.
    + eexists. apply display_position_rows; [apply encode_lf_cuts|congruence|exact Hv|right; reflexivity].
    + destruct (Nat.eq_dec p (length (encode cs))) as [->|Hn].
      * eexists. apply display_position_eof_nothing. apply encode_lf_cuts.
      * eexists. apply display_position_rows; [apply encode_lf_cuts|congruence|exact Hv|left; lia].
Qed.

(* what the code shows for every valid span (as found and repaired): the rows from the line holding the
   byte before `start` to the line holding the byte before `end` *)
Theorem span_lines_of_the_code : forall (w : list char -> nat) fixA cs a b,
  valid_str cs -> encode cs <> [] -> fmt_valid_span (encode cs) a b = true ->
  display_span w fixA (encode cs) a b
  = ROk (spec_span_at w (encode cs) a b (impl_line (encode cs) a) (impl_line (encode cs) b)).
Proof.
  intros w fixA cs a b _ Hne Hv. apply display_span_spec; [apply encode_lf_cuts|exact Hne|exact Hv].
Qed.

(* rows, numbers, texts and marker columns are the demanded ones outside the line-start class *)
Theorem rows_span_partial : forall (w : list char -> nat) fixA cs a b,
  valid_str cs -> encode cs <> [] -> fmt_valid_span (encode cs) a b = true ->
  starts_at_line_start (encode cs) a = false ->
  display_span w fixA (encode cs) a b = ROk (spec_span w (encode cs) a b).
Proof.
  intros w fixA cs a b _ Hne Hv Hx. apply display_span_rows; [apply encode_lf_cuts|exact Hne|exact Hv|exact Hx].
Qed.

Theorem rows_position_partial : forall (w : list char -> nat) fixC cs p,
  valid_str cs -> fmt_valid_pos (encode cs) p = true ->
  p < length (encode cs) \/ fixC = true ->
  display_position w fixC (encode cs) p = ROk (spec_pos w (encode cs) p).
Proof.
  intros w fixC cs p _ Hv Hc. destruct (encode cs) as [|x r] eqn:E.
  - reflexivity.
  - rewrite <- E in *. apply display_position_rows; [apply encode_lf_cuts|congruence|exact Hv|exact Hc].
Qed.

Theorem position_eof_as_found : forall (w : list char -> nat) cs,
  valid_str cs -> display_position w false (encode cs) (length (encode cs)) = ROk [].
Proof. intros w cs _. apply display_position_eof_nothing. apply encode_lf_cuts. Qed.

(* every member of the line-start class deviates: the first row shown is the line before the demanded one *)
Theorem linestart_off_by_one : forall cs a,
  valid_str cs -> a <= length (encode cs) -> starts_at_line_start (encode cs) a = true ->
  cursor_line (encode cs) a = S (impl_line (encode cs) a).
Proof.
  intros cs a _ Ha Hx. set (s := encode cs) in *. unfold starts_at_line_start in Hx.
  apply andb_true_iff in Hx. destruct Hx as [Hx H3]. apply andb_true_iff in Hx. destruct Hx as [H1 H2].
  apply Nat.ltb_lt in H1. unfold cursor_line, impl_line. rewrite H2. apply Nat.ltb_lt in H2.
  replace (a =? 0) with false by (symmetry; apply Nat.eqb_neq; lia).
  unfold line_idx.
  assert (Hfa : firstn a s = firstn (a - 1) s ++ [nth (a - 1) s 0%N]).
  { rewrite <- firstn_S_nth by lia. f_equal. lia. }
  rewrite Hfa, count_lf_app.
  assert (H0 : count_lf [nth (a - 1) s 0%N] = 1).
  { unfold count_lf. cbn [filter]. unfold is_lfb. rewrite H3. reflexivity. }
  rewrite H0. lia.
Qed.

(* ---- witnesses: where the code as found deviates from the statement ------------------------- *)

Definition w1 : list char -> nat := fun t => length t.

(* F4a: Span::new("", 0, 0) *)
Lemma display_span_empty_panics :
  exists (w : list char -> nat) (s : list byte) (a b : nat),
    fmt_valid_span s a b = true /\ display_span w false s a b = RPanic.
Proof. exists w1, [], 0, 0. split; vm_compute; reflexivity. Qed.

(* F4b: Span::new("a\nb", 2, 3) is rendered from line 1 *)
Lemma display_span_linestart_deviates :
  exists (w : list char -> nat) (s : list byte) (a b : nat),
    fmt_valid_span s a b = true /\ starts_at_line_start s a = true /\
    display_span w false s a b <> ROk (spec_span w s a b).
Proof.
  exists w1, [97; 10; 98]%N, 2, 3. split; [vm_compute; reflexivity|].
  split; [vm_compute; reflexivity|]. vm_compute. discriminate.
Qed.

(* F4c: Position::new("a", 1) renders nothing *)
Lemma display_position_eof_deviates :
  exists (w : list char -> nat) (s : list byte) (p : nat),
    fmt_valid_pos s p = true /\ p = length s /\
    display_position w false s p = ROk [] /\ spec_pos w s p <> [].
Proof.
  exists w1, [97]%N, 1. split; [vm_compute; reflexivity|].
  split; [reflexivity|]. split; vm_compute; [reflexivity|discriminate].
Qed.
