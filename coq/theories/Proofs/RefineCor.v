(* Corollaries of the refinement theorem and facts about the reference interpreter used by C05. *)
From Coq Require Import List NArith ZArith Arith Bool Lia.
From PT Require Import Model.Base Model.Stack Model.Texpr Model.SliceSpec Model.Sem Model.Aparse.
From PT Require Import Proofs.StackInv Proofs.CheckParse Proofs.Refine.
Import ListNotations.

(* entry point: a fresh stack satisfies the invariant *)
Theorem try_parse_partial_refines E fuel r :
  fixed E ->
  aparse E fuel true (TRule r SkOn) (i_start (e_inp E)) [] <> APanic ->
  rel [] (try_parse_partial E fuel r) (aparse E fuel true (TRule r SkOn) (i_start (e_inp E)) []).
Proof.
  intros HF Hn. unfold try_parse_partial.
  apply (tparse_refines_aparse E HF fuel true (TRule r SkOn) (i_start (e_inp E)) st0 []); [exact I|exact Hn].
Qed.

(* predicates give the stack back, and consume nothing, also when their operand matches *)
Lemma aparse_pos_restores E fuel inh e pos stk p t stk' :
  aparse E fuel inh (TPos e) pos stk = AOk (p, t) stk' -> p = pos /\ stk' = stk.
Proof.
  destruct fuel as [|n]; cbn [aparse a_step]; [discriminate|].
  destruct (aparse E n inh e pos stk) as [[p1 t1] s1| | |]; intros H; inversion H; subst; split; reflexivity.
Qed.

Lemma aparse_neg_restores E fuel inh e pos stk p t stk' :
  aparse E fuel inh (TNeg e) pos stk = AOk (p, t) stk' -> p = pos /\ stk' = stk.
Proof.
  destruct fuel as [|n]; cbn [aparse a_step]; [discriminate|].
  destruct (aparse E n inh e pos stk) as [[p1 t1] s1| | |]; intros H; inversion H; subst; split; reflexivity.
Qed.

(* concrete statement for the real stack: after a predicate the cache is the one before *)
Theorem pred_restores E : fixed E -> forall fuel inh e pos st gs p t st',
  SInv (stk st) gs ->
  aparse E fuel inh (TPos e) pos (cache (stk st)) <> APanic ->
  tparse E fuel inh (TPos e) pos st = Ok (p, t) st' ->
  p = pos /\ cache (stk st') = cache (stk st) /\ SInv (stk st') gs.
Proof.
  intros HF fuel inh e pos st gs p t st' Hi Hn Ht.
  pose proof (tparse_refines_aparse E HF fuel inh (TPos e) pos st gs Hi Hn) as Hr.
  rewrite Ht in Hr. unfold rel in Hr.
  destruct (aparse E fuel inh (TPos e) pos (cache (stk st))) as [[p' t'] stk'| | |] eqn:Ha; try tauto.
  destruct Hr as (-> & -> & Hc & Hi').
  destruct (aparse_pos_restores _ _ _ _ _ _ _ _ _ Ha) as [-> ->]. tauto.
Qed.

(* ---- the unrepaired restore_on_none (snapshot / clear_snapshot / restore) does not refine ---- *)

Definition w_env (ron_fixed : bool) (input : list byte) : env :=
  mk_env (inp_of_str input) (fun _ => mk_rdef None EmBoth TFail) SkipEmpty (fun _ _ => false) 0%N
         ron_fixed true true.

(* PUSH("a") ~ ((POP? ~ "x") | "") ~ PEEK *)
Definition w_expr : texpr :=
  TSeq SkOff [TPush (TStr [97%N]); TChoice [TSeq SkOff [TOpt TPop; TStr [120%N]]; TStr []]; TPeek].

Definition is_fail {A} (r : res A) : bool := match r with Fail _ => true | _ => false end.
Definition is_aok {A} (r : ares A) : bool := match r with AOk _ _ => true | _ => false end.

Lemma unrepaired_loses_pop :
  is_fail (tparse (w_env false [97; 97]%N) 20 true w_expr 0 st0) = true /\
  is_aok (aparse (w_env false [97; 97]%N) 20 true w_expr 0 []) = true.
Proof. vm_compute. split; reflexivity. Qed.

(* the same input on the repaired code: accepted, offset 2, as the reference says *)
Example repaired_accepts :
  match tparse (w_env true [97; 97]%N) 20 true w_expr 0 st0 with
  | Ok (p, _) st' => p = 2 /\ cache (stk st') = [(0, 1)]
  | _ => False
  end.
Proof. vm_compute. split; reflexivity. Qed.

(* the hypotheses of the refinement theorem are met by a non-trivial run *)
Example refinement_premises_hold :
  fixed (w_env true [97; 97]%N) /\ SInv (stk st0) [] /\
  aparse (w_env true [97; 97]%N) 20 true w_expr 0 (cache (stk st0)) <> APanic.
Proof. split; [repeat split|split; [exact I|vm_compute; discriminate]]. Qed.
