(* C10: facts about the error tracker as a fold over the event trace. *)
From Coq Require Import List NArith ZArith Arith Bool Lia.
From PT Require Import Model.Base Model.Stack Model.Texpr Model.Sem Model.Tracker.
Import ListNotations.

(* ---- the reported position never moves backwards and only moves to the position of an attempt ---- *)

Lemma prepare_position t pos b t' :
  prepare t pos = (b, t') ->
  t_position t <= t_position t' /\
  (t_position t' = t_position t \/ t_position t' = pos) /\
  (b = true -> t_position t' = pos /\ pos >= t_position t) /\
  (b = false -> t' = t /\ pos < t_position t) /\
  t_positive t' = t_positive t /\ t_saved t' = t_saved t /\ t_stack t' = t_stack t /\
  (t_position t' = t_position t -> t_attempts t' = t_attempts t) /\
  (t_position t' <> t_position t -> t_attempts t' = []).
Proof.
  unfold prepare. destruct (Nat.ltb_spec pos (t_position t)) as [Hlt|Hge].
  - intros H; inversion H; subst.
    repeat split; try lia; try tauto; try discriminate; try (intros; lia).
  - destruct (Nat.eqb_spec pos (t_position t)) as [He|Hne]; intros H; inversion H; subst; cbn;
      repeat split; try lia; try tauto; try discriminate; try (intros; lia).
Qed.

Lemma record_position t r pos ok :
  t_position t <= t_position (record t r pos ok) /\
  (t_position (record t r pos ok) = t_position t \/ t_position (record t r pos ok) = pos) /\
  (pos <= t_position (record t r pos ok)).
Proof.
  unfold record. destruct (prepare t pos) as [go t1] eqn:Hp.
  destruct (prepare_position _ _ _ _ Hp) as (H1 & H2 & H3 & H4 & _).
  destruct (go && negb (Bool.eqb ok (t_positive t1))); cbn [t_position].
  - repeat split; try assumption. destruct go; [destruct (H3 eq_refl); lia|destruct (H4 eq_refl); subst; lia].
  - repeat split; try assumption. destruct go; [destruct (H3 eq_refl); lia|destruct (H4 eq_refl); subst; lia].
Qed.

Lemma add_special_position t pos s :
  t_position t <= t_position (add_special t pos s) /\ pos <= t_position (add_special t pos s).
Proof.
  unfold add_special. destruct (prepare t pos) as [go t1] eqn:Hp.
  destruct (prepare_position _ _ _ _ Hp) as (H1 & H2 & H3 & H4 & _).
  destruct go; cbn [t_position].
  - destruct (H3 eq_refl). lia.
  - destruct (H4 eq_refl). subst. lia.
Qed.

Lemma tstep_position_mono t e : t_position t <= t_position (tstep t e).
Proof.
  destruct e; cbn [tstep t_position]; try lia.
  - destruct (t_stack t) as [|[[r' p'] hc] rest]; [lia|]. destruct hc; cbn [t_position]; [lia|].
    pose proof (record_position (mk_tracker (t_position t) (t_positive t) (t_saved t) (t_attempts t) rest) r pos ok) as H.
    cbn [t_position] in H. tauto.
  - destruct (t_saved t); cbn; lia.
  - pose proof (add_special_position t pos SpEmptyStack). tauto.
  - pose proof (add_special_position t pos (SpOutOfBound a b)). tauto.
Qed.

Lemma fold_position_mono l : forall t, t_position t <= t_position (fold_left tstep l t).
Proof.
  induction l as [|e l IH]; intros t; cbn [fold_left]; [lia|].
  pose proof (tstep_position_mono t e). pose proof (IH (tstep t e)). lia.
Qed.

(* the reported location is never before the starting cursor *)
Theorem position_ge_start start trace : start <= t_position (run_tracker start trace).
Proof. unfold run_tracker. apply (fold_position_mono (rev trace) (tracker_new start)). Qed.

(* ---- truthfulness: what is listed was really attempted at the reported position with that outcome ---- *)

(* [seen] = the events processed so far.  Every rule listed as expected (positives) has an exit event with
   verdict false at exactly the reported position, every rule listed as unexpected (negatives) an exit event
   with verdict true there, every special error its event there. *)
Definition entry_ok (seen : list event) (p : nat) (e : tentry) : Prop :=
  (forall r, In r (te_pos e) -> In (EExit r p false) seen) /\
  (forall r, In r (te_neg e) -> In (EExit r p true) seen) /\
  (forall s, In s (te_spec e) ->
     match s with
     | SpEmptyStack => In (EEmptyStack p) seen
     | SpOutOfBound a b => In (EOutOfBound p a b) seen
     end).

Definition truthful (seen : list event) (t : tracker) : Prop :=
  Forall (entry_ok seen (t_position t)) (t_attempts t).

Lemma entry_ok_more seen seen' p e : incl seen seen' -> entry_ok seen p e -> entry_ok seen' p e.
Proof.
  intros Hi (H1 & H2 & H3). repeat split; intros x Hx.
  - apply Hi, H1, Hx.
  - apply Hi, H2, Hx.
  - specialize (H3 x Hx). destruct x; apply Hi, H3.
Qed.

Lemma truthful_more seen seen' t : incl seen seen' -> truthful seen t -> truthful seen' t.
Proof. intros Hi H. eapply Forall_impl; [|exact H]. intros e. apply entry_ok_more. exact Hi. Qed.

Lemma push_dedup_in r v x : In x (push_dedup r v) -> In x v \/ x = r.
Proof.
  unfold push_dedup. destruct (rev v) as [|l rest].
  - intros [H|[]]. right. congruence.
  - destruct (l =? r)%N; [tauto|]. intros H. apply in_app_or in H. destruct H as [H|[H|[]]]; [tauto|right; congruence].
Qed.

Lemma upd_entry_forall (Pr : tentry -> Prop) k f l :
  Forall Pr l -> (forall e, Pr e -> Pr (f e)) -> Pr (f (mk_tentry k [] [] [])) -> Forall Pr (upd_entry k f l).
Proof.
  intros Hl Hf H0. induction Hl as [|e l He Hl IH]; cbn [upd_entry].
  - constructor; [assumption|constructor].
  - destruct (key_eqb (te_key e) k); constructor; auto.
Qed.

Lemma empty_entry_ok seen p k : entry_ok seen p (mk_tentry k [] [] []).
Proof. repeat split; intros y []. Qed.

Lemma truthful_prepare seen t pos go t1 :
  truthful seen t -> prepare t pos = (go, t1) -> truthful seen t1.
Proof.
  intros Ht Hp. destruct (prepare_position _ _ _ _ Hp) as (_ & _ & _ & _ & _ & _ & _ & Hsame & Hdiff).
  unfold truthful. destruct (Nat.eq_dec (t_position t1) (t_position t)) as [He|Hne].
  - rewrite He, (Hsame He). exact Ht.
  - rewrite (Hdiff Hne). constructor.
Qed.

Lemma truthful_record seen t r pos ok :
  truthful seen t -> In (EExit r pos ok) seen -> truthful seen (record t r pos ok).
Proof.
  intros Ht Hin. unfold record. destruct (prepare t pos) as [go t1] eqn:Hp.
  pose proof (truthful_prepare _ _ _ _ _ Ht Hp) as Ht1.
  destruct (prepare_position _ _ _ _ Hp) as (_ & _ & Hgo & _).
  destruct go; cbn [andb]; [|exact Ht1].
  destruct (Bool.eqb ok (t_positive t1)) eqn:Heq; cbn [negb]; [exact Ht1|].
  destruct (Hgo eq_refl) as [Hpos _].
  unfold truthful in *. cbn [t_position t_attempts]. rewrite Hpos in *.
  destruct (t_positive t1) eqn:Hpol.
  - (* positive polarity: the outcome was a failure *)
    assert (ok = false) by (destruct ok; [discriminate|reflexivity]). subst ok.
    apply upd_entry_forall; [exact Ht1| |].
    + intros e (H1 & H2 & H3). split; [|split]; cbn [te_pos te_neg te_spec]; try assumption.
      intros x Hx. apply push_dedup_in in Hx. destruct Hx as [Hx| ->]; [apply H1, Hx|exact Hin].
    + split; [|split]; cbn [te_pos te_neg te_spec].
      * intros x Hx. apply push_dedup_in in Hx. destruct Hx as [[]| ->]. exact Hin.
      * intros y [].
      * intros y [].
  - assert (ok = true) by (destruct ok; [reflexivity|discriminate]). subst ok.
    apply upd_entry_forall; [exact Ht1| |].
    + intros e (H1 & H2 & H3). split; [|split]; cbn [te_pos te_neg te_spec]; try assumption.
      intros x Hx. apply push_dedup_in in Hx. destruct Hx as [Hx| ->]; [apply H2, Hx|exact Hin].
    + split; [|split]; cbn [te_pos te_neg te_spec].
      * intros y [].
      * intros x Hx. apply push_dedup_in in Hx. destruct Hx as [[]| ->]. exact Hin.
      * intros y [].
Qed.

Lemma truthful_special seen t pos s :
  truthful seen t ->
  match s with
  | SpEmptyStack => In (EEmptyStack pos) seen
  | SpOutOfBound a b => In (EOutOfBound pos a b) seen
  end ->
  truthful seen (add_special t pos s).
Proof.
  intros Ht Hin. unfold add_special. destruct (prepare t pos) as [go t1] eqn:Hp.
  pose proof (truthful_prepare _ _ _ _ _ Ht Hp) as Ht1.
  destruct (prepare_position _ _ _ _ Hp) as (_ & _ & Hgo & _).
  destruct go; [|exact Ht1]. destruct (Hgo eq_refl) as [Hpos _].
  unfold truthful in *. cbn [t_position t_attempts]. rewrite Hpos in *.
  apply upd_entry_forall; [exact Ht1| |].
  - intros e (H1 & H2 & H3). split; [|split]; cbn [te_pos te_neg te_spec]; try assumption.
    intros x Hx. apply in_app_or in Hx. destruct Hx as [Hx|[<-|[]]]; [apply H3, Hx|exact Hin].
  - split; [|split]; cbn [te_pos te_neg te_spec].
    + intros y [].
    + intros y [].
    + intros x [<-|[]]. exact Hin.
Qed.

Lemma truthful_step seen t e : truthful seen t -> truthful (e :: seen) (tstep t e).
Proof.
  intros Ht. assert (Ht' : truthful (e :: seen) t) by (eapply truthful_more; [|exact Ht]; apply incl_tl, incl_refl).
  destruct e; cbn [tstep]; try exact Ht'.
  - destruct (t_stack t) as [|[[r' p'] hc] rest]; [exact Ht'|]. destruct hc; [exact Ht'|].
    apply truthful_record; [exact Ht'|left; reflexivity].
  - destruct (t_saved t); exact Ht'.
  - apply truthful_special; [exact Ht'|left; reflexivity].
  - apply truthful_special; [exact Ht'|left; reflexivity].
Qed.

Lemma truthful_fold l : forall seen t, truthful seen t -> truthful (rev l ++ seen) (fold_left tstep l t).
Proof.
  induction l as [|e l IH]; intros seen t Ht; cbn [fold_left rev app]; [exact Ht|].
  rewrite <- app_assoc. cbn [app]. apply IH. apply truthful_step. exact Ht.
Qed.

(* what the final report lists is backed by events of the run *)
Theorem tracker_truth start trace :
  Forall (entry_ok trace (t_position (run_tracker start trace))) (t_attempts (run_tracker start trace)).
Proof.
  unfold run_tracker.
  pose proof (truthful_fold (rev trace) [] (tracker_new start)) as H.
  rewrite rev_involutive, app_nil_r in H. apply H. constructor.
Qed.

(* ---- the location of a rejected full parse is not before the end of the matched prefix ---- *)

(* a leaf attempt at [pos] pushes the reported position to at least [pos] *)
Lemma leaf_attempt_position t r pos ok :
  pos <= t_position (tstep (tstep t (EEnter r pos)) (EExit r pos ok)).
Proof.
  cbn [tstep t_stack].
  pose proof (record_position
    (mk_tracker (t_position t) (t_positive t) (t_saved t) (t_attempts t) (mark_children (t_stack t))) r pos ok) as H.
  cbn [t_position] in H. tauto.
Qed.

Theorem eoi_attempt_location start trace eoi pos ok :
  pos <= t_position (run_tracker start (EExit eoi pos ok :: EEnter eoi pos :: trace)).
Proof.
  unfold run_tracker. cbn [rev]. rewrite <- app_assoc. cbn [app].
  rewrite fold_left_app. cbn [fold_left]. apply leaf_attempt_position.
Qed.
