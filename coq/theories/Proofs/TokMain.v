(* C02: the token theorem about the REAL parse path.  PegSimTok.v relates the PEG spec's (pest's) token tree to
   the tree of the reference interpreter; RefinePanic.v (C05 without the reference-run premise) says the real parse path
   returns the very same tree. *)
From Coq Require Import List NArith ZArith Arith Bool Lia.
From PT Require Import Model.Base Model.Stack Model.Texpr Model.Sem Model.Aparse Model.Tok Model.Tokens.
From PT Require Import Model.Ast Model.Translate Model.PegSpec Model.GenEnv.
From PT Require Import Proofs.PegMono Proofs.PegSimBase Proofs.PegSimFwd Proofs.StackInv Proofs.Refine Proofs.RefineCor.
From PT Require Import Proofs.BoundaryOps Proofs.Boundary Proofs.RefinePanic Proofs.PegMain Proofs.PegMain2.
From PT Require Import Proofs.PegSimTokBase Proofs.PegSimTok.
Import ListNotations.

Theorem typed_pair_tree_is_pest g eoi I pred :
  ws_ok g = true -> eoi_fresh eoi g = true -> tok_ok eoi g = true -> good_inp I -> glits_ok g ->
  forall r, callable eoi g r = true -> forall n pos stk toks,
  peg_entry (penv_of eoi g I pred) n r = POk pos stk toks ->
  forall m pos' t st',
  try_parse_partial (env_of eoi g I pred) m r = Ok (pos', t) st' ->
  pos' = pos /\ cache (Sem.stk st') = stk /\ tokens (env_of eoi g I pred) t = map (prune g) toks.
Proof.
  intros Hws Heoi Htok HI Hg r Hc n pos stk toks Hp m pos' t st' Ht.
  pose proof (try_parse_partial_refines' (env_of eoi g I pred) m r (env_of_fixed eoi g I pred)
                (env_of_ok eoi g I pred HI Hg)) as Hr.
  rewrite env_of_inp in Hr. rewrite Ht in Hr.
  destruct (aparse (env_of eoi g I pred) m true (TRule r SkOn) (i_start I) []) as [[p2 t2] stk2| | |] eqn:Ha;
    cbn [rel] in Hr; try contradiction.
  destruct Hr as (-> & -> & Hst & _).
  destruct (typed_tokens_are_pest g eoi I pred Hws Heoi Htok r Hc n pos stk toks Hp m p2 t2 stk2 Ha) as (-> & -> & Hk).
  split; [reflexivity|]. split; [exact Hst|exact Hk].
Qed.
