(* C08: parsing a sub-input (Span(s,a,b) / Position(s,a)) is parsing the fresh text s[a..b] with every
   offset shifted by a.  Byte level and stack level facts are in Proofs/SubInputOps.v; this file lifts
   them through both interpreters (same architecture as CheckParse.v / Refine.v) and the entry points.
   Complete: every construct of [texpr] is covered, no exclusion. *)
From Coq Require Import List NArith ZArith Arith Bool Lia.
From PT Require Import Model.Base Model.Stack Model.Texpr Model.SliceSpec Model.Sem Model.Tok Model.Tokens.
From PT Require Import Proofs.SubInputOps.
Import ListNotations.

(* ---------------------------------------------------------------- shifting of everything that holds offsets *)

Fixpoint shift_node (a : nat) (t : tnode) : tnode :=
  match t with
  | NInsens s e => NInsens (s + a) (e + a)
  | NSpanned k s e => NSpanned k (s + a) (e + a)
  | NSeq items => NSeq (map (fun it => (map (shift_node a) (fst it), shift_node a (snd it))) items)
  | NChoice n i t1 => NChoice n i (shift_node a t1)
  | NOpt o => NOpt (match o with Some t1 => Some (shift_node a t1) | None => None end)
  | NRep bd items => NRep bd (map (fun it => (map (shift_node a) (fst it), shift_node a (snd it))) items)
  | NAtomicRep items => NAtomicRep (map (shift_node a) items)
  | NPos t1 => NPos (shift_node a t1)
  | NPush t1 => NPush (shift_node a t1)
  | NArr l => NArr (map (shift_node a) l)
  | NPair x y => NPair (shift_node a x) (shift_node a y)
  | NRule r content sp =>
      NRule r (match content with Some c => Some (shift_node a c) | None => None end)
            (option_map (shift_span a) sp)
  | NStr | NChar _ _ | NSoi | NEoi | NNewline _ | NNeg | NDrop | NSlice _ | NEmpty => t
  end.

Definition shift_item (a : nat) (it : list tnode * tnode) : list tnode * tnode :=
  (map (shift_node a) (fst it), shift_node a (snd it)).

Definition shift_event (a : nat) (e : event) : event :=
  match e with
  | EEnter r pos => EEnter r (pos + a)
  | EExit r pos ok => EExit r (pos + a) ok
  | EPol p => EPol p
  | EPolEnd => EPolEnd
  | EEmptyStack pos => EEmptyStack (pos + a)
  | EOutOfBound pos x y => EOutOfBound (pos + a) x y
  end.

Definition shift_stack (a : nat) (s : stack) : stack := map_stack (shift_span a) s.

Definition shift_state (a : nat) (st : state) : state :=
  mk_state (shift_stack a (stk st)) (map (shift_event a) (tr st)).

Definition shift_res_with {A} (sh : A -> A) (a : nat) (r : res A) : res A :=
  match r with
  | Ok x st => Ok (sh x) (shift_state a st)
  | Fail st => Fail (shift_state a st)
  | Panic => Panic
  | Fuel => Fuel
  end.

(* (cursor, payload) results *)
Definition sh_pair {X} (a : nat) (g : X -> X) (x : nat * X) : nat * X := (fst x + a, g (snd x)).

(* results of tparse / tcheck / try_parse / try_check *)
Definition shift_pres (a : nat) : res (nat * tnode) -> res (nat * tnode) :=
  shift_res_with (sh_pair a (shift_node a)) a.
Definition shift_cres (a : nat) : res nat -> res nat := shift_res_with (shift_cur a) a.
Definition shift_tres (a : nat) : res tnode -> res tnode := shift_res_with (shift_node a) a.
Definition shift_ures (a : nat) : res unit -> res unit := shift_res_with (fun u => u) a.

(* ---------------------------------------------------------------- the range invariant *)

Definition span_ok (n : nat) (sp : span) : Prop := fst sp <= snd sp /\ snd sp <= n.
Definition state_ok (n : nat) (st : state) : Prop := stack_all (span_ok n) (stk st).

Definition res_ok {A} (okA : A -> Prop) (n : nat) (r : res A) : Prop :=
  match r with
  | Ok x st => okA x /\ state_ok n st
  | Fail st => state_ok n st
  | Panic => True
  | Fuel => True
  end.

Definition cur_ok {X} (n : nat) (x : nat * X) : Prop := fst x <= n.

(* run on the sub-input = shifted run on the fresh text, and the fresh run keeps the invariant *)
Definition sim {A} (a n : nat) (sh : A -> A) (okA : A -> Prop) (r2 r0 : res A) : Prop :=
  r2 = shift_res_with sh a r0 /\ res_ok okA n r0.

(* the two environments: same grammar, same switches; only the input differs *)
Definition env_agree (s : list byte) (a b : nat) (E2 E0 : env) : Prop :=
  sub_of (e_inp E2) s a b /\ e_inp E0 = inp_of_str (sub_slice s a b) /\
  e_rules E2 = e_rules E0 /\ e_skip E2 = e_skip E0 /\ e_pred E2 = e_pred E0 /\
  e_eoi E2 = e_eoi E0 /\ e_ron_fixed E2 = e_ron_fixed E0 /\ e_rep_min_after E2 = e_rep_min_after E0.

(* replace the input of an environment *)
Definition with_inp (E : env) (I : inp) : env :=
  mk_env I (e_rules E) (e_skip E) (e_pred E) (e_eoi E) (e_ron_fixed E) (e_su_cut E) (e_rep_min_after E).

Lemma env_agree_with_inp s a b E I2 :
  sub_of I2 s a b -> e_inp E = inp_of_str (sub_slice s a b) -> env_agree s a b (with_inp E I2) E.
Proof. intros H2 H0. unfold env_agree, with_inp. cbn. repeat split; try assumption; apply H2. Qed.

(* ---------------------------------------------------------------- small facts about shifting *)

Lemma shift_node_seq a items : shift_node a (NSeq items) = NSeq (map (shift_item a) items).
Proof. reflexivity. Qed.
Lemma shift_node_rep a bd items : shift_node a (NRep bd items) = NRep bd (map (shift_item a) items).
Proof. reflexivity. Qed.
Lemma shift_node_arep a l : shift_node a (NAtomicRep l) = NAtomicRep (map (shift_node a) l).
Proof. reflexivity. Qed.
Lemma shift_node_arr a l : shift_node a (NArr l) = NArr (map (shift_node a) l).
Proof. reflexivity. Qed.

Lemma shift_state0 a : shift_state a st0 = st0.
Proof. reflexivity. Qed.

Lemma state_ok0 n : state_ok n st0.
Proof. apply stack_all_new. Qed.

Lemma sim_intro {A} a n (sh : A -> A) okA r2 r0 :
  r2 = shift_res_with sh a r0 -> res_ok okA n r0 -> sim a n sh okA r2 r0.
Proof. intros H1 H2. split; assumption. Qed.

Section Sim.
  Variable s : list byte.
  Variables a b : nat.
  Hypothesis HV : valid_range s a b.
  Variables E2 E0 : env.
  Hypothesis HE : env_agree s a b E2 E0.
  Hypothesis Hcut2 : e_su_cut E2 = true.
  Hypothesis Hcut0 : e_su_cut E0 = true.

  Local Notation n := (b - a).
  Local Notation I2 := (e_inp E2).
  Local Notation I0 := (e_inp E0).
  Local Notation sst := (shift_state a).
  Local Notation simP := (sim a n (sh_pair a (shift_node a)) (cur_ok n)).
  Local Notation simC := (sim a n (shift_cur a) (fun p => p <= n)).

  Lemma agree_inp2 : sub_of I2 s a b.            Proof. apply HE. Qed.
  Lemma agree_inp0 : I0 = inp_of_str (sub_slice s a b). Proof. apply HE. Qed.
  Lemma agree_rules : e_rules E2 = e_rules E0. Proof. apply HE. Qed.
  Lemma agree_skip : e_skip E2 = e_skip E0.    Proof. apply HE. Qed.
  Lemma agree_pred : e_pred E2 = e_pred E0.    Proof. apply HE. Qed.
  Lemma agree_eoi : e_eoi E2 = e_eoi E0.       Proof. apply HE. Qed.
  Lemma agree_ron : e_ron_fixed E2 = e_ron_fixed E0. Proof. apply HE. Qed.
  Lemma agree_rm : e_rep_min_after E2 = e_rep_min_after E0. Proof. apply HE. Qed.

  Lemma E0_end : i_end I0 = n.
  Proof. rewrite agree_inp0. apply I0_end. exact HV. Qed.

  (* ---- the byte level facts, restated on the two environments ---- *)
  Lemma ms_sub t c0 :
    i_match_string I2 t (c0 + a) = mmap (option_map (shift_cur a)) (i_match_string I0 t c0).
  Proof. rewrite agree_inp0. apply i_match_string_sub; [exact HV|exact agree_inp2]. Qed.
  Lemma mi_sub t c0 :
    i_match_insens I2 t (c0 + a) = mmap (option_map (shift_cur a)) (i_match_insens I0 t c0).
  Proof. rewrite agree_inp0. apply i_match_insens_sub; [exact HV|exact agree_inp2]. Qed.
  Lemma sk_sub k c0 : i_skip I2 k (c0 + a) = mmap (option_map (shift_cur a)) (i_skip I0 k c0).
  Proof. rewrite agree_inp0. apply i_skip_sub; [exact HV|exact agree_inp2]. Qed.
  Lemma mc_sub f c0 :
    i_match_char I2 f (c0 + a) = mmap (option_map (shift_char_hit a)) (i_match_char I0 f c0).
  Proof. rewrite agree_inp0. apply i_match_char_sub; [exact HV|exact agree_inp2]. Qed.
  Lemma soi_sub c0 : i_at_start I2 (c0 + a) = i_at_start I0 c0.
  Proof. rewrite agree_inp0. apply i_at_start_sub. exact agree_inp2. Qed.
  Lemma eoi_sub c0 : i_at_end I2 (c0 + a) = i_at_end I0 c0.
  Proof. rewrite agree_inp0. apply i_at_end_sub; [exact HV|exact agree_inp2]. Qed.
  Lemma sp_sub x0 y0 : y0 <= n -> i_span I2 (x0 + a) (y0 + a) = mmap (shift_span a) (i_span I0 x0 y0).
  Proof. rewrite agree_inp0. apply i_span_sub; [exact HV|exact agree_inp2]. Qed.
  Lemma ss_sub sp0 : snd sp0 <= n -> span_str I2 (shift_span a sp0) = span_str I0 sp0.
  Proof. rewrite agree_inp0. apply span_str_sub; [exact HV|exact agree_inp2]. Qed.
  Lemma su_sub ss c0 :
    c0 <= n -> i_skip_until I2 true ss (c0 + a) = shift_until a (i_skip_until I0 true ss c0).
  Proof. rewrite agree_inp0. apply i_skip_until_sub; [exact HV|exact agree_inp2]. Qed.

  Lemma ms_bound t c p : i_match_string I0 t c = MOk (Some p) -> p <= n.
  Proof. intros H. apply i_match_string_bound in H. rewrite E0_end in H. exact H. Qed.
  Lemma mi_bound t c p : i_match_insens I0 t c = MOk (Some p) -> p <= n.
  Proof. intros H. apply i_match_insens_bound in H. rewrite E0_end in H. exact H. Qed.
  Lemma sk_bound k c p : i_skip I0 k c = MOk (Some p) -> p <= n.
  Proof. intros H. apply i_skip_bound in H. rewrite E0_end in H. exact H. Qed.
  Lemma mc_bound f c p ch : i_match_char I0 f c = MOk (Some (p, ch)) -> p <= n.
  Proof. intros H. apply i_match_char_bound in H. rewrite E0_end in H. exact H. Qed.
  Lemma su_bound ss c : snd (i_skip_until I0 true ss c) <= n.
  Proof. rewrite <- E0_end. apply i_skip_until_bound. Qed.

  (* ---- state plumbing ---- *)
  Lemma sst_with_stk s1 st : with_stk (shift_stack a s1) (sst st) = sst (with_stk s1 st).
  Proof. reflexivity. Qed.
  Lemma sst_ev e st : ev (shift_event a e) (sst st) = sst (ev e st).
  Proof. reflexivity. Qed.
  Lemma sst_with_tr st st1 : with_tr (tr (sst st)) (sst st1) = sst (with_tr (tr st) st1).
  Proof. reflexivity. Qed.

  Lemma sst_snapshot st e2 e0 :
    e2 = shift_event a e0 ->
    with_stk (s_snapshot (stk (sst st))) (ev e2 (sst st)) = sst (with_stk (s_snapshot (stk st)) (ev e0 st)).
  Proof.
    intros ->. unfold shift_state at 1. cbn [stk]. unfold shift_stack. rewrite s_snapshot_map. reflexivity.
  Qed.

  Lemma state_ok_ev e st : state_ok n st -> state_ok n (ev e st).
  Proof. intros H. exact H. Qed.

  (* ---- generic combinators ---- *)
  Lemma lift_sim {X A} (sh : A -> A) okA (g : X -> X) (m0 : mres X) (f2 f0 : X -> res A) :
    (forall x, m0 = MOk x -> sim a n sh okA (f2 (g x)) (f0 x)) ->
    sim a n sh okA (lift (mmap g m0) f2) (lift m0 f0).
  Proof.
    intros H. destruct m0 as [x|]; cbn [lift mmap]; [apply H; reflexivity|].
    split; [reflexivity|exact I].
  Qed.

  Lemma lift_sim_same {X A} (sh : A -> A) okA (m0 : mres X) (f2 f0 : X -> res A) :
    (forall x, m0 = MOk x -> sim a n sh okA (f2 x) (f0 x)) ->
    sim a n sh okA (lift m0 f2) (lift m0 f0).
  Proof.
    intros H. destruct m0 as [x|]; cbn [lift]; [apply H; reflexivity|].
    split; [reflexivity|exact I].
  Qed.

  (* `pos.span(pos')` at the end of a node *)
  Lemma span_sim {A} (sh : A -> A) okA c0 p (f2 f0 : span -> res A) :
    p <= n ->
    (forall sp, sp = (c0, p) -> c0 <= p -> sim a n sh okA (f2 (shift_span a sp)) (f0 sp)) ->
    sim a n sh okA (lift (i_span I2 (c0 + a) (p + a)) f2) (lift (i_span I0 c0 p) f0).
  Proof.
    intros Hp H. rewrite sp_sub by exact Hp. apply lift_sim. intros sp Hsp.
    apply i_span_ok in Hsp. destruct Hsp as [Hsp Hle]. apply H; assumption.
  Qed.

  Lemma leaf_match_sim (m0 : mres (option nat)) st k2 k0 :
    state_ok n st ->
    (forall p, m0 = MOk (Some p) -> simP (k2 (p + a)) (k0 p)) ->
    simP (leaf_match (mmap (option_map (shift_cur a)) m0) (sst st) k2) (leaf_match m0 st k0).
  Proof.
    intros Hst Hk. unfold leaf_match. apply lift_sim. intros [p|] Hm; cbn [option_map].
    - apply Hk. exact Hm.
    - split; [reflexivity|exact Hst].
  Qed.

  Lemma leaf_check_sim (m0 : mres (option nat)) st :
    state_ok n st ->
    (forall p, m0 = MOk (Some p) -> p <= n) ->
    simC (leaf_check (mmap (option_map (shift_cur a)) m0) (sst st)) (leaf_check m0 st).
  Proof.
    intros Hst Hk. unfold leaf_check. apply lift_sim. intros [p|] Hm; cbn [option_map].
    - split; [reflexivity|]. split; [apply Hk; exact Hm|exact Hst].
    - split; [reflexivity|exact Hst].
  Qed.

  (* restore_on_none, both variants *)
  Lemma ron_sim {A} (sh : A -> A) okA (f2 f0 : state -> res A) st :
    state_ok n st ->
    (forall st1, state_ok n st1 -> sim a n sh okA (f2 (sst st1)) (f0 st1)) ->
    sim a n sh okA (ron E2 f2 (sst st)) (ron E0 f0 st).
  Proof.
    intros Hst Hf. unfold ron. rewrite agree_ron. destruct (e_ron_fixed E0).
    - destruct (Hf st Hst) as [Heq Hok]. rewrite Heq.
      destruct (f0 st) as [x st'|st'| |]; cbn [shift_res_with res_ok] in *.
      + split; [reflexivity|exact Hok].
      + split.
        * cbn [shift_state stk]. unfold shift_stack.
          rewrite s_pop_all_map.
          change (cache (map_stack (shift_span a) (stk st))) with (map (shift_span a) (cache (stk st))).
          rewrite s_push_all_map. reflexivity.
        * unfold state_ok. cbn [with_stk stk].
          apply stack_all_push_all; [apply Hst|]. apply stack_all_pop_all. exact Hok.
      + split; [reflexivity|exact I].
      + split; [reflexivity|exact I].
    - assert (Hsn : with_stk (s_snapshot (stk (sst st))) (sst st) = sst (with_stk (s_snapshot (stk st)) st)).
      { unfold shift_state at 1. cbn [stk]. unfold shift_stack. rewrite s_snapshot_map. reflexivity. }
      rewrite Hsn.
      assert (Hst1 : state_ok n (with_stk (s_snapshot (stk st)) st)) by exact Hst.
      destruct (Hf _ Hst1) as [Heq Hok]. rewrite Heq.
      destruct (f0 (with_stk (s_snapshot (stk st)) st)) as [x st'|st'| |]; cbn [shift_res_with res_ok] in *.
      + destruct Hok as [Hx Hst']. cbn [shift_state stk]. unfold shift_stack.
        rewrite s_clear_snapshot_map. apply lift_sim. intros s1 Hs1.
        split; [reflexivity|]. split; [exact Hx|].
        unfold state_ok. cbn [with_stk stk]. eapply stack_all_clear; [exact Hst'|exact Hs1].
      + cbn [shift_state stk]. unfold shift_stack.
        rewrite s_restore_map. apply lift_sim. intros s1 Hs1.
        split; [reflexivity|].
        unfold res_ok, state_ok. cbn [with_stk stk]. eapply stack_all_restore; [exact Hok|exact Hs1].
      + split; [reflexivity|exact I].
      + split; [reflexivity|exact I].
  Qed.

  Lemma notrack_sim {A} (sh : A -> A) okA (f2 f0 : state -> res A) st :
    sim a n sh okA (f2 (sst st)) (f0 st) ->
    sim a n sh okA (notrack f2 (sst st)) (notrack f0 st).
  Proof.
    intros [Heq Hok]. unfold notrack. rewrite Heq.
    destruct (f0 st) as [x st'|st'| |]; cbn [shift_res_with res_ok] in *.
    - split; [reflexivity|exact Hok].
    - split; [reflexivity|exact Hok].
    - split; [reflexivity|exact I].
    - split; [reflexivity|exact I].
  Qed.

  (* `peek_spans` *)
  Lemma peek_spans_sub : forall sps c0,
    Forall (span_ok n) sps ->
    peek_spans E2 (map (shift_span a) sps) (c0 + a)
    = mmap (option_map (shift_cur a)) (peek_spans E0 sps c0).
  Proof.
    induction sps as [|sp sps IH]; intros c0 Hall; cbn [peek_spans map]; [reflexivity|].
    inversion Hall as [|sp' sps' Hsp Hall']; subst.
    rewrite ss_sub by apply Hsp.
    destruct (span_str I0 sp) as [txt|]; cbn [mbind mmap]; [|reflexivity].
    rewrite ms_sub.
    destruct (i_match_string I0 txt c0) as [[p|]|]; cbn [mbind mmap option_map]; try reflexivity.
    unfold shift_cur at 1. apply IH. exact Hall'.
  Qed.

  Lemma peek_spans_bound : forall sps c0 p,
    c0 <= n -> peek_spans E0 sps c0 = MOk (Some p) -> p <= n.
  Proof.
    induction sps as [|sp sps IH]; intros c0 p Hc; cbn [peek_spans].
    - intros H. inversion H. lia.
    - destruct (span_str I0 sp) as [txt|]; cbn [mbind]; [|discriminate].
      destruct (i_match_string I0 txt c0) as [[p1|]|] eqn:Hm; cbn [mbind]; try discriminate.
      apply IH. eapply ms_bound. exact Hm.
  Qed.

  Lemma stack_slice_sub st x y :
    stack_slice (shift_stack a st) x y = option_map (mmap (map (shift_span a))) (stack_slice st x y).
  Proof.
    unfold stack_slice, shift_stack. rewrite s_len_map.
    destruct (slice_spec x y (Z.of_nat (s_len st))) as [[ss se]|]; [|reflexivity].
    destruct (se <=? ss)%Z; [reflexivity|].
    cbn [option_map]. rewrite s_index_map. reflexivity.
  Qed.

  Lemma stack_slice_ok st x y sps :
    stack_all (span_ok n) st -> stack_slice st x y = Some (MOk sps) -> Forall (span_ok n) sps.
  Proof.
    intros Hst. unfold stack_slice.
    destruct (slice_spec x y (Z.of_nat (s_len st))) as [[ss se]|]; [|discriminate].
    destruct (se <=? ss)%Z.
    - intros H. inversion H. constructor.
    - intros H. inversion H as [Hi]. eapply stack_all_index; [exact Hst|exact Hi].
  Qed.

  (* ---- the recursive calls one unit of fuel below ---- *)
  Variable P2 P0 : bool -> texpr -> nat -> state -> res (nat * tnode).
  Variable C2 C0 : bool -> texpr -> nat -> state -> res nat.
  Hypothesis HP : forall inh e c0 st, c0 <= n -> state_ok n st ->
    simP (P2 inh e (c0 + a) (sst st)) (P0 inh e c0 st).
  Hypothesis HC : forall inh e c0 st, c0 <= n -> state_ok n st ->
    simC (C2 inh e (c0 + a) (sst st)) (C0 inh e c0 st).

  Ltac solve_ok :=
    cbn [res_ok cur_ok fst snd];
    first [assumption | split; [first [assumption | lia] | assumption]].
  Ltac done_ok := split; [reflexivity | solve_ok].
  Ltac done_np := split; [reflexivity | exact I].

  Lemma newline_p_sim : forall alts c0 st,
    c0 <= n -> state_ok n st ->
    simP (newline_p E2 alts (c0 + a) (sst st)) (newline_p E0 alts c0 st).
  Proof.
    induction alts as [|[bs k] alts IH]; intros c0 st Hc Hst; cbn [newline_p].
    - done_ok.
    - rewrite ms_sub. apply lift_sim. intros [p|] Hm; cbn [option_map].
      + apply ms_bound in Hm. unfold shift_cur. done_ok.
      + apply IH; assumption.
  Qed.

  Lemma newline_c_sim : forall alts c0 st,
    c0 <= n -> state_ok n st ->
    simC (newline_c E2 alts (c0 + a) (sst st)) (newline_c E0 alts c0 st).
  Proof.
    induction alts as [|[bs k] alts IH]; intros c0 st Hc Hst; cbn [newline_c].
    - done_ok.
    - rewrite ms_sub. apply lift_sim. intros [p|] Hm; cbn [option_map].
      + apply ms_bound in Hm. unfold shift_cur. done_ok.
      + apply IH; assumption.
  Qed.

  Lemma arep_p_sim : forall k inh e c0 st acc,
    c0 <= n -> state_ok n st ->
    simP (arep_p E2 P2 k inh e (c0 + a) (sst st) (map (shift_node a) acc))
         (arep_p E0 P0 k inh e c0 st acc).
  Proof.
    induction k as [|k IH]; intros inh e c0 st acc Hc Hst; cbn [arep_p]; [done_np|].
    destruct (ron_sim (sh_pair a (shift_node a)) (cur_ok n)
                (notrack (P2 inh e (c0 + a))) (notrack (P0 inh e c0)) st Hst) as [Heq Hok].
    { intros st1 Hst1. apply notrack_sim. apply HP; assumption. }
    rewrite Heq.
    destruct (ron E0 (notrack (P0 inh e c0)) st) as [[p t] st'|st'| |]; cbn [shift_res_with res_ok sh_pair fst snd] in *.
    - destruct Hok as [Hp Hst']. apply (IH inh e p st' (t :: acc)); assumption.
    - split; [|cbn [res_ok cur_ok fst]; split; assumption].
      unfold shift_res_with, sh_pair. cbn [fst snd]. rewrite shift_node_arep, map_rev. reflexivity.
    - done_np.
    - done_np.
  Qed.

  Lemma arep_c_sim : forall k inh e c0 st,
    c0 <= n -> state_ok n st ->
    simC (arep_c E2 C2 k inh e (c0 + a) (sst st)) (arep_c E0 C0 k inh e c0 st).
  Proof.
    induction k as [|k IH]; intros inh e c0 st Hc Hst; cbn [arep_c]; [done_np|].
    destruct (ron_sim (shift_cur a) (fun p => p <= n)
                (notrack (C2 inh e (c0 + a))) (notrack (C0 inh e c0)) st Hst) as [Heq Hok].
    { intros st1 Hst1. apply notrack_sim. apply HC; assumption. }
    rewrite Heq.
    destruct (ron E0 (notrack (C0 inh e c0)) st) as [p st'|st'| |]; cbn [shift_res_with res_ok] in *.
    - destruct Hok as [Hp Hst']. apply (IH inh e p st'); assumption.
    - done_ok.
    - done_np.
    - done_np.
  Qed.

  Variable lf : nat.

  Local Notation simL := (sim a n (sh_pair a (map (shift_node a))) (cur_ok n)).
  Local Notation simU := (sim a n (sh_pair a (shift_item a)) (cur_ok n)).

  Lemma skip_p_sim c0 st :
    c0 <= n -> state_ok n st ->
    simP (skip_p E2 P2 lf (c0 + a) (sst st)) (skip_p E0 P0 lf c0 st).
  Proof.
    intros Hc Hst. unfold skip_p. rewrite agree_skip. destruct (e_skip E0) as [|e].
    - done_ok.
    - apply (arep_p_sim lf false e c0 st []); assumption.
  Qed.

  Lemma skip_c_sim c0 st :
    c0 <= n -> state_ok n st ->
    simC (skip_c E2 C2 lf (c0 + a) (sst st)) (skip_c E0 C0 lf c0 st).
  Proof.
    intros Hc Hst. unfold skip_c. rewrite agree_skip. destruct (e_skip E0) as [|e].
    - done_ok.
    - apply arep_c_sim; assumption.
  Qed.

  Lemma skip_default_sub : skip_default E2 = shift_node a (skip_default E0).
  Proof. unfold skip_default. rewrite agree_skip. destruct (e_skip E0); reflexivity. Qed.

  Lemma pre_skip_p_sim bb doit c0 st :
    c0 <= n -> state_ok n st ->
    simL (pre_skip_p E2 P2 lf bb doit (c0 + a) (sst st)) (pre_skip_p E0 P0 lf bb doit c0 st).
  Proof.
    intros Hc Hst. unfold pre_skip_p. destruct bb; [destruct doit|].
    - destruct (skip_p_sim c0 st Hc Hst) as [Heq Hok]. rewrite Heq.
      destruct (skip_p E0 P0 lf c0 st) as [[p t] st'|st'| |]; cbn [shift_res_with res_ok sh_pair fst snd] in *.
      + split; [reflexivity|exact Hok].
      + split; [reflexivity|exact Hok].
      + done_np.
      + done_np.
    - rewrite skip_default_sub. done_ok.
    - done_ok.
  Qed.

  Lemma pre_skip_c_sim bb c0 st :
    c0 <= n -> state_ok n st ->
    simC (pre_skip_c E2 C2 lf bb (c0 + a) (sst st)) (pre_skip_c E0 C0 lf bb c0 st).
  Proof.
    intros Hc Hst. unfold pre_skip_c. destruct bb; [apply skip_c_sim; assumption|done_ok].
  Qed.

  Lemma seq_p_sim bb inh : forall es first c0 st acc,
    c0 <= n -> state_ok n st ->
    simP (seq_p E2 P2 lf bb inh es first (c0 + a) (sst st) (map (shift_item a) acc))
         (seq_p E0 P0 lf bb inh es first c0 st acc).
  Proof.
    induction es as [|e es IH]; intros first c0 st acc Hc Hst; cbn [seq_p].
    - split; [|cbn [res_ok cur_ok fst]; split; assumption].
      unfold shift_res_with, sh_pair. cbn [fst snd]. rewrite shift_node_seq, map_rev. reflexivity.
    - destruct (pre_skip_p_sim bb (negb first) c0 st Hc Hst) as [Heq Hok]. rewrite Heq.
      destruct (pre_skip_p E0 P0 lf bb (negb first) c0 st) as [[p1 sk1] st1|st1| |];
        cbn [shift_res_with res_ok sh_pair cur_ok fst snd] in *.
      + destruct Hok as [Hp1 Hst1].
        destruct (HP inh e p1 st1 Hp1 Hst1) as [Heq2 Hok2]. rewrite Heq2.
        destruct (P0 inh e p1 st1) as [[p2 t2] st2|st2| |];
          cbn [shift_res_with res_ok sh_pair cur_ok fst snd] in *.
        * destruct Hok2 as [Hp2 Hst2]. apply (IH false p2 st2 ((sk1, t2) :: acc)); assumption.
        * split; [reflexivity|exact Hok2].
        * done_np.
        * done_np.
      + split; [reflexivity|exact Hok].
      + done_np.
      + done_np.
  Qed.

  Lemma seq_c_sim bb inh : forall es first c0 st,
    c0 <= n -> state_ok n st ->
    simC (seq_c E2 C2 lf bb inh es first (c0 + a) (sst st)) (seq_c E0 C0 lf bb inh es first c0 st).
  Proof.
    induction es as [|e es IH]; intros first c0 st Hc Hst; cbn [seq_c].
    - done_ok.
    - destruct (pre_skip_c_sim (negb first && bb) c0 st Hc Hst) as [Heq Hok]. rewrite Heq.
      destruct (pre_skip_c E0 C0 lf (negb first && bb) c0 st) as [p1 st1|st1| |];
        cbn [shift_res_with res_ok] in *.
      + destruct Hok as [Hp1 Hst1].
        destruct (HC inh e p1 st1 Hp1 Hst1) as [Heq2 Hok2].
        change (shift_cur a p1) with (p1 + a). rewrite Heq2.
        destruct (C0 inh e p1 st1) as [p2 st2|st2| |]; cbn [shift_res_with res_ok] in *.
        * destruct Hok2 as [Hp2 Hst2]. apply (IH false p2 st2); assumption.
        * split; [reflexivity|exact Hok2].
        * done_np.
        * done_np.
      + split; [reflexivity|exact Hok].
      + done_np.
      + done_np.
  Qed.

  Lemma choice_p_sim inh m : forall es i c0 st,
    c0 <= n -> state_ok n st ->
    simP (choice_p E2 P2 inh m es i (c0 + a) (sst st)) (choice_p E0 P0 inh m es i c0 st).
  Proof.
    induction es as [|e es IH]; intros i c0 st Hc Hst; cbn [choice_p].
    - done_ok.
    - destruct (ron_sim (sh_pair a (shift_node a)) (cur_ok n) (P2 inh e (c0 + a)) (P0 inh e c0) st Hst)
        as [Heq Hok].
      { intros st1 Hst1. apply HP; assumption. }
      rewrite Heq.
      destruct (ron E0 (P0 inh e c0) st) as [[p t] st'|st'| |];
        cbn [shift_res_with res_ok sh_pair cur_ok fst snd] in *.
      + split; [reflexivity|exact Hok].
      + apply IH; assumption.
      + done_np.
      + done_np.
  Qed.

  Lemma choice_c_sim inh : forall es c0 st,
    c0 <= n -> state_ok n st ->
    simC (choice_c E2 C2 inh es (c0 + a) (sst st)) (choice_c E0 C0 inh es c0 st).
  Proof.
    induction es as [|e es IH]; intros c0 st Hc Hst; cbn [choice_c].
    - done_ok.
    - destruct (ron_sim (shift_cur a) (fun p => p <= n) (C2 inh e (c0 + a)) (C0 inh e c0) st Hst)
        as [Heq Hok].
      { intros st1 Hst1. apply HC; assumption. }
      rewrite Heq.
      destruct (ron E0 (C0 inh e c0) st) as [p st'|st'| |]; cbn [shift_res_with res_ok] in *.
      + split; [reflexivity|exact Hok].
      + apply IH; assumption.
      + done_np.
      + done_np.
  Qed.

  Lemma unit_p_sim bb inh e i c0 st :
    c0 <= n -> state_ok n st ->
    simU (unit_p E2 P2 lf bb inh e i (c0 + a) (sst st)) (unit_p E0 P0 lf bb inh e i c0 st).
  Proof.
    intros Hc Hst. unfold unit_p.
    destruct (pre_skip_p_sim bb (negb (i =? 0)) c0 st Hc Hst) as [Heq Hok]. rewrite Heq.
    destruct (pre_skip_p E0 P0 lf bb (negb (i =? 0)) c0 st) as [[p1 sk1] st1|st1| |];
      cbn [shift_res_with res_ok sh_pair cur_ok fst snd] in *.
    - destruct Hok as [Hp1 Hst1].
      destruct (HP inh e p1 st1 Hp1 Hst1) as [Heq2 Hok2]. rewrite Heq2.
      destruct (P0 inh e p1 st1) as [[p2 t2] st2|st2| |];
        cbn [shift_res_with res_ok sh_pair cur_ok fst snd] in *.
      + split; [reflexivity|exact Hok2].
      + split; [reflexivity|exact Hok2].
      + done_np.
      + done_np.
    - split; [reflexivity|exact Hok].
    - done_np.
    - done_np.
  Qed.

  Lemma unit_c_sim bb inh e i c0 st :
    c0 <= n -> state_ok n st ->
    simC (unit_c E2 C2 lf bb inh e i (c0 + a) (sst st)) (unit_c E0 C0 lf bb inh e i c0 st).
  Proof.
    intros Hc Hst. unfold unit_c.
    destruct (pre_skip_c_sim (bb && negb (i =? 0)) c0 st Hc Hst) as [Heq Hok]. rewrite Heq.
    destruct (pre_skip_c E0 C0 lf (bb && negb (i =? 0)) c0 st) as [p1 st1|st1| |];
      cbn [shift_res_with res_ok] in *.
    - destruct Hok as [Hp1 Hst1]. apply HC; assumption.
    - split; [reflexivity|exact Hok].
    - done_np.
    - done_np.
  Qed.

  Lemma rep_p_sim bb inh mn mx e : forall k i c0 st acc,
    c0 <= n -> state_ok n st ->
    simP (rep_p E2 P2 lf k bb inh mn mx e i (c0 + a) (sst st) (map (shift_item a) acc))
         (rep_p E0 P0 lf k bb inh mn mx e i c0 st acc).
  Proof.
    assert (Hend : forall i c0 st acc, c0 <= n -> state_ok n st ->
      simP (if e_rep_min_after E2 && (i <? mn) then Fail (sst st)
            else Ok (c0 + a, NRep (bounded mx) (rev (map (shift_item a) acc))) (sst st))
           (if e_rep_min_after E0 && (i <? mn) then Fail st
            else Ok (c0, NRep (bounded mx) (rev acc)) st)).
    { intros i c0 st acc Hc Hst. rewrite agree_rm. destruct (e_rep_min_after E0 && (i <? mn)).
      - done_ok.
      - split; [|cbn [res_ok cur_ok fst]; split; assumption].
        unfold shift_res_with, sh_pair. cbn [fst snd]. rewrite shift_node_rep, map_rev. reflexivity. }
    induction k as [|k IH]; intros i c0 st acc Hc Hst; cbn [rep_p].
    - destruct (below i mx); [done_np|]. apply Hend; assumption.
    - destruct (below i mx); [|apply Hend; assumption].
      destruct (ron_sim (sh_pair a (shift_item a)) (cur_ok n)
                  (unit_p E2 P2 lf bb inh e i (c0 + a)) (unit_p E0 P0 lf bb inh e i c0) st Hst)
        as [Heq Hok].
      { intros st1 Hst1. apply unit_p_sim; assumption. }
      rewrite Heq.
      destruct (ron E0 (unit_p E0 P0 lf bb inh e i c0) st) as [[p it] st'|st'| |];
        cbn [shift_res_with res_ok sh_pair cur_ok fst snd] in *.
      + destruct Hok as [Hp Hst']. apply (IH (S i) p st' (it :: acc)); assumption.
      + destruct (i <? mn).
        * done_ok.
        * split; [|cbn [res_ok cur_ok fst]; split; assumption].
          unfold shift_res_with, sh_pair. cbn [fst snd]. rewrite shift_node_rep, map_rev. reflexivity.
      + done_np.
      + done_np.
  Qed.

  Lemma rep_c_sim bb inh mn mx e : forall k i c0 st,
    c0 <= n -> state_ok n st ->
    simC (rep_c E2 C2 lf k bb inh mn mx e i (c0 + a) (sst st))
         (rep_c E0 C0 lf k bb inh mn mx e i c0 st).
  Proof.
    assert (Hend : forall i c0 st, c0 <= n -> state_ok n st ->
      simC (if e_rep_min_after E2 && (i <? mn) then Fail (sst st) else Ok (c0 + a) (sst st))
           (if e_rep_min_after E0 && (i <? mn) then Fail st else Ok c0 st)).
    { intros i c0 st Hc Hst. rewrite agree_rm. destruct (e_rep_min_after E0 && (i <? mn)); done_ok. }
    induction k as [|k IH]; intros i c0 st Hc Hst; cbn [rep_c].
    - destruct (below i mx); [done_np|]. apply Hend; assumption.
    - destruct (below i mx); [|apply Hend; assumption].
      destruct (ron_sim (shift_cur a) (fun p => p <= n)
                  (unit_c E2 C2 lf bb inh e i (c0 + a)) (unit_c E0 C0 lf bb inh e i c0) st Hst)
        as [Heq Hok].
      { intros st1 Hst1. apply unit_c_sim; assumption. }
      rewrite Heq.
      destruct (ron E0 (unit_c E0 C0 lf bb inh e i c0) st) as [p st'|st'| |];
        cbn [shift_res_with res_ok] in *.
      + destruct Hok as [Hp Hst']. apply (IH (S i) p st'); assumption.
      + destruct (i <? mn); done_ok.
      + done_np.
      + done_np.
  Qed.

  Lemma arr_p_sim inh e : forall k c0 st acc,
    c0 <= n -> state_ok n st ->
    simP (arr_p P2 k inh e (c0 + a) (sst st) (map (shift_node a) acc)) (arr_p P0 k inh e c0 st acc).
  Proof.
    induction k as [|k IH]; intros c0 st acc Hc Hst; cbn [arr_p].
    - split; [|cbn [res_ok cur_ok fst]; split; assumption].
      unfold shift_res_with, sh_pair. cbn [fst snd]. rewrite shift_node_arr, map_rev. reflexivity.
    - destruct (HP inh e c0 st Hc Hst) as [Heq Hok]. rewrite Heq.
      destruct (P0 inh e c0 st) as [[p t] st'|st'| |];
        cbn [shift_res_with res_ok sh_pair cur_ok fst snd] in *.
      + destruct Hok as [Hp Hst']. apply (IH p st' (t :: acc)); assumption.
      + split; [reflexivity|exact Hok].
      + done_np.
      + done_np.
  Qed.

  Lemma arr_c_sim inh e : forall k c0 st,
    c0 <= n -> state_ok n st ->
    simC (arr_c C2 k inh e (c0 + a) (sst st)) (arr_c C0 k inh e c0 st).
  Proof.
    induction k as [|k IH]; intros c0 st Hc Hst; cbn [arr_c].
    - done_ok.
    - destruct (HC inh e c0 st Hc Hst) as [Heq Hok]. rewrite Heq.
      destruct (C0 inh e c0 st) as [p st'|st'| |]; cbn [shift_res_with res_ok] in *.
      + destruct Hok as [Hp Hst']. apply (IH p st'); assumption.
      + split; [reflexivity|exact Hok].
      + done_np.
      + done_np.
  Qed.

  Ltac call_P inh e c st Hc Hst :=
    let Heq := fresh "Heq" in
    destruct (HP inh e c st Hc Hst) as [Heq Hok]; rewrite Heq; clear Heq;
    destruct (P0 inh e c st) as [[p t] st'|st'| |];
    cbn [shift_res_with res_ok sh_pair cur_ok fst snd] in *.

  Ltac call_C inh e c st Hc Hst :=
    let Heq := fresh "Heq" in
    destruct (HC inh e c st Hc Hst) as [Heq Hok]; rewrite Heq; clear Heq;
    destruct (C0 inh e c st) as [p st'|st'| |];
    cbn [shift_res_with res_ok] in *.

  Ltac stk_norm := change (stk (sst ?x)) with (map_stack (shift_span a) (stk x)).

  (* the tail shared by the nodes that store `pos.span(pos')` and keep the state *)
  Ltac span_tail Hm := cbv beta; apply span_sim; [exact Hm|]; intros ? -> ?; done_ok.

  Lemma step_p_sim inh e c0 st :
    c0 <= n -> state_ok n st ->
    simP (step_p E2 P2 C2 lf inh e (c0 + a) (sst st)) (step_p E0 P0 C0 lf inh e c0 st).
  Proof.
    intros Hc Hst.
    destruct e as [t|t|lo hi| | | | |pp|ss|k|k es|es|e1|k mn mx e1|e1|e1|e1|e1| | | | | |x y|k e1|e1 e2| | |r arg];
      cbn [step_p].
    - (* TStr *)
      rewrite ms_sub. apply leaf_match_sim; [exact Hst|]. intros p Hm. apply ms_bound in Hm. done_ok.
    - (* TInsens *)
      rewrite mi_sub. apply leaf_match_sim; [exact Hst|]. intros p Hm. apply mi_bound in Hm. cbv beta.
      apply span_sim; [exact Hm|]. intros sp -> Hle.
      rewrite ss_sub by exact Hm. apply lift_sim_same. intros txt _. done_ok.
    - (* TRange *)
      rewrite mc_sub. apply lift_sim. intros [[p c]|] Hm; cbn [option_map]; unfold shift_char_hit; cbn [fst snd];
        [|done_ok].
      apply mc_bound in Hm. apply span_sim; [exact Hm|]. intros sp -> Hle.
      rewrite ss_sub by exact Hm. apply lift_sim_same. intros txt _.
      destruct (dec1 txt) as [[c' l]|]; [done_ok|done_np].
    - (* TAny *)
      rewrite mc_sub. apply lift_sim. intros [[p c]|] Hm; cbn [option_map]; unfold shift_char_hit; cbn [fst snd];
        [apply mc_bound in Hm|]; done_ok.
    - (* TSoi *) rewrite soi_sub. destruct (i_at_start I0 c0); done_ok.
    - (* TEoi *) rewrite eoi_sub. destruct (i_at_end I0 c0); done_ok.
    - (* TNewline *) apply newline_p_sim; assumption.
    - (* TCharBy *)
      rewrite agree_pred, mc_sub. apply lift_sim.
      intros [[p c]|] Hm; cbn [option_map]; unfold shift_char_hit; cbn [fst snd];
        [apply mc_bound in Hm|]; done_ok.
    - (* TSkipUntil *)
      rewrite Hcut2, Hcut0. rewrite su_sub by exact Hc. pose proof (su_bound ss c0) as Hb.
      destruct (i_skip_until I0 true ss c0) as [f p']. unfold shift_until. cbn [fst snd] in *.
      span_tail Hb.
    - (* TSkipChars *)
      rewrite sk_sub. apply leaf_match_sim; [exact Hst|]. intros p Hm. apply sk_bound in Hm. span_tail Hm.
    - (* TSeq *) apply (seq_p_sim (resolve k inh) inh es true c0 st []); assumption.
    - (* TChoice *) apply choice_p_sim; assumption.
    - (* TOpt *)
      destruct (ron_sim (sh_pair a (shift_node a)) (cur_ok n) (P2 inh e1 (c0 + a)) (P0 inh e1 c0) st Hst)
        as [Heq Hok].
      { intros st1 Hst1. apply HP; assumption. }
      rewrite Heq.
      destruct (ron E0 (P0 inh e1 c0) st) as [[p t] st'|st'| |];
        cbn [shift_res_with res_ok sh_pair cur_ok fst snd] in *.
      + split; [reflexivity|exact Hok].
      + done_ok.
      + done_np.
      + done_np.
    - (* TRep *) apply (rep_p_sim (resolve k inh) inh mn mx e1 lf 0 c0 st []); assumption.
    - (* TAtomicRep *) apply (arep_p_sim lf inh e1 c0 st []); assumption.
    - (* TPos *)
      rewrite (sst_snapshot st (EPol true) (EPol true) eq_refl).
      assert (Hst1 : state_ok n (with_stk (s_snapshot (stk st)) (ev (EPol true) st))) by exact Hst.
      call_P inh e1 c0 (with_stk (s_snapshot (stk st)) (ev (EPol true) st)) Hc Hst1.
      + destruct Hok as [Hp Hst']. stk_norm. rewrite s_restore_map. apply lift_sim. intros s1 Hs1.
        assert (Hs1ok : state_ok n (ev EPolEnd (with_stk s1 st')))
          by (eapply stack_all_restore; [exact Hst'|exact Hs1]).
        done_ok.
      + stk_norm. rewrite s_restore_map. apply lift_sim. intros s1 Hs1.
        assert (Hs1ok : state_ok n (ev EPolEnd (with_stk s1 st')))
          by (eapply stack_all_restore; [exact Hok|exact Hs1]).
        done_ok.
      + done_np.
      + done_np.
    - (* TNeg *)
      rewrite (sst_snapshot st (EPol false) (EPol false) eq_refl).
      assert (Hst1 : state_ok n (with_stk (s_snapshot (stk st)) (ev (EPol false) st))) by exact Hst.
      call_C inh e1 c0 (with_stk (s_snapshot (stk st)) (ev (EPol false) st)) Hc Hst1.
      + destruct Hok as [Hp Hst']. stk_norm. rewrite s_restore_map. apply lift_sim. intros s1 Hs1.
        assert (Hs1ok : state_ok n (ev EPolEnd (with_stk s1 st')))
          by (eapply stack_all_restore; [exact Hst'|exact Hs1]).
        done_ok.
      + stk_norm. rewrite s_restore_map. apply lift_sim. intros s1 Hs1.
        assert (Hs1ok : state_ok n (ev EPolEnd (with_stk s1 st')))
          by (eapply stack_all_restore; [exact Hok|exact Hs1]).
        done_ok.
      + done_np.
      + done_np.
    - (* TPush *)
      call_P inh e1 c0 st Hc Hst.
      + destruct Hok as [Hp Hst']. apply span_sim; [exact Hp|]. intros sp -> Hle.
        split; [reflexivity|]. cbn [res_ok cur_ok fst]. split; [exact Hp|].
        unfold state_ok. cbn [with_stk stk].
        apply stack_all_push; [split; cbn [fst snd]; assumption|exact Hst'].
      + split; [reflexivity|exact Hok].
      + done_np.
      + done_np.
    - (* TPeek *)
      stk_norm. rewrite s_peek_map.
      destruct (s_peek (stk st)) as [sp|] eqn:Hpk; cbn [option_map]; [|done_ok].
      pose proof (stack_all_peek _ _ _ Hst Hpk) as [Hsp1 Hsp2].
      rewrite ss_sub by exact Hsp2. apply lift_sim_same. intros txt _.
      rewrite ms_sub. apply leaf_match_sim; [exact Hst|]. intros p Hm. apply ms_bound in Hm. span_tail Hm.
    - (* TPop *)
      stk_norm. rewrite s_pop_map.
      pose proof (stack_all_pop _ _ Hst) as [Hst1 Hx].
      destruct (s_pop (stk st)) as [[sp|] s1]; cbn [fst snd option_map] in *; [|done_ok].
      destruct (Hx sp eq_refl) as [Hsp1 Hsp2]. cbv zeta.
      rewrite ss_sub by exact Hsp2. apply lift_sim_same. intros txt _.
      change (with_stk (map_stack (shift_span a) s1) (sst st)) with (sst (with_stk s1 st)).
      rewrite ms_sub. apply leaf_match_sim; [exact Hst1|]. intros p Hm. apply ms_bound in Hm.
      assert (Hst1' : state_ok n (with_stk s1 st)) by exact Hst1. done_ok.
    - (* TDrop *)
      stk_norm. rewrite s_pop_map.
      pose proof (stack_all_pop _ _ Hst) as [Hst1 Hx].
      destruct (s_pop (stk st)) as [[sp|] s1]; cbn [fst snd option_map] in *; [|done_ok].
      assert (Hst1' : state_ok n (with_stk s1 st)) by exact Hst1. done_ok.
    - (* TPeekAll *)
      stk_norm. rewrite s_len_map, s_index_map. apply lift_sim. intros bf Hbf.
      pose proof (stack_all_index _ _ _ _ _ Hst Hbf) as Hall.
      rewrite <- map_rev. rewrite peek_spans_sub by (apply Forall_rev; exact Hall).
      apply leaf_match_sim; [exact Hst|]. intros p Hm. apply (peek_spans_bound _ _ _ Hc) in Hm.
      span_tail Hm.
    - (* TPopAll *)
      stk_norm. rewrite s_len_map, s_index_map. apply lift_sim. intros bf Hbf.
      pose proof (stack_all_index _ _ _ _ _ Hst Hbf) as Hall.
      rewrite <- map_rev. rewrite peek_spans_sub by (apply Forall_rev; exact Hall).
      apply leaf_match_sim; [exact Hst|]. intros p Hm. apply (peek_spans_bound _ _ _ Hc) in Hm.
      cbv beta. apply span_sim; [exact Hm|]. intros sp -> Hle.
      rewrite s_pop_all_map.
      assert (Hst1 : state_ok n (with_stk (s_pop_all (stk st)) st)) by (apply stack_all_pop_all; exact Hst).
      done_ok.
    - (* TPeekSlice *)
      change (stk (sst st)) with (shift_stack a (stk st)). rewrite stack_slice_sub.
      destruct (stack_slice (stk st) x y) as [m|] eqn:Hsl; cbn [option_map]; [|done_ok].
      apply lift_sim. intros sps Hm. subst m.
      pose proof (stack_slice_ok _ _ _ _ Hst Hsl) as Hall.
      rewrite peek_spans_sub by exact Hall.
      apply leaf_match_sim; [exact Hst|]. intros p Hm. apply (peek_spans_bound _ _ _ Hc) in Hm.
      span_tail Hm.
    - (* TArr *) apply (arr_p_sim inh e1 k c0 st []); assumption.
    - (* TPair *)
      call_P inh e1 c0 st Hc Hst.
      + destruct Hok as [Hp Hst'].
        destruct (HP inh e2 p st' Hp Hst') as [Heq2 Hok2]. rewrite Heq2.
        destruct (P0 inh e2 p st') as [[p2 t2] st2|st2| |];
          cbn [shift_res_with res_ok sh_pair cur_ok fst snd] in *.
        * split; [reflexivity|exact Hok2].
        * split; [reflexivity|exact Hok2].
        * done_np.
        * done_np.
      + split; [reflexivity|exact Hok].
      + done_np.
      + done_np.
    - (* TEmpty *) done_ok.
    - (* TFail *) done_ok.
    - (* TRule *)
      rewrite agree_rules. cbv zeta. destruct (r_emis (e_rules E0 r)).
      + (* span only *)
        change (ev (EEnter r (c0 + a)) (sst st)) with (sst (ev (EEnter r c0) st)).
        assert (Hst1 : state_ok n (ev (EEnter r c0) st)) by exact Hst.
        call_C (resolve arg inh) (r_body (e_rules E0 r)) c0 (ev (EEnter r c0) st) Hc Hst1.
        * destruct Hok as [Hp Hst']. apply span_sim; [exact Hp|]. intros sp -> Hle.
          assert (Hst2 : state_ok n (ev (EExit r c0 true) st')) by exact Hst'. done_ok.
        * assert (Hst2 : state_ok n (ev (EExit r c0 false) st')) by exact Hok. done_ok.
        * done_np.
        * done_np.
      + (* expression only *)
        call_P (resolve arg inh) (r_body (e_rules E0 r)) c0 st Hc Hst.
        * split; [reflexivity|exact Hok].
        * split; [reflexivity|exact Hok].
        * done_np.
        * done_np.
      + (* both *)
        change (ev (EEnter r (c0 + a)) (sst st)) with (sst (ev (EEnter r c0) st)).
        assert (Hst1 : state_ok n (ev (EEnter r c0) st)) by exact Hst.
        call_P (resolve arg inh) (r_body (e_rules E0 r)) c0 (ev (EEnter r c0) st) Hc Hst1.
        * destruct Hok as [Hp Hst']. apply span_sim; [exact Hp|]. intros sp -> Hle.
          assert (Hst2 : state_ok n (ev (EExit r c0 true) st')) by exact Hst'. done_ok.
        * assert (Hst2 : state_ok n (ev (EExit r c0 false) st')) by exact Hok. done_ok.
        * done_np.
        * done_np.
  Qed.

  Ltac span_tail_c Hm := apply span_sim; [exact Hm|]; intros ? -> ?; done_ok.

  Lemma step_c_sim inh e c0 st :
    c0 <= n -> state_ok n st ->
    simC (step_c E2 C2 lf inh e (c0 + a) (sst st)) (step_c E0 C0 lf inh e c0 st).
  Proof.
    intros Hc Hst.
    destruct e as [t|t|lo hi| | | | |pp|ss|k|k es|es|e1|k mn mx e1|e1|e1|e1|e1| | | | | |x y|k e1|e1 e2| | |r arg];
      cbn [step_c].
    - (* TStr *)
      rewrite ms_sub. apply leaf_check_sim; [exact Hst|]. intros p Hm. eapply ms_bound. exact Hm.
    - (* TInsens *)
      rewrite mi_sub. apply leaf_check_sim; [exact Hst|]. intros p Hm. eapply mi_bound. exact Hm.
    - (* TRange *)
      rewrite mc_sub. apply lift_sim. intros [[p c]|] Hm; cbn [option_map]; unfold shift_char_hit; cbn [fst snd];
        [apply mc_bound in Hm|]; done_ok.
    - (* TAny *)
      rewrite mc_sub. apply lift_sim. intros [[p c]|] Hm; cbn [option_map]; unfold shift_char_hit; cbn [fst snd];
        [apply mc_bound in Hm|]; done_ok.
    - (* TSoi *) rewrite soi_sub. destruct (i_at_start I0 c0); done_ok.
    - (* TEoi *) rewrite eoi_sub. destruct (i_at_end I0 c0); done_ok.
    - (* TNewline *) apply newline_c_sim; assumption.
    - (* TCharBy *)
      rewrite agree_pred, mc_sub. apply lift_sim.
      intros [[p c]|] Hm; cbn [option_map]; unfold shift_char_hit; cbn [fst snd];
        [apply mc_bound in Hm|]; done_ok.
    - (* TSkipUntil *)
      rewrite Hcut2, Hcut0. rewrite su_sub by exact Hc. pose proof (su_bound ss c0) as Hb.
      destruct (i_skip_until I0 true ss c0) as [f p']. unfold shift_until. cbn [fst snd] in *. done_ok.
    - (* TSkipChars *)
      rewrite sk_sub. apply leaf_check_sim; [exact Hst|]. intros p Hm. eapply sk_bound. exact Hm.
    - (* TSeq *) apply seq_c_sim; assumption.
    - (* TChoice *) apply choice_c_sim; assumption.
    - (* TOpt *)
      destruct (ron_sim (shift_cur a) (fun p => p <= n) (C2 inh e1 (c0 + a)) (C0 inh e1 c0) st Hst)
        as [Heq Hok].
      { intros st1 Hst1. apply HC; assumption. }
      rewrite Heq.
      destruct (ron E0 (C0 inh e1 c0) st) as [p st'|st'| |]; cbn [shift_res_with res_ok] in *.
      + split; [reflexivity|exact Hok].
      + done_ok.
      + done_np.
      + done_np.
    - (* TRep *) apply rep_c_sim; assumption.
    - (* TAtomicRep *) apply arep_c_sim; assumption.
    - (* TPos *)
      rewrite (sst_snapshot st (EPol true) (EPol true) eq_refl).
      assert (Hst1 : state_ok n (with_stk (s_snapshot (stk st)) (ev (EPol true) st))) by exact Hst.
      call_C inh e1 c0 (with_stk (s_snapshot (stk st)) (ev (EPol true) st)) Hc Hst1.
      + destruct Hok as [Hp Hst']. stk_norm. rewrite s_restore_map. apply lift_sim. intros s1 Hs1.
        assert (Hs1ok : state_ok n (ev EPolEnd (with_stk s1 st')))
          by (eapply stack_all_restore; [exact Hst'|exact Hs1]).
        done_ok.
      + stk_norm. rewrite s_restore_map. apply lift_sim. intros s1 Hs1.
        assert (Hs1ok : state_ok n (ev EPolEnd (with_stk s1 st')))
          by (eapply stack_all_restore; [exact Hok|exact Hs1]).
        done_ok.
      + done_np.
      + done_np.
    - (* TNeg *)
      rewrite (sst_snapshot st (EPol false) (EPol false) eq_refl).
      assert (Hst1 : state_ok n (with_stk (s_snapshot (stk st)) (ev (EPol false) st))) by exact Hst.
      call_C inh e1 c0 (with_stk (s_snapshot (stk st)) (ev (EPol false) st)) Hc Hst1.
      + destruct Hok as [Hp Hst']. stk_norm. rewrite s_restore_map. apply lift_sim. intros s1 Hs1.
        assert (Hs1ok : state_ok n (ev EPolEnd (with_stk s1 st')))
          by (eapply stack_all_restore; [exact Hst'|exact Hs1]).
        done_ok.
      + stk_norm. rewrite s_restore_map. apply lift_sim. intros s1 Hs1.
        assert (Hs1ok : state_ok n (ev EPolEnd (with_stk s1 st')))
          by (eapply stack_all_restore; [exact Hok|exact Hs1]).
        done_ok.
      + done_np.
      + done_np.
    - (* TPush *)
      call_C inh e1 c0 st Hc Hst.
      + destruct Hok as [Hp Hst']. apply span_sim; [exact Hp|]. intros sp -> Hle.
        split; [reflexivity|]. cbn [res_ok]. split; [exact Hp|].
        unfold state_ok. cbn [with_stk stk].
        apply stack_all_push; [split; cbn [fst snd]; assumption|exact Hst'].
      + split; [reflexivity|exact Hok].
      + done_np.
      + done_np.
    - (* TPeek *)
      stk_norm. rewrite s_peek_map.
      destruct (s_peek (stk st)) as [sp|] eqn:Hpk; cbn [option_map]; [|done_ok].
      pose proof (stack_all_peek _ _ _ Hst Hpk) as [Hsp1 Hsp2].
      rewrite ss_sub by exact Hsp2. apply lift_sim_same. intros txt _.
      rewrite ms_sub. apply leaf_check_sim; [exact Hst|]. intros p Hm. eapply ms_bound. exact Hm.
    - (* TPop *)
      stk_norm. rewrite s_pop_map.
      pose proof (stack_all_pop _ _ Hst) as [Hst1 Hx].
      destruct (s_pop (stk st)) as [[sp|] s1]; cbn [fst snd option_map] in *; [|done_ok].
      destruct (Hx sp eq_refl) as [Hsp1 Hsp2]. cbv zeta.
      rewrite ss_sub by exact Hsp2. apply lift_sim_same. intros txt _.
      change (with_stk (map_stack (shift_span a) s1) (sst st)) with (sst (with_stk s1 st)).
      rewrite ms_sub. apply leaf_check_sim; [exact Hst1|]. intros p Hm. eapply ms_bound. exact Hm.
    - (* TDrop *)
      stk_norm. rewrite s_pop_map.
      pose proof (stack_all_pop _ _ Hst) as [Hst1 Hx].
      destruct (s_pop (stk st)) as [[sp|] s1]; cbn [fst snd option_map] in *; [|done_ok].
      assert (Hst1' : state_ok n (with_stk s1 st)) by exact Hst1. done_ok.
    - (* TPeekAll *)
      stk_norm. rewrite s_len_map, s_index_map. apply lift_sim. intros bf Hbf.
      pose proof (stack_all_index _ _ _ _ _ Hst Hbf) as Hall.
      rewrite <- map_rev. rewrite peek_spans_sub by (apply Forall_rev; exact Hall).
      apply lift_sim. intros [p|] Hm; cbn [option_map]; [|done_ok].
      apply (peek_spans_bound _ _ _ Hc) in Hm. change (shift_cur a p) with (p + a). span_tail_c Hm.
    - (* TPopAll *)
      stk_norm. rewrite s_len_map, s_index_map. apply lift_sim. intros bf Hbf.
      pose proof (stack_all_index _ _ _ _ _ Hst Hbf) as Hall.
      rewrite <- map_rev. rewrite peek_spans_sub by (apply Forall_rev; exact Hall).
      apply lift_sim. intros [p|] Hm; cbn [option_map]; [|done_ok].
      apply (peek_spans_bound _ _ _ Hc) in Hm. change (shift_cur a p) with (p + a).
      apply span_sim; [exact Hm|]. intros sp -> Hle.
      rewrite s_pop_all_map.
      assert (Hst1 : state_ok n (with_stk (s_pop_all (stk st)) st)) by (apply stack_all_pop_all; exact Hst).
      done_ok.
    - (* TPeekSlice *)
      change (stk (sst st)) with (shift_stack a (stk st)). rewrite stack_slice_sub.
      destruct (stack_slice (stk st) x y) as [m|] eqn:Hsl; cbn [option_map]; [|done_ok].
      apply lift_sim. intros sps Hm. subst m.
      pose proof (stack_slice_ok _ _ _ _ Hst Hsl) as Hall.
      rewrite peek_spans_sub by exact Hall.
      apply lift_sim. intros [p|] Hm; cbn [option_map]; [|done_ok].
      apply (peek_spans_bound _ _ _ Hc) in Hm. change (shift_cur a p) with (p + a). span_tail_c Hm.
    - (* TArr *) apply arr_c_sim; assumption.
    - (* TPair *)
      call_C inh e1 c0 st Hc Hst.
      + destruct Hok as [Hp Hst']. apply HC; assumption.
      + split; [reflexivity|exact Hok].
      + done_np.
      + done_np.
    - (* TEmpty *) done_ok.
    - (* TFail *) done_ok.
    - (* TRule *)
      rewrite agree_rules. cbv zeta.
      assert (Hboth :
        simC match C2 (resolve arg inh) (r_body (e_rules E0 r)) (c0 + a) (ev (EEnter r (c0 + a)) (sst st)) with
             | Ok pos' st' => Ok pos' (ev (EExit r (c0 + a) true) st')
             | Fail st' => Fail (ev (EExit r (c0 + a) false) st')
             | Panic => Panic
             | Fuel => Fuel
             end
             match C0 (resolve arg inh) (r_body (e_rules E0 r)) c0 (ev (EEnter r c0) st) with
             | Ok pos' st' => Ok pos' (ev (EExit r c0 true) st')
             | Fail st' => Fail (ev (EExit r c0 false) st')
             | Panic => Panic
             | Fuel => Fuel
             end).
      { change (ev (EEnter r (c0 + a)) (sst st)) with (sst (ev (EEnter r c0) st)).
        assert (Hst1 : state_ok n (ev (EEnter r c0) st)) by exact Hst.
        call_C (resolve arg inh) (r_body (e_rules E0 r)) c0 (ev (EEnter r c0) st) Hc Hst1.
        - destruct Hok as [Hp Hst'].
          assert (Hst2 : state_ok n (ev (EExit r c0 true) st')) by exact Hst'. done_ok.
        - assert (Hst2 : state_ok n (ev (EExit r c0 false) st')) by exact Hok. done_ok.
        - done_np.
        - done_np. }
      destruct (r_emis (e_rules E0 r)).
      + exact Hboth.
      + apply HC; assumption.
      + exact Hboth.
  Qed.
End Sim.

(* ---------------------------------------------------------------- induction on fuel *)

Theorem sim_lift s a b E2 E0 :
  valid_range s a b -> env_agree s a b E2 E0 -> e_su_cut E2 = true -> e_su_cut E0 = true ->
  forall fuel,
    (forall inh e c0 st, c0 <= b - a -> state_ok (b - a) st ->
       sim a (b - a) (sh_pair a (shift_node a)) (cur_ok (b - a))
           (tparse E2 fuel inh e (c0 + a) (shift_state a st)) (tparse E0 fuel inh e c0 st)) /\
    (forall inh e c0 st, c0 <= b - a -> state_ok (b - a) st ->
       sim a (b - a) (shift_cur a) (fun p => p <= b - a)
           (tcheck E2 fuel inh e (c0 + a) (shift_state a st)) (tcheck E0 fuel inh e c0 st)).
Proof.
  intros HV HE H2 H0. induction fuel as [|k [IHP IHC]].
  - split; intros inh e c0 st Hc Hst; cbn [tparse tcheck]; (split; [reflexivity|exact I]).
  - split; intros inh e c0 st Hc Hst; cbn [tparse tcheck].
    + eapply step_p_sim; eassumption.
    + eapply step_c_sim; eassumption.
Qed.

(* the statement in the words of the property: equal up to the shift, and the run on the fresh text
   stays inside it (cursor <= length, stack spans inside) *)
Theorem subinput_parse s a b E2 E0 fuel inh e c0 st :
  valid_range s a b -> env_agree s a b E2 E0 -> e_su_cut E2 = true -> e_su_cut E0 = true ->
  c0 <= b - a -> state_ok (b - a) st ->
  tparse E2 fuel inh e (c0 + a) (shift_state a st) = shift_pres a (tparse E0 fuel inh e c0 st)
  /\ res_ok (cur_ok (b - a)) (b - a) (tparse E0 fuel inh e c0 st).
Proof.
  intros HV HE H2 H0 Hc Hst. destruct (sim_lift s a b E2 E0 HV HE H2 H0 fuel) as [HP _].
  exact (HP inh e c0 st Hc Hst).
Qed.

Theorem subinput_check s a b E2 E0 fuel inh e c0 st :
  valid_range s a b -> env_agree s a b E2 E0 -> e_su_cut E2 = true -> e_su_cut E0 = true ->
  c0 <= b - a -> state_ok (b - a) st ->
  tcheck E2 fuel inh e (c0 + a) (shift_state a st) = shift_cres a (tcheck E0 fuel inh e c0 st)
  /\ res_ok (fun p => p <= b - a) (b - a) (tcheck E0 fuel inh e c0 st).
Proof.
  intros HV HE H2 H0 Hc Hst. destruct (sim_lift s a b E2 E0 HV HE H2 H0 fuel) as [_ HC].
  exact (HC inh e c0 st Hc Hst).
Qed.

(* ---------------------------------------------------------------- entry points *)

Section Entry.
  Variable s : list byte.
  Variables a b : nat.
  Hypothesis HV : valid_range s a b.
  Variables E2 E0 : env.
  Hypothesis HE : env_agree s a b E2 E0.
  Hypothesis Hcut2 : e_su_cut E2 = true.
  Hypothesis Hcut0 : e_su_cut E0 = true.

  Lemma sub_start2 : i_start (e_inp E2) = 0 + a.
  Proof. destruct HE as ((_ & Hs & _) & _). exact Hs. Qed.

  Lemma sub_start0 : i_start (e_inp E0) = 0.
  Proof. destruct HE as (_ & H0 & _). rewrite H0. reflexivity. Qed.

  Lemma partial_parse_sub fuel r :
    try_parse_partial E2 fuel r = shift_pres a (try_parse_partial E0 fuel r)
    /\ res_ok (cur_ok (b - a)) (b - a) (try_parse_partial E0 fuel r).
  Proof.
    unfold try_parse_partial. rewrite sub_start2, sub_start0. rewrite <- (shift_state0 a) at 1.
    apply subinput_parse with (s := s); try assumption; [lia|apply state_ok0].
  Qed.

  Lemma partial_check_sub fuel r :
    try_check_partial E2 fuel r = shift_cres a (try_check_partial E0 fuel r)
    /\ res_ok (fun p => p <= b - a) (b - a) (try_check_partial E0 fuel r).
  Proof.
    unfold try_check_partial. rewrite sub_start2, sub_start0. rewrite <- (shift_state0 a) at 1.
    apply subinput_check with (s := s); try assumption; [lia|apply state_ok0].
  Qed.

  Lemma eoi_attempt_sub p st :
    eoi_attempt E2 (p + a) (shift_state a st) = shift_ures a (eoi_attempt E0 p st).
  Proof.
    unfold eoi_attempt. rewrite (agree_eoi _ _ _ _ _ HE), (eoi_sub _ _ _ HV _ _ HE).
    destruct (i_at_end (e_inp E0) p); reflexivity.
  Qed.

  Lemma no_ignore_sub r : no_ignore E2 r = no_ignore E0 r.
  Proof. unfold no_ignore. rewrite (agree_eoi _ _ _ _ _ HE), (agree_rules _ _ _ _ _ HE). reflexivity. Qed.

  Lemma top_skip_p_sub fuel p st :
    p <= b - a -> state_ok (b - a) st ->
    sim a (b - a) (sh_pair a (shift_node a)) (cur_ok (b - a))
        (top_skip_p E2 fuel (p + a) (shift_state a st)) (top_skip_p E0 fuel p st).
  Proof.
    intros Hp Hst. unfold top_skip_p.
    destruct (sim_lift s a b E2 E0 HV HE Hcut2 Hcut0 fuel) as [HP _].
    eapply skip_p_sim; eassumption.
  Qed.

  Lemma top_skip_c_sub fuel p st :
    p <= b - a -> state_ok (b - a) st ->
    sim a (b - a) (shift_cur a) (fun p => p <= b - a)
        (top_skip_c E2 fuel (p + a) (shift_state a st)) (top_skip_c E0 fuel p st).
  Proof.
    intros Hp Hst. unfold top_skip_c.
    destruct (sim_lift s a b E2 E0 HV HE Hcut2 Hcut0 fuel) as [_ HC].
    eapply skip_c_sim; eassumption.
  Qed.

  Lemma full_parse_sub fuel r : try_parse E2 fuel r = shift_tres a (try_parse E0 fuel r).
  Proof.
    unfold try_parse. destruct (partial_parse_sub fuel r) as [Heq Hok]. rewrite Heq.
    destruct (try_parse_partial E0 fuel r) as [[p t] st|st| |];
      cbn [shift_pres shift_res_with sh_pair res_ok cur_ok fst snd] in *; try reflexivity.
    destruct Hok as [Hp Hst]. rewrite no_ignore_sub. destruct (no_ignore E0 r).
    - rewrite eoi_attempt_sub. destruct (eoi_attempt E0 p st) as [u st'|st'| |]; reflexivity.
    - destruct (top_skip_p_sub fuel p st Hp Hst) as [Heq2 Hok2]. rewrite Heq2.
      destruct (top_skip_p E0 fuel p st) as [[p' t'] st'|st'| |];
        cbn [shift_res_with sh_pair fst snd] in *; try reflexivity.
      rewrite eoi_attempt_sub. destruct (eoi_attempt E0 p' st') as [u st''|st''| |]; reflexivity.
  Qed.

  Lemma full_check_sub fuel r : try_check E2 fuel r = shift_ures a (try_check E0 fuel r).
  Proof.
    unfold try_check. destruct (partial_check_sub fuel r) as [Heq Hok]. rewrite Heq.
    destruct (try_check_partial E0 fuel r) as [p st|st| |];
      cbn [shift_cres shift_res_with res_ok] in *; try reflexivity.
    destruct Hok as [Hp Hst]. rewrite no_ignore_sub. destruct (no_ignore E0 r).
    - apply eoi_attempt_sub.
    - destruct (top_skip_c_sub fuel p st Hp Hst) as [Heq2 Hok2].
      change (shift_cur a p) with (p + a). rewrite Heq2.
      destruct (top_skip_c E0 fuel p st) as [p' st'|st'| |];
        cbn [shift_res_with] in *; try reflexivity.
      apply eoi_attempt_sub.
  Qed.
End Entry.

Theorem subinput_entry_points s a b E2 E0 fuel r :
  valid_range s a b -> env_agree s a b E2 E0 -> e_su_cut E2 = true -> e_su_cut E0 = true ->
  try_parse_partial E2 fuel r = shift_pres a (try_parse_partial E0 fuel r) /\
  try_check_partial E2 fuel r = shift_cres a (try_check_partial E0 fuel r) /\
  try_parse E2 fuel r = shift_tres a (try_parse E0 fuel r) /\
  try_check E2 fuel r = shift_ures a (try_check E0 fuel r).
Proof.
  intros HV HE H2 H0. repeat split.
  - apply (partial_parse_sub s a b HV E2 E0 HE H2 H0).
  - apply (partial_check_sub s a b HV E2 E0 HE H2 H0).
  - apply (full_parse_sub s a b HV E2 E0 HE H2 H0).
  - apply (full_check_sub s a b HV E2 E0 HE H2 H0).
Qed.

(* ---------------------------------------------------------------- corollaries in the property's words *)

(* SOI holds only at a, EOI only at b (whatever the rest of the environment) *)
Lemma soi_only_at_a E2 s a b k inh c st :
  sub_of (e_inp E2) s a b ->
  tparse E2 (S k) inh TSoi c st = (if c =? a then Ok (c, NSoi) st else Fail st) /\
  tcheck E2 (S k) inh TSoi c st = (if c =? a then Ok c st else Fail st).
Proof.
  intros (_ & Hs & _). cbn [tparse tcheck step_p step_c]. unfold i_at_start. rewrite Hs. split; reflexivity.
Qed.

Lemma eoi_only_at_b E2 s a b k inh c st :
  sub_of (e_inp E2) s a b ->
  tparse E2 (S k) inh TEoi c st = (if c =? b then Ok (c, NEoi) st else Fail st) /\
  tcheck E2 (S k) inh TEoi c st = (if c =? b then Ok c st else Fail st).
Proof.
  intros (_ & _ & He). cbn [tparse tcheck step_p step_c]. unfold i_at_end. rewrite He. split; reflexivity.
Qed.

Lemma soi_eoi s a b E2 k inh c st :
  sub_of (e_inp E2) s a b ->
  ((exists x st', tparse E2 (S k) inh TSoi c st = Ok x st') <-> c = a) /\
  ((exists x st', tparse E2 (S k) inh TEoi c st = Ok x st') <-> c = b).
Proof.
  intros HI. destruct (soi_only_at_a E2 s a b k inh c st HI) as [Hs _].
  destruct (eoi_only_at_b E2 s a b k inh c st HI) as [He _]. rewrite Hs, He. split.
  - destruct (Nat.eqb_spec c a) as [Heq|Hne]; split.
    + intros _. exact Heq.
    + intros _. eexists _, _. reflexivity.
    + intros (x & st' & H). discriminate H.
    + intros H. contradiction.
  - destruct (Nat.eqb_spec c b) as [Heq|Hne]; split.
    + intros _. exact Heq.
    + intros _. eexists _, _. reflexivity.
    + intros (x & st' & H). discriminate H.
    + intros H. contradiction.
Qed.

(* nothing outside [a, b) influences the outcome: two parents with the same text between a and b *)
Theorem outside_irrelevant s1 s2 a b E1 E2 E0 fuel inh e c0 st :
  valid_range s1 a b -> valid_range s2 a b ->
  env_agree s1 a b E1 E0 -> env_agree s2 a b E2 E0 ->
  e_su_cut E1 = true -> e_su_cut E2 = true -> e_su_cut E0 = true ->
  c0 <= b - a -> state_ok (b - a) st ->
  tparse E1 fuel inh e (c0 + a) (shift_state a st) = tparse E2 fuel inh e (c0 + a) (shift_state a st) /\
  tcheck E1 fuel inh e (c0 + a) (shift_state a st) = tcheck E2 fuel inh e (c0 + a) (shift_state a st).
Proof.
  intros HV1 HV2 HE1 HE2 Hc1 Hc2 Hc0 Hc Hst. split.
  - destruct (subinput_parse s1 a b E1 E0 fuel inh e c0 st HV1 HE1 Hc1 Hc0 Hc Hst) as [H1 _].
    destruct (subinput_parse s2 a b E2 E0 fuel inh e c0 st HV2 HE2 Hc2 Hc0 Hc Hst) as [H2 _].
    rewrite H1, H2. reflexivity.
  - destruct (subinput_check s1 a b E1 E0 fuel inh e c0 st HV1 HE1 Hc1 Hc0 Hc Hst) as [H1 _].
    destruct (subinput_check s2 a b E2 E0 fuel inh e c0 st HV2 HE2 Hc2 Hc0 Hc Hst) as [H2 _].
    rewrite H1, H2. reflexivity.
Qed.

(* ---- the two concrete forms ---- *)

Lemma is_boundary_length s : is_boundary s (length s) = true.
Proof.
  unfold is_boundary. assert (H : nth_error s (length s) = None) by (apply nth_error_None; lia).
  rewrite H, Nat.eqb_refl. apply orb_true_r.
Qed.

Lemma valid_range_pos s a : a <= length s -> is_boundary s a = true -> valid_range s a (length s).
Proof. intros Ha Hb. repeat split; [exact Ha|lia|exact Hb|apply is_boundary_length]. Qed.

(* Span(s, a, b) against the fresh s[a..b] *)
Theorem span_entry_points s a b E fuel r :
  valid_range s a b -> e_inp E = inp_of_str (sub_slice s a b) -> e_su_cut E = true ->
  let E2 := with_inp E (inp_of_span s a b) in
  try_parse_partial E2 fuel r = shift_pres a (try_parse_partial E fuel r) /\
  try_check_partial E2 fuel r = shift_cres a (try_check_partial E fuel r) /\
  try_parse E2 fuel r = shift_tres a (try_parse E fuel r) /\
  try_check E2 fuel r = shift_ures a (try_check E fuel r).
Proof.
  intros HV HI Hcut E2. apply (subinput_entry_points s a b); try assumption.
  apply env_agree_with_inp; [apply sub_of_span|exact HI].
Qed.

(* Position(s, a) against the fresh s[a..] *)
Theorem position_entry_points s a E fuel r :
  a <= length s -> is_boundary s a = true -> e_inp E = inp_of_str (skipn a s) -> e_su_cut E = true ->
  let E2 := with_inp E (inp_of_pos s a) in
  try_parse_partial E2 fuel r = shift_pres a (try_parse_partial E fuel r) /\
  try_check_partial E2 fuel r = shift_cres a (try_check_partial E fuel r) /\
  try_parse E2 fuel r = shift_tres a (try_parse E fuel r) /\
  try_check E2 fuel r = shift_ures a (try_check E fuel r).
Proof.
  intros Ha Hb HI Hcut E2. apply (subinput_entry_points s a (length s)); try assumption.
  - apply valid_range_pos; assumption.
  - apply env_agree_with_inp; [apply sub_of_pos|]. rewrite sub_slice_to_end. exact HI.
Qed.

(* ---------------------------------------------------------------- byte level, gathered *)

Theorem matchers_related s a b I2 :
  valid_range s a b -> sub_of I2 s a b ->
  let I0 := inp_of_str (sub_slice s a b) in
  length (sub_slice s a b) = b - a /\
  (forall c0, i_get I2 (c0 + a) = i_get I0 c0) /\
  (forall t c0, i_match_string I2 t (c0 + a) = mmap (option_map (shift_cur a)) (i_match_string I0 t c0)) /\
  (forall t c0, i_match_insens I2 t (c0 + a) = mmap (option_map (shift_cur a)) (i_match_insens I0 t c0)) /\
  (forall k c0, i_skip I2 k (c0 + a) = mmap (option_map (shift_cur a)) (i_skip I0 k c0)) /\
  (forall f c0, i_match_char I2 f (c0 + a) = mmap (option_map (shift_char_hit a)) (i_match_char I0 f c0)) /\
  (forall ss c0, c0 <= b - a ->
     i_skip_until I2 true ss (c0 + a) = shift_until a (i_skip_until I0 true ss c0)) /\
  (forall c0, i_at_start I2 (c0 + a) = i_at_start I0 c0) /\
  (forall c0, i_at_end I2 (c0 + a) = i_at_end I0 c0) /\
  (forall x0 y0, y0 <= b - a -> i_span I2 (x0 + a) (y0 + a) = mmap (shift_span a) (i_span I0 x0 y0)) /\
  (forall sp0, snd sp0 <= b - a -> span_str I2 (shift_span a sp0) = span_str I0 sp0).
Proof.
  intros HV HI I0. repeat split; intros.
  - apply sub_slice_length. exact HV.
  - apply i_get_sub; assumption.
  - apply i_match_string_sub; assumption.
  - apply i_match_insens_sub; assumption.
  - apply i_skip_sub; assumption.
  - apply i_match_char_sub; assumption.
  - apply i_skip_until_sub; assumption.
  - apply i_at_start_sub; assumption.
  - apply i_at_end_sub; assumption.
  - apply i_span_sub; assumption.
  - apply span_str_sub; assumption.
Qed.

(* every cursor an operation returns stays inside the input (any form) *)
Theorem matchers_bounded I :
  (forall t c p, i_match_string I t c = MOk (Some p) -> p <= i_end I) /\
  (forall t c p, i_match_insens I t c = MOk (Some p) -> p <= i_end I) /\
  (forall k c p, i_skip I k c = MOk (Some p) -> p <= i_end I) /\
  (forall f c p ch, i_match_char I f c = MOk (Some (p, ch)) -> p <= i_end I) /\
  (forall cut ss c, snd (i_skip_until I cut ss c) <= i_end I) /\
  (forall x y sp, i_span I x y = MOk sp -> sp = (x, y) /\ x <= y).
Proof.
  repeat split.
  - apply i_match_string_bound.
  - apply i_match_insens_bound.
  - apply i_skip_bound.
  - apply i_match_char_bound.
  - intros cut ss c. apply i_skip_until_bound.
  - apply i_span_ok in H. apply H.
  - apply i_span_ok in H. apply H.
Qed.

(* ---------------------------------------------------------------- non-vacuity *)

(* "x" "e-acute" " " "a" "b" "y": the Span 1..6 is "e-acute ab"; implicit whitespace, a stack push, a
   skip_until, a negative predicate that looks at the cut-off end, EOI at b = 6 < length = 7 *)
Definition ex_s : list byte := [120; 195; 169; 32; 97; 98; 121]%N.
Definition ex_body : texpr :=
  TSeq SkInh [TSoi; TAny; TPush (TStr [97%N]); TSkipUntil [[98%N]]; TStr [98%N]; TNeg TAny; TEoi].
Definition ex_env (I : inp) (cut : bool) : env :=
  mk_env I (fun _ => mk_rdef None EmBoth ex_body) (SkipRep (TStr [32%N])) (fun _ _ => false) 99%N true cut true.

Example subinput_nonvacuous :
  let E2 := ex_env (inp_of_span ex_s 1 6) true in
  let E0 := ex_env (inp_of_str (sub_slice ex_s 1 6)) true in
  valid_range ex_s 1 6 /\ env_agree ex_s 1 6 E2 E0 /\ e_su_cut E2 = true /\ e_su_cut E0 = true /\
  sub_slice ex_s 1 6 = [195; 169; 32; 97; 98]%N /\
  try_parse_partial E0 10 0%N =
    Ok (5, NRule 0%N (Some (NSeq [([NAtomicRep []], NSoi);
                                  ([NAtomicRep []], NChar CkAny 233%N);
                                  ([NAtomicRep [NStr]], NPush NStr);
                                  ([NAtomicRep []], NSpanned KSkip 4 4);
                                  ([NAtomicRep []], NStr);
                                  ([NAtomicRep []], NNeg);
                                  ([NAtomicRep []], NEoi)])) (Some (0, 5)))
       (mk_state (mk_stack [(3, 4)] [] []) [EExit 0%N 0 true; EPolEnd; EPol false; EEnter 0%N 0]) /\
  try_parse_partial E2 10 0%N =
    Ok (6, NRule 0%N (Some (NSeq [([NAtomicRep []], NSoi);
                                  ([NAtomicRep []], NChar CkAny 233%N);
                                  ([NAtomicRep [NStr]], NPush NStr);
                                  ([NAtomicRep []], NSpanned KSkip 5 5);
                                  ([NAtomicRep []], NStr);
                                  ([NAtomicRep []], NNeg);
                                  ([NAtomicRep []], NEoi)])) (Some (1, 6)))
       (mk_state (mk_stack [(4, 5)] [] []) [EExit 0%N 1 true; EPolEnd; EPol false; EEnter 0%N 1]).
Proof.
  cbv zeta. split; [|split; [|split; [|split; [|split; [|split]]]]].
  - unfold valid_range. repeat split; try reflexivity; cbn; lia.
  - unfold env_agree, sub_of. repeat split.
  - reflexivity.
  - reflexivity.
  - vm_compute. reflexivity.
  - vm_compute. reflexivity.
  - vm_compute. reflexivity.
Qed.

(* the defect that was repaired (F3): while skip_until compared against text running to the end of the
   parent string, a needle straddling b was found on the Span but not on the fresh text *)
Lemma subinput_refuted_before_fix :
  exists s a b E2 E0 e,
    valid_range s a b /\ env_agree s a b E2 E0 /\ e_su_cut E2 = false /\ e_su_cut E0 = false /\
    tparse E2 2 true e (0 + a) (shift_state a st0) <> shift_pres a (tparse E0 2 true e 0 st0) /\
    tcheck E2 2 true e (0 + a) (shift_state a st0) <> shift_cres a (tcheck E0 2 true e 0 st0).
Proof.
  exists [120; 120; 97; 98]%N, 0, 3.
  exists (ex_env (inp_of_span [120; 120; 97; 98]%N 0 3) false).
  exists (ex_env (inp_of_str (sub_slice [120; 120; 97; 98]%N 0 3)) false).
  exists (TSkipUntil [[97; 98]%N]).
  split; [|split; [|split; [|split; [|split]]]].
  - unfold valid_range. repeat split; try reflexivity; cbn; lia.
  - unfold env_agree, sub_of. repeat split.
  - reflexivity.
  - reflexivity.
  - vm_compute. intros H. discriminate H.
  - vm_compute. intros H. discriminate H.
Qed.

(* ---------------------------------------------------------------- what the Pairs API shows of the tree *)

Fixpoint shift_tok (a : nat) (t : tok) : tok :=
  match t with Tok r s e cs => Tok r (s + a) (e + a) (map (shift_tok a) cs) end.

(* the token tree of a shifted node is the shifted token tree (the two environments share the rules) *)
Lemma tokens_shift E2 E0 a :
  e_rules E2 = e_rules E0 ->
  forall t, tokens E2 (shift_node a t) = map (shift_tok a) (tokens E0 t).
Proof.
  intros Hr. fix IH 1. intros t.
  destruct t as [ |s e|k c| | |k|k s e|items|m i t1|o|bd items|items|t1| |t1| |two|items|x y| |r content sp];
    try reflexivity.
  - (* NSeq *)
    rewrite shift_node_seq. cbn [tokens].
    induction items as [|[sk t1] items IHi]; [reflexivity|].
    cbn [map flat_map shift_item fst snd]. rewrite !map_app, IHi, (IH t1). f_equal. f_equal.
    induction sk as [|x sk IHs]; [reflexivity|].
    cbn [map flat_map]. rewrite map_app, (IH x), IHs. reflexivity.
  - (* NChoice *) cbn [shift_node tokens]. apply IH.
  - (* NOpt *) destruct o as [t1|]; [|reflexivity]. cbn [shift_node tokens]. apply IH.
  - (* NRep *)
    rewrite shift_node_rep. cbn [tokens].
    induction items as [|[sk t1] items IHi]; [reflexivity|].
    cbn [map flat_map shift_item fst snd]. rewrite !map_app, IHi, (IH t1). f_equal. f_equal.
    induction sk as [|x sk IHs]; [reflexivity|].
    cbn [map flat_map]. rewrite map_app, (IH x), IHs. reflexivity.
  - (* NAtomicRep *)
    rewrite shift_node_arep. cbn [tokens].
    induction items as [|x items IHs]; [reflexivity|].
    cbn [map flat_map]. rewrite map_app, (IH x), IHs. reflexivity.
  - (* NPush *) cbn [shift_node tokens]. apply IH.
  - (* NArr *)
    rewrite shift_node_arr. cbn [tokens].
    induction items as [|x items IHs]; [reflexivity|].
    cbn [map flat_map]. rewrite map_app, (IH x), IHs. reflexivity.
  - (* NPair *) cbn [shift_node tokens]. rewrite map_app, (IH x), (IH y). reflexivity.
  - (* NRule *)
    cbn [shift_node tokens]. unfold has_children. rewrite Hr.
    destruct (r_emis (e_rules E0 r)).
    + destruct sp as [[s e]|]; [|reflexivity]. cbn [option_map shift_span fst snd map shift_tok].
      destruct (r_atom (e_rules E0 r)) as [[|]|]; try reflexivity;
        (destruct content as [c|]; [|reflexivity]); rewrite (IH c); reflexivity.
    + destruct content as [c|]; [|reflexivity]. apply IH.
    + destruct sp as [[s e]|]; [|reflexivity]. cbn [option_map shift_span fst snd map shift_tok].
      destruct (r_atom (e_rules E0 r)) as [[|]|]; try reflexivity;
        (destruct content as [c|]; [|reflexivity]); rewrite (IH c); reflexivity.
Qed.

(* a successful full parse of the sub-input exposes exactly the shifted tokens of the fresh parse *)
Theorem subinput_tokens s a b E2 E0 fuel r t st :
  valid_range s a b -> env_agree s a b E2 E0 -> e_su_cut E2 = true -> e_su_cut E0 = true ->
  try_parse E0 fuel r = Ok t st ->
  exists t2 st2, try_parse E2 fuel r = Ok t2 st2 /\ tokens E2 t2 = map (shift_tok a) (tokens E0 t).
Proof.
  intros HV HE H2 H0 Hp.
  destruct (subinput_entry_points s a b E2 E0 fuel r HV HE H2 H0) as (_ & _ & Hf & _).
  rewrite Hp in Hf. cbn [shift_tres shift_res_with] in Hf.
  eexists _, _. split; [exact Hf|]. apply tokens_shift. eapply agree_rules. exact HE.
Qed.
